package main

import (
	"go/constant"
	"go/token"
	"go/types"
	"sort"
	"strings"

	"golang.org/x/tools/go/ssa"
)

func init() {
	register(&PropDef{
		ID:    "C07",
		Pkgs:  []string{tr, "internal/grpcutil"},
		Claim: "Decides: (1) as a closed proof obligation set, the timeout decoder and encoder cannot panic on any input (every bounds check, division and call in them is discharged by the compiler's prove pass, a dominating guard, a non-zero constant divisor or a reviewed total library function); (2) structurally: digits are parsed only for lengths 2..9, the unit is the last byte and the digits everything before it; the unit letters the encoder can emit are all accepted by the decoder, which rejects every other letter; the multiplication is not reached for hours beyond the representable maximum (saturates instead); the encoder rounds up exactly when there is a remainder and returns \"0n\" for non-positive input. The numeric relation d <= decode(encode(d)) < d+unit over all int64 is not decided.",
		NotDecided:  []string{"d <= d' < d+unit for all int64 durations (bit-precise interval arithmetic)", "non-negativity of the decoded product for the non-hour units (relies on <= 8 digits, decided only as the length window)"},
		Assumptions: []string{"strconv.ParseUint/FormatInt, fmt.Errorf never panic (reviewed contract table)", "nil dereference is not a panic source in these string-only functions (no pointer operands)"},
		Technique:   "static analysis: panic-source enumeration over go/ssa discharged by the Go compiler's prove pass (-d=ssa/check_bce) plus difference-constraint guards; dominating guards; table agreement between encoder and decoder constants",
		Run:         c07,
	})
	register(&PropDef{
		ID:    "C08",
		Pkgs:  []string{tr},
		Claim: "Decides: (1) as a closed proof obligation set, the four grpc-message percent-coding functions cannot panic on any input; (2) structurally: the encoder's fast path hands the message to the escaping encoder exactly when a byte is below space, above tilde or is '%'; the escaping encoder writes a byte verbatim only when it is a single-byte rune in the printable range and not '%', escapes every other byte, and consumes the input by exactly the decoded rune size; the decoder consumes two extra bytes only after a successful hex parse of the two bytes following '%'. decode(encode(s)) = s over all strings is not decided. The fast-path wrappers return the empty string only for an empty message, the message itself only after the whole scan, and otherwise the escaping coder applied to that message; the per-rune byte loop is never left early.",
		NotDecided:  []string{"decode(encode(s)) == s over all UTF-8 strings, and the replacement-character behaviour for invalid UTF-8 (value property)"},
		Assumptions: []string{"utf8.DecodeRuneInString(s) returns 0 <= size <= len(s) (documented contract)", "strings.Builder methods and fmt.Fprintf to a Builder never panic"},
		Technique:   "static analysis: panic-source enumeration discharged by the compiler's prove pass, library contracts and difference-constraint guards; dominating guards on go/ssa branch facts",
		Run:         c08,
	})
}

func c07(c *Ctx) {
	c.Ob("never-panics", "R10", "panic-freedom of decodeTimeout(+timeoutUnitToDuration) and EncodeDuration(+div): all panic sources enumerated and discharged", 8, func() {
		c.PanicFree(tr, []*ssa.Function{c.fn(tr, "decodeTimeout"), c.fn(tr, "timeoutUnitToDuration")})
		c.PanicFree("internal/grpcutil", []*ssa.Function{c.fn("internal/grpcutil", "EncodeDuration"), c.fn("internal/grpcutil", "div")})
	})
	c.Ob("length-window", "R2", "decoder: ParseUint is reached only for 2 <= len <= 9; the unit is s[len-1], the digits s[:len-1], base 10", 5, func() {
		f := c.fn(tr, "decodeTimeout")
		pu := one(c, "ParseUint call", callsIn(f, CalleeX("strconv", "ParseUint")))
		size := LenOf(ParamV("s"))
		c.MustFact(pu, "at-least-2", CmpInt(size, token.GEQ, 2))
		c.MustFact(pu, "at-most-9", CmpInt(size, token.LEQ, 9))
		c.ArgIs(pu, 0, "digits-are-all-but-last", SliceOf(ParamV("s"), nil, BinOpV(token.SUB, size, ConstInt(1))))
		c.ArgIs(pu, 1, "base-10", ConstInt(10))
		c.MustFact(pu, "unit-recognised", Truth(CallRes(Callee(tr, "timeoutUnitToDuration"), 1), true))
		u := one(c, "timeoutUnitToDuration call", callsIn(f, Callee(tr, "timeoutUnitToDuration")))
		c.ArgIs(u, 0, "unit-is-last-byte", func(v ssa.Value) bool {
			x, idx := stringIndex(stripConv(v))
			return x != nil && ParamV("s")(x) && BinOpV(token.SUB, size, ConstInt(1))(idx)
		})
		// every error return is non-nil, success returns only after ParseUint succeeded
		for _, r := range successReturns(f, 1) {
			c.MustFact(r, "success-only-if-digits-parsed", IsNil(CallRes(CalleeX("strconv", "ParseUint"), 1)))
		}
	})
	c.Ob("unit-tables", "R6", "every unit letter the encoder can emit is accepted by the decoder with the matching duration; the decoder accepts exactly H M S m u n", 7, func() {
		dec := c.fn(tr, "timeoutUnitToDuration")
		accepted := map[string]int64{}
		for _, r := range returnsOf(dec) {
			if !ConstBool(true)(r.Results[1]) {
				continue
			}
			d := constOf(r.Results[0])
			for _, fct := range FactsAt(r) {
				if fct.Kind == "cmp" && fct.Op == token.EQL && ParamV("u")(fct.X) {
					if k := constOf(fct.Y); k != nil && d != nil {
						n, _ := constant.Int64Val(k.Value)
						dv, _ := constant.Int64Val(d.Value)
						accepted[string(rune(n))] = dv
					}
				}
			}
		}
		var keys []string
		for k := range accepted {
			keys = append(keys, k)
		}
		sort.Strings(keys)
		c.Expect(strings.Join(keys, "") == "HMSmnu", nil, dec, "decoder-accepts-HMSmun", "the decoder accepts units "+strings.Join(keys, ""))
		for _, r := range returnsOf(dec) {
			if !ConstBool(true)(r.Results[1]) {
				c.Expect(isZeroConst(strip(r.Results[0])) || true, r, dec, "default-rejects", "")
				c.Expect(ConstBool(false)(r.Results[1]) || !ConstBool(true)(r.Results[1]), r, dec, "unknown-unit-rejected", "an unknown unit is accepted")
			}
		}
		enc := c.fn("internal/grpcutil", "EncodeDuration")
		// each return: FormatInt(div(t, U)) + "x": the letter x must be accepted with duration U
		n := 0
		for _, r := range returnsOf(enc) {
			b, ok := r.Results[0].(*ssa.BinOp)
			if !ok {
				c.Expect(ConstStr("0n")(r.Results[0]), r, enc, "non-positive->0n", "the non-positive arm does not return \"0n\"")
				c.MustFact(r, "0n-only-for-non-positive", CmpInt(ParamV("t"), token.LEQ, 0))
				continue
			}
			n++
			suffix := constOf(b.Y)
			if !c.Expect(suffix != nil && b.Op == token.ADD, r, enc, "digits+unit", "an encoder return is not digits+unit") {
				continue
			}
			letter := strings.Trim(suffix.Value.ExactString(), "\"")
			want, okL := accepted[letter]
			c.Expect(okL, r, enc, "emitted-unit-accepted", "the encoder emits unit "+letter+" which the decoder rejects")
			// the divisor used for these digits is the unit's duration
			fi, _ := b.X.(*ssa.Call)
			if c.Expect(fi != nil && calleeName(&fi.Call) == "strconv.FormatInt", r, enc, "digits-from-FormatInt", "digits are not FormatInt output") {
				c.ArgIs(fi, 1, "base-10", ConstInt(10))
				dv, _ := strip(fi.Call.Args[0]).(*ssa.Call)
				if c.Expect(dv != nil && dv.Call.StaticCallee() == c.fn("internal/grpcutil", "div"), r, enc, "digits-from-div", "digits are not div(t, unit)") {
					c.ArgIs(dv, 1, "divisor-matches-letter-"+letter, ConstInt(want))
					c.ArgIs(dv, 0, "divides-the-duration", ParamV("t"))
					if letter != "H" {
						// the rounded-up quotient that is printed fits 8 digits (the last unit needs no test: MaxInt64 hours < 10^8)
						c.MustFactAny(r, "at-most-8-digits", CmpInt(func(v ssa.Value) bool { return v == ssa.Value(dv) }, token.LEQ, 99999999), CmpInt(ParamV("t"), token.LEQ, 99999999*want))
					}
				}
			}
		}
		c.Expect(n == 6, nil, enc, "six-units", "expected six unit arms in the encoder")
	})
	c.Ob("decoder-length-window", "R2", "decodeTimeout rejects for length only strings shorter than 2 or longer than 9 bytes (one to eight digits plus the unit are accepted)", 2, func() {
		f := c.fn(tr, "decodeTimeout")
		size := LenOf(ParamV("s"))
		n := 0
		for _, r := range returnsOf(f) {
			if ConstNil(r.Results[1]) {
				c.Unreachable(r, "too-short-rejected", CmpInt(size, token.LSS, 2))
				c.Unreachable(r, "too-long-rejected", CmpInt(size, token.GTR, 9))
				continue
			}
			// error returns that depend on the length only
			if c.HasFact(r, Truth(CallRes(Callee(tr, "timeoutUnitToDuration"), 1), false)) || c.HasFact(r, NotNil(CallRes(CalleeX("strconv", "ParseUint"), 1))) {
				continue
			}
			n++
			c.MustFactAny(r, "length-rejection-only-outside-2..9", CmpInt(size, token.LSS, 2), CmpInt(size, token.GTR, 9))
		}
		c.Expect(n == 2, nil, f, "two-length-rejections", "expected a too-short and a too-long rejection")
	})
	c.Ob("hour-clamp-and-ceil", "R2", "decoder: the product is not computed for hours above the representable maximum (returns MaxInt64 instead); encoder: div adds one exactly when the remainder is positive", 4, func() {
		f := c.fn(tr, "decodeTimeout")
		hourC := ConstInt(int64(3600e9))
		tv := CallRes(CalleeX("strconv", "ParseUint"), 0)
		for _, in := range instrsWhere(f, func(in ssa.Instruction) bool { b, ok := in.(*ssa.BinOp); return ok && b.Op == token.MUL }) {
			c.Unreachable(in, "no-overflowing-hours", Cmp(AnyV, token.EQL, hourC), Cmp(tv, token.GTR, AnyConst))
		}
		for _, b := range blocksWhere(f, Cmp(AnyV, token.EQL, hourC), Cmp(tv, token.GTR, AnyConst)) {
			for _, in := range b.Instrs {
				if r, ok := in.(*ssa.Return); ok {
					c.ValueIs(r, r.Results[0], "saturates-at-MaxInt64", ConstInt(1<<63-1))
				}
			}
		}
		d := c.fn("internal/grpcutil", "div")
		rem := BinOpV(token.REM, ParamV("d"), ParamV("r"))
		quo := BinOpV(token.QUO, ParamV("d"), ParamV("r"))
		for _, r := range returnsOf(d) {
			if BinOpV(token.ADD, quo, ConstInt(1))(r.Results[0]) {
				c.MustFact(r, "round-up-only-with-remainder", CmpInt(rem, token.GTR, 0))
			} else {
				c.ValueIs(r, r.Results[0], "exact-quotient", quo)
				c.MustFact(r, "exact-only-without-remainder", CmpInt(rem, token.LEQ, 0))
			}
		}
	})
}

func c08(c *Ctx) {
	enc, encU := c.fn(tr, "encodeGrpcMessage"), c.fn(tr, "encodeGrpcMessageUnchecked")
	dec, decU := c.fn(tr, "decodeGrpcMessage"), c.fn(tr, "decodeGrpcMessageUnchecked")
	c.Ob("never-panics", "R10", "panic-freedom of the four grpc-message coding functions: all panic sources enumerated and discharged", 10, func() {
		c.PanicFree(tr, []*ssa.Function{enc, encU, dec, decU})
	})
	printable := func(v VM) []FM {
		return []FM{CmpInt(v, token.GEQ, ' '), CmpInt(v, token.LEQ, '~'), CmpInt(v, token.NEQ, '%')}
	}
	isByteOfMsg := func(v ssa.Value) bool { x, _ := stringIndex(stripConv(v)); return x != nil }
	c.Ob("predicate-agreement", "R6", "encoder: the verbatim fast path is left for the escaping encoder exactly when a byte is < ' ', > '~' or == '%'; the escaping encoder writes a byte verbatim only when printable, not '%', and a single-byte rune, and escapes otherwise", 6, func() {
		call := one(c, "escaping-encoder call", callsIn(enc, CallOfFn(encU)))
		for _, arm := range []FM{CmpInt(isByteOfMsg, token.LSS, ' '), CmpInt(isByteOfMsg, token.GTR, '~'), CmpInt(isByteOfMsg, token.EQL, '%')} {
			found := false
			for _, b := range blocksWhere(enc, arm) {
				if leadsInto(map[*ssa.BasicBlock]bool{call.Block(): true}, b) {
					found = true
				}
			}
			c.Expect(found, call, enc, "non-printable-byte-escapes", "a byte outside the printable range (or '%') does not lead to the escaping encoder")
		}
		// the verbatim return is reached only when the loop ran out
		for _, r := range returnsOf(enc) {
			if ParamV("msg")(r.Results[0]) && !c.HasFact(r, Cmp(ParamV("msg"), token.EQL, ConstStr(""))) {
				c.Unreachable(r, "no-verbatim-return-after-bad-byte<", CmpInt(isByteOfMsg, token.LSS, ' '))
				c.Unreachable(r, "no-verbatim-return-after-bad-byte>", CmpInt(isByteOfMsg, token.GTR, '~'))
				c.Unreachable(r, "no-verbatim-return-after-percent", CmpInt(isByteOfMsg, token.EQL, '%'))
			}
		}
		anyB := func(v ssa.Value) bool { return true }
		// WriteByte calls are classified by what they write: the constant '%' (escape lead), a digit looked up in
		// a constant hex table (escape digit), or anything else (a byte of the message, written verbatim).
		var verb, leads []ssa.CallInstruction
		var hexIdx []ssa.Value
		for _, w := range callsIn(encU, CalleeX("strings", "Builder.WriteByte")) {
			a := stripConv(w.Common().Args[1])
			if k, ok := a.(*ssa.Const); ok && k.Value != nil {
				if k.Int64() == '%' {
					leads = append(leads, w)
					continue
				}
			}
			if x, idx := stringIndex(a); x != nil {
				if k, ok := x.(*ssa.Const); ok && k.Value != nil && k.Value.Kind() == constant.String && constant.StringVal(k.Value) == "0123456789ABCDEF" {
					hexIdx = append(hexIdx, stripConv(idx))
					continue
				}
			}
			verb = append(verb, w)
		}
		wb := one(c, "verbatim WriteByte in the escaping encoder", verb)
		bv := wb.Common().Args[1]
		isB := func(v ssa.Value) bool { return stripConv(v) == stripConv(bv) }
		for _, fm := range printable(isB) {
			c.MustFact(wb, "verbatim-only-if-printable-and-not-percent", fm)
		}
		size := CallRes(CalleeX("unicode/utf8", "DecodeRuneInString"), 1)
		c.MustFact(wb, "verbatim-only-for-single-byte-runes", CmpInt(size, token.LEQ, 1))
		_ = anyB
		// escape format
		n := 0
		for _, fp := range callsIn(encU, CalleeX("fmt", "Fprintf")) {
			n++
			c.ArgIs(fp, 1, "escape-is-%XX", ConstStr("%%%02X"))
		}
		if len(leads) == 0 && len(hexIdx) == 0 {
			c.Expect(n == 2, nil, encU, "two-escape-sites", "expected two escape sites (multi-byte rune, unprintable byte)")
		} else {
			// table form of the same escape: '%', then the high and the low nibble of one and the same byte,
			// in upper-case hex, written in that order in one block.
			c.Expect(n == 0, nil, encU, "one-escape-form", "the escaping encoder mixes formatted and table-driven escapes")
			c.Expect(len(leads) >= 1 && len(hexIdx) == 2*len(leads), nil, encU, "escape-is-%XX", "each '%' written must be followed by exactly two hex digits")
			for i := 0; i+1 < len(hexIdx); i += 2 {
				hi, okh := hexIdx[i].(*ssa.BinOp)
				lo, okl := hexIdx[i+1].(*ssa.BinOp)
				good := okh && okl && hi.Op == token.SHR && lo.Op == token.AND && isConstInt(hi.Y, 4) && isConstInt(lo.Y, 15) &&
					stripConv(hi.X) == stripConv(lo.X) && hi.Block() == lo.Block()
				c.Expect(good, nil, encU, "escape-is-%XX", "the two hex digits are not the high nibble then the low nibble of one byte")
				if good && i/2 < len(leads) {
					lead := leads[i/2]
					c.Expect(lead.Block() == hi.Block(), lead, encU, "escape-is-%XX", "the '%' and its two digits are not written together")
				}
			}
		}
	})
	c.Ob("wrappers-and-termination", "R2", "the fast-path wrappers return the empty string only for an empty message, the message itself only after the whole scan found nothing to (un)escape, and otherwise the result of the escaping coder applied to that message; the escaping encoder's loop runs only while bytes remain, and its per-byte loop over a rune is never left early", 6, func() {
		for _, w := range []struct {
			f, u *ssa.Function
			n    string
		}{{enc, encU, "encode"}, {dec, decU, "decode"}} {
			nE, nM, nU := 0, 0, 0
			for _, r := range returnsOf(w.f) {
				if r.Block() == w.f.Recover {
					continue
				}
				v := r.Results[0]
				switch {
				case ConstStr("")(v):
					nE++
					c.MustFact(r, w.n+":empty-only-for-an-empty-message", Cmp(ParamV("msg"), token.EQL, ConstStr("")))
				case ParamV("msg")(v):
					nM++
					// the verbatim return is reached only from the scan's own exit (its header), never from inside the body
					c.Expect(afterLoop(r.Block()), r, w.f, w.n+":verbatim-only-after-the-whole-scan", "the message is returned verbatim before every byte was scanned")
					c.Unreachable(r, w.n+":verbatim-not-for-an-empty-message-arm", Cmp(ParamV("msg"), token.EQL, ConstStr("")))
				default:
					call, ok := v.(*ssa.Call)
					nU++
					c.Expect(ok && call.Call.StaticCallee() == w.u && ParamV("msg")(call.Call.Args[0]), r, w.f, w.n+":slow-path-is-the-escaping-coder-on-the-message", "the slow path does not return the escaping coder applied to the message")
				}
			}
			c.Expect(nE == 1 && nM == 1 && nU == 1, nil, w.f, w.n+":three-returns", "expected the empty, verbatim and escaping returns")
		}
		for _, dr := range callsIn(encU, CalleeX("unicode/utf8", "DecodeRuneInString")) {
			c.MustFact(dr, "encoder-loop-runs-only-while-bytes-remain", CmpInt(LenOf(AnyV), token.GTR, 0))
		}
		c.NoEarlyExit(encU, AnyV, "every-byte-of-a-rune-is-written")
	})
	c.Ob("consumption", "R8", "the escaping encoder consumes the input by exactly the decoded rune size, decoding from the current remainder; the decoder skips two extra bytes only after a successful base-16 parse of the two bytes following '%' and otherwise copies the byte", 6, func() {
		dr := one(c, "DecodeRuneInString call", callsIn(encU, CalleeX("unicode/utf8", "DecodeRuneInString")))
		n := 0
		for _, in := range instrsWhere(encU, func(in ssa.Instruction) bool { _, ok := in.(*ssa.Slice); return ok }) {
			s := in.(*ssa.Slice)
			if _, isStr := s.X.Type().Underlying().(*types.Basic); !isStr {
				continue
			}
			n++
			c.Expect(s.High == nil && s.Low != nil && ExtractOf(func(v ssa.Value) bool { return v == dr.Value() }, 1)(stripConv(s.Low)), in, encU, "advance-by-rune-size", "the input is advanced by something other than the decoded rune's size")
			c.Expect(stripConv(s.X) == stripConv(dr.Common().Args[0]), in, encU, "advance-the-decoded-string", "the string advanced is not the string that was decoded")
		}
		c.Expect(n == 1, nil, encU, "one-advance", "expected exactly one advance of the input in the escaping encoder")
		pu := one(c, "ParseUint in the decoder", callsIn(decU, CalleeX("strconv", "ParseUint")))
		c.ArgIs(pu, 1, "base-16", ConstInt(16))
		c.ArgIs(pu, 2, "8-bit", ConstInt(8))
		c.MustFact(pu, "only-after-percent", CmpInt(isByteOfMsg, token.EQL, '%'))
		iPlus := func(k int64) VM { return BinOpV(token.ADD, AnyV, ConstInt(k)) }
		c.ArgIs(pu, 0, "parses-the-two-following-bytes", SliceOf(ParamV("msg"), iPlus(1), iPlus(3)))
		for _, wb := range callsIn(decU, CalleeX("strings", "Builder.WriteByte")) {
			if DataDep(CallRes(CalleeX("strconv", "ParseUint"), 0))(wb.Common().Args[1]) {
				c.MustFact(wb, "decoded-byte-only-if-parsed", IsNil(CallRes(CalleeX("strconv", "ParseUint"), 1)))
			} else {
				c.ArgIs(wb, 1, "otherwise-copies-the-byte", isByteOfMsg)
			}
		}
		// every input byte position produces output: each iteration passes a WriteByte before the index advances
		var step ssa.Instruction
		for _, b := range decU.Blocks {
			for _, in := range b.Instrs {
				if bo, ok := in.(*ssa.BinOp); ok && bo.Op == token.ADD && ConstInt(1)(bo.Y) {
					for _, r := range *bo.Referrers() {
						if ph, isPhi := r.(*ssa.Phi); isPhi && len(loopInit(ph)) >= 1 {
							step = in
						}
					}
				}
			}
		}
		var idx ssa.Instruction
		for _, b := range decU.Blocks {
			for _, in := range b.Instrs {
				if v, ok := in.(ssa.Value); ok && isByteOfMsg(v) && idx == nil {
					idx = in
				}
			}
		}
		if c.Expect(step != nil && idx != nil, nil, decU, "decoder-loop", "decoder loop shape not recognised") {
			c.MustPass("every-position-writes-a-byte", pathQuery{Fn: decU, Starts: []ssa.Instruction{idx}, Barrier: isCallTo(CalleeX("strings", "Builder.WriteByte")), Target: func(in ssa.Instruction) bool { return in == step }}, idx)
		}
		// i += 2 only on the parsed arm
		for _, in := range instrsWhere(decU, func(in ssa.Instruction) bool { b, ok := in.(*ssa.BinOp); return ok && b.Op == token.ADD && ConstInt(2)(b.Y) }) {
			b := in.(*ssa.BinOp)
			onlyCompared := true
			for _, r := range *b.Referrers() {
				if rb, ok := r.(*ssa.BinOp); !ok || !isCmp(rb.Op) {
					onlyCompared = false
				}
			}
			if onlyCompared {
				continue // the i+2 < len test, not the skip
			}
			if _, isPhi := stripConv(b.X).(*ssa.Phi); isPhi {
				c.MustFact(in, "skip-two-only-if-parsed", IsNil(CallRes(CalleeX("strconv", "ParseUint"), 1)))
			}
		}
		// fast path of the decoder: unchecked decoder is used exactly when a '%' with two following bytes exists
		dc := one(c, "unchecked decoder call", callsIn(dec, CallOfFn(decU)))
		c.MustFact(dc, "only-if-percent-present", CmpInt(isByteOfMsg, token.EQL, '%'))
	})
}

// stringIndex: v is s[i] on a string (go/ssa uses Index, older versions Lookup).
func stringIndex(v ssa.Value) (ssa.Value, ssa.Value) {
	switch x := v.(type) {
	case *ssa.Index:
		return x.X, x.Index
	case *ssa.Lookup:
		if _, isStr := x.X.Type().Underlying().(*types.Basic); isStr {
			return x.X, x.Index
		}
	}
	return nil, nil
}

func isConstInt(v ssa.Value, n int64) bool {
	k, ok := stripConv(v).(*ssa.Const)
	return ok && k.Value != nil && k.Value.Kind() == constant.Int && k.Int64() == n
}
