package main

import (
	"go/token"

	"golang.org/x/tools/go/ssa"
)

func init() {
	register(&PropDef{
		ID:    "C26",
		Pkgs:  []string{"grpc"},
		Claim: "Decides the structural part: the registered-method dispatch is dominated by the leading-slash check, the last-slash split, and successful lookups of exactly service=path[:lastSlash] and method=path[lastSlash+1:], and receives the looked-up descriptors; the fallback dispatch passes the unknown-service handler only when one is configured; all other exits write UNIMPLEMENTED; handlers are invoked only from the per-RPC processing function, which is called only from the dispatcher.",
		NotDecided:  []string{"that a registered handler behaves correctly once invoked", "string-level behaviour of strings.CutPrefix/LastIndex (standard library, assumed)"},
		Assumptions: []string{"strings.CutPrefix and strings.LastIndex behave as documented"},
		Technique:   "static analysis: dominating guards (must-hold branch facts), value-origin of call arguments, who-may-call over go/ssa",
		Run:         c26,
	})
}

func c26(c *Ctx) {
	hs := func() *ssa.Function { return c.fn("grpc", "Server.handleStream") }
	fServices := c.field("grpc", "Server", "services")
	fStreams := c.field("grpc", "serviceInfo", "streams")
	cut := Callee("std:strings", "CutPrefix")
	lastIdx := Callee("std:strings", "LastIndex")
	sm := CallRes(cut, 0)
	posV := CallRes(lastIdx, 0)
	svcKey := SliceOf(sm, nil, posV)
	methKey := SliceOf(sm, BinOpV(token.ADD, posV, ConstInt(1)), nil)
	svcLookup := func(v ssa.Value) bool { return LookupOf(FieldLoad(fServices), svcKey)(v) }
	var registered, fallback ssa.CallInstruction
	c.Ob("dispatch-sites", "R1", "the per-RPC processing function is called from the dispatcher only, at exactly two sites (registered method, unknown-service fallback)", 2, func() {
		sites := c.WhoMayCall("processRPC", Callee("grpc", "Server.processRPC"), c.scope("grpc"), "grpc.Server.handleStream")
		if len(sites) != 2 {
			panic(missingStep{"expected two processRPC call sites"})
		}
		for _, s := range sites {
			if ConstNil(s.Common().Args[3]) {
				fallback = s
			} else {
				registered = s
			}
		}
		if registered == nil || fallback == nil {
			panic(missingStep{"could not tell the registered dispatch from the fallback dispatch"})
		}
	})
	if registered == nil {
		return
	}
	c.Ob("dispatch", "R2", "the registered dispatch is dominated by: leading '/' found, a last '/' exists, services[path[:last]] found, streams[path[last+1:]] found; and passes exactly those looked-up descriptors", 6, func() {
		f := hs()
		_ = f
		c.MustFact(registered, "leading-slash", Truth(CallRes(cut, 1), true))
		c.MustFact(registered, "has-last-slash", Cmp(posV, token.NEQ, ConstInt(-1)))
		c.MustFact(registered, "service-registered", Truth(CommaOkOf(FieldLoad(fServices)), true))
		c.MustFact(registered, "method-registered", Truth(CommaOkOf(FieldLoadOn(fStreams, svcLookup)), true))
		c.ArgIs(registered, 3, "info-is-looked-up-service", svcLookup)
		c.ArgIs(registered, 4, "desc-is-looked-up-method", LookupOf(FieldLoadOn(fStreams, svcLookup), methKey))
		// the comma-ok facts are about these very lookups
		for _, in := range instrsWhere(f, func(in ssa.Instruction) bool { l, ok := in.(*ssa.Lookup); return ok && l.CommaOk }) {
			l := in.(*ssa.Lookup)
			if FieldLoad(fServices)(l.X) {
				c.ValueIs(l, l.Index, "service-key", svcKey)
			} else if FieldLoad(fStreams)(l.X) {
				c.ValueIs(l, l.Index, "method-key", methKey)
			}
		}
		lc := one(c, "strings.CutPrefix call", callsIn(f, cut))
		c.ArgIs(lc, 1, "prefix-is-slash", ConstStr("/"))
		c.ArgIs(lc, 0, "path-from-stream", CallRes(Callee(tr, "Stream.Method"), 0))
		li := one(c, "strings.LastIndex call", callsIn(f, lastIdx))
		c.ArgIs(li, 0, "last-index-of-trimmed-path", sm)
		c.ArgIs(li, 1, "separator-is-slash", ConstStr("/"))
	})
	c.Ob("fallback", "R2", "the fallback dispatch passes a nil service and the configured unknown-service descriptor, only when that descriptor is non-nil and the path was well-formed", 4, func() {
		fUnknown := c.field("grpc", "serverOptions", "unknownStreamDesc")
		c.MustFact(fallback, "unknown-handler-configured", NotNil(FieldLoad(fUnknown)))
		c.ArgIs(fallback, 4, "desc-is-unknown-handler", FieldLoad(fUnknown))
		c.MustFact(fallback, "leading-slash", Truth(CallRes(cut, 1), true))
		c.MustFact(fallback, "has-last-slash", Cmp(posV, token.NEQ, ConstInt(-1)))
	})
	c.Ob("unimplemented", "R7", "every status the dispatcher itself writes is UNIMPLEMENTED (malformed path, unknown service, unknown method)", 2, func() {
		unimpl := ConstOfObj(c.konst("codes", "Unimplemented"))
		for _, name := range []string{"Server.handleStream", "Server.handleMalformedMethodName"} {
			f := c.fn("grpc", name)
			ws := callsIn(f, Callee(tr, "ServerStream.WriteStatus"))
			c.Expect(len(ws) == 1, nil, f, "one-WriteStatus", "expected exactly one WriteStatus call")
			for _, w := range ws {
				st, _ := strip(w.Common().Args[1]).(*ssa.Call)
				if st == nil {
					st, _ = strip(w.Common().Args[0]).(*ssa.Call)
				}
				if c.Expect(st != nil && isStatusCtor(&st.Call), w, f, "status-built-here", "WriteStatus argument is not a status constructed here") {
					c.ArgIs(st, 0, "code-is-Unimplemented", unimpl)
				}
			}
		}
		// malformed paths: the malformed-name helper is what runs when the checks fail
		f := hs()
		mal := callsIn(f, Callee("grpc", "Server.handleMalformedMethodName"))
		c.Expect(len(mal) == 2, nil, f, "two-malformed-arms", "expected the malformed-name helper on both failing checks")
		m := c.fn("grpc", "Server.handleMalformedMethodName")
		c.Expect(len(callsInTree(m, Callee("grpc", "Server.processRPC"))) == 0, nil, m, "malformed-never-dispatches", "the malformed-name path dispatches an RPC")
	})
	c.Ob("handler-invokers", "R1", "registered handlers (StreamDesc.Handler, the stream interceptor) are invoked only by the per-RPC processing function", 2, func() {
		fHandler := c.field("grpc", "StreamDesc", "Handler")
		fInt := c.field("grpc", "serverOptions", "streamInt")
		c.WhoMayCall("StreamDesc.Handler", FieldCall(fHandler), c.scope("grpc"), "grpc.Server.processRPC")
		c.WhoMayCall("streamInt", FieldCall(fInt), c.scope("grpc"), "grpc.Server.processRPC")
		pr := c.fn("grpc", "Server.processRPC")
		n := 0
		for _, ci := range callsIn(pr, FieldCall(fHandler)) {
			n++
			c.Expect(ParamV("sd")(ci.Common().Value.(*ssa.UnOp).X.(*ssa.FieldAddr).X), ci, pr, "handler-of-dispatched-desc", "the handler invoked is not the one of the descriptor passed by the dispatcher")
		}
		for _, ci := range callsIn(pr, FieldCall(fInt)) {
			c.ArgIs(ci, 3, "interceptor-gets-dispatched-handler", FieldLoadOn(fHandler, ParamV("sd")))
		}
		c.Expect(n == 1, nil, pr, "one-direct-handler-call", "expected exactly one direct sd.Handler call")
	})
	c.Ob("registration", "R2", "a service is inserted under its own name only when no service of that name exists; methods and streams are inserted under their own names", 3, func() {
		f := c.fn("grpc", "Server.register")
		var svcIns []ssa.Instruction
		for _, m := range mutationsOf(f, fServices) {
			if m.Kind == "mapupdate" {
				svcIns = append(svcIns, m.Instr)
			}
		}
		ins := one(c, "insertion into Server.services", svcIns).(*ssa.MapUpdate)
		fName := c.field("grpc", "ServiceDesc", "ServiceName")
		c.ValueIs(ins, ins.Key, "key-is-ServiceName", FieldLoad(fName))
		c.MustFact(ins, "no-duplicate", Truth(CommaOkOf(FieldLoad(fServices)), false))
		fSN := c.field("grpc", "StreamDesc", "StreamName")
		fMN := c.field("grpc", "MethodDesc", "MethodName")
		n := 0
		for _, in := range instrsWhere(f, func(in ssa.Instruction) bool { _, ok := in.(*ssa.MapUpdate); return ok }) {
			mu := in.(*ssa.MapUpdate)
			if mu == ins {
				continue
			}
			n++
			c.ValueIs(mu, mu.Key, "stream-key-is-own-name", OrV(FieldLoad(fSN), FieldLoad(fMN)))
		}
		c.Expect(n == 2, nil, f, "two-method-insertions", "expected one insertion loop for streams and one for unary methods")
	})
}
