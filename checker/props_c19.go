package main

import (
	"go/token"
	"go/types"

	"golang.org/x/tools/go/ssa"
)

func init() {
	register(&PropDef{
		ID:    "C19",
		Pkgs:  []string{"grpc"},
		Claim: "Decides the structural part of retry throttling and pushback: the token bucket is touched only under its mutex; a failure removes one token and the count is clamped at 0 before the verdict tokens <= threshold is computed; a success adds the ratio and clamps at the maximum; the threshold is maxTokens/2 and the bucket starts full; every attempt that ends with a retryable status code consults (and thereby debits) the throttler on every path, before the attempt limit is looked at, and malformed / negative / multi-valued pushback also debits it and refuses the retry; a server pushback, when well-formed, replaces the computed backoff and resets the exponent; invalid throttling configuration (maxTokens outside (0,1000], ratio <= 0) is rejected. The [0.8,1.2] x min(...) interval itself is not decided.",
		NotDecided:  []string{"the backoff interval [0.8,1.2] x min(initial x multiplier^k, max) (floating point, random)", "bucket arithmetic over histories (float rounding of tokenRatio)"},
		Assumptions: []string{"float64 arithmetic"},
		Technique:   "static analysis: must-lockset, stored-value shapes with dominating guards, must-pass-through path search from the retryable-code test, refusing-arm unreachability",
		Run:         c19,
	})
}

func c19(c *Ctx) {
	rt := func(f string) *types.Var { return c.field("grpc", "retryThrottler", f) }
	fTok, fMax, fThr, fRatio := rt("tokens"), rt("max"), rt("thresh"), rt("ratio")
	c.Ob("bucket-clamps", "R5", "throttle(): tokens-1, clamped at 0, then verdict tokens <= thresh; successfulRPC(): tokens+ratio clamped at max; all under the throttler mutex; the bucket is written nowhere else; it starts full with thresh = max/2", 10, func() {
		c.GuardedBy(GuardSpec{Label: "retryThrottler", Mu: rt("mu"), Fields: []*types.Var{fTok}, Scope: c.scope("grpc")})
		c.WhoMayMutate("tokens", fTok, c.scope("grpc"), "grpc.retryThrottler.throttle", "grpc.retryThrottler.successfulRPC", "grpc.ClientConn.applyServiceConfigAndBalancer")
		th := c.fn("grpc", "retryThrottler.throttle")
		nDec, nZero := 0, 0
		var dec *ssa.Store
		for _, st := range storesToField(th, fTok) {
			switch {
			case BinOpV(token.SUB, FieldLoad(fTok), func(v ssa.Value) bool { k := constOf(v); return k != nil && k.Value != nil && k.Value.ExactString() == "1" })(st.Val):
				nDec++
				dec = st
			case isZeroConst(strip(st.Val)):
				nZero++
				c.MustFact(st, "clamp-only-if-negative", func(fc Fact) bool {
					return fc.Kind == "cmp" && fc.Op == token.LSS && FieldLoad(fTok)(fc.X) && isZeroConst(strip(fc.Y))
				})
			default:
				c.Expect(false, st, th, "token-update-shape", "tokens is updated by something other than -1 or clamp to 0 in throttle()")
			}
		}
		c.Expect(nDec == 1 && nZero == 1, nil, th, "debit-and-clamp", "expected one debit and one clamp-at-zero in throttle()")
		for _, r := range returnsOf(th) {
			if r.Block() == th.Recover {
				continue
			}
			if b, ok := strip(r.Results[0]).(*ssa.BinOp); ok {
				c.Expect(BinOpV(token.LEQ, FieldLoad(fTok), FieldLoad(fThr))(b), r, th, "verdict-is-tokens<=thresh", "the throttling verdict is not tokens <= thresh")
				if dec != nil {
					c.Expect(instrDominates(dec, b), r, th, "verdict-after-debit", "the verdict is computed before the token is removed")
				}
				// the clamp precedes the verdict: the loaded tokens is loaded after the clamp block
				for _, st := range storesToField(th, fTok) {
					if isZeroConst(strip(st.Val)) {
						c.Expect(!reachableBlocks(b.Block())[st.Block()], r, th, "clamp-before-verdict", "the clamp at zero can run after the verdict")
					}
				}
			} else {
				c.MustFact(r, "nil-throttler-never-throttles", IsNil(ParamV("rt")))
			}
		}
		sr := c.fn("grpc", "retryThrottler.successfulRPC")
		nAdd, nCap := 0, 0
		for _, st := range storesToField(sr, fTok) {
			switch {
			case BinOpV(token.ADD, FieldLoad(fTok), FieldLoad(fRatio))(st.Val):
				nAdd++
			case FieldLoad(fMax)(st.Val):
				nCap++
				c.MustFact(st, "cap-only-if-above-max", Cmp(FieldLoad(fTok), token.GTR, FieldLoad(fMax)))
			default:
				c.Expect(false, st, sr, "token-credit-shape", "tokens is updated by something other than +ratio or clamp to max in successfulRPC()")
			}
		}
		c.Expect(nAdd == 1 && nCap == 1, nil, sr, "credit-and-cap", "expected one credit and one clamp-at-max in successfulRPC()")
		ap := c.fn("grpc", "ClientConn.applyServiceConfigAndBalancer")
		fMT := c.field("grpc", "retryThrottlingPolicy", "MaxTokens")
		fTR := c.field("grpc", "retryThrottlingPolicy", "TokenRatio")
		for _, st := range storesToField(ap, fTok) {
			c.ValueIs(st, st.Val, "bucket-starts-full", FieldLoad(fMT))
		}
		for _, st := range storesToField(ap, fMax) {
			c.ValueIs(st, st.Val, "max-is-maxTokens", FieldLoad(fMT))
		}
		for _, st := range storesToField(ap, fThr) {
			c.ValueIs(st, st.Val, "threshold-is-half-of-max", BinOpV(token.QUO, FieldLoad(fMT), func(v ssa.Value) bool { k := constOf(v); return k != nil && k.Value != nil && k.Value.ExactString() == "2" }))
		}
		for _, st := range storesToField(ap, fRatio) {
			c.ValueIs(st, st.Val, "ratio-is-tokenRatio", FieldLoad(fTR))
		}
		// success credit happens in clientStream.finish only for err == nil
		fin := c.fn("grpc", "clientStream.finish")
		for _, ci := range callsIn(fin, Callee("grpc", "retryThrottler.successfulRPC")) {
			c.MustFact(ci, "credit-only-on-success", IsNil(AnyV))
		}
	})
	c.Ob("debit-on-retryable-failure", "R3", "retry decision: once the attempt's status code is found in the policy's retryable set, every path to a return goes through the throttler (one token removed) - before the attempt limit is consulted; malformed, negative and multi-valued pushback also go through the throttler and refuse", 5, func() {
		f := c.fn("grpc", "csAttempt.shouldRetry")
		fCodes := c.field("internal/serviceconfig", "RetryPolicy", "RetryableStatusCodes")
		thr := Callee("grpc", "retryThrottler.throttle")
		lk := one(c, "retryable-code lookup", instrsWhere(f, func(in ssa.Instruction) bool { l, ok := in.(*ssa.Lookup); return ok && FieldLoad(fCodes)(l.X) }))
		self := func(v ssa.Value) bool { return v == lk.(ssa.Value) }
		q := pathQuery{Fn: f, Starts: []ssa.Instruction{lk}, Barrier: isCallTo(thr), Target: isReturn,
			EdgeBlock: func(from, to *ssa.BasicBlock) bool {
				_, ok := hasFact(edgeFacts(from, to), Truth(self, false))
				return ok
			}}
		c.MustPass("retryable-failure-always-debits", q, lk)
		// pushback arms
		atoi := CalleeX("strconv", "Atoi")
		for _, arm := range []struct {
			label string
			fms   []FM
		}{
			{"malformed-pushback", []FM{NotNil(CallRes(atoi, 1))}},
			{"negative-pushback", []FM{CmpInt(CallRes(atoi, 0), token.LSS, 0)}},
			{"multi-valued-pushback", []FM{CmpInt(LenOf(AnyV), token.GTR, 1)}},
		} {
			bl := blocksWhere(f, arm.fms...)
			found := false
			for _, b := range bl {
				for _, in := range b.Instrs {
					if isCallTo(thr)(in) {
						found = true
					}
				}
			}
			c.Expect(found, nil, f, arm.label+"-debits", arm.label+" does not count as a failure for throttling")
		}
		// pushback replaces the computed backoff and resets the exponent; otherwise the exponent grows
		fSince := c.field("grpc", "clientStream", "numRetriesSincePushback")
		nReset, nInc := 0, 0
		for _, st := range storesToField(f, fSince) {
			switch {
			case ConstInt(0)(st.Val):
				nReset++
				c.MustFact(st, "exponent-reset-only-on-pushback", Truth(SetWhen(IsNil(CallRes(atoi, 1)), CmpInt(CallRes(atoi, 0), token.GEQ, 0)), true))
			case BinOpV(token.ADD, FieldLoad(fSince), ConstInt(1))(st.Val):
				nInc++
			default:
				c.Expect(false, st, f, "exponent-update-shape", "numRetriesSincePushback updated by something other than +1 or reset")
			}
		}
		c.Expect(nReset == 1 && nInc == 1, nil, f, "exponent-updates", "expected one reset (pushback) and one increment (computed backoff) of the backoff exponent")
		// the timer runs for pushback ms when given
		// the delay is the argument of the timer, started in shouldRetry itself or in a helper of the same package
		// that starts the timer with one of its own parameters
		type delay struct {
			at ssa.CallInstruction
			v  ssa.Value
		}
		var delays []delay
		for _, ci := range callsIn(f, CalleeX("time", "NewTimer")) {
			delays = append(delays, delay{ci, ci.Common().Args[0]})
		}
		for _, b := range f.Blocks {
			for _, in := range b.Instrs {
				call, ok := in.(*ssa.Call)
				if !ok {
					continue
				}
				g := call.Call.StaticCallee()
				if g == nil || g.Pkg != f.Pkg || len(g.Blocks) == 0 {
					continue
				}
				for _, ti := range callsIn(g, CalleeX("time", "NewTimer")) {
					for i, gp := range g.Params {
						if stripConv(ti.Common().Args[0]) == ssa.Value(gp) && i < len(call.Call.Args) {
							delays = append(delays, delay{call, call.Call.Args[i]})
						}
					}
				}
			}
		}
		ntd := one(c, "retry backoff timer", delays)
		nt := ntd.at
		okPB := false
		for _, lf := range phiLeaves(ntd.v) {
			if DataDep(CallRes(atoi, 0))(lf.Val) {
				okPB = true
			}
		}
		c.Expect(okPB, nt, f, "pushback-delay-used", "a server pushback does not determine the retry delay")
	})
	c.Ob("config-validation", "R2", "service config parsing rejects retry throttling with maxTokens <= 0, maxTokens > 1000 or tokenRatio <= 0", 3, func() {
		f := c.fn("grpc", "parseServiceConfig")
		fMT := c.field("grpc", "retryThrottlingPolicy", "MaxTokens")
		fTR := c.field("grpc", "retryThrottlingPolicy", "TokenRatio")
		fErr := c.field("serviceconfig", "ParseResult", "Err")
		fCfg := c.field("serviceconfig", "ParseResult", "Config")
		var okStore *ssa.Store
		for _, st := range storesToField(f, fCfg) {
			okStore = st
		}
		if okStore == nil {
			panic(missingStep{"no successful ParseResult in parseServiceConfig"})
		}
		_ = fErr
		cmpF := func(fv *types.Var, op token.Token, val string) FM {
			return func(fc Fact) bool {
				if fc.Kind != "cmp" || fc.Op != op || !FieldLoad(fv)(fc.X) {
					return false
				}
				k := constOf(fc.Y)
				return k != nil && k.Value != nil && k.Value.ExactString() == val
			}
		}
		c.Unreachable(okStore, "maxTokens<=0-rejected", cmpF(fMT, token.LEQ, "0"))
		c.Unreachable(okStore, "maxTokens>1000-rejected", cmpF(fMT, token.GTR, "1000"))
		c.Unreachable(okStore, "tokenRatio<=0-rejected", cmpF(fTR, token.LEQ, "0"))
	})
}
