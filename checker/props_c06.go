package main

import (
	"go/token"

	"golang.org/x/tools/go/ssa"
)

func init() {
	register(&PropDef{
		ID:    "C06",
		Pkgs:  []string{"grpc"},
		Claim: "Decides the structural part: the message body is read only after the declared length was compared with the platform maximum and with the receive limit (refusing arms return RESOURCE_EXHAUSTED) and exactly the declared length is read; decompressed output is read through a reader limited to limit+1 bytes (both the registered-compressor path and the legacy gzip path) and re-checked against the limit before the success return; the payload-format check precedes decompression and fails closed on unknown flags; writer and reader agree on the 5-byte header layout; the limit reaching the reader is the stream's configured receive limit at all five receive sites. No success return follows a failed read, decompression or compression step; 'a decompressor is available' means a registered compressor or a legacy decompressor; a body cut short is an unexpected EOF.",
		NotDecided:  []string{"round-trip equality of message bytes for arbitrary segmentation of the byte stream (value property)", "behaviour of third-party legacy Decompressor implementations (not size-aware by interface)"},
		Assumptions: []string{"io.LimitReader, io.ReadAll and mem.ReadAll behave as documented", "encoding/binary.BigEndian reads/writes 4 bytes big-endian"},
		Technique:   "static analysis: dominating guards on go/ssa branch facts, value-origin of reader and length arguments, constant-flow of status codes, fail-closed switch check",
		Run:         c06,
	})
}

func c06(c *Ctx) {
	maxP := ParamV("maxReceiveMessageSize")
	c.Ob("len-check", "R2", "the body read is dominated by declared-length <= platform max and declared-length <= receive limit; refusing arms return RESOURCE_EXHAUSTED; the number of bytes read is the declared length", 5, func() {
		f := c.fn("grpc", "parser.recvMsg")
		length := CallRes(Callee("std:encoding/binary", "bigEndian.Uint32"), 0)
		read := one(c, "body read in recvMsg", callsIn(f, MethodNamed("Read", nil)))
		maxInt := ConstOfObj(c.konst("grpc", "maxInt"))
		c.MustFact(read, "length<=platform-max", Cmp(length, token.LEQ, maxInt))
		c.MustFact(read, "length<=receive-limit", Cmp(length, token.LEQ, maxP))
		args := read.Common().Args
		c.ValueIs(read, args[len(args)-1], "reads-declared-length", length)
		c.statusCodeIn(blocksWhere(f, Cmp(length, token.GTR, maxP)), f, "over-limit->ResourceExhausted", "ResourceExhausted")
		c.statusCodeIn(blocksWhere(f, Cmp(length, token.GTR, maxInt)), f, "over-platform-max->ResourceExhausted", "ResourceExhausted")
		hdr := one(c, "header read in recvMsg", callsIn(f, MethodNamed("ReadMessageHeader", nil)))
		c.Dominates(hdr, read, "header-before-body")
		c.MustFact(read, "header-read-ok", IsNil(CallRes(MethodNamed("ReadMessageHeader", nil), 0)))
	})
	c.Ob("limit-reader", "R3", "decompressed bytes are pulled through io.LimitReader(src, limit+1) unless limit == MaxInt64, on the registered-compressor path and on the built-in gzip path; every success return is dominated by the post-decompression size check; too-large returns RESOURCE_EXHAUSTED", 8, func() {
		f := c.fn("grpc", "decompress")
		lim := Callee("std:io", "LimitReader")
		ra := one(c, "mem.ReadAll call in decompress", callsIn(f, Callee("mem", "ReadAll")))
		src := ra.Common().Args[0]
		phi, isPhi := src.(*ssa.Phi)
		if c.Expect(isPhi, ra, f, "reader-is-limited-or-unlimited", "the reader handed to ReadAll is not a choice between the limited and the raw reader") {
			nl, _ := phiEdgesNeed(phi, CallRes(lim, 0), func(Fact) bool { return true })
			c.Expect(nl == 1, ra, f, "limited-edge", "no edge into ReadAll's reader comes from io.LimitReader")
			nraw, okraw := phiEdgesNeed(phi, func(v ssa.Value) bool { return !CallRes(lim, 0)(v) }, CmpInt(maxP, token.GEQ, 1<<63-1))
			c.Expect(nraw == okraw, ra, f, "raw-reader-only-if-limit-is-MaxInt64", "the unlimited reader reaches ReadAll although the limit is below MaxInt64")
		}
		for _, lc := range callsIn(f, lim) {
			c.ArgIs(lc, 1, "limit-plus-one", BinOpV(token.ADD, maxP, ConstInt(1)))
			c.ArgIs(lc, 0, "limits-the-decompressor-output", CallRes(Callee("encoding", "Compressor.Decompress"), 0))
		}
		outLen := CallWith(Callee("mem", "BufferSlice.Len"), 0, CallRes(Callee("mem", "ReadAll"), 0))
		legacyLen := LenOf(AnyV)
		for _, r := range successReturns(f, 1) {
			if r.Block() == f.Recover {
				continue
			}
			c.MustFactAny(r, "size-rechecked-before-success", Cmp(outLen, token.LEQ, maxP), Cmp(legacyLen, token.LEQ, maxP))
		}
		c.statusCodeIn(blocksWhere(f, Cmp(outLen, token.GTR, maxP)), f, "decompressed-too-large->ResourceExhausted", "ResourceExhausted")
		c.statusCodeIn(blocksWhere(f, Cmp(legacyLen, token.GTR, maxP)), f, "legacy-decompressed-too-large->ResourceExhausted", "ResourceExhausted")
		// built-in gzip: size-aware helper is used and is itself limited
		dw := one(c, "doWithMaxSize call", callsIn(f, Callee("grpc", "gzipDecompressor.doWithMaxSize")))
		c.ArgIs(dw, 2, "gzip-helper-gets-the-limit", maxP)
		g := c.fn("grpc", "gzipDecompressor.doWithMaxSize")
		gra := one(c, "io.ReadAll in doWithMaxSize", callsIn(g, Callee("std:io", "ReadAll")))
		gphi, ok := gra.Common().Args[0].(*ssa.Phi)
		if c.Expect(ok, gra, g, "gzip-reader-is-limited-or-unlimited", "the reader handed to io.ReadAll is not a choice between limited and raw") {
			nl, _ := phiEdgesNeed(gphi, DataDep(CallRes(lim, 0)), func(Fact) bool { return true })
			c.Expect(nl == 1, gra, g, "gzip-limited-edge", "no edge into io.ReadAll's reader comes from io.LimitReader")
			gmax := ParamV("maxMessageSize")
			nraw, okraw := phiEdgesNeed(gphi, func(v ssa.Value) bool { return !DataDep(CallRes(lim, 0))(v) }, CmpInt(gmax, token.GEQ, 1<<63-1))
			c.Expect(nraw == okraw, gra, g, "gzip-raw-reader-only-if-limit-is-MaxInt64", "the unlimited gzip reader reaches io.ReadAll although the limit is below MaxInt64")
			for _, lc := range callsIn(g, lim) {
				c.ArgIs(lc, 1, "gzip-limit-plus-one", BinOpV(token.ADD, gmax, ConstInt(1)))
			}
		}
	})
	c.Ob("check-before-decompress", "R3", "decompression is reached only after the frame was read without error and the payload-format check passed; that check accepts exactly the two defined flags and fails closed on any other", 4, func() {
		f := c.fn("grpc", "recvAndDecompress")
		dc := one(c, "decompress call", callsIn(f, Callee("grpc", "decompress")))
		c.MustFact(dc, "frame-read-ok", IsNil(CallRes(Callee("grpc", "parser.recvMsg"), 2)))
		c.MustFact(dc, "payload-format-ok", IsNil(CallRes(Callee("grpc", "checkRecvPayload"), 0)))
		c.MustFact(dc, "only-if-compressed-flag", Truth(CallRes(Callee("grpc", "payloadFormat.isCompressed"), 0), true))
		c.ArgIs(dc, 3, "same-limit-to-decompress", maxP)
		rm := one(c, "recvMsg call", callsIn(f, Callee("grpc", "parser.recvMsg")))
		c.ArgIs(rm, 1, "same-limit-to-recvMsg", maxP)
		ck := c.fn("grpc", "checkRecvPayload")
		none := ConstOfObj(c.konst("grpc", "compressionNone"))
		made := ConstOfObj(c.konst("grpc", "compressionMade"))
		for _, r := range returnsOf(ck) {
			if ConstNil(r.Results[0]) {
				c.MustFact(r, "accepts-only-defined-flags", InSet(ParamV("pf"), none, made))
			}
		}
		for _, r := range successReturns(f, 1) {
			if r.Block() == f.Recover {
				continue
			}
			if CallRes(Callee("internal/status", "Status.Err"), 0)(r.Results[1]) {
				continue // `return nil, st.Err()` on the refusing arm
			}
			c.MustFact(r, "success-only-if-format-ok", IsNil(CallRes(Callee("grpc", "checkRecvPayload"), 0)))
		}
	})
	c.Ob("error-discipline", "R2", "the message reader, the decompression step and the compression step never continue past a failing read / decompressor / compressor to a success return (a failed step never yields a message)", 6, func() {
		n := 0
		for _, fn := range []string{"parser.recvMsg", "recvAndDecompress", "decompress", "compress", "recv", "gzipDecompressor.doWithMaxSize", "gzipDecompressor.Do"} {
			if f := c.P.LookupFunc("grpc", fn); f != nil && f.Blocks != nil {
				n += c.ErrorsPropagate(f, fn, nil)
			}
		}
		c.Expect(n >= 6, nil, nil, "error-sites", "fewer tested step errors than on the reviewed tree")
		// the payload-format verdict: a non-nil status ends the receive, a nil one does not
		rd := c.fn("grpc", "recvAndDecompress")
		chk := one(c, "checkRecvPayload call", callsIn(rd, Callee("grpc", "checkRecvPayload")))
		verdict := func(v ssa.Value) bool { return v == chk.Value() }
		for _, ci := range callsIn(rd, Callee("internal/status", "Status.Err")) {
			c.MustFact(ci, "format-error-returned-only-when-there-is-one", NotNil(verdict))
		}
		for _, ci := range callsIn(rd, Callee("grpc", "decompress")) {
			c.MustFact(ci, "decompress-only-after-a-clean-format-verdict", IsNil(verdict))
		}
		// "a decompressor is available" handed to the format check means: a registered compressor OR a legacy decompressor
		have, ok := chk.Common().Args[2].(*ssa.Phi)
		okHave := false
		if ok && len(have.Edges) == 2 {
			nT, nO := 0, 0
			for i, e := range have.Edges {
				pr := have.Block().Preds[i]
				fs := append(append([]Fact(nil), FactsAtBlock(pr)...), edgeOnlyFacts(pr, have.Block())...)
				if ConstBool(true)(e) {
					if _, h := hasFact(fs, NotNil(OrV(ParamV("compressor"), ParamV("dc")))); h {
						nT++
					}
				} else if BinOpV(token.NEQ, OrV(ParamV("compressor"), ParamV("dc")), ConstNil)(e) {
					nO++
				}
			}
			okHave = nT == 1 && nO == 1
		}
		c.Expect(okHave, chk, rd, "decoder-available-means-either-kind", "the format check is told a decompressor is available under a condition other than 'registered compressor or legacy decompressor present'")
		// a frame body cut short is an unexpected EOF, never a clean end of stream
		rm := c.fn("grpc", "parser.recvMsg")
		eof := GlobalLoad(c.konst("std:io", "EOF"))
		for _, r := range returnsOf(rm) {
			if r.Block() == rm.Recover || ConstNil(strip(r.Results[2])) {
				continue
			}
			if ph, isPhi := r.Results[2].(*ssa.Phi); isPhi {
				for i, e := range ph.Edges {
					pr := ph.Block().Preds[i]
					fs := append(append([]Fact(nil), FactsAtBlock(pr)...), edgeOnlyFacts(pr, ph.Block())...)
					if GlobalLoad(c.konst("std:io", "ErrUnexpectedEOF"))(e) {
						_, h := hasFact(fs, Cmp(AnyV, token.EQL, eof))
						c.Expect(h, r, rm, "unexpected-EOF-replaces-exactly-EOF", "io.ErrUnexpectedEOF replaces an error other than io.EOF")
					} else {
						_, h := hasFact(fs, Cmp(func(v ssa.Value) bool { return v == e }, token.NEQ, eof))
						c.Expect(h, r, rm, "truncated-body-never-reported-as-clean-EOF", "a read error of the frame body can be returned as io.EOF (a message cut short would look like a clean end of stream)")
					}
				}
			}
		}
	})
	c.Ob("header-layout", "R6", "writer and reader agree on the frame header: byte 0 is the compression flag, bytes 1..4 the big-endian length (same constant offset on both sides), header length 5", 4, func() {
		w := c.fn("grpc", "msgHeader")
		r := c.fn("grpc", "parser.recvMsg")
		put := one(c, "PutUint32 in msgHeader", callsIn(w, Callee("std:encoding/binary", "bigEndian.PutUint32")))
		get := one(c, "Uint32 in recvMsg", callsIn(r, Callee("std:encoding/binary", "bigEndian.Uint32")))
		off := ConstOfObj(c.konst("grpc", "payloadLen"))
		c.ArgIs(put, 1, "length-written-at-offset-1", SliceOf(AnyV, off, nil))
		c.ArgIs(get, 1, "length-read-at-offset-1", SliceOf(AnyV, off, nil))
		hl := c.konst("grpc", "headerLen")
		c.Expect(ConstOfObj(hl)(ssa.NewConst(constantInt(5), hl.Type())), nil, w, "header-is-5-bytes", "headerLen is not 5")
		c.Expect(ConstOfObj(c.konst("grpc", "payloadLen"))(ssa.NewConst(constantInt(1), c.konst("grpc", "payloadLen").Type())), nil, w, "flag-is-1-byte", "payloadLen is not 1")
		// the length written is the length of the payload actually returned
		lenV := put.Common().Args[2]
		c.ValueIs(put, lenV, "length-is-payload-length", AllOrigins(CallRes(Callee("mem", "BufferSlice.Len"), 0)))
	})
	c.Ob("limit-flow", "R8", "at all receive sites the limit handed to the message reader is the stream's configured receive limit", 4, func() {
		ciRecv := c.field("grpc", "callInfo", "maxReceiveMessageSize")
		ssRecv := c.field("grpc", "serverStream", "maxReceiveMessageSize")
		want := OrV(DerefOf(FieldLoad(ciRecv)), FieldLoad(ssRecv))
		n := 0
		rf0 := c.fn("grpc", "recv")
		for _, f := range c.scope("grpc") {
			for _, rc := range callsIn(f, Callee("grpc", "recv")) {
				n++
				c.ArgIs(rc, 5, "limit-is-configured-receive-limit", want)
			}
		}
		c.Expect(n >= 4, nil, rf0, "receive-sites", "fewer receive sites than confirmed by hand")
		rf := c.fn("grpc", "recv")
		rd := one(c, "recvAndDecompress call", callsIn(rf, Callee("grpc", "recvAndDecompress")))
		c.ArgIs(rd, 3, "recv-forwards-limit", maxP)
	})
}
