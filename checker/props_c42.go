package main

import (
	"go/token"
	"go/types"

	"golang.org/x/tools/go/ssa"
)

const xdsc = "internal/xds/clients/xdsclient"

func init() {
	register(&PropDef{
		ID:    "C42",
		Pkgs:  []string{xdsc},
		Claim: "Decides the structural part by value flow: a NACK carries the version that was stored before the response (read before any store), the response's nonce and an error detail; an ACK carries the response's version and nonce; the stored version advances only on the accepting arm; the stored nonce is replaced before either send; a new stream resets every type's nonce before re-sending with the stored version and the currently subscribed names; the node identifier is attached exactly while the first-request flag is set, which is raised only after a successful stream creation and lowered only after a successful send; the response handler is called only after flow-control clearance with the pending flag raised and a once-only completion callback; per-type state is accessed under the stream mutex. A failed send is never turned into success, every type with subscriptions is re-requested on a new stream, watch timers are started after every successful send for the names just requested, and a response is attributed only to the type whose URL equals the response's.",
		NotDecided:  []string{"the request sequence as a whole against the xDS protocol state machine over all histories of responses, subscriptions and stream restarts"},
		Assumptions: []string{"the transport delivers messages in order"},
		Technique:   "static analysis: value-origin of call arguments and stored values over go/ssa, dominating guards, ordering (dominance) of loads/stores, must-pass-through, must-lockset",
		Run:         c42,
	})
}

func c42(c *Ctx) {
	st := func(f string) *types.Var { return c.field(xdsc, "resourceTypeState", f) }
	fVer, fNonce, fSubs := st("version"), st("nonce"), st("subscribedResources")
	sendCM := Callee(xdsc, "adsStreamImpl.sendMessageLocked")
	// args of sendMessageLocked (method: index 0 is the receiver): 1 stream, 2 names, 3 url, 4 version, 5 nonce, 6 nackErr
	c.Ob("ack-nack-args", "R8", "response handling: NACK sends (previous version read before the store, response nonce, non-nil error); ACK sends (response version, response nonce, nil); version stored only when accepting; nonce stored before both sends", 10, func() {
		f := c.fn(xdsc, "adsStreamImpl.onRecv")
		sends := callsIn(f, sendCM)
		if len(sends) != 2 {
			panic(missingStep{"expected two sends (NACK, ACK) in onRecv"})
		}
		var nack, ack ssa.CallInstruction
		for _, s := range sends {
			if ConstNil(s.Common().Args[6]) {
				ack = s
			} else {
				nack = s
			}
		}
		if nack == nil || ack == nil {
			panic(missingStep{"cannot tell the NACK send from the ACK send"})
		}
		vStore := one(c, "store of typeState.version", storesToField(f, fVer))
		nStore := one(c, "store of typeState.nonce", storesToField(f, fNonce))
		c.MustFact(vStore, "version-advances-only-when-accepted", IsNil(ParamV("nackErr")))
		c.ValueIs(vStore, vStore.Val, "stores-response-version", ParamV("version"))
		c.ValueIs(nStore, nStore.Val, "stores-response-nonce", ParamV("nonce"))
		c.Dominates(nStore, nack, "nonce-stored-before-nack")
		c.Dominates(nStore, ack, "nonce-stored-before-ack")
		// NACK
		c.MustFact(nack, "nack-only-on-error", NotNil(ParamV("nackErr")))
		c.ArgIs(nack, 6, "nack-carries-error", ParamV("nackErr"))
		c.ArgIs(nack, 5, "nack-carries-response-nonce", ParamV("nonce"))
		pv := nack.Common().Args[4]
		if c.Expect(FieldLoad(fVer)(pv), nack, f, "nack-carries-stored-version", "the NACK's version is not the version stored for the type") {
			ld := strip(pv).(ssa.Instruction)
			c.Expect(instrDominates(ld, vStore), ld, f, "previous-version-read-before-store", "the 'previous' version is read after the new version may have been stored")
		}
		// ACK
		c.MustFact(ack, "ack-only-without-error", IsNil(ParamV("nackErr")))
		c.ArgIs(ack, 4, "ack-carries-response-version", ParamV("version"))
		c.ArgIs(ack, 5, "ack-carries-response-nonce", ParamV("nonce"))
		for _, s := range sends {
			c.ArgIs(s, 3, "type-url-of-response", ParamV("url"))
			c.ArgIs(s, 2, "names-are-current-subscriptions", CallWith(Callee(xdsc, "resourceNames"), 0, FieldLoad(fSubs)))
			c.ArgIs(s, 1, "same-stream", ParamV("stream"))
		}
		// the state updated is the state of the response's type
		fURL := c.field(xdsc, "ResourceType", "TypeURL")
		c.Expect(len(instrsWhere(f, func(in ssa.Instruction) bool {
			b, ok := in.(*ssa.BinOp)
			return ok && (FieldLoad(fURL)(b.X) && ParamV("url")(b.Y) || FieldLoad(fURL)(b.Y) && ParamV("url")(b.X))
		})) == 1, nil, f, "state-selected-by-type-url", "the per-type state is not selected by comparing the type URL with the response's")
	})
	c.Ob("new-stream-nonce", "R3", "on a new stream every type's nonce is reset before its request is sent with the stored version, the reset nonce and the subscribed names; types without subscriptions send nothing", 5, func() {
		f := c.fn(xdsc, "adsStreamImpl.sendExisting")
		send := one(c, "send in sendExisting", callsIn(f, sendCM))
		reset := one(c, "nonce reset", storesToField(f, fNonce))
		c.ValueIs(reset, reset.Val, "nonce-reset-to-empty", ConstStr(""))
		// the loops over the per-type states; the reset and the send each belong to the nearest one that dominates them.
		// Either they share a loop (the reset precedes the send in every iteration) or the reset has a loop of its own
		// that runs to completion before the sending loop starts.
		var nxs []ssa.Instruction
		for _, in := range instrsWhere(f, func(in ssa.Instruction) bool { _, ok := in.(*ssa.Next); return ok }) {
			if rg, ok := in.(*ssa.Next).Iter.(*ssa.Range); ok && FieldLoad(c.field(xdsc, "adsStreamImpl", "resourceTypeState"))(rg.X) {
				nxs = append(nxs, in)
			}
		}
		nearest := func(at ssa.Instruction) ssa.Instruction {
			var best ssa.Instruction
			for _, n := range nxs {
				if instrDominates(n, at) && (best == nil || instrDominates(best, n)) {
					best = n
				}
			}
			return best
		}
		nx, nxS := nearest(reset), nearest(send)
		if nx == nil || nxS == nil {
			panic(missingStep{"the nonce reset or the send is not inside a range over resourceTypeState"})
		}
		split := nx != nxS
		exitEdgeOf := func(n ssa.Instruction) func(from, to *ssa.BasicBlock) bool {
			me := func(v ssa.Value) bool { return v == n.(ssa.Value) }
			return func(from, to *ssa.BasicBlock) bool {
				_, ok := hasFact(edgeFacts(from, to), Truth(ExtractOf(me, 0), false))
				return ok
			}
		}
		if !split {
			c.Dominates(reset, send, "reset-before-send")
		} else {
			c.Expect(instrDominates(nx, nxS), send, f, "reset-before-send", "the loop that resets the nonces does not precede the loop that sends")
			// the resetting loop is left only when exhausted: the sending loop cannot be reached from inside it
			// other than through its 'no more entries' edge
			c.MustPass("reset-before-send", pathQuery{Fn: f, Starts: []ssa.Instruction{nx}, Barrier: func(in ssa.Instruction) bool { return false },
				Target: func(in ssa.Instruction) bool { return in == nxS }, EdgeBlock: exitEdgeOf(nx)}, nx)
		}
		// the reset is not conditional on the type having subscriptions: every iteration over the
		// per-type states passes through it (a type subscribed later on this stream must not reuse the old stream's nonce)
		q0 := pathQuery{Fn: f, Starts: []ssa.Instruction{nx}, Barrier: func(in ssa.Instruction) bool { return in == ssa.Instruction(reset) },
			Target:    func(in ssa.Instruction) bool { return in == nx || isReturn(in) || in == nxS && split },
			EdgeBlock: exitEdgeOf(nx)}
		c.MustPass("every-type-nonce-reset", q0, nx)
		c.ArgIs(send, 4, "resend-with-stored-version", FieldLoad(fVer))
		c.ArgIs(send, 5, "resend-with-reset-nonce", FieldLoad(fNonce))
		c.ArgIs(send, 2, "resend-with-subscribed-names", CallWith(Callee(xdsc, "resourceNames"), 0, FieldLoad(fSubs)))
		if ld, ok := strip(send.Common().Args[5]).(ssa.Instruction); ok {
			c.Expect(instrDominates(reset, ld) || split && instrDominates(nxS, ld), ld, f, "nonce-read-after-reset", "the nonce sent on the new stream is read before the reset")
		}
		// same state object for version, nonce, names
		c.MustFact(send, "only-types-with-subscriptions", func(fct Fact) bool {
			return fct.Kind == "cmp" && LenOf(FieldLoad(fSubs))(fct.X) && ConstInt(0)(fct.Y) && fct.Op.String() == "!="
		})
		fn := c.fn(xdsc, "adsStreamImpl.sendNewLocked")
		sn := one(c, "send in sendNewLocked", callsIn(fn, sendCM))
		c.ArgIs(sn, 4, "new-request-with-stored-version", FieldLoad(fVer))
		c.ArgIs(sn, 5, "new-request-with-stored-nonce", FieldLoad(fNonce))
	})
	c.Ob("send-discipline", "R2", "a failed send is never turned into success (sendNewLocked, sendExisting, sendMessageLocked and the stream runner); on a new stream every type with subscriptions is re-requested (the scan over the per-type states is never left early) and watch timers are started for the names just requested; a response is attributed only to the type whose URL equals the response's", 6, func() {
		n := 0
		for _, fn := range []string{"adsStreamImpl.sendNewLocked", "adsStreamImpl.sendExisting", "adsStreamImpl.sendMessageLocked", "adsStreamImpl.recvMessage"} {
			n += c.ErrorsPropagate(c.fn(xdsc, fn), fn, nil)
		}
		c.Expect(n >= 3, nil, nil, "error-sites", "fewer tested send/receive errors than on the reviewed tree")
		se := c.fn(xdsc, "adsStreamImpl.sendExisting")
		c.Expect(c.NoEarlyExit(se, FieldLoad(c.field(xdsc, "adsStreamImpl", "resourceTypeState")), "sendExisting:every-type-visited") >= 1, nil, se, "sendExisting:scan", "no scan over the per-type states")
		for _, fn := range []string{"adsStreamImpl.sendNewLocked", "adsStreamImpl.sendExisting"} {
			f := c.fn(xdsc, fn)
			send := one(c, "send in "+fn, callsIn(f, sendCM))
			tm := one(c, "startWatchTimersLocked in "+fn, callsIn(f, Callee(xdsc, "adsStreamImpl.startWatchTimersLocked")))
			c.Dominates(send, tm, fn+":timers-after-send")
			c.Expect(sameValue(tm.Common().Args[2], send.Common().Args[2]) || tm.Common().Args[2] == send.Common().Args[2], tm, f, fn+":timers-for-the-requested-names", "watch timers are started for names other than those just requested")
			// every successful send is followed by starting the timers before the next request / return
			c.MustPass(fn+":timers-started-after-every-successful-send", pathQuery{Fn: f, Starts: []ssa.Instruction{send}, Barrier: func(in ssa.Instruction) bool { return in == ssa.Instruction(tm) },
				Target: func(in ssa.Instruction) bool { return in == ssa.Instruction(send) || isReturn(in) },
				EdgeBlock: func(from, to *ssa.BasicBlock) bool {
					_, ok := hasFact(edgeFacts(from, to), NotNil(func(v ssa.Value) bool { return v == send.Value() }))
					return ok
				}}, send)
		}
		// onRecv: type chosen by URL equality
		or := c.fn(xdsc, "adsStreamImpl.onRecv")
		nh := 0
		for _, b := range or.Blocks {
			isRangeHdr := false
			for _, in := range b.Instrs {
				if nx, ok := in.(*ssa.Next); ok {
					if rg, ok := nx.Iter.(*ssa.Range); ok && FieldLoad(c.field(xdsc, "adsStreamImpl", "resourceTypeState"))(rg.X) {
						isRangeHdr = true
					}
				}
			}
			if !isRangeHdr {
				continue
			}
			nh++
			c.Expect(len(breakArms(b)) == 1, b.Instrs[0], or, "onRecv:type-search-stops-at-the-match", "the type search has no (or more than one) early exit")
			c.EnteredOnlyWhenExcept(b.Succs[1], "onRecv:type-selected-only-by-equal-URL", func(p *ssa.BasicBlock) bool { return p == b }, Cmp(FieldLoad(c.field(xdsc, "ResourceType", "TypeURL")), token.EQL, ParamV("url")))
		}
		c.Expect(nh == 1, nil, or, "onRecv:type-search", "no search of the per-type states by URL")
	})
	c.Ob("node-first", "R2", "the node identifier is attached exactly when the first-request flag is set; the flag is raised only after a successful stream creation and lowered only after a successful send", 5, func() {
		f := c.fn(xdsc, "adsStreamImpl.sendMessageLocked")
		fFirst := c.field(xdsc, "adsStreamImpl", "firstRequest")
		fNode := c.field("github.com/envoyproxy/go-control-plane/envoy/service/discovery/v3", "DiscoveryRequest", "Node")
		isFirst := func(v ssa.Value) bool {
			call, ok := strip(v).(*ssa.Call)
			return ok && CalleeX("sync/atomic", "Bool.Load")(&call.Call) && FieldAddrOf(fFirst)(call.Call.Args[0])
		}
		ns := one(c, "store of req.Node", storesToField(f, fNode))
		c.MustFact(ns, "node-only-on-first-request", Truth(isFirst, true))
		// never skipped when the flag is set
		var ld ssa.Instruction
		for _, in := range instrsWhere(f, func(in ssa.Instruction) bool { v, ok := in.(ssa.Value); return ok && isFirst(v) }) {
			ld = in
		}
		q := pathQuery{Fn: f, Starts: []ssa.Instruction{ld}, Barrier: func(in ssa.Instruction) bool { return in == ssa.Instruction(ns) }, Target: isCallTo(Callee("internal/xds/clients", "Stream.Send")),
			EdgeBlock: func(from, to *ssa.BasicBlock) bool {
				_, ok := hasFact(edgeFacts(from, to), Truth(isFirst, false))
				return ok
			}}
		c.MustPass("first-request-always-carries-node", q, ld)
		storeFlag := func(val bool) func(ssa.Instruction) bool {
			return func(in ssa.Instruction) bool {
				call, ok := in.(*ssa.Call)
				return ok && CalleeX("sync/atomic", "Bool.Store")(&call.Call) && FieldAddrOf(fFirst)(call.Call.Args[0]) && ConstBool(val)(call.Call.Args[1])
			}
		}
		lower := one(c, "firstRequest.Store(false)", instrsWhere(f, storeFlag(false)))
		c.MustFact(lower, "lowered-only-after-successful-send", IsNil(CallRes(Callee("internal/xds/clients", "Stream.Send"), 0)))
		nLower, nRaise := 0, 0
		for _, fn := range c.scope(xdsc) {
			nLower += len(instrsWhere(fn, storeFlag(false)))
			for _, in := range instrsWhere(fn, storeFlag(true)) {
				nRaise++
				c.MustFact(in, "raised-only-after-successful-stream-creation", IsNil(CallRes(Callee("internal/xds/clients", "Transport.NewStream"), 1)))
			}
		}
		c.Expect(nLower == 1 && nRaise == 1, nil, f, "one-raise-one-lower", "the first-request flag is written at other sites than the reviewed two")
		// NACK detail exactly on error
		fErr := c.field("github.com/envoyproxy/go-control-plane/envoy/service/discovery/v3", "DiscoveryRequest", "ErrorDetail")
		for _, s := range storesToField(f, fErr) {
			if !ConstNil(s.Val) {
				c.MustFact(s, "error-detail-only-on-nack", NotNil(ParamV("nackErr")))
			}
		}
		// request fields come from the arguments
		fields := map[string]string{"ResourceNames": "names", "TypeUrl": "url", "VersionInfo": "version", "ResponseNonce": "nonce"}
		for _, fld := range sortedKeys(fields) {
			fv := c.field("github.com/envoyproxy/go-control-plane/envoy/service/discovery/v3", "DiscoveryRequest", fld)
			for _, s := range storesToField(f, fv) {
				c.ValueIs(s, s.Val, "request."+fld+"-from-argument", ParamV(fields[fld]))
			}
		}
	})
	c.Ob("flow-control", "R3", "receive loop: every message read is preceded by flow-control clearance (stop returns), the pending flag is raised before the response handler runs, and the handler's completion callback is a sync.OnceFunc lowering it", 4, func() {
		f := c.fn(xdsc, "adsStreamImpl.recv")
		wait := one(c, "fc.wait call", callsIn(f, Callee(xdsc, "adsFlowControl.wait")))
		rm := one(c, "recvMessage call", callsIn(f, Callee(xdsc, "adsStreamImpl.recvMessage")))
		c.MustFact(rm, "read-only-when-cleared", Truth(CallRes(Callee(xdsc, "adsFlowControl.wait"), 0), false))
		q := pathQuery{Fn: f, Starts: []ssa.Instruction{rm}, Barrier: func(in ssa.Instruction) bool { return in == ssa.Instruction(wait) }, Target: func(in ssa.Instruction) bool { return in == ssa.Instruction(rm) }}
		c.MustPass("every-read-waits-again", q, rm)
		on := one(c, "onResponse call", callsIn(f, Callee(xdsc, "adsStreamEventHandler.onResponse")))
		var setP ssa.Instruction
		for _, ci := range callsIn(f, Callee(xdsc, "adsFlowControl.setPending")) {
			if ConstBool(true)(ci.Common().Args[1]) {
				setP = ci
			}
		}
		if setP == nil {
			panic(missingStep{"no fc.setPending(true) in recv"})
		}
		c.Dominates(setP, on, "pending-raised-before-handler")
		if c.ArgIs(on, 1, "completion-is-once-wrapped", CallRes(CalleeX("sync", "OnceFunc"), 0)) {
			cl := funcOfValue(strip(on.Common().Args[1]).(*ssa.Call).Call.Args[0])
			ok := false
			if cl != nil {
				for _, ci := range callsIn(cl, Callee(xdsc, "adsFlowControl.setPending")) {
					if ConstBool(false)(ci.Common().Args[1]) {
						ok = true
					}
				}
			}
			c.Expect(ok, on, f, "completion-lowers-pending", "the completion callback does not lower the pending flag")
		}
		or := one(c, "onRecv call", callsIn(f, Callee(xdsc, "adsStreamImpl.onRecv")))
		for i, name := range map[int]string{3: "url", 4: "version", 5: "nonce"} {
			_ = name
			c.ArgIs(or, i, "ack-uses-received-metadata", CallRes(Callee(xdsc, "adsStreamImpl.recvMessage"), i-2))
		}
		c.ArgIs(or, 6, "ack-uses-handler-verdict", CallRes(Callee(xdsc, "adsStreamEventHandler.onResponse"), 1))
	})
	c.Ob("state-lock", "R4", "per-type state and the pending request list are accessed only under the stream mutex (…Locked helpers checked at their call sites)", 10, func() {
		mu := c.field(xdsc, "adsStreamImpl", "mu")
		fRTS := c.field(xdsc, "adsStreamImpl", "resourceTypeState")
		fPend := c.field(xdsc, "adsStreamImpl", "pendingRequests")
		c.GuardedBy(GuardSpec{Label: "adsStream", Mu: mu, Fields: []*types.Var{fRTS, fPend}, Scope: c.scope(xdsc),
			Locked: map[string]bool{xdsc + ".adsStreamImpl.sendNewLocked": true, xdsc + ".adsStreamImpl.sendMessageLocked": true, xdsc + ".adsStreamImpl.startWatchTimersLocked": true},
			Exempt: map[string]string{xdsc + ".newADSStreamImpl": "constructor, object not shared yet"}})
	})
}
