package main

import (
	"go/token"

	"golang.org/x/tools/go/ssa"
)

const wrrp = "internal/wrr"

func init() {
	register(&PropDef{
		ID:    "C38",
		Pkgs:  []string{wrrp, cimpl, "internal/xds/xdsclient"},
		Claim: "Decides the structural part: the random weighted selector draws uniformly below the total weight and returns the first item whose accumulated weight exceeds the draw (strict), accumulating weights in insertion order; its uniform fast path is enabled only while every added weight equalled its predecessor (the flag stays false once false); configured drops are evaluated only while the child policy is READY; the drop rate per million is computed in 64 bits and capped at one million, so the complement cannot wrap; a started circuit-breaker request is ended on the failing-pick arm or by the Done callback installed on every other path, and a request is started only below the limit. The selector draws only from a non-empty item set and reads the previous item only when one exists.",
		NotDecided:  []string{"the exact selection probabilities and drop rates (probability over the random source)", "eventual consistency of the circuit-breaker counter under races (allowed to exceed by design)"},
		Assumptions: []string{"rand.Int64N(n) is uniform on [0,n)"},
		Technique:   "static analysis: phi-leaf analysis of the stored flag, dominating guards on go/ssa branch facts, symbolic upper bound, must-pass-through pairing",
		Run:         c38,
	})
}

func c38(c *Ctx) {
	c.Ob("wrr-shape", "R2", "random WRR: Next draws randInt64n(total accumulated weight) and searches the first accumulatedWeight > draw (strict); the equal-weights fast path draws an index below len(items); Add accumulates the previous accumulated weight plus the new weight; the equal-weights flag is (previous flag && weight == previous weight), true only for the first item", 7, func() {
		nx := c.fn(wrrp, "randomWRR.Next")
		fAcc := c.field(wrrp, "weightedItem", "accumulatedWeight")
		fEq := c.field(wrrp, "randomWRR", "equalWeights")
		fItems := c.field(wrrp, "randomWRR", "items")
		draws := callsIn(nx, ValueCall(GlobalLoad(c.konst(wrrp, "randInt64n"))))
		c.Expect(len(draws) == 2, nil, nx, "two-draws", "expected a uniform draw for the equal-weights path and one for the weighted path")
		for _, d := range draws {
			if c.HasFact(d, Truth(FieldLoad(fEq), true)) {
				c.ArgIs(d, 0, "uniform-index-below-len", func(v ssa.Value) bool { return LenOf(FieldLoad(fItems))(stripConv(v)) })
			} else {
				c.ArgIs(d, 0, "draw-below-total-weight", FieldLoad(fAcc))
				c.MustFact(d, "weighted-path-when-not-equal", Truth(FieldLoad(fEq), false))
			}
		}
		for _, d := range draws {
			c.MustFact(d, "draw-only-from-a-non-empty-set", CmpInt(LenOf(FieldLoad(fItems)), token.NEQ, 0))
		}
		for _, r := range returnsOf(nx) {
			if r.Block() != nx.Recover && ConstNil(r.Results[0]) {
				c.MustFact(r, "nothing-only-from-an-empty-set", CmpInt(LenOf(FieldLoad(fItems)), token.EQL, 0))
			}
		}
		// search predicate strict
		okStrict := false
		for _, a := range nx.AnonFuncs {
			for _, r := range returnsOf(a) {
				if len(r.Results) == 0 {
					continue
				}
				if op, _, _, ok := cmpOriented(r.Results[0], FieldLoad(fAcc)); ok && op == token.GTR {
					okStrict = true
				}
			}
		}
		c.Expect(okStrict, nil, nx, "search-first-accumulated>draw", "the search predicate is not accumulatedWeight > draw")
		ad := c.fn(wrrp, "randomWRR.Add")
		st := one(c, "store of equalWeights", storesToField(ad, fEq))
		fW := c.field(wrrp, "weightedItem", "weight")
		cmpW := func(v ssa.Value) bool {
			b, ok := v.(*ssa.BinOp)
			return ok && b.Op == token.EQL && (ParamV("weight")(b.X) && FieldLoad(fW)(b.Y) || ParamV("weight")(b.Y) && FieldLoad(fW)(b.X))
		}
		nCmp := 0
		c.nontrivial("equalWeights-leaves")
		for _, lf := range phiLeaves(st.Val) {
			switch {
			case ConstBool(true)(lf.Val):
				c.Expect(hasAllFacts(lf.Facts, []FM{CmpInt(LenOf(FieldLoad(fItems)), token.LEQ, 0)}), st, ad, "true-only-for-first-item", "the equal-weights flag is set true although items exist")
			case ConstBool(false)(lf.Val):
				c.Expect(hasAllFacts(lf.Facts, []FM{Truth(FieldLoad(fEq), false)}), st, ad, "false-leaf-from-previous-flag", "the equal-weights flag is cleared for another reason than the previous flag being false")
			case cmpW(lf.Val):
				nCmp++
				c.Expect(hasAllFacts(lf.Facts, []FM{Truth(FieldLoad(fEq), true)}), st, ad, "comparison-only-while-all-equal-so-far", "the equal-weights flag can become true again after unequal weights were added (only the last two weights are compared)")
			default:
				c.Expect(false, st, ad, "known-flag-source", "unexpected source of the equal-weights flag: "+valStr(lf.Val))
			}
		}
		c.Expect(nCmp == 1, st, ad, "compares-with-previous-weight", "the equal-weights flag does not compare the new weight with the previous one")
		// the previous item is read only when one exists
		for _, in := range instrsWhere(ad, func(in ssa.Instruction) bool { ia, ok := in.(*ssa.IndexAddr); return ok && FieldLoad(fItems)(ia.X) }) {
			c.MustFact(in, "previous-item-only-when-one-exists", CmpInt(LenOf(FieldLoad(fItems)), token.GTR, 0))
		}
		// accumulation
		for _, s := range storesToField(ad, fAcc) {
			okA := false
			for _, lf := range phiLeaves(s.Val) {
				if BinOpV(token.ADD, FieldLoad(fAcc), ParamV("weight"))(lf.Val) {
					okA = true
				}
			}
			c.Expect(okA, s, ad, "accumulates-previous-plus-weight", "the accumulated weight is not previous accumulated + weight")
		}
	})
	c.Ob("drop-only-ready", "R2", "cluster picker: configured drops are evaluated only when the child state is READY; a dropped RPC is reported as dropped and fails with UNAVAILABLE", 3, func() {
		f := c.fn(cimpl, "picker.Pick")
		fCS := c.field("balancer", "State", "ConnectivityState")
		dr := one(c, "dropper.drop call", callsIn(f, Callee(cimpl, "dropper.drop")))
		c.MustFact(dr, "drops-only-when-READY", Cmp(FieldLoad(fCS), token.EQL, ConstOfObj(c.konst("connectivity", "Ready"))))
		c.statusCodeIn(blocksWhere(f, Truth(CallRes(Callee(cimpl, "dropper.drop"), 0), true)), f, "dropped->Unavailable", "Unavailable")
	})
	c.Ob("drop-cap", "R5", "drop rate: numerator*1e6/denominator is computed in uint64 and capped at 1e6; every drop configuration built from xDS uses it; the dropper's complement is 1e6 - rate", 4, func() {
		f := c.fn(cimpl, "dropRequestsPerMillion")
		for _, r := range returnsOf(f) {
			c.nontrivial("ub-rpm")
			c.Expect(boundedBy(r.Results[0], ConstInt(1000000)), r, f, "rate<=1e6", "cannot derive drop rate <= 1000000")
		}
		for _, in := range instrsWhere(f, func(in ssa.Instruction) bool { b, ok := in.(*ssa.BinOp); return ok && b.Op == token.MUL }) {
			b := in.(*ssa.BinOp)
			bt := b.Type().Underlying().String()
			c.Expect(bt == "uint64", in, f, "multiplied-in-64-bits", "the numerator is multiplied in "+bt)
		}
		fRPM := c.field(cimpl, "DropConfig", "RequestsPerMillion")
		n := 0
		for _, fn := range c.scope(cimpl) {
			for _, st := range storesToField(fn, fRPM) {
				n++
				c.ValueIs(st, st.Val, "rate-from-capped-function", CallRes(Callee(cimpl, "dropRequestsPerMillion"), 0))
			}
		}
		c.Expect(n >= 1, nil, nil, "drop-config-sites", "no drop configuration construction site found")
		nd := c.fn(cimpl, "newDropper")
		adds := callsIn(nd, Callee(wrrp, "WRR.Add"))
		if c.Expect(len(adds) == 2, nil, nd, "two-outcomes", "the dropper does not have a drop and a pass outcome") {
			for _, a := range adds {
				w := stripConv(a.Common().Args[1])
				q, ok := w.(*ssa.BinOp)
				if !c.Expect(ok && q.Op == token.QUO, a, nd, "weight-is-count/gcd", "dropper weight is not a count divided by the gcd") {
					continue
				}
				if ConstBool(true)(a.Common().Args[0]) {
					c.Expect(FieldLoad(fRPM)(q.X), a, nd, "drop-weight-is-rate", "the drop outcome's weight is not the rate")
				} else {
					c.Expect(BinOpV(token.SUB, ConstInt(1000000), FieldLoad(fRPM))(q.X), a, nd, "pass-weight-is-complement", "the pass outcome's weight is not 1e6 - rate")
				}
			}
		}
	})
	c.Ob("circuit-breaker", "R12", "circuit breaking: a request is counted only below the limit; after a counted request every return either ended it (failed child pick) or installed a Done callback that ends it and chains the previous Done", 5, func() {
		sr := c.fn("internal/xds/xdsclient", "ClusterRequestsCounter.StartRequest")
		fNum := c.field("internal/xds/xdsclient", "ClusterRequestsCounter", "numRequests")
		ld := CallWith(CalleeX("sync/atomic", "LoadUint32"), 0, FieldAddrOf(fNum))
		for _, in := range instrsWhere(sr, func(in ssa.Instruction) bool {
			call, ok := in.(*ssa.Call)
			return ok && CalleeX("sync/atomic", "AddUint32")(&call.Call)
		}) {
			c.MustFact(in, "counted-only-below-limit", Cmp(ld, token.LSS, ParamV("max")))
		}
		isInc := func(in ssa.Instruction) bool {
			call, ok := in.(*ssa.Call)
			return ok && CalleeX("sync/atomic", "AddUint32")(&call.Call) && FieldAddrOf(fNum)(call.Call.Args[0]) && ConstInt(1)(call.Call.Args[1])
		}
		for _, r := range returnsOf(sr) {
			if ConstNil(r.Results[0]) {
				c.MustFact(r, "admitted-only-below-limit", Cmp(ld, token.LSS, ParamV("max")))
			} else {
				// rejected only at or above the limit
				c.MustFact(r, "rejected-only-at-limit", Cmp(ld, token.GEQ, ParamV("max")))
			}
		}
		c.MustPass("admitted-request-is-counted", pathQuery{Fn: sr, AtEntry: true, Barrier: isInc, Target: func(in ssa.Instruction) bool {
			r, ok := in.(*ssa.Return)
			return ok && ConstNil(r.Results[0])
		}}, nil)
		er := c.fn("internal/xds/xdsclient", "ClusterRequestsCounter.EndRequest")
		nDec := 0
		for _, in := range instrsWhere(er, func(in ssa.Instruction) bool {
			call, ok := in.(*ssa.Call)
			return ok && CalleeX("sync/atomic", "AddUint32")(&call.Call) && FieldAddrOf(fNum)(call.Call.Args[0])
		}) {
			nDec++
			c.ArgIs(in.(*ssa.Call), 1, "ended-request-uncounted-by-one", ConstNum(4294967295))
		}
		c.Expect(nDec == 1, nil, er, "one-decrement", "EndRequest does not decrement the request count exactly once")
		f := c.fn(cimpl, "picker.Pick")
		start := one(c, "StartRequest call", callsIn(f, Callee("internal/xds/xdsclient", "ClusterRequestsCounter.StartRequest")))
		end := Callee("internal/xds/xdsclient", "ClusterRequestsCounter.EndRequest")
		fDone := c.field("balancer", "PickResult", "Done")
		var doneStore *ssa.Store
		for _, st := range storesToField(f, fDone) {
			if cl := funcOfValue(st.Val); cl != nil && len(callsIn(cl, end)) == 1 {
				doneStore = st
			}
		}
		if doneStore == nil {
			panic(missingStep{"no Done callback ending the circuit-breaker request"})
		}
		q := pathQuery{Fn: f, Starts: []ssa.Instruction{start}, Barrier: orInstr(isCallTo(end), func(in ssa.Instruction) bool { return in == ssa.Instruction(doneStore) }), Target: isReturn,
			EdgeBlock: func(from, to *ssa.BasicBlock) bool {
				fs := edgeFacts(from, to)
				if _, ok := hasFact(fs, NotNil(CallRes(Callee("internal/xds/xdsclient", "ClusterRequestsCounter.StartRequest"), 0))); ok {
					return true
				}
				// a request was started only with a counter configured: arms re-testing the (immutable) counter field as nil are infeasible here
				_, ok := hasFact(fs, IsNil(FieldLoad(c.field(cimpl, "picker", "counter"))))
				return ok
			}}
		c.MustPass("started-request-always-ended", q, start)
		for _, e := range callsIn(f, end) {
			c.MustFact(e, "ended-directly-only-on-failed-pick", NotNil(CallRes(Callee("balancer", "Picker.Pick"), 1)))
		}
		cl := funcOfValue(doneStore.Val)
		c.MustPass("done-always-ends-request", pathQuery{Fn: cl, AtEntry: true, Barrier: isCallTo(end), Target: isReturn}, doneStore)
		// refused request is reported as a drop and fails with UNAVAILABLE
		c.statusCodeIn(blocksWhere(f, NotNil(CallRes(Callee("internal/xds/xdsclient", "ClusterRequestsCounter.StartRequest"), 0))), f, "circuit-broken->Unavailable", "Unavailable")
	})
}
