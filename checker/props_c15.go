package main

import (
	"go/token"
	"go/types"

	"golang.org/x/tools/go/ssa"
)

func init() {
	register(&PropDef{
		ID:    "C15",
		Pkgs:  []string{tr},
		Claim: "Decides the structural part of the keepalive logic: the server sends GOAWAY(ENHANCE_YOUR_CALM, too_many_pings) only when the strike counter exceeds 2; a strike is counted only when a ping arrived sooner than the applicable minimum interval after the previous one (the configured MinTime when there are active streams or pings without streams are permitted, 2 hours otherwise); strikes are reset when the server wrote headers or data since (flag set by the on-write hooks of every server HEADERS/DATA item); both keepalive loops close the connection only with a ping outstanding and no timeout left, after the 'data was read since' arm was not taken, and sleep no longer than the remaining timeout; the client goes dormant only with no active streams and PermitWithoutStream off. No duration is decided. Both reader loops store the time of every successful frame read into lastRead before the frame is dispatched (on the client unless keepalive is disabled), so a connection that delivers frames is never taken for a dead one.",
		NotDecided:  []string{"every real-time bound (detection within Time+Timeout, 2-hour spacing, ping rate) - real-time quantities", "clock behaviour"},
		Assumptions: []string{"time.Timer semantics"},
		Technique:   "static analysis: dominating guards and refusing-arm unreachability on go/ssa branch facts, symbolic upper bound of the sleep duration, value-origin of hook fields, who-may-write",
		Run:         c15,
	})
}

func c15(c *Ctx) {
	sv := func(f string) *types.Var { return c.field(tr, "http2Server", f) }
	c.Ob("strike-threshold", "R7", "server ping policing: GOAWAY(ENHANCE_YOUR_CALM, \"too_many_pings\") only on strikes > 2; strikes++ only when lastPingAt+X is after now, X = MinTime with streams (or PermitWithoutStream) and 2h otherwise; strikes reset on CAS(resetPingStrikes,1,0)", 8, func() {
		f := c.fn(tr, "http2Server.handlePing")
		fStr := sv("pingStrikes")
		fCode := c.field(tr, "goAway", "code")
		var ga *ssa.Store
		for _, st := range storesToField(f, fCode) {
			ga = st
		}
		if ga == nil {
			panic(missingStep{"no goAway item built in handlePing"})
		}
		c.ValueIs(ga, ga.Val, "code-is-ENHANCE_YOUR_CALM", ConstOfObj(c.konst(h2, "ErrCodeEnhanceYourCalm")))
		c.MustFact(ga, "only-above-two-strikes", CmpInt(FieldLoad(fStr), token.GTR, 2))
		fDbg := c.field(tr, "goAway", "debugData")
		for _, st := range storesToField(f, fDbg) {
			c.ValueIs(st, st.Val, "debug-data-too_many_pings", DataDep(ConstStr("too_many_pings")))
		}
		after := func(x VM) FM {
			return Truth(CallWith(CalleeX("time", "Time.After"), 0, CallWith(CalleeX("time", "Time.Add"), 1, x)), true)
		}
		fMin := c.field("keepalive", "EnforcementPolicy", "MinTime")
		fPerm := c.field("keepalive", "EnforcementPolicy", "PermitWithoutStream")
		twoH := ConstInt(int64(2 * 3600e9))
		nMin, nDef := 0, 0
		for _, st := range storesToField(f, fStr) {
			if ConstInt(0)(st.Val) {
				c.MustFact(st, "reset-only-after-server-wrote", Truth(func(v ssa.Value) bool {
					call, ok := strip(v).(*ssa.Call)
					return ok && CalleeX("sync/atomic", "CompareAndSwapUint32")(&call.Call) && FieldAddrOf(sv("resetPingStrikes"))(call.Call.Args[0]) && ConstInt(1)(call.Call.Args[1]) && ConstInt(0)(call.Call.Args[2])
				}, true))
				continue
			}
			if !c.ValueIs(st, st.Val, "strike-by-one", BinOpV(token.ADD, FieldLoad(fStr), ConstInt(1))) {
				continue
			}
			switch {
			case c.HasFact(st, after(FieldLoad(fMin))):
				nMin++
				// with streams or permitted: not (ns < 1 && !Permit)
				c.Unreachable(st, "MinTime-not-used-for-unpermitted-idle-pings", CmpInt(LenOf(FieldLoad(sv("activeStreams"))), token.LSS, 1), Truth(FieldLoad(fPerm), false))
			case c.HasFact(st, after(twoH)):
				nDef++
				c.MustFact(st, "2h-only-without-streams", CmpInt(LenOf(FieldLoad(sv("activeStreams"))), token.LSS, 1))
				c.MustFact(st, "2h-only-if-not-permitted", Truth(FieldLoad(fPerm), false))
			default:
				c.Expect(false, st, f, "strike-needs-too-early-ping", "a strike is counted without the 'ping arrived too early' test")
			}
		}
		c.Expect(nMin == 1 && nDef == 1, nil, f, "two-strike-arms", "expected one strike arm with MinTime and one with the 2-hour default")
		c.WhoMayMutate("pingStrikes", fStr, c.scope(tr), "internal/transport.http2Server.handlePing")
	})
	c.Ob("reset-source", "R8", "the strike-reset flag is raised by the on-write hook of every server HEADERS item and the per-write hook of every server DATA item", 3, func() {
		fHook := sv("setResetPingStrikes")
		isReset := FieldLoad(fHook)
		n := 0
		for _, f := range c.scope(tr) {
			top := shortName(topFunc(f))
			if len(top) < len("internal/transport.http2Server") || top[:len("internal/transport.http2Server")] != "internal/transport.http2Server" {
				continue
			}
			for _, st := range storesToField(f, c.field(tr, "serverHeaders", "onWrite")) {
				n++
				c.ValueIs(st, st.Val, "headers-hook-resets-strikes", isReset)
			}
			for _, st := range storesToField(f, c.field(tr, "dataFrame", "onEachWrite")) {
				n++
				c.ValueIs(st, st.Val, "data-hook-resets-strikes", isReset)
			}
		}
		c.Expect(n >= 3, nil, nil, "hook-sites", "fewer server HEADERS/DATA construction sites with hooks than confirmed by hand")
		// the hook itself raises the flag; it is assigned once, in the constructor
		muts := c.WhoMayMutate("setResetPingStrikes", fHook, c.scope(tr), "internal/transport.NewServerTransport")
		ok := false
		for _, m := range muts {
			if cl := funcOfValue(m.Val); cl != nil {
				for _, ci := range callsIn(cl, CalleeX("sync/atomic", "StoreUint32")) {
					if FieldAddrOf(sv("resetPingStrikes"))(ci.Common().Args[0]) && ConstInt(1)(ci.Common().Args[1]) {
						ok = true
					}
				}
			}
		}
		c.Expect(ok, nil, nil, "hook-raises-flag", "the strike-reset hook does not raise the reset flag")
	})
	c.Ob("client-keepalive-enabled", "R2", "NewHTTP2Client: keepalive is enabled exactly when the (defaulted) keepalive Time is not 'infinity', and the keepalive goroutine is started exactly when it is enabled", 3, func() {
		f := c.fn(tr, "NewHTTP2Client")
		fEn := c.field(tr, "http2Client", "keepaliveEnabled")
		inf := ConstOfObj(c.konst(tr, "infinity"))
		st := one(c, "store of keepaliveEnabled", storesToField(f, fEn))
		ph, ok := st.Val.(*ssa.Phi)
		if c.Expect(ok, st, f, "enabled-flag-is-decided-on-Time", "keepaliveEnabled is not chosen between false and true") {
			nT, nF := 0, 0
			for i, e := range ph.Edges {
				pr := ph.Block().Preds[i]
				fs := append(append([]Fact(nil), FactsAtBlock(pr)...), edgeOnlyFacts(pr, ph.Block())...)
				switch {
				case ConstBool(true)(e):
					nT++
					_, ok := hasFact(fs, Cmp(AnyV, token.NEQ, inf))
					c.Expect(ok, st, f, "enabled-only-for-a-finite-Time", "keepalive is enabled although Time is 'infinity'")
				case ConstBool(false)(e):
					nF++
					_, ok := hasFact(fs, Cmp(AnyV, token.EQL, inf))
					c.Expect(ok, st, f, "disabled-only-for-infinite-Time", "keepalive is left disabled although a finite Time is configured (a dead peer would never be detected)")
				default:
					c.Expect(false, st, f, "enabled-flag-shape", "unexpected source of keepaliveEnabled")
				}
			}
			c.Expect(nT == 1 && nF == 1, st, f, "enabled-flag-arms", "expected one enabling and one disabling arm")
		}
		var goKA *ssa.Go
		for _, in := range instrsWhere2(f, func(in ssa.Instruction) bool {
			g, ok := in.(*ssa.Go)
			return ok && Callee(tr, "http2Client.keepalive")(&g.Call)
		}) {
			goKA = in.(*ssa.Go)
		}
		if c.Expect(goKA != nil, nil, f, "keepalive-goroutine-started", "the keepalive goroutine is never started") {
			c.MustFact(goKA, "started-only-when-enabled", Truth(FieldLoad(fEn), true))
			if len(goKA.Block().Succs) == 1 {
				c.EnteredOnlyWhenExcept(goKA.Block().Succs[0], "skipped-only-when-disabled", func(p *ssa.BasicBlock) bool { return p == goKA.Block() }, Truth(FieldLoad(fEn), false))
			}
		}
	})
	c.Ob("client-dormancy", "R3", "client keepalive dormancy: the goroutine goes dormant (flag set, cond.Wait) only with no active stream and PermitWithoutStream off, and clears the flag when it resumes; every new stream (and Close) signals the condition variable whenever the flag is set — the signal is skipped only when the goroutine is not dormant, under no further condition", 4, func() {
		fDor := c.field(tr, "http2Client", "kpDormant")
		fAct := c.field(tr, "http2Client", "activeStreams")
		ka := c.fn(tr, "http2Client.keepalive")
		wait := one(c, "cond.Wait in keepalive", callsIn(ka, CalleeX("sync", "Cond.Wait")))
		c.MustFact(wait, "dormant-only-without-streams", CmpInt(LenOf(FieldLoad(fAct)), token.LSS, 1))
		c.MustFact(wait, "dormant-only-without-permit-without-stream", Truth(FieldLoad(c.field("keepalive", "ClientParameters", "PermitWithoutStream")), false))
		nT, nF := 0, 0
		for _, st := range storesToField(ka, fDor) {
			switch {
			case ConstBool(true)(st.Val):
				nT++
				c.Dominates(st, wait, "flag-set-before-waiting")
				c.Expect(together(st, wait), st, ka, "flag-set-in-the-waiting-arm", "the dormancy flag is set outside the arm that waits")
			case ConstBool(false)(st.Val):
				nF++
			}
		}
		c.Expect(nT == 1 && nF == 1, nil, ka, "flag-set-and-cleared", "expected the dormancy flag to be set before waiting and cleared on resuming")
		// wake-up sites
		nSig := 0
		for _, f := range c.scope(tr) {
			top := shortName(topFunc(f))
			if top != "internal/transport.http2Client.NewStream" && top != "internal/transport.http2Client.Close" {
				continue
			}
			for _, sg := range callsIn(f, CalleeX("sync", "Cond.Signal")) {
				nSig++
				c.MustFact(sg, "signal-only-when-dormant", Truth(FieldLoad(fDor), true))
				if len(sg.Block().Preds) == 1 {
					test := sg.Block().Preds[0]
					for _, su := range test.Succs {
						if su != sg.Block() {
							c.EnteredOnlyWhenFrom(su, "signal-skipped-only-when-not-dormant", test, Truth(FieldLoad(fDor), false))
						}
					}
					// the test itself is on the flag alone
					if i, ok := test.Instrs[len(test.Instrs)-1].(*ssa.If); ok {
						c.Expect(FieldLoad(fDor)(i.Cond), sg, f, "wake-up-test-is-the-dormancy-flag-alone", "the wake-up of the dormant keepalive goroutine depends on more than the dormancy flag (a stream registered while another is being set up would not wake it)")
					}
				}
			}
		}
		c.Expect(nSig == 2, nil, nil, "wake-up-sites", "expected the new-stream and the Close wake-up of the dormant keepalive goroutine")
	})
	c.Ob("activity-recorded", "R3", "reader loops (client reader, server HandleStreams): after every frame read the time of the read is stored into lastRead before the frame is dispatched — on the client unless keepalive is disabled — so the keepalive loop never takes a connection that delivers frames (including the ping ack) for a dead one", 2, func() {
		for _, side := range []struct{ fn, typ string }{{"http2Client.reader", "http2Client"}, {"http2Server.HandleStreams", "http2Server"}} {
			f := c.fn(tr, side.fn)
			fLR := c.field(tr, side.typ, "lastRead")
			rf := one(c, "readFrame call in "+side.fn, callsIn(f, Callee(tr, "framer.readFrame")))
			isStore := func(in ssa.Instruction) bool {
				call, ok := in.(*ssa.Call)
				return ok && CalleeX("sync/atomic", "StoreInt64")(&call.Call) && FieldAddrOf(fLR)(call.Call.Args[0])
			}
			// what acts on the result of the read: any call on the transport or the stream table, and any return
			acts := func(in ssa.Instruction) bool {
				if _, ok := in.(*ssa.Return); ok {
					return true
				}
				ci, ok := in.(ssa.CallInstruction)
				if !ok || isStore(in) {
					return false
				}
				callee := ci.Common().StaticCallee()
				return callee != nil && callee.Pkg != nil && callee.Pkg.Pkg.Path() == full(tr) && callee.Name() != "readFrame"
			}
			// (the arm that handles a failed read is not followed: whether a failed read counts as activity
			// is not part of the property)
			rerr := NotNil(ExtractOf(func(v ssa.Value) bool { return v == rf.Value() }, 1))
			q := pathQuery{Fn: f, Starts: []ssa.Instruction{rf}, Barrier: isStore, Target: acts}
			isClient := side.typ == "http2Client"
			q.EdgeBlock = func(from, to *ssa.BasicBlock) bool {
				fs := edgeFacts(from, to)
				if _, failed := hasFact(fs, rerr); failed {
					return true
				}
				if isClient {
					_, off := hasFact(fs, Truth(FieldLoad(c.field(tr, "http2Client", "keepaliveEnabled")), false))
					return off
				}
				return false
			}
			c.MustPass(side.fn+":read-time-stored-before-the-frame-is-acted-on", q, rf)
			n := 0
			for _, in := range instrsWhere(f, isStore) {
				if instrDominates(rf, in) {
					n++
					c.ArgIs(in.(*ssa.Call), 1, side.fn+":stores-the-current-time", CallRes(CalleeX("time", "Time.UnixNano"), 0))
				}
			}
			c.Expect(n >= 1, rf, f, side.fn+":read-time-store", "no store of lastRead after the frame read")
		}
	})
	c.Ob("keepalive-close", "R2", "sibling x2 (client, server keepalive loops): the connection is closed for a missing ack only with a ping outstanding, no timeout left, and no data read since the last check; the sleep is at most the remaining timeout and at most Time; a ping is sent only when none is outstanding", 10, func() {
		for _, side := range []struct {
			fn, kpT string
		}{{"http2Client.keepalive", "ClientParameters"}, {"http2Server.keepalive", "ServerParameters"}} {
			f := c.fn(tr, side.fn)
			fTime := c.field("keepalive", side.kpT, "Time")
			fTimeout := c.field("keepalive", side.kpT, "Timeout")
			lastRead := func(v ssa.Value) bool {
				call, ok := strip(v).(*ssa.Call)
				return ok && CalleeX("sync/atomic", "LoadInt64")(&call.Call)
			}
			// the remaining-timeout variable: a loop phi fed (through phis and "x - slept") by kp.Timeout
			fedByTimeout := func(v ssa.Value) bool {
				seen := map[ssa.Value]bool{}
				var walk func(x ssa.Value) bool
				walk = func(x ssa.Value) bool {
					x = stripConv(x)
					if seen[x] {
						return false
					}
					seen[x] = true
					if FieldLoad(fTimeout)(x) {
						return true
					}
					switch y := x.(type) {
					case *ssa.Phi:
						for _, e := range y.Edges {
							if walk(e) {
								return true
							}
						}
					case *ssa.BinOp:
						if y.Op == token.SUB {
							return walk(y.X)
						}
					}
					return false
				}
				return walk(v)
			}
			isRem := func(v ssa.Value) bool {
				_, ok := stripConv(v).(*ssa.Phi)
				return ok && isIntegral(v.Type()) && fedByTimeout(v)
			}
			var remaining *ssa.Phi
			for _, in := range instrsWhere(f, func(in ssa.Instruction) bool { p, ok := in.(*ssa.Phi); return ok && isRem(p) }) {
				remaining = in.(*ssa.Phi)
			}
			if remaining == nil {
				panic(missingStep{"no remaining-timeout variable fed by kp.Timeout in " + side.fn})
			}
			// the closing arm
			var closing []ssa.Instruction
			if side.fn == "http2Client.keepalive" {
				closing = instrsWhere(f, isCallTo(Callee(tr, "connectionErrorf")))
			} else {
				closing = instrsWhere(f, isCallTo(Callee(tr, "http2Server.Close")))
			}
			cl := one(c, "closing action in "+side.fn, closing)
			c.MustFact(cl, "no-timeout-left", CmpInt(isRem, token.LEQ, 0))
			c.MustFact(cl, "ping-outstanding", Truth(func(v ssa.Value) bool { _, ok := v.(*ssa.Phi); return ok }, true))
			c.MustFact(cl, "nothing-read-since", Cmp(lastRead, token.LEQ, AnyV))
			// sleep bounded by the remaining timeout and by Time
			var resets []ssa.CallInstruction
			for _, r := range callsIn(f, CalleeX("time", "Timer.Reset")) {
				if builtinCall(stripConv(r.Common().Args[1]), "min") != nil || boundedBy(r.Common().Args[1], FieldLoad(fTime)) && !DataDep(lastRead)(r.Common().Args[1]) {
					resets = append(resets, r)
				}
			}
			rs := one(c, "sleep of the ping branch in "+side.fn, resets)
			c.nontrivial("ub-sleep" + side.fn)
			c.Expect(boundedBy(rs.Common().Args[1], isRem), rs, f, "sleep<=remaining-timeout", "the keepalive loop can sleep longer than the remaining ack timeout (a dead peer is detected late)")
			c.Expect(boundedBy(rs.Common().Args[1], FieldLoad(fTime)), rs, f, "sleep<=Time", "the keepalive loop can sleep longer than the keepalive time")
			// the remaining timeout is decreased by exactly the sleep
			okDec := false
			for _, in := range instrsWhere(f, func(in ssa.Instruction) bool { b, ok := in.(*ssa.BinOp); return ok && b.Op == token.SUB }) {
				b := in.(*ssa.BinOp)
				if isRem(b.X) && stripConv(b.Y) == stripConv(rs.Common().Args[1]) {
					okDec = true
				}
			}
			c.Expect(okDec, rs, f, "remaining-decreased-by-sleep", "the remaining timeout is not decreased by the time slept")
			// a ping is put only when none is outstanding
			for _, p := range callsIn(f, Callee(tr, "controlBuffer.put")) {
				if _, isPing := p.Common().Args[1].(*ssa.MakeInterface); isPing && types.Identical(p.Common().Args[1].(*ssa.MakeInterface).X.Type(), types.NewPointer(c.P.LookupType(tr, "ping"))) {
					c.MustFact(p, "ping-only-if-none-outstanding", Truth(func(v ssa.Value) bool { _, ok := v.(*ssa.Phi); return ok }, false))
				}
			}
		}
		// client dormancy
		f := c.fn(tr, "http2Client.keepalive")
		w := one(c, "dormancy wait", callsIn(f, CalleeX("sync", "Cond.Wait")))
		c.MustFact(w, "dormant-only-without-streams", CmpInt(LenOf(FieldLoad(c.field(tr, "http2Client", "activeStreams"))), token.LSS, 1))
		c.MustFact(w, "dormant-only-if-not-permitted", Truth(FieldLoad(c.field("keepalive", "ClientParameters", "PermitWithoutStream")), false))
		// Close and stream creation wake a dormant keepalive
		for _, name := range []string{"http2Client.Close", "http2Client.NewStream"} {
			g := c.fn(tr, name)
			n := len(callsInTree(g, CalleeX("sync", "Cond.Signal")))
			c.Expect(n == 1, nil, g, "wakes-dormant-keepalive", name+" does not signal the dormant keepalive goroutine")
		}
	})
}
