package main

import (
	"go/token"
	"go/types"

	"golang.org/x/tools/go/ssa"
)

const gsp = "internal/balancer/gracefulswitch"

func init() {
	register(&PropDef{
		ID:    "C33",
		Pkgs:  []string{gsp},
		Claim: "Decides the structural part: every call a child wrapper forwards to the channel (UpdateState, NewSubConn, UpdateAddresses, ResolveNow) and every swap is on the arm where the wrapper is still the current or pending one (resp. the latest one), tested under the switch mutex; a direct state forward happens only for the current wrapper and not on the arm where it left READY with a pending present; the current wrapper leaving READY with a pending present, the pending reporting a state other than CONNECTING, and the current's last state not being READY each lead to swap; swap is unreachable while pending is CONNECTING and current's last state is READY; swap forwards the pending's last recorded state, promotes pending, clears pending and closes the old current; each update records the wrapper's last state before anything else; closing a wrapper closes the child and shuts down every tracked subchannel; a subchannel created while the wrapper was removed is shut down and not tracked; Close and switchTo close the replaced wrappers; current/pending/closed and the wrappers' lastState/subconns are accessed under the switch mutex.",
		NotDecided:  []string{"arbitrary interleavings of updates from current/pending with repeated switches against a model", "that child policies stop calling after Close"},
		Assumptions: []string{"sync.Mutex semantics"},
		Technique:   "static analysis: enumeration of all calls through the parent ClientConn field, must-hold branch facts and refusing-arm unreachability on go/ssa, per-disjunct must-pass-through, who-may-call/write, must-lockset",
		Run:         c33,
	})
}

func c33(c *Ctx) {
	gb, bw := "Balancer", "balancerWrapper"
	fCC := c.field(gsp, gb, "cc")
	fCur := c.field(gsp, gb, "balancerCurrent")
	fPend := c.field(gsp, gb, "balancerPending")
	fClosed := c.field(gsp, gb, "closed")
	fLast := c.field(gsp, bw, "lastState")
	fSubs := c.field(gsp, bw, "subconns")
	fCS := c.field("balancer", "State", "ConnectivityState")
	mu := c.field(gsp, gb, "mu")
	k := func(n string) VM { return ConstOfObj(c.konst("connectivity", n)) }
	cop := Truth(CallRes(Callee(gsp, gb+".balancerCurrentOrPending"), 0), true)
	latest := Cmp(ParamV("bw"), token.EQL, CallRes(Callee(gsp, gb+".latestBalancer"), 0))
	isSwap := isCallTo(Callee(gsp, gb+".swap"))
	us := c.fn(gsp, bw+".UpdateState")
	paramCS := func(v ssa.Value) bool { return FieldLoad(fCS)(v) && rootIsParam(v, "state") }

	c.Ob("stale-updates", "R2", "every call through the parent ClientConn from a wrapper method is guarded by 'still current or pending' (ResolveNow: 'is the latest'); the other parent calls are swap's forward and the no-policy resolver error", 6, func() {
		n := 0
		for _, f := range c.scope(gsp) {
			for _, ci := range callsIn(f, func(cc *ssa.CallCommon) bool { return cc.IsInvoke() && FieldLoad(fCC)(cc.Value) }) {
				n++
				m := ci.Common().Method.Name()
				c.inst("parent." + m + " <- " + c.siteStr(ci))
				top := shortName(topFunc(f))
				switch {
				case top == gsp+"."+gb+".swap":
					c.Expect(m == "UpdateState", ci, f, "swap-forwards-state-only", "swap calls something other than UpdateState on the parent")
				case top == gsp+"."+gb+".ResolverError":
					c.MustFact(ci, "resolver-error-to-parent-only-without-policy", IsNil(CallRes(Callee(gsp, gb+".latestBalancer"), 0)))
				case f.Signature.Recv() != nil && shortName(f) == gsp+"."+bw+"."+f.Name():
					c.MustFactAny(ci, m+":only-from-live-wrapper", cop, latest)
				default:
					c.Expect(false, ci, f, "parent-call-site", "the parent ClientConn is called from an unreviewed site")
				}
			}
		}
		for _, ci := range callsIn(us, Callee(gsp, gb+".balancerCurrentOrPending")) {
			c.ArgIs(ci, 1, "liveness-of-this-wrapper", ParamV("bw"))
		}
		for _, f := range c.scope(gsp) {
			if f.Signature.Recv() == nil || shortName(f) != gsp+"."+bw+"."+f.Name() {
				continue
			}
			for _, ci := range callsIn(f, Callee(gsp, gb+".balancerCurrentOrPending")) {
				c.ArgIs(ci, 1, f.Name()+":liveness-of-this-wrapper", ParamV("bw"))
				ls := locksets(f, lockOpts{})
				c.Expect(ls[ci][mu], ci, f, f.Name()+":liveness-tested-under-mu", "the liveness test runs without the switch mutex")
			}
		}
		_ = n
	})
	c.Ob("swap-conditions", "R7", "swap only from wrapper.UpdateState, only for a live wrapper; current: swap iff state != READY and pending exists, else forward; pending: swap iff state != CONNECTING or current's last state != READY", 10, func() {
		sites := c.WhoMayCall("swap", Callee(gsp, gb+".swap"), c.scope(gsp), gsp+"."+bw+".UpdateState")
		c.Expect(len(sites) == 2, nil, us, "two-swap-sites", "expected two swap sites (current leaves READY, pending ready to take over)")
		isCur := Cmp(ParamV("bw"), token.EQL, FieldLoad(fCur))
		notCur := Cmp(ParamV("bw"), token.NEQ, FieldLoad(fCur))
		curLast := func(v ssa.Value) bool { return FieldLoad(fCS)(v) && !rootIsParam(v, "state") }
		ls := locksets(us, lockOpts{})
		for _, s := range sites {
			c.MustFact(s, "swap-only-for-live-wrapper", cop)
			c.Expect(ls[s][mu], s, us, "swap-under-mu", "swap without the switch mutex")
			if c.HasFact(s, isCur) {
				c.MustFact(s, "current:swap-only-when-leaving-READY", Cmp(paramCS, token.NEQ, k("Ready")))
				c.MustFact(s, "current:swap-only-with-pending", NotNil(FieldLoad(fPend)))
			} else {
				c.MustFact(s, "pending:swap-site-is-for-pending", notCur)
				c.Unreachable(s, "pending:no-swap-while-new-CONNECTING-and-old-READY", Cmp(paramCS, token.EQL, k("Connecting")), Cmp(curLast, token.EQL, k("Ready")))
			}
		}
		// forward
		var fwd ssa.CallInstruction
		for _, ci := range callsIn(us, func(cc *ssa.CallCommon) bool { return cc.IsInvoke() && FieldLoad(fCC)(cc.Value) }) {
			fwd = ci
		}
		if c.Expect(fwd != nil, nil, us, "forward-site", "the current policy's updates are not forwarded") {
			c.MustFact(fwd, "forward-only-for-current", isCur)
			c.ArgIs(fwd, 0, "forwards-the-reported-state", ParamV("state"))
			c.Unreachable(fwd, "no-forward-when-swapping", Cmp(paramCS, token.NEQ, k("Ready")), NotNil(FieldLoad(fPend)))
		}
		// each trigger leads to swap
		type trig struct {
			l     string
			edge  FM
			block []FM
		}
		for _, t := range []trig{
			{"current-leaves-READY-with-pending", NotNil(FieldLoad(fPend)), []FM{isCur, Cmp(paramCS, token.NEQ, k("Ready"))}},
			{"pending-leaves-CONNECTING", Cmp(paramCS, token.NEQ, k("Connecting")), []FM{notCur}},
			{"current-not-READY-when-pending-updates", Cmp(curLast, token.NEQ, k("Ready")), []FM{notCur}},
		} {
			var starts []*ssa.BasicBlock
			for _, b := range us.Blocks {
				for _, su := range b.Succs {
					if _, ok := hasFact(edgeOnlyFacts(b, su), t.edge); ok && hasAllFacts(FactsAtBlock(b), t.block) {
						starts = append(starts, su)
					}
				}
			}
			if c.Expect(len(starts) > 0, nil, us, "trigger:"+t.l, "the swap trigger is not tested") {
				c.MustPass("trigger-swaps:"+t.l, pathQuery{Fn: us, StartBlocks: starts, Barrier: isSwap, Target: isReturn}, nil)
			}
		}
		// last state recorded first
		st := one(c, "store to lastState in UpdateState", storesToField(us, fLast))
		c.ValueIs(st, st.Val, "records-the-reported-state", ParamV("state"))
		for _, s := range sites {
			c.Dominates(st, s, "last-state-recorded-before-swap")
		}
		c.Expect(len(FactsAt(st)) == 0, st, us, "last-state-recorded-unconditionally", "the last state is recorded only on some arms")
	})
	c.Ob("swap-body", "R3", "swap: forwards pending.lastState, promotes pending to current, clears pending, closes the old current under currentMu", 5, func() {
		sw := c.fn(gsp, gb+".swap")
		up := one(c, "parent UpdateState in swap", callsIn(sw, func(cc *ssa.CallCommon) bool { return cc.IsInvoke() && FieldLoad(fCC)(cc.Value) }))
		c.ArgIs(up, 0, "forwards-pending's-last-state", FieldLoadOn(fLast, FieldLoad(fPend)))
		sc := one(c, "store balancerCurrent", storesToField(sw, fCur))
		c.ValueIs(sc, sc.Val, "pending-becomes-current", FieldLoad(fPend))
		sp := one(c, "store balancerPending", storesToField(sw, fPend))
		c.ValueIs(sp, sp.Val, "pending-cleared", ConstNil)
		c.Dominates(up, sp, "forward-before-pending-cleared")
		c.Dominates(sc, sp, "promoted-before-cleared")
		// old current closed
		okClose := false
		for _, g := range sw.AnonFuncs {
			for _, cl := range callsIn(g, Callee(gsp, bw+".Close")) {
				mc := makeClosureOf(g)
				if u, ok := cl.Common().Args[0].(*ssa.UnOp); ok && mc != nil {
					for i, fv := range g.FreeVars {
						if fv == u.X {
							if al, ok := mc.Bindings[i].(*ssa.Alloc); ok {
								for _, s := range storesTo(al) {
									if FieldLoad(fCur)(s.Val) && instrDominates(s, sc) {
										okClose = true
									}
								}
							}
						}
					}
				}
				lsg := locksets(g, lockOpts{})
				c.Expect(lsg[cl][c.field(gsp, gb, "currentMu")], cl, g, "old-current-closed-under-currentMu", "the old policy is closed without currentMu")
			}
		}
		c.Expect(okClose, nil, sw, "old-current-closed", "swap does not close the policy that was current before the swap")
	})
	c.Ob("close-shuts-subconns", "R3", "wrapper.Close closes the child then shuts down every tracked subchannel; NewSubConn tracks the subchannel only while live and shuts it down otherwise; Balancer.Close and switchTo close the wrappers they replace", 8, func() {
		cf := c.fn(gsp, bw+".Close")
		child := one(c, "child Close", callsIn(cf, Callee("balancer", "Balancer.Close")))
		sd := one(c, "Shutdown in wrapper.Close", callsIn(cf, Callee("balancer", "SubConn.Shutdown")))
		c.Expect(RangeKeyOf(FieldLoad(fSubs))(sd.Common().Value), sd, cf, "every-tracked-subconn", "Shutdown is not applied to every tracked subchannel")
		c.MustPass("child-closed-on-every-path", pathQuery{Fn: cf, AtEntry: true, Barrier: func(in ssa.Instruction) bool { return in == ssa.Instruction(child) }, Target: isReturn,
			EdgeBlock: func(from, to *ssa.BasicBlock) bool {
				_, ok := hasFact(edgeFacts(from, to), IsNil(ParamV("bw")))
				return ok
			}}, nil)
		c.Dominates(child, sd, "child-closed-before-subconns")
		ns := c.fn(gsp, bw+".NewSubConn")
		for _, b := range ns.Blocks {
			for _, in := range b.Instrs {
				if mu, ok := in.(*ssa.MapUpdate); ok && FieldLoad(fSubs)(mu.Map) {
					var cr ssa.CallInstruction
					for _, ci := range callsIn(ns, func(cc *ssa.CallCommon) bool { return cc.IsInvoke() && FieldLoad(fCC)(cc.Value) }) {
						cr = ci
					}
					c.MustFact(mu, "tracked-only-while-live", cop)
					c.Expect(ConstBool(true)(mu.Value), mu, ns, "tracked-as-present", "the new subchannel is recorded as absent (it would not be shut down when the wrapper closes)")
					c.Expect(mu.Key == ssa.Value(cr.Value()) || DataDep(func(v ssa.Value) bool { return cr != nil && v == cr.Value() })(mu.Key), mu, ns, "tracks-the-created-subchannel", "the tracked subchannel is not the one just created")
					// the liveness test used is the one after creation
					ok2 := false
					for _, fc := range FactsAt(mu) {
						if fc.Kind == "truth" && fc.Pol && CallRes(Callee(gsp, gb+".balancerCurrentOrPending"), 0)(fc.X) {
							if call, ok := fc.X.(*ssa.Call); ok && cr != nil && instrDominates(cr, call) {
								ok2 = true
							}
						}
					}
					c.Expect(ok2, mu, ns, "liveness-rechecked-after-creation", "the subchannel is tracked without re-checking liveness after it was created")
				}
			}
		}
		c.Expect(c.ErrorsPropagate(ns, "wrapper.NewSubConn", nil) >= 1, nil, ns, "creation-error-site", "the parent's NewSubConn error is not tested")
		nsd := one(c, "Shutdown in NewSubConn", callsIn(ns, Callee("balancer", "SubConn.Shutdown")))
		c.MustFact(nsd, "orphan-subconn-shut-down", Truth(CallRes(Callee(gsp, gb+".balancerCurrentOrPending"), 0), false))
		// every error-free return has tracked the subchannel
		gc := c.fn(gsp, gb+".Close")
		cl := callsIn(gc, Callee(gsp, bw+".Close"))
		if c.Expect(len(cl) == 2, nil, gc, "Close-closes-both", "Balancer.Close does not close both current and pending") {
			okC, okP := false, false
			for _, x := range cl {
				if AllOrigins(FieldLoad(fCur))(x.Common().Args[0]) {
					okC = true
				}
				if AllOrigins(FieldLoad(fPend))(x.Common().Args[0]) {
					okP = true
				}
			}
			c.Expect(okC && okP, nil, gc, "Close-closes-current-and-pending", "Balancer.Close closes something other than the current and pending wrappers")
		}
		for _, st := range storesToField(gc, fClosed) {
			c.ValueIs(st, st.Val, "closed-set", ConstBool(true))
		}
		st := c.fn(gsp, gb+".switchTo")
		scl := one(c, "Close in switchTo", callsIn(st, Callee(gsp, bw+".Close")))
		c.ArgIs(scl, 0, "replaced-pending-closed", AllOrigins(FieldLoad(fPend)))
		for _, s := range append(storesToField(st, fCur), storesToField(st, fPend)...) {
			if !ConstNil(s.Val) {
				c.MustFact(s, "no-switch-after-close", Truth(FieldLoad(fClosed), false))
			}
		}
		for _, s := range storesToField(st, fPend) {
			if !ConstNil(s.Val) {
				c.MustFact(s, "new-policy-pending-only-if-a-current-exists", NotNil(FieldLoad(fCur)))
			}
		}
	})
	c.Ob("under-mu", "R4", "balancerCurrent/balancerPending/closed and wrapper lastState/subconns are accessed with the switch mutex held", 20, func() {
		c.GuardedBy(GuardSpec{Label: "switch-state", Mu: mu, Fields: []*types.Var{fCur, fPend, fClosed, fLast, fSubs}, Scope: c.scope(gsp),
			Locked: map[string]bool{gsp + "." + gb + ".swap": true, gsp + "." + gb + ".balancerCurrentOrPending": true}})
		c.WhoMayMutate("balancerCurrent", fCur, c.scope(gsp), gsp+"."+gb+".swap", gsp+"."+gb+".switchTo", gsp+"."+gb+".Close")
		c.WhoMayMutate("balancerPending", fPend, c.scope(gsp), gsp+"."+gb+".swap", gsp+"."+gb+".switchTo", gsp+"."+gb+".Close")
	})
}
