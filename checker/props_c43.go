package main

import (
	"go/token"
	"go/types"
	"strings"

	"golang.org/x/tools/go/ssa"
)

const xdscRes = "internal/xds/clients/xdsclient/internal/xdsresource"
const xdsSync = "internal/xds/clients/internal/syncutil"

func init() {
	register(&PropDef{
		ID:    "C43",
		Pkgs:  []string{xdsc},
		Claim: "Decides the structural part, per watcher-callback creation site in the authority: ResourceChanged callbacks are created only on the error-free arm, after the cache is overwritten with the resource they carry, and never on the arm where the cached resource is equal and no NACK intervened; on a rejected update watchers get ResourceError exactly when nothing is cached and AmbientError otherwise, and not at all for a repeated identical error; a stream failure maps to the same ResourceError/AmbientError split; the resource-removed ResourceError is created only for all-resources-required types, for a cached resource that is absent from the response, not already marked non-existent, and when ignore_resource_deletion is not set, after the cache is cleared; a new watcher is added to the watcher set on every successful registration and gets the cached resource, the NACK error (ResourceError/AmbientError by cache presence) and the not-found error on the corresponding arms; removing the last watcher unsubscribes from every channel and deletes the state; every watcher callback is invoked only inside a closure handed to the watcher-callback serializer. The per-type map and per-resource state are created only when absent (a new watcher therefore sees the cached resource and error state), a resource is subscribed only when new, and rejected-update notifications are produced only when there was no previous error or its text differs.",
		NotDecided:  []string{"the complete callback history against a reference model over all response/watch interleavings", "watch-expiry timer behaviour in the channel"},
		Assumptions: []string{"the callback serializer runs closures in FIFO order (C31)"},
		Technique:   "static analysis: enumeration of all interface invocations of ResourceWatcher methods, must-hold branch facts at each closure creation, refusing-arm unreachability, dominance of cache writes, must-pass-through",
		Run:         c43,
	})
	register(&PropDef{
		ID:    "C44",
		Pkgs:  []string{xdsc},
		Claim: "Decides the structural part: fallbackToServer is called only from stream-failure handling, only on the arm where the failure is not 'failed after receiving a response' and some watched resource is still in the Requested state, walking the servers from the failing server's index + 1; falling back does nothing when a channel already exists, and on success subscribes every known resource on the new channel and records it; an update from a server below the active one returns false and the caller then does nothing; an update from a higher-priority server makes that server active and, for every server index above it (starting exactly at its index + 1), unsubscribes every resource subscribed on that channel, runs and clears the cleanup and clears the channel; the active channel is written only in those functions and the open/close helpers. The walks that unsubscribe the resources of released lower-priority servers are never left early.",
		NotDecided:  []string{"sequences of failures and responses across servers against a model of gRFC A71", "channel reference counting inside the client implementation"},
		Assumptions: []string{"serverIndexForConfig returns the index of the matching config (it panics otherwise)"},
		Technique:   "static analysis: who-may-call, must-hold branch facts, loop-index initial-value shape on go/ssa phis, who-may-write, must-pass-through per loop iteration",
		Run:         c44,
	})
}

// makeClosureOf finds the MakeClosure instruction creating anonymous function g.
func makeClosureOf(g *ssa.Function) *ssa.MakeClosure {
	p := g.Parent()
	if p == nil {
		return nil
	}
	for _, b := range p.Blocks {
		for _, in := range b.Instrs {
			if mc, ok := in.(*ssa.MakeClosure); ok && mc.Fn == g {
				return mc
			}
		}
	}
	return nil
}

// loopInit: v is a loop phi (or a load of a loop cell) — returns its initial values (edges not data-dependent on the phi itself).
func loopInit(v ssa.Value) []ssa.Value {
	p, ok := v.(*ssa.Phi)
	if !ok {
		return nil
	}
	var out []ssa.Value
	for _, e := range p.Edges {
		if b, ok := e.(*ssa.BinOp); ok && (b.X == p || b.Y == p) {
			continue
		}
		out = append(out, e)
	}
	return out
}

func c43(c *Ctx) {
	au := "authority"
	fCache := c.field(xdsc, "resourceState", "cache")
	fMD := c.field(xdsc, "resourceState", "md")
	fWatchers := c.field(xdsc, "resourceState", "watchers")
	fStatus := c.field(xdscRes, "UpdateMetadata", "Status")
	fErrState := c.field(xdscRes, "UpdateMetadata", "ErrState")
	fTupErr := c.field(xdsc, "dataAndErrTuple", "Err")
	fTupRes := c.field(xdsc, "dataAndErrTuple", "Resource")
	fWCS := c.field(xdsc, au, "watcherCallbackSerializer")
	fCliSer := c.field(xdsc, "XDSClient", "serializer")
	fAllReq := c.field(xdsc, "ResourceType", "AllResourcesRequiredInSotW")
	nacked := ConstOfObj(c.konst(xdscRes, "ServiceStatusNACKed"))
	notExist := ConstOfObj(c.konst(xdscRes, "ServiceStatusNotExist"))
	updErr := AllOrigins(FieldLoad(fTupErr))
	cacheNil, cacheSet := IsNil(FieldLoad(fCache)), NotNil(FieldLoad(fCache))
	methods := []string{"ResourceChanged", "ResourceError", "AmbientError"}
	isWatcherCall := AnyCM(Callee(xdsc, "ResourceWatcher.ResourceChanged"), Callee(xdsc, "ResourceWatcher.ResourceError"), Callee(xdsc, "ResourceWatcher.AmbientError"))

	type site struct {
		top, method string
		mc          *ssa.MakeClosure
		call        ssa.CallInstruction
	}
	var sites []site
	c.Ob("callbacks-serialized", "R1", "every invocation of a ResourceWatcher method in the xDS client package is the body of a closure that is handed to watcherCallbackSerializer (directly, or through the funcsToSchedule list drained into it)", 12, func() {
		for _, f := range c.scope(xdsc) {
			for _, ci := range callsIn(f, isWatcherCall) {
				m := calleeFunc(ci.Common()).Name()
				c.inst("watcher." + m + " <- " + c.siteStr(ci))
				if f.Signature.Recv() != nil && f.Name() == m && implementsWatcher(c, f.Signature.Recv().Type()) {
					// a ResourceWatcher decorator forwarding the same method: runs wherever its caller runs
					c.inst("forwarding decorator " + shortName(f))
					continue
				}
				mc := makeClosureOf(f)
				if !c.Expect(mc != nil, ci, f, "callback-in-closure", "a watcher callback is invoked inline, outside a serializer closure") {
					continue
				}
				top := shortName(topFunc(f))
				inAuthority := strings.HasPrefix(top, xdsc+"."+au+".")
				if !inAuthority {
					// registration failures reported by the client itself: only ResourceError, before any authority is involved
					c.Expect(top == xdsc+".XDSClient.WatchResource" && m == "ResourceError", ci, f, "callback-outside-authority", "a watcher callback is invoked outside the authority")
				} else {
					sites = append(sites, site{strings.TrimPrefix(top, xdsc+"."+au+"."), m, mc, ci})
				}
				// sink of the closure
				ok := false
				for _, r := range *mc.Referrers() {
					switch x := r.(type) {
					case *ssa.Call:
						if (Callee(xdsSync, "CallbackSerializer.TrySchedule")(&x.Call) || Callee(xdsSync, "CallbackSerializer.ScheduleOr")(&x.Call)) && (FieldLoad(fWCS)(x.Call.Args[0]) || !inAuthority && FieldLoad(fCliSer)(x.Call.Args[0])) && x.Call.Args[1] == ssa.Value(mc) {
							ok = true
						}
					case *ssa.Store:
						// element of the variadic slice of append(funcsToSchedule, ...)
						if ia, isIdx := x.Addr.(*ssa.IndexAddr); isIdx && x.Val == ssa.Value(mc) {
							_ = ia
							ok = drainsIntoSerializer(topFunc(f), fWCS)
						}
					}
				}
				c.Expect(ok, mc, mc.Parent(), "closure-goes-to-watcher-serializer", "the closure invoking the watcher is not handed to watcherCallbackSerializer")
			}
		}
	})
	find := func(top, method string) []site {
		var out []site
		for _, s := range sites {
			if s.top == top && s.method == method {
				out = append(out, s)
			}
		}
		return out
	}
	c.Ob("update-callbacks", "R2", "handleADSResourceUpdate: per callback creation site, the guards on update error, cache presence, equality with the cache, repeated error, and the cache write preceding ResourceChanged", 14, func() {
		h := "handleADSResourceUpdate"
		hf := c.fn(xdsc, au+"."+h)
		ch := find(h, "ResourceChanged")
		if c.Expect(len(ch) == 1, nil, hf, "one-ResourceChanged-site", "expected exactly one ResourceChanged creation site in update handling") {
			s := ch[0]
			c.MustFact(s.mc, "changed-only-without-error", IsNil(updErr))
			c.Unreachable(s.mc, "changed-never-for-identical-update", cacheSet, Truth(CallRes(Callee(xdsc, "ResourceData.Equal"), 0), true), IsNil(FieldLoad(fErrState)))
			// the compared resource is the update's resource
			for _, eq := range callsIn(hf, Callee(xdsc, "ResourceData.Equal")) {
				c.ArgIs(eq, 0, "equality-against-the-update", FieldLoad(fTupRes))
				c.Expect(FieldLoad(fCache)(eq.Common().Value), eq, hf, "equality-of-the-cache", "the comparison is not on the cached resource")
			}
			// cache overwritten with the update's resource before the callback is created
			var cst *ssa.Store
			for _, st := range storesToField(hf, fCache) {
				if FieldLoad(fTupRes)(st.Val) {
					cst = st
				}
			}
			if c.Expect(cst != nil, nil, hf, "cache-takes-update", "the cache is not overwritten with the accepted resource") {
				c.Dominates(cst, s.mc, "cache-written-before-ResourceChanged")
				c.MustFact(cst, "cache-written-only-without-error", IsNil(updErr))
			}
			// the resource passed is the update's resource
			okRes := false
			for _, b := range s.mc.Bindings {
				if al, ok := b.(*ssa.Alloc); ok {
					for _, st := range storesTo(al) {
						if FieldLoad(fTupRes)(st.Val) {
							okRes = true
						}
					}
				}
			}
			c.Expect(okRes, s.mc, hf, "ResourceChanged-carries-the-update", "ResourceChanged does not carry the accepted resource")
		}
		re := find(h, "ResourceError")
		am := find(h, "AmbientError")
		if c.Expect(len(re) == 2 && len(am) == 1, nil, hf, "error-sites", "expected two ResourceError sites (rejected update, removed resource) and one AmbientError site in update handling") {
			var rej, del site
			for _, s := range re {
				if c.HasFact(s.mc, NotNil(updErr)) {
					rej = s
				} else {
					del = s
				}
			}
			if c.Expect(rej.mc != nil && del.mc != nil, nil, hf, "error-sites-classified", "the two ResourceError sites could not be told apart by the update-error guard") {
				dupErr := func(fc Fact) bool {
					if fc.Kind != "cmp" || fc.Op != token.EQL {
						return false
					}
					isErrText := CallRes(CalleeX("", "error.Error"), 0)
					return isErrText(fc.X) && isErrText(fc.Y)
				}
				c.MustFact(rej.mc, "rejected:ResourceError-only-when-nothing-cached", cacheNil)
				c.Unreachable(rej.mc, "rejected:no-repeat-of-identical-error", dupErr)
				c.MustFact(am[0].mc, "rejected:AmbientError-only-with-error", NotNil(updErr))
				c.MustFact(am[0].mc, "rejected:AmbientError-only-when-cached", cacheSet)
				c.Unreachable(am[0].mc, "rejected:no-repeat-of-identical-ambient-error", dupErr)
				// complement: the rejected-update notifications are produced only when there was no previous error or its text differs
				neqErr := func(fc Fact) bool {
					if fc.Kind != "cmp" || fc.Op != token.NEQ {
						return false
					}
					isErrText := CallRes(CalleeX("", "error.Error"), 0)
					return isErrText(fc.X) && isErrText(fc.Y)
				}
				var wr *ssa.BasicBlock
				for _, b := range hf.Blocks {
					for _, in := range b.Instrs {
						if rg, ok := in.(*ssa.Range); ok && FieldLoad(fWatchers)(rg.X) {
							if _, isErrArm := hasFact(FactsAtBlock(b), NotNil(updErr)); isErrArm {
								wr = b
							}
						}
					}
				}
				if c.Expect(wr != nil, rej.mc, hf, "rejected:watcher-walk", "no walk over the watchers on the rejected-update arm") {
					c.EnteredOnlyWhen(wr, "rejected:notified-only-for-a-new-error", IsNil(FieldLoad(fErrState)), IsNil(FieldLoadOn(c.field(xdscRes, "UpdateErrorMetadata", "Err"), AnyV)), neqErr)
				}
				// removal
				c.MustFact(del.mc, "removed:only-all-resources-required-types", Truth(FieldLoad(fAllReq), true))
				c.MustFact(del.mc, "removed:only-if-cached", cacheSet)
				c.MustFact(del.mc, "removed:only-if-absent-from-response", Truth(CommaOkOf(ParamV("updates")), false))
				c.MustFact(del.mc, "removed:not-already-nonexistent", Cmp(FieldLoad(fStatus), token.NEQ, notExist))
				c.MustFact(del.mc, "removed:not-when-ignore_resource_deletion", Truth(CallRes(Callee(xdsc, "ServerConfig.SupportsServerFeature"), 0), false))
				for _, sf := range callsIn(hf, Callee(xdsc, "ServerConfig.SupportsServerFeature")) {
					c.ArgIs(sf, 1, "feature-is-ignore_resource_deletion", ConstOfObj(c.konst(xdsc, "ServerFeatureIgnoreResourceDeletion")))
					c.ArgIs(sf, 0, "feature-of-the-sending-server", ParamV("serverConfig"))
				}
				cleared := false
				for _, st := range storesToField(hf, fCache) {
					if ConstNil(st.Val) {
						cleared = true
						c.Dominates(st, del.mc, "removed:cache-cleared-before-error")
						for _, g := range []namedFM{{"only-if-absent", Truth(CommaOkOf(ParamV("updates")), false)}, {"not-when-ignored", Truth(CallRes(Callee(xdsc, "ServerConfig.SupportsServerFeature"), 0), false)}} {
							c.MustFact(st, "cache-cleared:"+g.Label, g.FM)
						}
					}
				}
				c.Expect(cleared, nil, hf, "removed:cache-cleared", "the cache is not cleared when a resource is removed")
			}
		}
		// NACK bookkeeping on the error arm keeps the cache
		for _, st := range storesToField(hf, fStatus) {
			if nacked(st.Val) {
				c.MustFact(st, "NACK-status-only-on-error", NotNil(updErr))
			}
		}
	})
	c.Ob("every-resource-processed", "R3", "the walks over the resources of an update, over the known resources of the type (deletion check) and over the channels of a resource are never left early: every resource in a response is processed and every watched resource is checked", 3, func() {
		hf := c.fn(xdsc, au+".handleADSResourceUpdate")
		n := c.NoEarlyExit(hf, ParamV("updates"), "every-update-entry-processed")
		n += c.NoEarlyExit(hf, LookupOf(FieldLoad(c.field(xdsc, au, "resources")), AnyV), "every-known-resource-checked-for-deletion")
		c.Expect(n == 2, nil, hf, "two-walks", "expected the walk over the update and the walk over the known resources")
		rf := c.fn(xdsc, au+".handleRevertingToPrimaryOnUpdate")
		m := c.NoEarlyExit(rf, FieldLoad(c.field(xdsc, "resourceState", "xdsChannelConfigs")), "every-channel-of-a-resource-checked")
		m += c.NoEarlyExit(rf, FieldLoad(c.field(xdsc, au, "resources")), "every-resource-type-checked")
		c.Expect(m >= 2, nil, rf, "release-walks", "expected the release walks over resources and their channels")
	})
	c.Ob("stream-and-timeout-errors", "R2", "stream failure: ResourceError iff nothing cached, AmbientError otherwise; watch timeout: cache cleared and status NotExist before the ResourceError", 5, func() {
		p := "propagateConnectivityErrorToAllWatchers"
		pf := c.fn(xdsc, au+"."+p)
		re, am := find(p, "ResourceError"), find(p, "AmbientError")
		if c.Expect(len(re) == 1 && len(am) == 1, nil, pf, "connectivity-sites", "expected one ResourceError and one AmbientError site for connectivity errors") {
			c.MustFact(re[0].mc, "connectivity:ResourceError-only-when-nothing-cached", cacheNil)
			c.MustFact(am[0].mc, "connectivity:AmbientError-only-when-cached", cacheSet)
		}
		d := "handleADSResourceDoesNotExist"
		df := c.fn(xdsc, au+"."+d)
		dre := find(d, "ResourceError")
		if c.Expect(len(dre) == 1 && len(find(d, "ResourceChanged")) == 0, nil, df, "timeout-site", "expected one ResourceError site for a timed-out watch") {
			okC, okS := false, false
			for _, st := range storesToField(df, fCache) {
				if ConstNil(st.Val) && instrDominates(st, dre[0].mc) {
					okC = true
				}
			}
			for _, st := range storesToField(df, fStatus) {
				if notExist(st.Val) {
					okS = true
				}
			}
			c.Expect(okC, dre[0].mc, df, "timeout:cache-cleared", "a timed-out watch does not clear the cache before notifying")
			c.Expect(okS, dre[0].mc, df, "timeout:status-NotExist", "a timed-out watch does not mark the resource non-existent")
		}
	})
	c.Ob("new-watcher", "R3", "watchResource: the watcher joins the set on every path past channel creation; cached resource -> ResourceChanged(cache); NACKed -> ResourceError iff nothing cached else AmbientError; NotExist -> ResourceError", 8, func() {
		w := "watchResource"
		wf := c.fn(xdsc, au+"."+w)
		var body *ssa.Function
		for _, g := range closuresPassedTo(wf, Callee(xdsSync, "CallbackSerializer.ScheduleOr"), 1) {
			body = g
		}
		if !c.Expect(body != nil, nil, wf, "watch-body", "watch registration is not scheduled on the client serializer") {
			return
		}
		chErr := CallRes(Callee(xdsc, au+".xdsChannelToUse"), 1)
		isAdd := func(in ssa.Instruction) bool {
			mu, ok := in.(*ssa.MapUpdate)
			return ok && FieldLoad(fWatchers)(mu.Map)
		}
		c.MustPass("watcher-always-added", pathQuery{Fn: body, AtEntry: true, Barrier: isAdd, Target: isReturn,
			EdgeBlock: func(from, to *ssa.BasicBlock) bool {
				_, ok := hasFact(edgeFacts(from, to), NotNil(chErr))
				return ok
			}}, nil)
		ch := find(w, "ResourceChanged")
		if c.Expect(len(ch) == 1, nil, body, "cached-resource-delivered", "a new watcher is not sent the cached resource") {
			c.MustFact(ch[0].mc, "cached:only-if-cached", cacheSet)
			ok := false
			for _, b := range ch[0].mc.Bindings {
				if al, isA := b.(*ssa.Alloc); isA {
					for _, st := range storesTo(al) {
						if FieldLoad(fCache)(st.Val) {
							ok = true
						}
					}
				}
			}
			c.Expect(ok, ch[0].mc, body, "cached:carries-the-cache", "the new watcher is sent something other than the cached resource")
			// must be created whenever cached: no path from add-watcher to return with cache != nil that skips it
			c.MustPass("cached:always-delivered", pathQuery{Fn: body, AtEntry: true, Barrier: func(in ssa.Instruction) bool { return in == ssa.Instruction(ch[0].mc) }, Target: isReturn,
				EdgeBlock: func(from, to *ssa.BasicBlock) bool {
					fs := edgeFacts(from, to)
					_, a := hasFact(fs, NotNil(chErr))
					_, b := hasFact(fs, cacheNil)
					return a || b
				}}, nil)
		}
		var nre, nam, nne []site
		for _, s := range find(w, "ResourceError") {
			switch {
			case c.HasFact(s.mc, Cmp(FieldLoad(fStatus), token.EQL, nacked)):
				nre = append(nre, s)
			case c.HasFact(s.mc, Cmp(FieldLoad(fStatus), token.EQL, notExist)):
				nne = append(nne, s)
			default:
				c.MustFact(s.mc, "other-ResourceError-is-channel-failure", NotNil(chErr))
			}
		}
		for _, s := range find(w, "AmbientError") {
			c.MustFact(s.mc, "nack:AmbientError-only-when-NACKed", Cmp(FieldLoad(fStatus), token.EQL, nacked))
			c.MustFact(s.mc, "nack:AmbientError-only-when-cached", cacheSet)
			nam = append(nam, s)
		}
		c.Expect(len(nre) == 1 && len(nam) == 1, nil, body, "nack-delivered", "a new watcher of a NACKed resource is not told the error on both cache arms")
		for _, s := range nre {
			c.MustFact(s.mc, "nack:ResourceError-only-when-nothing-cached", cacheNil)
		}
		c.Expect(len(nne) == 1, nil, body, "not-found-delivered", "a new watcher of a non-existent resource is not told so")
		_ = fMD
		// existing state is reused: the per-type map and the per-resource state are created only when absent
		// (replacing them would hide the cached resource and the error state from the new watcher)
		fRes := c.field(xdsc, au, "resources")
		resName := func(v ssa.Value) bool {
			if ParamV("resourceName")(v) {
				return true
			}
			u, ok := v.(*ssa.UnOp)
			if !ok {
				return false
			}
			fv, ok := u.X.(*ssa.FreeVar)
			return ok && freeVarRole(fv) == "resourceName"
		}
		nCreate := 0
		for _, in := range instrsWhere(body, func(in ssa.Instruction) bool { _, ok := in.(*ssa.MapUpdate); return ok }) {
			mu := in.(*ssa.MapUpdate)
			switch {
			case FieldLoad(fRes)(mu.Map):
				nCreate++
				c.MustFact(in, "type-map-created-only-when-absent", IsNil(LookupOf(FieldLoad(fRes), AnyV)))
			case FieldLoad(fWatchers)(mu.Map):
			default:
				if _, isState := mu.Value.(*ssa.Alloc); isState || typeName(mu.Value.Type()) == "resourceState" {
					nCreate++
					c.MustFact(in, "resource-state-created-only-when-absent", IsNil(LookupOf(AnyV, resName)))
				}
			}
		}
		c.Expect(nCreate == 2, nil, body, "state-creation-sites", "expected the per-type map and the per-resource state to be created at one site each")
		for _, sub := range callsIn(body, Callee(xdsc, "xdsChannel.subscribe")) {
			c.MustFact(sub, "subscribed-only-for-a-new-resource", IsNil(LookupOf(AnyV, resName)))
		}
	})
	c.Ob("last-unwatch", "R3", "unwatchResource: the watcher leaves the set; when none remain, every channel is unsubscribed and the state deleted", 3, func() {
		uf := c.fn(xdsc, au+".unwatchResource")
		var body *ssa.Function
		for _, g := range c.scope(xdsc) {
			if topFunc(g) == uf && len(callsIn(g, Callee(xdsc, "xdsChannel.unsubscribe"))) > 0 {
				body = g
			}
		}
		if !c.Expect(body != nil, nil, uf, "unwatch-body", "no unsubscribe in unwatchResource") {
			return
		}
		more := CmpInt(LenOf(FieldLoad(fWatchers)), token.GTR, 0)
		var delW, delS ssa.Instruction
		for _, in := range instrsWhere(body, func(in ssa.Instruction) bool {
			call, ok := in.(*ssa.Call)
			return ok && BuiltinCall("delete")(&call.Call)
		}) {
			call := in.(*ssa.Call)
			if FieldLoad(fWatchers)(call.Call.Args[0]) {
				delW = in
			} else if delS == nil {
				delS = in
			}
		}
		if c.Expect(delW != nil && delS != nil, nil, body, "deletes", "unwatch does not delete the watcher and the state") {
			uns := callsIn(body, Callee(xdsc, "xdsChannel.unsubscribe"))
			c.Dominates(delW, uns[0], "watcher-removed-first")
			c.Unreachable(uns[0], "unsubscribe-only-when-no-watchers-remain", more)
			c.MustPass("state-deleted-when-last", pathQuery{Fn: body, AtEntry: true, Barrier: func(in ssa.Instruction) bool { return in == delS }, Target: isReturn,
				EdgeBlock: func(from, to *ssa.BasicBlock) bool {
					_, ok := hasFact(edgeFacts(from, to), more)
					return ok
				}}, nil)
			// unsubscribe happens in a range over the state's channel set
			c.Expect(RangeKeyOf(FieldLoad(c.field(xdsc, "resourceState", "xdsChannelConfigs")))(fieldBase(uns[0].Common().Args[0])), uns[0], body, "unsubscribe-every-channel", "unsubscribe is not applied to every channel the resource is subscribed on")
		}
	})
	_ = methods
}

// drainsIntoSerializer: some closure of top (the deferred drain) passes each
// element of a ranged slice to CallbackSerializer.ScheduleOr on field f.
func drainsIntoSerializer(top *ssa.Function, fWCS interface{ Name() string }) bool {
	var walk func(f *ssa.Function) bool
	walk = func(f *ssa.Function) bool {
		for _, ci := range callsIn(f, Callee(xdsSync, "CallbackSerializer.ScheduleOr")) {
			a := ci.Common().Args
			if fa, ok := strip(a[0]).(*ssa.UnOp); ok {
				if x, ok := fa.X.(*ssa.FieldAddr); ok && fieldOfAddr(x).Name() == fWCS.Name() {
					// argument 1 is an element of a slice (range value)
					if _, ok := strip(a[1]).(*ssa.UnOp); ok {
						return true
					}
				}
			}
		}
		for _, g := range f.AnonFuncs {
			if walk(g) {
				return true
			}
		}
		return false
	}
	return walk(top)
}

// fieldBase: for a load of x.f returns x (the struct pointer value), else v.
func fieldBase(v ssa.Value) ssa.Value {
	if u, ok := strip(v).(*ssa.UnOp); ok && u.Op == token.MUL {
		if fa, ok := u.X.(*ssa.FieldAddr); ok {
			return fa.X
		}
	}
	return v
}

// RangeKeyOf: the key extracted from a range over a map matching vm.
func RangeKeyOf(vm VM) VM {
	return func(v ssa.Value) bool {
		ex, ok := strip(v).(*ssa.Extract)
		if !ok || ex.Index != 1 {
			return false
		}
		nx, ok := ex.Tuple.(*ssa.Next)
		if !ok {
			return false
		}
		rg, ok := nx.Iter.(*ssa.Range)
		return ok && vm(rg.X)
	}
}

func c44(c *Ctx) {
	au := "authority"
	fActive := c.field(xdsc, au, "activeXDSChannel")
	fCfgs := c.field(xdsc, au, "xdsChannelConfigs")
	fChan := c.field(xdsc, "xdsChannelWithConfig", "channel")
	fCleanup := c.field(xdsc, "xdsChannelWithConfig", "cleanup")
	fSrvCfg := c.field(xdsc, "xdsChannelWithConfig", "serverConfig")
	fStatus := c.field(xdscRes, "UpdateMetadata", "Status")
	fResCh := c.field(xdsc, "resourceState", "xdsChannelConfigs")
	idxOf := func(arg VM) VM { return CallWith(Callee(xdsc, au+".serverIndexForConfig"), 1, arg) }
	// element i of a.xdsChannelConfigs with loop index starting at idx+1
	elemFrom := func(arg VM) VM {
		return func(v ssa.Value) bool {
			u, ok := strip(v).(*ssa.UnOp)
			if !ok {
				return false
			}
			ia, ok := u.X.(*ssa.IndexAddr)
			if !ok || !FieldLoad(fCfgs)(ia.X) {
				return false
			}
			inits := loopInit(ia.Index)
			if len(inits) != 1 {
				return false
			}
			return BinOpV(token.ADD, idxOf(arg), ConstInt(1))(inits[0])
		}
	}
	c.Ob("fallback-trigger", "R1", "fallbackToServer: called only from handleADSStreamFailure, not after a response was received, only with an uncached watched resource, from the failing server's index + 1; the uncached test is 'status Requested'", 6, func() {
		sites := c.WhoMayCall("fallbackToServer", Callee(xdsc, au+".fallbackToServer"), c.scope(xdsc), xdsc+"."+au+".handleADSStreamFailure")
		hf := c.fn(xdsc, au+".handleADSStreamFailure")
		s := one(c, "fallbackToServer call", sites)
		afterRecv := ConstOfObj(c.konst(xdscRes, "ErrTypeStreamFailedAfterRecv"))
		c.MustFact(s, "not-after-a-response", Cmp(CallRes(Callee(xdscRes, "ErrType"), 0), token.NEQ, afterRecv))
		for _, et := range callsIn(hf, Callee(xdscRes, "ErrType")) {
			c.ArgIs(et, 0, "error-type-of-the-stream-error", ParamV("err"))
		}
		c.MustFact(s, "only-with-uncached-watched-resource", Truth(CallRes(Callee(xdsc, au+".watcherExistsForUncachedResource"), 0), true))
		c.ArgIs(s, 1, "walk-from-failing-server+1", elemFrom(ParamV("serverConfig")))
		// after a successful fallback: no connectivity error to watchers
		for _, p := range callsIn(hf, Callee(xdsc, au+".propagateConnectivityErrorToAllWatchers")) {
			c.Unreachable(p, "no-error-after-successful-fallback", Truth(CallRes(Callee(xdsc, au+".fallbackToServer"), 0), true))
			c.Unreachable(p, "no-error-after-response", Cmp(CallRes(Callee(xdscRes, "ErrType"), 0), token.EQL, afterRecv))
		}
		we := c.fn(xdsc, au+".watcherExistsForUncachedResource")
		n := 0
		for _, r := range returnsOf(we) {
			if ConstBool(true)(r.Results[0]) {
				n++
				c.MustFact(r, "uncached-means-status-Requested", Cmp(FieldLoad(fStatus), token.EQL, ConstOfObj(c.konst(xdscRes, "ServiceStatusRequested"))))
			}
		}
		c.Expect(n == 1, nil, we, "one-true-return", "expected one true return in watcherExistsForUncachedResource")
	})
	c.Ob("failed-before-any-response", "R2", "the stream error is marked 'failed after a response was received' exactly when the receive loop had received a message on this stream: the flag starts false, becomes true only after a successful receive, and is what onError is given; onError converts the error only when the flag is set", 5, func() {
		rv := c.fn(xdsc, "adsStreamImpl.recv")
		oe := one(c, "onError call in recv", callsIn(rv, Callee(xdsc, "adsStreamImpl.onError")))
		rm := one(c, "recvMessage call", callsIn(rv, Callee(xdsc, "adsStreamImpl.recvMessage")))
		flag, ok := oe.Common().Args[2].(*ssa.Phi)
		if c.Expect(ok, oe, rv, "received-flag", "onError is not given the loop's received-a-message flag") {
			rerr := ExtractOf(func(v ssa.Value) bool { return v == rm.Value() }, 4)
			for i, e := range flag.Edges {
				pr := flag.Block().Preds[i]
				fs := append(append([]Fact(nil), FactsAtBlock(pr)...), edgeOnlyFacts(pr, flag.Block())...)
				switch {
				case ConstBool(false)(e):
					c.Expect(pr == rv.Blocks[0] || len(pr.Preds) == 0 || !reachableBlocks(flag.Block())[pr], oe, rv, "flag-starts-false", "the received flag is reset to false inside the loop")
				case ConstBool(true)(e):
					_, okRecv := hasFact(fs, IsNil(rerr))
					c.Expect(okRecv, oe, rv, "flag-set-only-after-a-successful-receive", "the received flag is set on an arm where no message was received")
				default:
					c.Expect(e == ssa.Value(flag), oe, rv, "flag-shape", "unexpected update of the received flag")
				}
			}
			// a successful receive always sets it before the next receive
			c.MustFact(oe, "error-reported-only-on-receive-failure", NotNil(rerr))
		}
		of := c.fn(xdsc, "adsStreamImpl.onError")
		for _, ne := range callsIn(of, Callee(xdscRes, "NewError")) {
			if ConstOfObj(c.konst(xdscRes, "ErrTypeStreamFailedAfterRecv"))(ne.Common().Args[0]) {
				c.MustFact(ne, "after-recv-error-only-with-flag", Truth(ParamV("msgReceived"), true))
			}
		}
		c.Expect(len(callsIn(of, Callee(xdscRes, "NewError"))) >= 1, nil, of, "after-recv-error-built", "onError never builds the failed-after-receive error")
	})
	c.Ob("fallback-step", "R2", "fallbackToServer: false when the channel exists or cannot be created; on success records channel+cleanup, becomes active, subscribes every known resource and records the channel in its state", 6, func() {
		ff := c.fn(xdsc, au+".fallbackToServer")
		get := one(c, "getChannelForADS call", callsIn(ff, FieldCall(c.field(xdsc, au, "getChannelForADS"))))
		c.MustFact(get, "no-second-channel", IsNil(FieldLoad(fChan)))
		for _, r := range returnsOf(ff) {
			if ConstBool(true)(r.Results[0]) {
				c.MustFact(r, "success-only-if-channel-created", IsNil(CallRes(FieldCall(c.field(xdsc, au, "getChannelForADS")), 2)))
			}
		}
		sub := one(c, "subscribe in fallbackToServer", callsIn(ff, Callee(xdsc, "xdsChannel.subscribe")))
		c.ArgIs(sub, 2, "subscribes-each-resource-name", RangeKeyOf(AnyV))
		c.ArgIs(sub, 1, "subscribes-each-resource-type", RangeKeyOf(FieldLoad(c.field(xdsc, au, "resources"))))
		nrec := 0
		for _, b := range ff.Blocks {
			for _, in := range b.Instrs {
				if mu, ok := in.(*ssa.MapUpdate); ok && FieldLoad(fResCh)(mu.Map) {
					nrec++
					c.Expect(together(mu, sub), mu, ff, "channel-recorded-with-subscription", "the channel is recorded on a different path than the subscription")
					c.Expect(ParamV("xc")(mu.Key), mu, ff, "records-the-new-channel", "a different channel is recorded")
				}
			}
		}
		c.Expect(nrec == 1, nil, ff, "channel-recorded", "the new channel is not recorded in the resource state")
		st := one(c, "store to activeXDSChannel in fallbackToServer", storesToField(ff, fActive))
		c.ValueIs(st, st.Val, "new-server-becomes-active", ParamV("xc"))
		c.Dominates(get, st, "active-after-creation")
	})
	c.Ob("revert", "R2", "handleRevertingToPrimaryOnUpdate: update from the active server proceeds; from a lower-priority server returns false; from a higher-priority one makes it active and releases every server from its index + 1; the update handler does nothing after a false", 12, func() {
		rf := c.fn(xdsc, au+".handleRevertingToPrimaryOnUpdate")
		sIdx := idxOf(ParamV("serverConfig"))
		aIdx := idxOf(FieldLoadOn(fSrvCfg, FieldLoad(fActive)))
		// `<=` is equivalent here: equal indexes mean equal configs, which returned true above
		lower := FM(func(f Fact) bool { return Cmp(aIdx, token.LSS, sIdx)(f) || Cmp(aIdx, token.LEQ, sIdx)(f) })
		nf := 0
		for _, r := range returnsOf(rf) {
			if ConstBool(false)(r.Results[0]) {
				nf++
			} else {
				c.Unreachable(r, "lower-priority-update-ignored", lower)
				c.Unreachable(r, "no-update-without-active-channel", IsNil(FieldLoad(fActive)))
			}
		}
		c.Expect(nf == 2, nil, rf, "false-returns", "expected two false returns (no active channel, lower-priority server)")
		st := one(c, "store to activeXDSChannel in revert", storesToField(rf, fActive))
		c.ValueIs(st, st.Val, "sender-becomes-active", func(v ssa.Value) bool {
			u, ok := strip(v).(*ssa.UnOp)
			if !ok {
				return false
			}
			ia, ok := u.X.(*ssa.IndexAddr)
			return ok && FieldLoad(fCfgs)(ia.X) && sIdx(ia.Index)
		})
		c.Unreachable(st, "active-changes-only-for-higher-priority", lower)
		c.MustFact(st, "active-changes-only-for-other-server", Truth(CallRes(Callee(xdsc, "isServerConfigEqual"), 0), false))
		// release loop
		var chClear *ssa.Store
		for _, s := range storesToField(rf, fChan) {
			if ConstNil(s.Val) {
				chClear = s
			}
		}
		if c.Expect(chClear != nil, nil, rf, "channel-cleared", "lower-priority channels are not cleared") {
			fa := chClear.Addr.(*ssa.FieldAddr)
			c.Expect(elemFrom(ParamV("serverConfig"))(fa.X), chClear, rf, "release-walk-starts-at-sender+1", "the release walk does not start at the sending server's index + 1")
			// per iteration: cleanup called (when set) and cleared
			cl := callsIn(rf, FieldCall(fCleanup))
			if c.Expect(len(cl) == 1, nil, rf, "cleanup-called", "lower-priority channel cleanup is not called") {
				c.MustFact(cl[0], "cleanup-only-when-set", NotNil(FieldLoad(fCleanup)))
				c.Expect(fieldBase(cl[0].Common().Value) == fa.X, cl[0], rf, "cleanup-of-the-walked-channel", "cleanup of another channel is called")
			}
			okNil := false
			for _, s := range storesToField(rf, fCleanup) {
				if ConstNil(s.Val) {
					okNil = true
				}
			}
			c.Expect(okNil, nil, rf, "cleanup-cleared", "cleanup is not cleared after being called (double release)")
			un := callsIn(rf, Callee(xdsc, "xdsChannel.unsubscribe"))
			if c.Expect(len(un) == 1, nil, rf, "unsubscribe-called", "resources are not unsubscribed from released channels") {
				c.MustFact(un[0], "unsubscribe-inside-the-walk", Cmp(AnyV, token.LSS, LenOf(FieldLoad(fCfgs))))
				c.ArgIs(un[0], 1, "unsubscribe-each-type", RangeKeyOf(FieldLoad(c.field(xdsc, au, "resources"))))
				c.MustFact(un[0], "unsubscribe-only-on-the-walked-channel", Cmp(RangeKeyOf(FieldLoad(fResCh)), token.EQL, func(v ssa.Value) bool { return v == fa.X }))
			}
			// the loop reaches every index: condition i < len(a.xdsChannelConfigs)
			c.MustFact(chClear, "walk-to-the-end", Cmp(AnyV, token.LSS, LenOf(FieldLoad(fCfgs))))
		}
		c.Expect(c.NoEarlyExit(rf, AnyV, "revert:every-subscription-of-a-released-server-visited") >= 3, nil, rf, "revert:walks", "fewer walks over the subscriptions than on the reviewed tree")
		// caller
		uf := c.fn(xdsc, au+".handleADSResourceUpdate")
		n := 0
		for _, g := range append([]*ssa.Function{uf}, uf.AnonFuncs...) {
			_ = g
		}
		for _, b := range uf.Blocks {
			for _, in := range b.Instrs {
				switch x := in.(type) {
				case *ssa.Store:
					if _, ok := x.Addr.(*ssa.FieldAddr); !ok {
						continue
					}
				case *ssa.MakeClosure, *ssa.MapUpdate:
				default:
					continue
				}
				if in.Block() == uf.Blocks[0] {
					continue
				}
				n++
				c.MustFact(in, "update-ignored-after-false", Truth(CallRes(Callee(xdsc, au+".handleRevertingToPrimaryOnUpdate"), 0), true))
			}
		}
		c.Expect(n >= 8, nil, uf, "effects-counted", "fewer state effects than expected in handleADSResourceUpdate")
		for _, ci := range callsIn(uf, Callee(xdsc, au+".handleRevertingToPrimaryOnUpdate")) {
			c.ArgIs(ci, 1, "revert-decided-on-the-sender", ParamV("serverConfig"))
		}
	})
	c.Ob("active-writers", "R1", "activeXDSChannel is written only by fallback, revert, first-use creation and close-all", 4, func() {
		c.WhoMayMutate("activeXDSChannel", fActive, c.scope(xdsc),
			xdsc+"."+au+".fallbackToServer", xdsc+"."+au+".handleRevertingToPrimaryOnUpdate", xdsc+"."+au+".xdsChannelToUse", xdsc+"."+au+".closeXDSChannels")
	})
}

func implementsWatcher(c *Ctx, t types.Type) bool {
	obj := c.P.LookupObj(xdsc, "ResourceWatcher")
	if obj == nil {
		return false
	}
	it, ok := obj.Type().Underlying().(*types.Interface)
	return ok && types.Implements(t, it)
}
