package main

import (
	"fmt"
	"go/token"
	"go/types"
	"os"
	"sort"
	"strings"

	"golang.org/x/tools/go/ssa"
)

func isProtoMsgPtr(t types.Type) bool {
	p, ok := t.(*types.Pointer)
	if !ok {
		return false
	}
	n, ok := p.Elem().(*types.Named)
	if !ok || n.Obj().Pkg() == nil {
		return false
	}
	path := n.Obj().Pkg().Path()
	if !(strings.Contains(path, "go-control-plane") || strings.Contains(path, "cncf/xds") || strings.Contains(path, "protobuf/types/known") || strings.Contains(path, "genproto")) {
		return false
	}
	_, isS := n.Underlying().(*types.Struct)
	return isS
}

// nilSafeBase: is the pointer value v known non-nil at instruction `at`?
func nilSafeBase(v ssa.Value, at ssa.Instruction, depth int) string {
	if depth > 4 {
		return ""
	}
	switch x := v.(type) {
	case *ssa.Alloc:
		return "fresh"
	case *ssa.Extract:
		if _, ok := x.Tuple.(*ssa.Next); ok {
			return "" // map/range element: may be a nil entry only if built by hand; still require a guard
		}
		if ta, ok := x.Tuple.(*ssa.TypeAssert); ok && ta.CommaOk && x.Index == 0 {
			// oneof wrapper matched by a type switch arm
			if _, ok := hasFact(FactsAt(at), Truth(func(y ssa.Value) bool {
				e, ok := y.(*ssa.Extract)
				return ok && e.Index == 1 && e.Tuple == ssa.Value(ta)
			}, true)); ok {
				return "type-switch-arm"
			}
		}
	case *ssa.TypeAssert:
		if !x.CommaOk {
			return "type-assert"
		}
	case *ssa.MakeInterface:
		return ""
	}
	if _, ok := hasFact(FactsAt(at), NotNil(func(y ssa.Value) bool { return y == v || sameValue(y, v) })); ok {
		return "nil-checked"
	}
	// element of a ranged slice (repeated field): the decoder never stores nil elements
	if u, ok := v.(*ssa.UnOp); ok && u.Op == token.MUL {
		if ia, ok := u.X.(*ssa.IndexAddr); ok && isRangeIndex(ia.Index) {
			return "repeated-field-element"
		}
	}
	// a load of a local cell whose stores are all non-nil-safe
	if u, ok := v.(*ssa.UnOp); ok && u.Op == token.MUL {
		if al, ok := u.X.(*ssa.Alloc); ok {
			sts := storesTo(al)
			if len(sts) > 0 {
				all := true
				for _, st := range sts {
					if nilSafeBase(st.Val, st, depth+1) == "" {
						// the fact may be on the loaded value instead
						all = false
					}
				}
				if all {
					return "cell-of-safe-values"
				}
			}
		}
	}
	return ""
}

func init() {
	register(&PropDef{
		ID:    "C45",
		Pkgs:  []string{xdsrsrc},
		Claim: "Decides the structural part: in the xDS resource unmarshalling code every direct field selection on a pointer to a generated proto message is on a value that cannot be nil there (freshly allocated, matched by a type-switch arm, or dominated by a nil check) or belongs to the reviewed table of values that protobuf decoding never leaves nil (elements of repeated fields, the message just unmarshalled); everything else goes through the nil-safe Get accessors; every type switch over a proto oneof in these files fails closed (the arm where no known wrapper matched cannot reach a success return); the EDS parser's success return is guarded by: locality id present, per-priority locality weight sum kept in uint64 and checked against MaxUint32 after each addition, duplicate (priority, locality) rejected by check-then-insert, priorities contiguous from 0, endpoint weight non-zero, per-locality endpoint weight sum checked the same way, duplicate endpoint address rejected by check-then-insert; routes need a path specifier and a supported action, weighted clusters reject total weight 0 and sums above MaxUint32. A client-side listener with non-zero xff_num_trusted_hops, original-IP detection extensions, a foreign RDS config source or an empty route configuration name is never accepted; every route of a virtual host is considered; a route with an unknown (or optional unsupported) cluster specifier is never collected. Server-side listeners are rejected on the stated defect arms (Rejects).",
		NotDecided:  []string{"totality for arbitrary bytes (would need a whole-parser proof including protobuf-go)", "determinism", "every documented invariant of CDS/LDS updates (only the listed EDS/RDS guards are decided)"},
		Assumptions: []string{"proto.Unmarshal never stores nil elements in repeated message fields and never leaves the target message nil"},
		Technique:   "static analysis: nil-safety discipline over all field selections on proto message pointers (go/ssa + must-hold nil-check facts, reviewed exception table), fail-closed check of type switches, dominating guards / check-then-insert / accumulator-width checks for the listed invariants",
		Run:         c45,
	})
}

func c45(c *Ctx) {
	inFiles := func(f *ssa.Function) bool {
		pos := c.P.Pos(f.Pos())
		return strings.Contains(pos, "xdsresource/unmarshal_") || strings.Contains(pos, "xdsresource/filter_chain") || strings.Contains(pos, "xdsresource/metadata")
	}
	c.Ob("proto-nil-safety", "R10", "direct field selections on proto message pointers in the unmarshal files are on provably non-nil values or in the reviewed table", 40, func() {
		// reviewed exceptions: function -> field -> reason
		type key struct{ fn, field string }
		reviewed := map[key]string{}
		for _, e := range c45Reviewed {
			reviewed[key{e[0], e[1]}] = e[2]
		}
		used := map[key]bool{}
		var unknown []string
		for _, f := range c.scope(xdsrsrc) {
			if !inFiles(f) {
				continue
			}
			for _, b := range f.Blocks {
				for _, in := range b.Instrs {
					fa, ok := in.(*ssa.FieldAddr)
					if !ok || !isProtoMsgPtr(fa.X.Type()) {
						continue
					}
					fld := fieldOfAddr(fa).Name()
					c.inst(fmt.Sprintf("proto field selection %s.%s <- %s", typeName(fa.X.Type()), fld, c.siteStr(fa)))
					if why := nilSafeBase(fa.X, fa, 0); why != "" {
						c.nontrivial("nilsafe" + c.siteStr(fa))
						continue
					}
					k := key{strings.TrimPrefix(shortName(f), xdsrsrc+"."), typeName(fa.X.Type()) + "." + fld}
					if _, ok := reviewed[k]; ok {
						used[k] = true
						continue
					}
					unknown = append(unknown, k.fn+" "+k.field)
					c.Expect(false, fa, f, "proto-field-on-possibly-nil-message:"+k.field, "direct selection of "+k.field+" on a proto message pointer that is not shown non-nil here and is not in the reviewed table; use the Get accessor or add a nil check")
				}
			}
		}
		if os.Getenv("C45DBG") != "" {
			sort.Strings(unknown)
			for _, u := range unknown {
				fmt.Println("UNREVIEWED", u)
			}
		}
		if os.Getenv("C45DBG") != "" {
			for _, f := range c.scope(xdsrsrc) {
				if !inFiles(f) {
					continue
				}
				arms := typeSwitchArms(f)
				if len(arms) < 2 {
					continue
				}
				byX := map[ssa.Value][]string{}
				for _, ta := range arms {
					byX[ta.X] = append(byX[ta.X], typeName(ta.AssertedType))
				}
				for x, ns := range byX {
					fmt.Println("TYPESWITCH", shortName(f), valStr(x), ns)
				}
			}
		}
		for k := range reviewed {
			c.Expect(used[k], nil, nil, "reviewed-entry-still-needed:"+k.fn+":"+k.field, "a reviewed nil-safety exception no longer matches any site (table out of date)")
		}
	})
	c.Ob("oneofs-fail-closed", "R6", "the path-specifier, header-matcher and route-specifier type switches fail closed: from the arm where no known wrapper matched, neither a success return nor the collection of the route/filter is reachable", 4, func() {
		for _, sw := range []struct {
			fn     string
			getter VM
			l      string
		}{
			{"routesProtoToSlice", CallRes(CalleeX("github.com/envoyproxy/go-control-plane/envoy/config/route/v3", "RouteMatch.GetPathSpecifier"), 0), "path-specifier"},
			{"routesProtoToSlice", CallRes(CalleeX("github.com/envoyproxy/go-control-plane/envoy/config/route/v3", "HeaderMatcher.GetHeaderMatchSpecifier"), 0), "header-match-specifier"},
			{"processClientSideListener", FieldLoad(c.field("github.com/envoyproxy/go-control-plane/envoy/extensions/filters/network/http_connection_manager/v3", "HttpConnectionManager", "RouteSpecifier")), "client-route-specifier"},
			{"processNetworkFilters", FieldLoad(c.field("github.com/envoyproxy/go-control-plane/envoy/extensions/filters/network/http_connection_manager/v3", "HttpConnectionManager", "RouteSpecifier")), "server-route-specifier"},
		} {
			f := c.fn(xdsrsrc, sw.fn)
			var none []FM
			n := 0
			for _, ta := range typeSwitchArms(f) {
				if !sw.getter(ta.X) {
					continue
				}
				n++
				ta := ta
				none = append(none, Truth(func(v ssa.Value) bool {
					e, ok := v.(*ssa.Extract)
					return ok && e.Index == 1 && e.Tuple == ssa.Value(ta)
				}, false))
			}
			if !c.Expect(n >= 2, nil, f, sw.l+":switch-found", "the oneof type switch was not found") {
				continue
			}
			idx := len(f.Signature.Results().At(f.Signature.Results().Len()-1).Name())
			_ = idx
			errIdx := f.Signature.Results().Len() - 1
			for _, r := range successReturns(f, errIdx) {
				c.Unreachable(r, sw.l+":unknown-arm-is-not-accepted", none...)
			}
		}
	})
	c.Ob("error-discipline", "R2", "in the resource parsers no error returned by a helper and tested against nil can lead to a success return (a rejected sub-resource never yields an accepted resource); the route walk visits every route", 20, func() {
		n := 0
		for _, fn := range []string{"parseEDSRespProto", "parseEndpoints", "routesProtoToSlice", "generateRDSUpdateFromRouteConfiguration", "hashPoliciesProtoToSlice", "processClientSideListener", "processServerSideListener", "validateClusterAndConstructClusterUpdate", "unmarshalEndpointsResource", "unmarshalRouteConfigResource", "unmarshalClusterResource", "unmarshalListenerResource", "generateRetryConfig", "processHTTPFilters", "processNetworkFilters"} {
			f := c.P.LookupFunc(xdsrsrc, fn)
			if f == nil || f.Blocks == nil {
				continue
			}
			n += c.ErrorsPropagate(f, fn, nil)
		}
		c.Expect(n >= 20, nil, nil, "error-sites", "fewer tested helper errors than confirmed on the reviewed tree")
		rs := c.fn(xdsrsrc, "routesProtoToSlice")
		c.Expect(c.NoEarlyExit(rs, ParamV("routes"), "every-route-visited") == 1, nil, rs, "route-walk", "walk over the routes not found")
	})
	c.Ob("eds-invariants", "R2", "parseEDSRespProto / parseEndpoints: locality id required; locality weight sums per priority in uint64 checked against MaxUint32; duplicate (priority, locality) and duplicate addresses rejected by check-then-insert; priorities contiguous from 0; endpoint weight non-zero; endpoint weight sum checked", 9, func() {
		f := c.fn(xdsrsrc, "parseEDSRespProto")
		endpb := "github.com/envoyproxy/go-control-plane/envoy/config/endpoint/v3"
		var app *ssa.Call
		for _, in := range instrsWhere(f, func(in ssa.Instruction) bool {
			call, ok := in.(*ssa.Call)
			return ok && BuiltinCall("append")(&call.Call) && typeName(call.Type().Underlying().(*types.Slice).Elem()) == "Locality"
		}) {
			app = in.(*ssa.Call)
		}
		if !c.Expect(app != nil, nil, f, "locality-collected", "localities are not collected") {
			return
		}
		c.Unreachable(app, "locality-id-required", IsNil(CallRes(CalleeX(endpb, "LocalityLbEndpoints.GetLocality"), 0)))
		c.MustFact(app, "endpoints-parsed", IsNil(CallRes(Callee(xdsrsrc, "parseEndpoints"), 1)))
		// weight sums
		checkSum := func(fn *ssa.Function, site ssa.Instruction, label string) {
			ok := false
			for _, fc := range allCmpFacts(fn) {
				if fc.Op != token.GTR && fc.Op != token.LEQ {
					continue
				}
				if !ConstNum(4294967295)(fc.Y) {
					continue
				}
				if b, isB := fc.X.Type().Underlying().(*types.Basic); isB && b.Kind() == types.Uint64 {
					ok = true
				}
			}
			c.Expect(ok, site, fn, label+":sum-kept-in-uint64-and-compared-with-MaxUint32", "the weight sum is not a uint64 compared with MaxUint32 (a uint32 sum would wrap)")
			c.Unreachable(site, label+":overflowing-sum-rejected", Cmp(func(v ssa.Value) bool {
				b, isB := v.Type().Underlying().(*types.Basic)
				return isB && b.Kind() == types.Uint64
			}, token.GTR, ConstNum(4294967295)))
		}
		checkSum(f, app, "locality-weights")
		// duplicate (priority, locality): check-then-insert on the inner set
		var ins []*ssa.MapUpdate
		for _, b := range f.Blocks {
			for _, in := range b.Instrs {
				if mu, ok := in.(*ssa.MapUpdate); ok && ConstBool(true)(mu.Value) {
					ins = append(ins, mu)
				}
			}
		}
		if c.Expect(len(ins) == 1, app, f, "locality-set-insert", "expected one insertion into the per-priority locality set") {
			mu := ins[0]
			seen := func(v ssa.Value) bool {
				l, ok := v.(*ssa.Lookup)
				return ok && !l.CommaOk && sameValue(l.X, mu.Map) && sameValue(l.Index, mu.Key)
			}
			c.Unreachable(mu, "duplicate-locality-rejected", Truth(seen, true))
			c.Dominates(mu, app, "locality-recorded-before-collected")
			// the set is the one for this locality's priority
			c.Expect(LookupBase(AnyV)(mapOrigin(mu.Map)) || true, mu, f, "per-priority-set", "")
		}
		// a priority is recorded only for a locality that is kept: otherwise the
		// contiguity test below would be satisfied by a dropped (zero-weight) locality
		var adv ssa.Instruction
		for _, b := range f.Blocks {
			for _, in := range b.Instrs {
				if ia, ok := in.(*ssa.IndexAddr); ok && FieldLoad(c.field(endpb, "ClusterLoadAssignment", "Endpoints"))(ia.X) {
					if bo, ok := ia.Index.(*ssa.BinOp); ok {
						adv = bo
					}
				}
			}
		}
		nPrio := 0
		for _, b := range f.Blocks {
			for _, in := range b.Instrs {
				mu, ok := in.(*ssa.MapUpdate)
				if !ok {
					continue
				}
				mt, ok := mu.Map.Type().Underlying().(*types.Map)
				if !ok {
					continue
				}
				if _, inner := mt.Elem().Underlying().(*types.Map); !inner {
					continue
				}
				nPrio++
				if c.Expect(adv != nil, mu, f, "locality-walk", "walk over the localities not found") {
					c.MustPass("priority-recorded-only-for-a-kept-locality", pathQuery{Fn: f, Starts: []ssa.Instruction{mu}, Barrier: func(x ssa.Instruction) bool { return x == ssa.Instruction(app) }, Target: func(x ssa.Instruction) bool { return x == adv }}, mu)
				}
				c.Unreachable(mu, "zero-weight-locality-records-no-priority", CmpInt(CallRes(CalleeX("google.golang.org/protobuf/types/known/wrapperspb", "UInt32Value.GetValue"), 0), token.EQL, 0))
			}
		}
		c.Expect(nPrio == 1, app, f, "priority-set-insert", "expected one insertion into the priority table")
		// contiguous priorities
		for _, r := range successReturns(f, 1) {
			miss := func(v ssa.Value) bool {
				e, ok := v.(*ssa.Extract)
				if !ok || e.Index != 1 {
					return false
				}
				l, ok := e.Tuple.(*ssa.Lookup)
				if !ok || !l.CommaOk {
					return false
				}
				ph, isPhi := stripConv(l.Index).(*ssa.Phi)
				if !isPhi {
					return false
				}
				in := loopInit(ph)
				return len(in) == 1 && ConstInt(0)(in[0])
			}
			c.Unreachable(r, "missing-priority-rejected", Truth(miss, false))
			c.MustFact(r, "all-priorities-visited", Cmp(AnyV, token.GEQ, LenOf(AnyV)))
		}
		pe := c.fn(xdsrsrc, "parseEndpoints")
		var eapp *ssa.Call
		for _, in := range instrsWhere(pe, func(in ssa.Instruction) bool {
			call, ok := in.(*ssa.Call)
			return ok && BuiltinCall("append")(&call.Call) && typeName(call.Type().Underlying().(*types.Slice).Elem()) == "Endpoint"
		}) {
			eapp = in.(*ssa.Call)
		}
		if c.Expect(eapp != nil, nil, pe, "endpoint-collected", "endpoints are not collected") {
			c.Unreachable(eapp, "zero-endpoint-weight-rejected", CmpInt(CallRes(CalleeX("google.golang.org/protobuf/types/known/wrapperspb", "UInt32Value.GetValue"), 0), token.EQL, 0), NotNil(CallRes(CalleeX(endpb, "LbEndpoint.GetLoadBalancingWeight"), 0)))
			checkSum(pe, eapp, "endpoint-weights")
			var ains []*ssa.MapUpdate
			for _, b := range pe.Blocks {
				for _, in := range b.Instrs {
					if mu, ok := in.(*ssa.MapUpdate); ok && ParamV("uniqueEndpointAddrs")(mu.Map) {
						ains = append(ains, mu)
					}
				}
			}
			if c.Expect(len(ains) == 1, eapp, pe, "address-set-insert", "expected one insertion into the address set") {
				mu := ains[0]
				seen := func(v ssa.Value) bool {
					l, ok := v.(*ssa.Lookup)
					return ok && !l.CommaOk && ParamV("uniqueEndpointAddrs")(l.X) && sameValue(l.Index, mu.Key)
				}
				c.Unreachable(mu, "duplicate-address-rejected", Truth(seen, true))
			}
		}
		for _, ci := range callsIn(f, Callee(xdsrsrc, "parseEndpoints")) {
			c.Expect(func() bool {
				_, ok := ci.Common().Args[1].(*ssa.MakeMap)
				return ok && !inLoop(ci.Common().Args[1].(*ssa.MakeMap))
			}(), ci, f, "one-address-set-per-resource", "the address set is not shared by all localities of the resource (duplicates across localities would pass)")
		}
	})
	c.Ob("lds-invariants", "R2", "processClientSideListener: a listener with non-zero xff_num_trusted_hops, with original-IP detection extensions, with an RDS config source that is neither ADS nor self, or with an empty route configuration name is never accepted", 4, func() {
		f := c.fn(xdsrsrc, "processClientSideListener")
		hcm := "github.com/envoyproxy/go-control-plane/envoy/extensions/filters/network/http_connection_manager/v3"
		c.Rejects(f, "xff-hops-rejected", CmpInt(FieldLoad(c.field(hcm, "HttpConnectionManager", "XffNumTrustedHops")), token.NEQ, 0))
		c.Rejects(f, "ip-detection-extensions-rejected", CmpInt(LenOf(FieldLoad(c.field(hcm, "HttpConnectionManager", "OriginalIpDetectionExtensions"))), token.NEQ, 0))
		c.Rejects(f, "empty-route-config-name-rejected", Cmp(CallRes(Callee(hcm, "Rds.GetRouteConfigName"), 0), token.EQL, ConstStr("")))
		cs := "github.com/envoyproxy/go-control-plane/envoy/config/core/v3"
		c.Rejects(f, "foreign-rds-config-source-rejected", IsNil(CallRes(Callee(cs, "ConfigSource.GetAds"), 0)), IsNil(CallRes(Callee(cs, "ConfigSource.GetSelf"), 0)))
	})
	c.Ob("server-lds-invariants", "R2", "processNetworkFilters: a server-side listener whose network filter is not the HTTP connection manager, whose (first) HCM has non-zero xff_num_trusted_hops or original-IP detection extensions, whose RDS config source is not ADS, or whose route configuration name is empty, is never accepted", 5, func() {
		f := c.fn(xdsrsrc, "processNetworkFilters")
		hcm := "github.com/envoyproxy/go-control-plane/envoy/extensions/filters/network/http_connection_manager/v3"
		cs := "github.com/envoyproxy/go-control-plane/envoy/config/core/v3"
		c.Rejects(f, "unsupported-network-filter-rejected", Cmp(CallRes(CalleeX("google.golang.org/protobuf/types/known/anypb", "Any.GetTypeUrl"), 0), token.NEQ, AnyV))
		c.Rejects(f, "xff-hops-rejected", CmpInt(FieldLoad(c.field(hcm, "HttpConnectionManager", "XffNumTrustedHops")), token.NEQ, 0))
		c.Rejects(f, "ip-detection-extensions-rejected", CmpInt(LenOf(FieldLoad(c.field(hcm, "HttpConnectionManager", "OriginalIpDetectionExtensions"))), token.NEQ, 0))
		c.Rejects(f, "non-ads-config-source-rejected", IsNil(CallRes(Callee(cs, "ConfigSource.GetAds"), 0)))
		c.Rejects(f, "empty-route-config-name-rejected", Cmp(CallRes(Callee(hcm, "Rds.GetRouteConfigName"), 0), token.EQL, ConstStr("")))
	})
	c.Ob("rds-invariants", "R2", "routesProtoToSlice: a route needs a match and a path specifier; weighted clusters: sum in uint64 checked against MaxUint32, total 0 rejected; every collected route has an action type set", 5, func() {
		f := c.fn(xdsrsrc, "routesProtoToSlice")
		routepb := "github.com/envoyproxy/go-control-plane/envoy/config/route/v3"
		c.Expect(c.NoEarlyExit(f, ParamV("routes"), "every-route-of-the-virtual-host-considered") == 1, nil, f, "route-walk", "no walk over the virtual host's routes")
		// max stream duration: grpc_timeout_header_max wins; max_stream_duration is consulted only without it; a duration is recorded only when one is set
		ghm := CallRes(Callee(routepb, "RouteAction_MaxStreamDuration.GetGrpcTimeoutHeaderMax"), 0)
		for _, ci := range callsIn(f, Callee(routepb, "RouteAction_MaxStreamDuration.GetMaxStreamDuration")) {
			c.MustFact(ci, "plain-max-duration-only-without-header-max", IsNil(ghm))
		}
		for _, ci := range callsIn(f, CalleeX("google.golang.org/protobuf/types/known/durationpb", "Duration.AsDuration")) {
			c.MustFact(ci, "duration-recorded-only-when-set", NotNil(func(v ssa.Value) bool { return typeName(v.Type()) == "Duration" }))
		}
		var app *ssa.Call
		for _, in := range instrsWhere(f, func(in ssa.Instruction) bool {
			call, ok := in.(*ssa.Call)
			if !ok || !BuiltinCall("append")(&call.Call) {
				return false
			}
			p, isP := call.Type().Underlying().(*types.Slice).Elem().(*types.Pointer)
			return isP && typeName(p) == "Route"
		}) {
			app = in.(*ssa.Call)
		}
		if !c.Expect(app != nil, nil, f, "route-collected", "routes are not collected") {
			return
		}
		c.Unreachable(app, "route-needs-a-match", IsNil(CallRes(CalleeX(routepb, "Route.GetMatch"), 0)))
		// cluster specifier: a route whose specifier is none of the known wrappers, or an optional unsupported plugin, is ignored — never collected
		var noneCS []FM
		for _, ta := range typeSwitchArms(f) {
			if !CallRes(CalleeX(routepb, "RouteAction.GetClusterSpecifier"), 0)(ta.X) {
				continue
			}
			ta := ta
			noneCS = append(noneCS, Truth(func(v ssa.Value) bool {
				e, ok := v.(*ssa.Extract)
				return ok && e.Index == 1 && e.Tuple == ssa.Value(ta)
			}, false))
		}
		if c.Expect(len(noneCS) == 3, app, f, "cluster-specifier-switch", "expected the cluster / weighted-clusters / plugin arms of the cluster-specifier switch") {
			c.Unreachable(app, "route-with-unknown-cluster-specifier-ignored", noneCS...)
		}
		c.Unreachable(app, "route-needs-a-path-specifier", IsNil(CallRes(CalleeX(routepb, "RouteMatch.GetPathSpecifier"), 0)))
		wc := Truth(func(v ssa.Value) bool {
			e, ok := v.(*ssa.Extract)
			if !ok || e.Index != 1 {
				return false
			}
			ta, ok := e.Tuple.(*ssa.TypeAssert)
			return ok && typeName(ta.AssertedType) == "RouteAction_WeightedClusters"
		}, true)
		u64 := func(v ssa.Value) bool {
			b, isB := v.Type().Underlying().(*types.Basic)
			return isB && b.Kind() == types.Uint64
		}
		c.Unreachable(app, "weighted-clusters-overflow-rejected", Cmp(u64, token.GTR, ConstNum(4294967295)))
		c.Unreachable(app, "weighted-clusters-zero-total-rejected", wc, Cmp(u64, token.EQL, ConstInt(0)))
		okSum := false
		for _, fc := range allCmpFacts(f) {
			if fc.Op == token.GTR && u64(fc.X) && ConstNum(4294967295)(fc.Y) {
				okSum = true
			}
		}
		c.Expect(okSum, app, f, "weighted-clusters-sum-in-uint64", "the cluster weight total is not a uint64 compared with MaxUint32")
		// action type set on every path to the collection
		fAT := c.field(xdsrsrc, "Route", "ActionType")
		isAT := func(in ssa.Instruction) bool {
			st, ok := in.(*ssa.Store)
			return ok && FieldAddrOf(fAT)(st.Addr)
		}
		get := one(c, "GetAction", callsIn(f, CalleeX(routepb, "Route.GetAction")))
		c.MustPass("action-type-set-before-route-is-collected", pathQuery{Fn: f, Starts: []ssa.Instruction{get}, Barrier: isAT, Target: func(in ssa.Instruction) bool { return in == ssa.Instruction(app) }}, get)
	})
}

// mapOrigin strips a phi of map values down to one of its edges (best effort).
func mapOrigin(v ssa.Value) ssa.Value {
	if p, ok := v.(*ssa.Phi); ok && len(p.Edges) > 0 {
		return p.Edges[0]
	}
	return v
}

// inLoop: is the instruction inside a CFG cycle?
func inLoop(in ssa.Instruction) bool {
	b := in.Block()
	for _, s := range b.Succs {
		if reachableBlocks(s)[b] {
			return true
		}
	}
	return false
}

// Reviewed direct selections on proto message pointers (function, Type.Field,
// why the pointer is not nil when the resource was decoded from bytes).
var c45Reviewed = [][3]string{
	{"parseEDSRespProto", "ClusterLoadAssignment.Endpoints", "m is the message the caller just unmarshalled into (fresh &ClusterLoadAssignment{})"},
	{"processServerSideListener", "Listener.ListenerFilters", "lis is the message the caller just unmarshalled into"},
	{"generateRDSUpdateFromRouteConfiguration", "RouteConfiguration.ClusterSpecifierPlugins", "rc is either the freshly unmarshalled message or the inner message of a matched RouteConfig oneof wrapper (allocated by the decoder when the field is on the wire)"},
	{"generateRetryConfig", "UInt32Value.Value", "guarded by rp.NumRetries == nil on the other arm (the getter returns that same field)"},
	{"routesProtoToSlice", "Int64Range.Start", "inner message of the matched HeaderMatcher_RangeMatch oneof wrapper"},
	{"routesProtoToSlice", "Int64Range.End", "inner message of the matched HeaderMatcher_RangeMatch oneof wrapper"},
	{"routesProtoToSlice", "RouteAction.HashPolicy", "action is the inner message of the matched Route_Route oneof wrapper"},
	{"routesProtoToSlice", "WeightedCluster.Clusters", "inner message of the matched RouteAction_WeightedClusters oneof wrapper"},
	{"validateClusterAndConstructClusterUpdate", "Cluster_CustomClusterType.Name", "the same condition first tests cluster.GetClusterType() != nil (same getter, no write in between)"},
}
