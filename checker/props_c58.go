package main

import (
	"go/token"
	"go/types"

	"golang.org/x/tools/go/ssa"
)

const creds = "credentials"

func init() {
	register(&PropDef{
		ID:          "C58",
		Pkgs:        []string{tr, "grpc"},
		Claim:       "Decides the structural part: the per-call credential's metadata fetch is unreachable from the arms where it requires transport security and the connection is not secure or below PrivacyAndIntegrity (and those arms return Unauthenticated); both credential fetches and their error returns precede every header field and the hand-over to the writer; dial-time credentials that require security make the handshake fail on a connection with a valid security level below PrivacyAndIntegrity before the transport is marked secure; NewClient validates 'insecure'+requiring credentials; credential metadata keys are lower-cased and validated. The dial-time validation inspects the credentials in effect (the explicit transport credentials, else the bundle's) and asks every per-RPC credential; the call-credentials presence arms skip the fetch only when the call has none.",
		NotDecided:  []string{"behaviour of third-party TransportCredentials that report no CommonAuthInfo (accepted by design)", "what a PerRPCCredentials implementation does with the context it is given"},
		Assumptions: []string{"credentials.CheckSecurityLevel and RequestInfoFromContext behave as documented"},
		Technique:   "static analysis: refusing-arm unreachability and dominating guards on go/ssa branch facts, constant-flow of status codes, value-origin of arguments",
		Run:         c58,
	})
}

func c58(c *Ctx) {
	requires := Truth(CallRes(Callee(creds, "PerRPCCredentials.RequireTransportSecurity"), 0), true)
	c.Ob("call-creds", "R2", "per-call credentials: GetRequestMetadata is unreachable when RequireTransportSecurity() and (transport not secure or CheckSecurityLevel(PrivacyAndIntegrity) fails); the refusing arm returns codes.Unauthenticated", 4, func() {
		f := c.fn(tr, "http2Client.getCallAuthData")
		get := one(c, "GetRequestMetadata call in getCallAuthData", callsIn(f, Callee(creds, "PerRPCCredentials.GetRequestMetadata")))
		isSecure := c.field(tr, "http2Client", "isSecure")
		chk := CallRes(Callee(creds, "CheckSecurityLevel"), 0)
		c.Unreachable(get, "requires-and-not-secure", requires, Truth(FieldLoad(isSecure), false))
		c.Unreachable(get, "requires-and-level-too-low", requires, NotNil(chk))
		c.statusCodeIn(blocksWhere(f, requires, Truth(FieldLoad(isSecure), false)), f, "not-secure->Unauthenticated", "Unauthenticated")
		c.statusCodeIn(blocksWhere(f, requires, NotNil(chk)), f, "level-too-low->Unauthenticated", "Unauthenticated")
		ck := one(c, "CheckSecurityLevel call", callsIn(f, Callee(creds, "CheckSecurityLevel")))
		c.ArgIs(ck, 1, "level-is-PrivacyAndIntegrity", ConstOfObj(c.konst(creds, "PrivacyAndIntegrity")))
		c.ArgIs(ck, 0, "auth-info-from-request-info", DataDep(CallRes(Callee(creds, "RequestInfoFromContext"), 0)))
		// configured per-call credentials are always consulted: metadata is fetched exactly when the call carries credentials
		fCr := c.field(tr, "CallHdr", "Creds")
		c.MustFact(get, "fetch-only-from-existing-credentials", NotNil(FieldLoad(fCr)))
		for _, r := range returnsOf(f) {
			if r.Block() == f.Recover || !ConstNil(r.Results[1]) || instrDominates(get, r) {
				continue
			}
			gb := get.Block()
			c.EnteredOnlyWhenExcept(r.Block(), "credentials-skipped-only-when-the-call-has-none", func(p *ssa.BasicBlock) bool { return p == gb || gb.Dominates(p) }, IsNil(FieldLoad(fCr)))
		}
		// the receiver of GetRequestMetadata is the credential whose requirement was tested
		rq := one(c, "RequireTransportSecurity call", callsIn(f, Callee(creds, "PerRPCCredentials.RequireTransportSecurity")))
		c.Expect(strip(rq.Common().Value) == strip(get.Common().Value), get, f, "same-credential", "the credential asked for metadata is not the one whose RequireTransportSecurity was tested")
	})
	c.Ob("before-headers", "R3", "both credential fetches (and their error returns) precede every header field and the hand-over of the headers to the writer", 4, func() {
		f := c.fn(tr, "http2Client.createHeaderFields")
		trOK := IsNil(CallRes(Callee(tr, "http2Client.getTrAuthData"), 1))
		callOK := IsNil(CallRes(Callee(tr, "http2Client.getCallAuthData"), 1))
		hfName := c.field(h2+"/hpack", "HeaderField", "Name")
		n := 0
		for _, st := range storesToField(f, hfName) {
			n++
			if n <= 3 {
				c.MustFact(st, "dial-creds-ok", trOK)
				c.MustFact(st, "call-creds-ok", callOK)
			} else if !c.HasFact(st, trOK) || !c.HasFact(st, callOK) {
				c.MustFact(st, "dial-creds-ok", trOK)
				c.MustFact(st, "call-creds-ok", callOK)
			}
		}
		for _, r := range successReturns(f, 1) {
			if r.Block() == f.Recover {
				continue
			}
			c.MustFact(r, "dial-creds-ok@return", trOK)
			c.MustFact(r, "call-creds-ok@return", callOK)
		}
		ns := c.fn(tr, "http2Client.NewStream")
		for _, put := range callsIn(ns, Callee(tr, "controlBuffer.executeAndPut")) {
			c.MustFact(put, "headers-built-ok", IsNil(CallRes(Callee(tr, "http2Client.createHeaderFields"), 1)))
		}
	})
	c.Ob("dial-creds-handshake", "R2", "a dial-time credential requiring security plus a handshake result with a valid security level below PrivacyAndIntegrity makes transport construction unreachable; isSecure becomes true only after a successful handshake with transport credentials", 3, func() {
		f := c.fn(tr, "NewHTTP2Client")
		isSecure := c.field(tr, "http2Client", "isSecure")
		st := one(c, "store to http2Client.isSecure in NewHTTP2Client", storesToField(f, isSecure))
		invalid := ConstOfObj(c.konst(creds, "InvalidSecurityLevel"))
		pai := ConstOfObj(c.konst(creds, "PrivacyAndIntegrity"))
		secLevel := c.field(creds, "CommonAuthInfo", "SecurityLevel")
		lvl := FieldLoad(secLevel)
		rtsCM := Callee(creds, "PerRPCCredentials.RequireTransportSecurity")
		// the check may be written in NewHTTP2Client itself or in a helper of the package that NewHTTP2Client calls and
		// whose error result it tests before going on (helper form: obligations below are split between the two)
		var helper *ssa.Function
		var helperCall *ssa.Call
		if len(callsIn(f, rtsCM)) == 0 {
			for _, b := range f.Blocks {
				for _, in := range b.Instrs {
					if call, ok := in.(*ssa.Call); ok {
						if g := call.Call.StaticCallee(); g != nil && g.Pkg == f.Pkg && len(g.Blocks) > 0 && len(callsIn(g, rtsCM)) > 0 {
							if helper != nil {
								panic(missingStep{"more than one security-checking helper called from NewHTTP2Client"})
							}
							helper, helperCall = g, call
						}
					}
				}
			}
		}
		if helper == nil {
			c.Unreachable(st, "weak-level-refused", requires, Cmp(lvl, token.NEQ, invalid), Cmp(lvl, token.LSS, pai))
			for _, b := range blocksWhere(f, requires, Cmp(lvl, token.NEQ, invalid), Cmp(lvl, token.LSS, pai)) {
				for _, in := range b.Instrs {
					if r, ok := in.(*ssa.Return); ok {
						c.Expect(provablyNonNil(r.Results[1], r, 0), r, f, "weak-level-returns-error", "the refusing arm returns a nil error")
					}
				}
			}
		} else {
			res := helper.Signature.Results()
			errIdx := res.Len() - 1
			// in the helper: from the weak-level arm no return with a possibly-nil error is reachable
			nRet := 0
			for _, r := range returnsOf(helper) {
				if r.Block() == helper.Recover || provablyNonNil(r.Results[errIdx], r, 0) {
					continue
				}
				nRet++
				c.Unreachable(r, "weak-level-refused", requires, Cmp(lvl, token.NEQ, invalid), Cmp(lvl, token.LSS, pai))
			}
			c.Expect(nRet >= 1, nil, helper, "weak-level-refused", "the security-checking helper has no success return")
			// in NewHTTP2Client: the transport is marked secure only with the helper's error tested nil
			ri := errIdx
			if res.Len() == 1 {
				ri = 0
			}
			hc := func(cc *ssa.CallCommon) bool { return cc == &helperCall.Call }
			c.ValueIs(st, st.Val, "weak-level-refused", SetWhen(IsNil(CallRes(hc, ri))))
		}
		hsErr := CallRes(Callee(creds, "TransportCredentials.ClientHandshake"), 2)
		c.ValueIs(st, st.Val, "isSecure-only-after-handshake", SetWhen(IsNil(hsErr)))
		// the credentials checked at the handshake are exactly those the transport will attach to RPCs
		fPRC := c.field(tr, "http2Client", "perRPCCreds")
		stored := one(c, "store to http2Client.perRPCCreds", storesToField(f, fPRC))
		if helper != nil {
			rq := one(c, "RequireTransportSecurity call in the helper", callsIn(helper, rtsCM))
			argOf := func(v ssa.Value) ssa.Value { // the NewHTTP2Client argument bound to the helper parameter v
				for i, gp := range helper.Params {
					if strip(v) == ssa.Value(gp) && i < len(helperCall.Call.Args) {
						return helperCall.Call.Args[i]
					}
				}
				return nil
			}
			var ranged ssa.Value
			if u, ok := strip(rq.Common().Value).(*ssa.UnOp); ok {
				if ia, ok := u.X.(*ssa.IndexAddr); ok {
					ranged = argOf(ia.X)
				}
			}
			c.Expect(ranged != nil && strip(ranged) == strip(stored.Val), rq, helper, "checked-creds-are-attached-creds", "the credentials whose security requirement is checked at the handshake are not the set stored in the transport for attaching to RPCs")
			nTA := 0
			for _, in := range instrsWhere(helper, func(in ssa.Instruction) bool { ta, ok := in.(*ssa.TypeAssert); return ok && ta.CommaOk }) {
				ta := in.(*ssa.TypeAssert)
				if _, isIface := ta.AssertedType.Underlying().(*types.Interface); isIface && reachableBlocks(rq.Block())[ta.Block()] {
					nTA++
					a := argOf(ta.X)
					c.Expect(a != nil && CallRes(Callee(creds, "TransportCredentials.ClientHandshake"), 1)(a), ta, helper, "level-from-handshake-authinfo", "the security level compared is not the one reported by this handshake")
				}
			}
			c.Expect(nTA >= 1, nil, helper, "level-from-handshake-authinfo", "the helper does not read the handshake's security level")
			return
		}
		rq := one(c, "RequireTransportSecurity call in NewHTTP2Client", callsIn(f, Callee(creds, "PerRPCCredentials.RequireTransportSecurity")))
		var ranged ssa.Value
		if u, ok := strip(rq.Common().Value).(*ssa.UnOp); ok {
			if ia, ok := u.X.(*ssa.IndexAddr); ok {
				ranged = ia.X
			}
		}
		c.Expect(ranged != nil && strip(ranged) == strip(stored.Val), rq, f, "checked-creds-are-attached-creds", "the credentials whose security requirement is checked at the handshake are not the set stored in the transport for attaching to RPCs")
		// the level compared is the one reported by this handshake's AuthInfo
		for _, in := range instrsWhere(f, func(in ssa.Instruction) bool { ta, ok := in.(*ssa.TypeAssert); return ok && ta.CommaOk }) {
			ta := in.(*ssa.TypeAssert)
			if ta.Block().Dominates(rq.Block()) || rq.Block().Dominates(ta.Block()) {
				if _, isIface := ta.AssertedType.Underlying().(*types.Interface); isIface && reachableBlocks(rq.Block())[ta.Block()] {
					c.ValueIs(ta, ta.X, "level-from-handshake-authinfo", CallRes(Callee(creds, "TransportCredentials.ClientHandshake"), 1))
				}
			}
		}

	})
	c.Ob("dial-validation", "R2", "NewClient rejects the combination of 'insecure' transport credentials and a per-RPC credential that requires transport security before returning a ClientConn", 2, func() {
		f := c.fn("grpc", "ClientConn.validateTransportCredentials")
		secProto := c.field(creds, "ProtocolInfo", "SecurityProtocol")
		insecure := Cmp(FieldLoad(secProto), token.EQL, ConstStr("insecure"))
		n := 0
		for _, r := range successReturns(f, 0) {
			n++
			c.Unreachable(r, "insecure+requiring-creds-rejected", insecure, requires)
		}
		c.Expect(n > 0, nil, f, "has-success-return", "validateTransportCredentials has no success return")
		// the credentials whose security protocol is inspected are the ones in effect: the explicit transport credentials when set,
		// otherwise the bundle's; every configured per-RPC credential is asked (the walk is never left early)
		fTC := c.field(tr, "ConnectOptions", "TransportCredentials")
		for _, ci := range callsIn(f, Callee(creds, "TransportCredentials.Info")) {
			ph, isPhi := ci.Common().Value.(*ssa.Phi)
			okSel := false
			if isPhi && len(ph.Edges) == 2 {
				nF, nB := 0, 0
				for i, e := range ph.Edges {
					pr := ph.Block().Preds[i]
					fs := append(append([]Fact(nil), FactsAtBlock(pr)...), edgeOnlyFacts(pr, ph.Block())...)
					if FieldLoad(fTC)(e) {
						if _, h := hasFact(fs, NotNil(FieldLoad(fTC))); h {
							nF++
						}
					} else if CallRes(Callee(creds, "Bundle.TransportCredentials"), 0)(e) {
						if _, h := hasFact(fs, IsNil(FieldLoad(fTC))); h {
							nB++
						}
					}
				}
				okSel = nF == 1 && nB == 1
			}
			c.Expect(okSel, ci, f, "inspects-the-credentials-in-effect", "the security protocol is read from credentials other than 'explicit transport credentials, else the bundle's'")
		}
		c.NoEarlyExit(f, FieldLoad(c.field(tr, "ConnectOptions", "PerRPCCredentials")), "every-per-rpc-credential-asked")
		nc := c.fn("grpc", "NewClient")
		ok := IsNil(CallRes(Callee("grpc", "ClientConn.validateTransportCredentials"), 0))
		for _, r := range successReturns(nc, 1) {
			if r.Block() == nc.Recover {
				continue
			}
			c.MustFact(r, "validated-before-return", ok)
		}
	})
	c.Ob("creds-metadata-unchanged", "R9", "credential metadata enters the header map only under a key passed through strings.ToLower and after ValidatePair succeeded; header fields for it are produced by encodeMetadataHeader(k, v)", 4, func() {
		for _, name := range []string{"http2Client.getTrAuthData", "http2Client.getCallAuthData"} {
			f := c.fn(tr, name)
			n := 0
			for _, in := range instrsWhere(f, func(in ssa.Instruction) bool { _, ok := in.(*ssa.MapUpdate); return ok }) {
				mu := in.(*ssa.MapUpdate)
				n++
				c.ValueIs(mu, mu.Key, "key-lowercased", CallRes(CalleeX("strings", "ToLower"), 0))
				c.MustFact(mu, "pair-validated", IsNil(CallRes(Callee("internal/metadata", "ValidatePair"), 0)))
			}
			c.Expect(n == 1, nil, f, "one-insertion", "expected exactly one map insertion of credential metadata")
		}
	})
}
