package main

import (
	"go/token"
	"go/types"

	"golang.org/x/tools/go/ssa"
)

func init() {
	register(&PropDef{
		ID:    "C04",
		Pkgs:  []string{tr},
		Claim: "Decides the structural part: the per-stream inbound window state is accessed only under its mutex; a stream is reset with FLOW_CONTROL_ERROR exactly on the arm where the inbound accounting rejected the data (client and server), and rejected data is never delivered; padding bytes of a padded DATA frame are credited back at once on both sides; every successful application read returns its bytes to the window handler, and the read is announced before blocking; every WINDOW_UPDATE increment put on the wire is a positive value returned by the inbound accounting functions and carries the right stream id (0 for connection level); the window-growth adjustment is clamped to the maximum window.",
		NotDecided:  []string{"exactness of the counters over all arrival/read sequences (ledger arithmetic)", "'never stalled forever' (liveness)"},
		Assumptions: []string{"uint32 arithmetic does not wrap for windows below 2^31"},
		Technique:   "static analysis: must-lockset, dominating guards and refusing-arm unreachability on go/ssa branch facts, value-origin of stored increments, must-pass-through",
		Run:         c04,
	})
	register(&PropDef{
		ID:    "C05",
		Pkgs:  []string{tr},
		Claim: "Decides the structural part: the receive buffer's backlog and sticky error are accessed only under its mutex; once an error/EOF item was recorded nothing more is queued (later buffers are freed); items are appended at the tail, handed to the channel only when the backlog is empty, and taken from the head; compaction rewrites exactly the uncompacted suffix into one item at the suffix start; every reader calls load() after each receive so the next item moves up; the reader returns a recorded error first, keeps the unread remainder of a split buffer and consumes it before receiving again. Stream.read / ReadMessageHeader return success only when the requested count reached zero, drop a reader error only when the request was completed by the same call, and report a partial read ending in EOF as ErrUnexpectedEOF; the read side is closed and the end signalled only for END_STREAM.",
		NotDecided:  []string{"byte-exact equality of delivered data through compaction and splitting (value property)"},
		Assumptions: []string{"mem.SplitUnsafe/ReadUnsafe split a buffer at the requested offset"},
		Technique:   "static analysis: must-lockset, dominating guards on go/ssa branch facts, stored-value shape (append / reslice), must-pass-through",
		Run:         c05,
	})
}

func c04(c *Ctx) {
	inf := func(f string) *types.Var { return c.field(tr, "inFlow", f) }
	c.Ob("inflow-lock", "R4", "limit, pendingData, pendingUpdate and delta of the per-stream inbound window are accessed only with its mutex held", 20, func() {
		c.GuardedBy(GuardSpec{Label: "inFlow", Mu: inf("mu"), Fields: []*types.Var{inf("limit"), inf("pendingData"), inf("pendingUpdate"), inf("delta")}, Scope: c.scope(tr)})
	})
	c.Ob("window-cap", "R5", "window growth on demand: the request is clamped to MaxInt32, and the granted delta is maxWindowSize-limit exactly when limit+n would exceed the maximum window, else n; the over-limit check of arriving data compares pending (data+update) with limit+delta", 4, func() {
		f := c.fn(tr, "inFlow.maybeAdjust")
		maxW := ConstOfObj(c.konst(tr, "maxWindowSize"))
		sum := BinOpV(token.ADD, FieldLoad(inf("limit")), AnyV)
		nCap, nPlain := 0, 0
		for _, st := range storesToField(f, inf("delta")) {
			if BinOpV(token.SUB, maxW, FieldLoad(inf("limit")))(st.Val) {
				nCap++
				c.MustFact(st, "capped-when-over-max", Cmp(sum, token.GTR, maxW))
			} else {
				nPlain++
				c.MustFact(st, "uncapped-only-when-within-max", Cmp(sum, token.LEQ, maxW))
				c.nontrivial("ub-n")
				c.Expect(boundedBy(st.Val, ConstInt(1<<31-1)), st, f, "request-clamped-to-MaxInt32", "cannot derive n <= MaxInt32")
			}
		}
		c.Expect(nCap == 1 && nPlain == 1, nil, f, "two-delta-arms", "expected a capped and an uncapped delta assignment")
		od := c.fn(tr, "inFlow.onData")
		pend := BinOpV(token.ADD, FieldLoad(inf("pendingData")), FieldLoad(inf("pendingUpdate")))
		lim := BinOpV(token.ADD, FieldLoad(inf("limit")), FieldLoad(inf("delta")))
		for _, r := range returnsOf(od) {
			if r.Block() == od.Recover {
				continue
			}
			if provablyNonNil(r.Results[0], r, 0) {
				c.MustFact(r, "error-only-when-over-limit", Cmp(pend, token.GTR, lim))
			} else {
				c.MustFact(r, "accepted-only-within-limit", Cmp(pend, token.LEQ, lim))
			}
		}
		st := one(c, "pendingData update in onData", storesToField(od, inf("pendingData")))
		c.ValueIs(st, st.Val, "pending+=n", BinOpV(token.ADD, FieldLoad(inf("pendingData")), ParamV("n")))
	})
	type side struct {
		fn      string
		rstIdx  int
		writeCM CM
	}
	sides := []side{{"http2Client.handleData", 4, Callee(tr, "ClientStream.write")}, {"http2Server.handleData", 3, Callee(tr, "ServerStream.write")}}
	onData := CallRes(Callee(tr, "inFlow.onData"), 0)
	c.Ob("flow-control-reset", "R2", "sibling x2: the stream is reset with FLOW_CONTROL_ERROR only where the inbound accounting returned an error, and data is handed to the application only where it did not", 6, func() {
		fc := ConstOfObj(c.konst(h2, "ErrCodeFlowControl"))
		for _, s := range sides {
			f := c.fn(tr, s.fn)
			n := 0
			for _, cs := range callsIn(f, AnyCM(Callee(tr, "http2Client.closeStream"), Callee(tr, "http2Server.closeStream"))) {
				if fc(cs.Common().Args[s.rstIdx]) {
					n++
					c.MustFact(cs, "reset-only-on-accounting-error", NotNil(onData))
				}
			}
			c.Expect(n == 1, nil, f, "one-flow-control-reset", "expected exactly one FLOW_CONTROL_ERROR reset in "+s.fn)
			for _, w := range callsIn(f, s.writeCM) {
				fBuf := c.field(tr, "recvMsg", "buffer")
				_ = fBuf
				c.Unreachable(w, "rejected-data-not-delivered", NotNil(onData))
			}
			od := one(c, "stream-level onData in "+s.fn, callsIn(f, Callee(tr, "inFlow.onData")))
			c.ArgIs(od, 1, "accounts-the-frame-length", FieldLoad(c.field(h2, "FrameHeader", "Length")))
			tod := one(c, "connection-level onData in "+s.fn, callsIn(f, Callee(tr, "trInFlow.onData")))
			c.ArgIs(tod, 1, "connection-accounts-the-frame-length", FieldLoad(c.field(h2, "FrameHeader", "Length")))
			c.Dominates(tod, od, "connection-accounting-first")
			// connection-level accounting is unconditional: bytes of a frame for an unknown/finished stream
			// still consumed connection window and must be counted, otherwise the window leaks
			for _, r := range returnsOf(f) {
				if r.Block() == f.Recover {
					continue
				}
				c.Expect(instrDominates(tod, r), r, f, "connection-accounting-unconditional", "a return of the DATA handler is reachable without the connection-level accounting of the frame")
			}
		}
	})
	c.Ob("padding-credit", "R3", "sibling x2: for a padded DATA frame the padding (frame length - data length) is returned to the stream window immediately", 2, func() {
		padded := Truth(CallWith(CalleeX(h2, "Flags.Has"), 1, ConstOfObj(c.konst(h2, "FlagDataPadded"))), true)
		size := FieldLoad(c.field(h2, "FrameHeader", "Length"))
		for _, s := range sides {
			f := c.fn(tr, s.fn)
			n := 0
			for _, or := range callsIn(f, Callee(tr, "inFlow.onRead")) {
				if !BinOpV(token.SUB, size, AnyV)(or.Common().Args[1]) {
					continue
				}
				n++
				c.MustFact(or, "only-for-padded-frames", padded)
				sub := strip(or.Common().Args[1]).(*ssa.BinOp)
				c.Expect(DataDep(OrV(CallRes(Callee("mem", "BufferSlice.Len"), 0), CallRes(Callee("mem", "Buffer.Len"), 0)))(sub.Y), or, f, "padding=length-datalen", "the credited amount is not frame length minus data length")
			}
			c.Expect(n == 1, nil, f, "padding-credited", "padded DATA frames do not get their padding credited back in "+s.fn)
			// never skipped for padded frames with data
			hs := callsIn(f, CalleeX(h2, "Flags.Has"))
			// the padding test is reached for every charged frame: beyond "the frame has a length" and the nil/error tests
			// of the arms before it (stream found, accounting accepted, gRPC response) nothing may condition it — a frame
			// that is all padding was charged in full and must get all of it back
			if len(hs) == 1 {
				c.inst(s.fn + ":padding-test-not-conditioned-on-payload @ " + c.siteStr(hs[0]))
				payloadLen := DataDep(OrV(CallRes(Callee("mem", "BufferSlice.Len"), 0), CallRes(Callee("mem", "Buffer.Len"), 0)))
				for _, fc := range FactsAt(hs[0]) {
					dep := fc.X != nil && payloadLen(fc.X) || fc.Y != nil && payloadLen(fc.Y)
					c.Expect(!dep, hs[0], f, s.fn+":padding-test-not-conditioned-on-payload", "the padding of a DATA frame is credited back only under a condition on the payload length ("+fc.String()+"): a frame that is all padding keeps its whole length charged to the stream window")
				}
			}
			if len(hs) == 1 {
				q := pathQuery{Fn: f, Starts: []ssa.Instruction{hs[0]}, Barrier: isCallTo(Callee(tr, "inFlow.onRead")), Target: isCallTo(s.writeCM),
					EdgeBlock: func(from, to *ssa.BasicBlock) bool {
						_, ok := hasFact(edgeFacts(from, to), Truth(CallRes(CalleeX(h2, "Flags.Has"), 0), false))
						return ok
					}}
				c.MustPass("padded-frame-credited-before-delivery", q, hs[0])
			}
		}
	})
	c.Ob("read-restores", "R3", "every successful read through the transport reader reports the bytes read to the window handler; the stream announces the size it is about to read before reading", 4, func() {
		for _, name := range []string{"transportReader.Read", "transportReader.ReadMessageHeader"} {
			f := c.fn(tr, name)
			var rd ssa.CallInstruction
			for _, ci := range callsIn(f, AnyCM(Callee(tr, "recvBufferReader.Read"), Callee(tr, "recvBufferReader.ReadMessageHeader"))) {
				rd = ci
			}
			if rd == nil {
				panic(missingStep{"no inner read in " + name})
			}
			up := one(c, "updateWindow in "+name, callsIn(f, Callee(tr, "windowHandler.updateWindow")))
			q := pathQuery{Fn: f, Starts: []ssa.Instruction{rd}, Barrier: func(in ssa.Instruction) bool { return in == ssa.Instruction(up) }, Target: isReturn,
				EdgeBlock: func(from, to *ssa.BasicBlock) bool {
					_, ok := hasFact(edgeFacts(from, to), NotNil(AnyV))
					return ok
				}}
			c.MustPass("successful-read-restores-window", q, rd)
		}
		for _, name := range []string{"Stream.read", "Stream.ReadMessageHeader"} {
			f := c.fn(tr, name)
			rr := one(c, "requestRead in "+name, callsIn(f, Callee(tr, "readRequester.requestRead")))
			for _, ci := range callsIn(f, AnyCM(Callee(tr, "transportReader.Read"), Callee(tr, "transportReader.ReadMessageHeader"))) {
				c.Dominates(rr, ci, "announce-before-read")
			}
		}
	})
	c.Ob("wu-origin", "R8", "every outgoing WINDOW_UPDATE increment is a result of the inbound accounting (per-stream onRead/maybeAdjust, connection onData/reset/newLimit), is sent only when positive, and names stream 0 for connection-level results and the stream's id otherwise", 12, func() {
		fInc := c.field(tr, "outgoingWindowUpdate", "increment")
		fSID := c.field(tr, "outgoingWindowUpdate", "streamID")
		streamRes := OrV(CallRes(Callee(tr, "inFlow.onRead"), 0), CallRes(Callee(tr, "inFlow.maybeAdjust"), 0))
		connRes := OrV(CallRes(Callee(tr, "trInFlow.onData"), 0), CallRes(Callee(tr, "trInFlow.reset"), 0), CallRes(Callee(tr, "trInFlow.newLimit"), 0))
		for _, f := range c.scope(tr) {
			for _, st := range storesToField(f, fInc) {
				isStream, isConn := streamRes(st.Val), connRes(st.Val)
				if !c.Expect(isStream || isConn, st, f, "increment-from-accounting", "a WINDOW_UPDATE increment does not come from the inbound accounting functions") {
					continue
				}
				if !CallRes(Callee(tr, "trInFlow.newLimit"), 0)(st.Val) {
					v := st.Val
					c.MustFact(st, "only-positive-increments", CmpInt(func(x ssa.Value) bool { return x == v }, token.GTR, 0))
				}
				// the stream id stored into the same literal
				for _, ss := range storesToField(f, fSID) {
					if ss.Addr.(*ssa.FieldAddr).X != st.Addr.(*ssa.FieldAddr).X {
						continue
					}
					if isConn {
						c.ValueIs(ss, ss.Val, "connection-level-uses-stream-0", ConstInt(0))
					} else {
						c.ValueIs(ss, ss.Val, "stream-level-uses-stream-id", func(v ssa.Value) bool { return !ConstInt(0)(v) && FieldLoad(c.field(tr, "Stream", "id"))(v) })
					}
				}
			}
		}
	})
}

func c05(c *Ctx) {
	rb := func(f string) *types.Var { return c.field(tr, "recvBuffer", f) }
	fBack, fErr := rb("backlog"), rb("err")
	c.Ob("recvbuf-lock", "R4", "backlog, the sticky error and the compaction counters are accessed only under the receive buffer's mutex (the compaction helper is called only with it held)", 15, func() {
		c.GuardedBy(GuardSpec{Label: "recvBuffer", Mu: rb("mu"), Fields: []*types.Var{fBack, fErr, rb("uncompactedBytes"), rb("uncompactedSuffixLen")}, Scope: c.scope(tr),
			Locked: map[string]bool{"internal/transport.recvBuffer.compactBacklogLocked": true}})
		c.WhoMayCall("compactBacklogLocked", Callee(tr, "recvBuffer.compactBacklogLocked"), c.scope(tr), "internal/transport.recvBuffer.put")
	})
	c.Ob("nothing-after-error", "R2", "put: the channel send and the append happen only while no error/EOF item has been recorded; otherwise the buffer is freed; the direct send requires an empty backlog; the item's error becomes the sticky error", 5, func() {
		f := c.fn(tr, "recvBuffer.put")
		noErr := IsNil(FieldLoad(fErr))
		sel := one(c, "select in put", instrsWhere(f, func(in ssa.Instruction) bool { _, ok := in.(*ssa.Select); return ok })).(*ssa.Select)
		c.MustFact(sel, "send-only-before-error", noErr)
		c.MustFact(sel, "direct-send-only-if-backlog-empty", CmpInt(LenOf(FieldLoad(fBack)), token.EQL, 0))
		ap := one(c, "append to backlog in put", storesToField(f, fBack))
		c.MustFact(ap, "append-only-before-error", noErr)
		call, ok := ap.Val.(*ssa.Call)
		c.Expect(ok && BuiltinCall("append")(&call.Call) && FieldLoad(fBack)(call.Call.Args[0]), ap, f, "append-at-tail", "put does not append at the tail of the backlog")
		es := one(c, "sticky error store", storesToField(f, fErr))
		c.ValueIs(es, es.Val, "sticky-error-is-item-error", func(v ssa.Value) bool { return DataDep(ParamV("r"))(v) })
		nfree := 0
		for _, b := range blocksWhere(f, NotNil(FieldLoad(fErr))) {
			for _, in := range b.Instrs {
				if isCallTo(Callee("mem", "Buffer.Free"))(in) {
					nfree++
				}
			}
		}
		c.Expect(nfree == 1, nil, f, "late-buffer-freed", "a buffer arriving after the error item is not freed")
	})
	c.Ob("queue-shape", "R1", "load: sends backlog[0] and then drops exactly the head; compaction: copies exactly backlog[len-suffix:], stores the merged buffer at that index and truncates to index+1; the backlog is written nowhere else", 6, func() {
		c.WhoMayMutate("backlog", fBack, c.scope(tr), "internal/transport.recvBuffer.put", "internal/transport.recvBuffer.load", "internal/transport.recvBuffer.compactBacklogLocked", "internal/transport.recvBuffer.init")
		ld := c.fn(tr, "recvBuffer.load")
		sel := one(c, "select in load", instrsWhere(ld, func(in ssa.Instruction) bool { _, ok := in.(*ssa.Select); return ok })).(*ssa.Select)
		head := func(v ssa.Value) bool {
			u, ok := strip(v).(*ssa.UnOp)
			if !ok {
				return false
			}
			ia, ok := u.X.(*ssa.IndexAddr)
			return ok && FieldLoad(fBack)(ia.X) && ConstInt(0)(ia.Index)
		}
		c.Expect(len(sel.States) == 1 && head(sel.States[0].Send), sel, ld, "sends-the-head", "load does not send backlog[0]")
		c.MustFact(sel, "only-if-backlog-non-empty", CmpInt(LenOf(FieldLoad(fBack)), token.GTR, 0))
		st := one(c, "reslice in load", storesToField(ld, fBack))
		c.ValueIs(st, st.Val, "drops-exactly-the-head", SliceOf(FieldLoad(fBack), ConstInt(1), nil))
		c.MustFact(st, "drop-only-after-send", CmpInt(ExtractOf(func(v ssa.Value) bool { return v == ssa.Value(sel) }, 0), token.EQL, 0))
		cp := c.fn(tr, "recvBuffer.compactBacklogLocked")
		startIdx := BinOpV(token.SUB, LenOf(FieldLoad(fBack)), FieldLoad(rb("uncompactedSuffixLen")))
		tr1 := one(c, "truncation in compaction", storesToField(cp, fBack))
		c.ValueIs(tr1, tr1.Val, "truncated-to-startIdx+1", SliceOf(FieldLoad(fBack), nil, BinOpV(token.ADD, startIdx, ConstInt(1))))
		// the merged item is stored at startIdx; the copy loop starts at startIdx
		okStore := false
		for _, in := range instrsWhere(cp, func(in ssa.Instruction) bool { s, ok := in.(*ssa.Store); return ok && func() bool { ia, ok := s.Addr.(*ssa.IndexAddr); return ok && FieldLoad(fBack)(ia.X) && startIdx(ia.Index) }() }) {
			_ = in
			okStore = true
		}
		c.Expect(okStore, nil, cp, "merged-item-at-startIdx", "the merged buffer is not stored at the start of the uncompacted suffix")
		// loop variable starts at startIdx and is bounded by len(backlog)
		okLoop := false
		for _, in := range instrsWhere(cp, func(in ssa.Instruction) bool { _, ok := in.(*ssa.Phi); return ok }) {
			p := in.(*ssa.Phi)
			for _, e := range p.Edges {
				if startIdx(e) {
					okLoop = true
				}
			}
		}
		c.Expect(okLoop, nil, cp, "copy-starts-at-startIdx", "the copy loop does not start at the start of the uncompacted suffix")
	})
	c.Ob("suffix-accounting", "R12", "compaction bookkeeping: the uncompacted-suffix counters change only by +1 message/+its bytes when an item is appended, by -1 message/-head bytes when the head is taken AND the head belongs to the suffix (suffix length == backlog length), or are reset to zero; so the counters never describe more (or fewer) items than the suffix that compaction will copy", 8, func() {
		fLen, fBytes := rb("uncompactedSuffixLen"), rb("uncompactedBytes")
		c.WhoMayMutate("uncompactedSuffixLen", fLen, c.scope(tr), "internal/transport.recvBuffer.load", "internal/transport.recvBuffer.compactBacklogLocked")
		c.WhoMayMutate("uncompactedBytes", fBytes, c.scope(tr), "internal/transport.recvBuffer.load", "internal/transport.recvBuffer.compactBacklogLocked")
		ld := c.fn(tr, "recvBuffer.load")
		whole := Cmp(FieldLoad(fLen), token.EQL, LenOf(FieldLoad(fBack)))
		dl := one(c, "suffix length decrement in load", storesToField(ld, fLen))
		c.ValueIs(dl, dl.Val, "decrement-by-one", BinOpV(token.SUB, FieldLoad(fLen), ConstInt(1)))
		c.MustFact(dl, "head-belongs-to-suffix", whole)
		db := one(c, "suffix bytes decrement in load", storesToField(ld, fBytes))
		c.MustFact(db, "head-belongs-to-suffix", whole)
		c.ValueIs(db, db.Val, "minus-head-bytes", BinOpV(token.SUB, FieldLoad(fBytes), CallRes(Callee("mem", "Buffer.Len"), 0)))
		cp := c.fn(tr, "recvBuffer.compactBacklogLocked")
		nInc, nZero := 0, 0
		for _, st := range storesToField(cp, fLen) {
			switch {
			case BinOpV(token.ADD, FieldLoad(fLen), ConstInt(1))(st.Val):
				nInc++
			case ConstInt(0)(st.Val):
				nZero++
			default:
				c.Expect(false, st, cp, "suffix-length-update-shape", "the suffix length is updated by something other than +1 or reset to 0")
			}
		}
		c.Expect(nInc == 1 && nZero >= 3, nil, cp, "suffix-length-updates", "expected one increment and the reset arms of the suffix length")
		for _, st := range storesToField(cp, fBytes) {
			ok := ConstInt(0)(st.Val) || BinOpV(token.ADD, FieldLoad(fBytes), CallRes(Callee("mem", "Buffer.Len"), 0))(st.Val)
			c.Expect(ok, st, cp, "suffix-bytes-update-shape", "the suffix byte count is updated by something other than +item bytes or reset to 0")
		}
		// the buffer compaction allocates is sized by the byte counter
		g := one(c, "pool Get in compaction", callsIn(cp, Callee("mem", "BufferPool.Get")))
		c.ArgIs(g, 0, "merged-buffer-sized-by-suffix-bytes", FieldLoad(fBytes))
	})
	c.Ob("frame-handoff", "R12", "sibling x2 (client/server handleData): a DATA frame with payload is handed to the stream as exactly that frame's buffer, after taking a reference on it (the reader frees the frame afterwards), whenever the payload is non-empty and the frame was accepted; end-of-stream is signalled only after that hand-off", 8, func() {
		fBuf := c.field(tr, "recvMsg", "buffer")
		fData := c.field(tr, "parsedDataFrame", "data")
		for _, pr := range []struct{ fn, wr string }{{"http2Client.handleData", "ClientStream.write"}, {"http2Server.handleData", "ServerStream.write"}} {
			f := c.fn(tr, pr.fn)
			var dataW ssa.CallInstruction
			var ends []ssa.Instruction
			for _, w := range callsIn(f, AnyCM(Callee(tr, pr.wr), Callee(tr, "Stream.write"))) {
				al := allocRoot(w.Common().Args[1])
				isData := false
				if al != nil {
					for _, st := range partStoresTo(al) {
						if fa, ok := st.Addr.(*ssa.FieldAddr); ok && sameField(fieldOfAddr(fa), fBuf) {
							isData = true
							c.ValueIs(st, st.Val, pr.fn+":hands-over-the-frame's-buffer", FieldLoad(fData))
						}
					}
				}
				if isData {
					dataW = w
				} else {
					ends = append(ends, w)
				}
			}
			for _, cs := range callsIn(f, AnyCM(Callee(tr, "http2Client.closeStream"), Callee(tr, "http2Server.closeStream"))) {
				if c.HasFact(cs, Truth(CallRes(Callee(tr, "parsedDataFrame.StreamEnded"), 0), true)) {
					ends = append(ends, cs)
				}
			}
			if !c.Expect(dataW != nil, nil, f, pr.fn+":data-handed-over", "DATA payload is not handed to the stream") {
				continue
			}
			ref := one(c, "data.Ref in "+pr.fn, callsIn(f, AnyCM(Callee("mem", "Buffer.Ref"), Callee("mem", "BufferSlice.Ref"))))
			c.Expect(FieldLoad(fData)(ref.Common().Value), ref, f, pr.fn+":refs-the-frame's-buffer", "the reference is taken on something other than the frame's buffer")
			c.Expect(thenAlways(ref, dataW), ref, f, pr.fn+":ref-with-the-handoff", "the frame's buffer is handed over without a reference taken on the same path (the reader loop frees the frame)")
			dl := CallRes(AnyCM(Callee("mem", "Buffer.Len"), Callee("mem", "BufferSlice.Len")), 0)
			c.MustFact(dataW, pr.fn+":only-non-empty-payload", CmpInt(dl, token.GTR, 0))
			// non-empty accepted payload is always handed over: once the payload length is known,
			// the hand-off can be skipped only on an arm where the length is <= 0
			var lenCall ssa.Instruction
			for _, lc := range callsIn(f, AnyCM(Callee("mem", "Buffer.Len"), Callee("mem", "BufferSlice.Len"))) {
				if instrDominates(lc, dataW) {
					lenCall = lc
				}
			}
			if c.Expect(lenCall != nil, dataW, f, pr.fn+":payload-length", "payload length not computed before the hand-off") {
				c.MustPass(pr.fn+":payload-always-handed-over", pathQuery{Fn: f, Starts: []ssa.Instruction{lenCall}, Barrier: func(in ssa.Instruction) bool { return in == ssa.Instruction(dataW) }, Target: isReturn,
					EdgeBlock: func(from, to *ssa.BasicBlock) bool {
						_, ok := hasFact(edgeFacts(from, to), CmpInt(dl, token.LEQ, 0))
						return ok
					}}, lenCall)
			}
			// end-of-stream after the data
			for _, e := range ends {
				if c.HasFact(e, Truth(CallRes(Callee(tr, "parsedDataFrame.StreamEnded"), 0), true)) {
					c.MustPass(pr.fn+":no-data-after-end-of-stream", pathQuery{Fn: f, Starts: []ssa.Instruction{e}, Target: func(in ssa.Instruction) bool { return in == ssa.Instruction(dataW) }}, e)
				}
			}
			c.Expect(len(ends) >= 1, nil, f, pr.fn+":end-of-stream-signalled", "END_STREAM on a DATA frame is not signalled to the stream")
			// the end of the stream is signalled only when the frame carries END_STREAM
			for _, w := range callsIn(f, AnyCM(Callee(tr, pr.wr), Callee(tr, "Stream.write"))) {
				if w == dataW {
					continue
				}
				c.MustFact(w, pr.fn+":end-signalled-only-for-END_STREAM", Truth(CallRes(Callee(tr, "parsedDataFrame.StreamEnded"), 0), true))
			}
		}
	})
	c.Ob("read-side-closed-only-at-END_STREAM", "R2", "server: a new stream is created with its read side already closed only when its HEADERS frame carries END_STREAM (a stream wrongly marked so has every later DATA frame refused)", 1, func() {
		oh := c.fn(tr, "http2Server.operateHeaders")
		rd := ConstOfObj(c.konst(tr, "streamReadDone"))
		n := 0
		for _, st := range storesToField(oh, c.field(tr, "Stream", "state")) {
			if rd(st.Val) {
				n++
				c.MustFact(st, "read-done-only-for-END_STREAM", Truth(CallRes(CalleeX(h2, "HeadersFrame.StreamEnded"), 0), true))
			}
		}
		c.Expect(n == 1, nil, oh, "half-closed-streams-marked", "a request that ends with its HEADERS frame is not marked read-done")
	})
	c.Ob("stream-read-loops", "R3", "Stream.read / Stream.ReadMessageHeader: success is returned only when the requested count reached zero; a reader error is dropped only when the request was completed by the same call; the loop goes on only without an error; a partial read that ends in io.EOF is reported as io.ErrUnexpectedEOF (exactly that substitution), so a message cut short never looks like a clean end", 8, func() {
		eofG := GlobalLoad(c.konst("std:io", "EOF"))
		uEOF := GlobalLoad(c.konst("std:io", "ErrUnexpectedEOF"))
		for _, d := range []struct{ fn, rd string }{{"Stream.read", "transportReader.Read"}, {"Stream.ReadMessageHeader", "transportReader.ReadMessageHeader"}} {
			f := c.fn(tr, d.fn)
			rd := one(c, "reader call in "+d.fn, callsIn(f, Callee(tr, d.rd)))
			rerr := ExtractOf(func(v ssa.Value) bool { return v == rd.Value() }, 1)
			// the loop header and its remaining-count test
			var hdr *ssa.BasicBlock
			for b := rd.Block(); b != nil; b = b.Idom() {
				if isLoopHeader(b) {
					hdr = b
					break
				}
			}
			if !c.Expect(hdr != nil && len(hdr.Succs) == 2, rd, f, d.fn+":read-loop", "the reader is not called in a loop over the remaining count") {
				continue
			}
			_, remV, _, isC := cmpOf(hdr.Instrs[len(hdr.Instrs)-1].(*ssa.If).Cond)
			if !c.Expect(isC, rd, f, d.fn+":remaining-test", "the loop is not controlled by the remaining count") {
				continue
			}
			remaining := func(v ssa.Value) bool { return v == remV }
			// success only from the loop's own exit
			for _, r := range returnsOf(f) {
				if r.Block() == f.Recover {
					continue
				}
				last := r.Results[len(r.Results)-1]
				if ConstNil(strip(last)) {
					// not from inside the loop: the return is not dominated by the loop body's entry
					for _, body := range hdr.Succs {
						if reachableBlocks(body)[hdr] {
							c.Expect(!(body == r.Block() || body.Dominates(r.Block())), r, f, d.fn+":success-only-when-everything-was-read", "success is returned from inside the read loop (before the requested count reached zero)")
						}
					}
					c.EnteredOnlyWhen(r.Block(), d.fn+":success-only-with-nothing-remaining", CmpInt(remaining, token.LEQ, 0))
				}
			}
			// the error variable after "if remaining == 0 { err = nil }"
			var errPhi *ssa.Phi
			for _, b := range f.Blocks {
				for _, in := range b.Instrs {
					if ph, ok := in.(*ssa.Phi); ok && len(ph.Edges) == 2 && isErrorType(ph.Type()) {
						hasNil, hasRd := false, false
						for _, e := range ph.Edges {
							if ConstNil(e) {
								hasNil = true
							}
							if rerr(e) {
								hasRd = true
							}
						}
						if hasNil && hasRd {
							errPhi = ph
						}
					}
				}
			}
			if !c.Expect(errPhi != nil, rd, f, d.fn+":completed-read-drops-the-error", "no 'request completed: ignore the error' step found") {
				continue
			}
			for i, e := range errPhi.Edges {
				if ConstNil(e) {
					pr := errPhi.Block().Preds[i]
					fs := incomingFacts(pr, errPhi.Block())
					okZ := true
					for _, s1 := range fs {
						if _, h := hasFact(s1, CmpInt(AnyV, token.EQL, 0)); !h {
							okZ = false
						}
					}
					c.Expect(okZ, rd, f, d.fn+":error-dropped-only-when-the-request-was-completed", "a reader error is discarded although bytes are still missing")
				}
			}
			isErr := func(v ssa.Value) bool { return v == ssa.Value(errPhi) }
			// back edge only without error; error return only with one
			for _, p := range hdr.Preds {
				if p != hdr && hdr.Dominates(p) {
					_, h := hasFact(append(append([]Fact(nil), FactsAtBlock(p)...), edgeOnlyFacts(p, hdr)...), IsNil(isErr))
					c.Expect(h, p.Instrs[len(p.Instrs)-1], f, d.fn+":loop-continues-only-without-an-error", "the read loop goes on after the reader reported an error")
				}
			}
			// EOF substitution
			for _, r := range returnsOf(f) {
				if r.Block() == f.Recover {
					continue
				}
				ph, ok := r.Results[len(r.Results)-1].(*ssa.Phi)
				if !ok || ph == errPhi {
					continue
				}
				nSub := 0
				for i, e := range ph.Edges {
					pr := ph.Block().Preds[i]
					fs := append(append([]Fact(nil), FactsAtBlock(pr)...), edgeOnlyFacts(pr, ph.Block())...)
					if uEOF(e) {
						nSub++
						_, a := hasFact(fs, Cmp(isErr, token.EQL, eofG))
						_, b := hasFact(fs, CmpInt(AnyV, token.GTR, 0))
						c.Expect(a && b, r, f, d.fn+":unexpected-EOF-exactly-for-a-partial-read-ending-in-EOF", "io.ErrUnexpectedEOF is substituted under a condition other than 'some bytes read and the error is io.EOF'")
					} else if isErr(e) {
						_, a := hasFact(fs, Cmp(isErr, token.NEQ, eofG))
						_, b := hasFact(fs, CmpInt(AnyV, token.LEQ, 0))
						c.Expect(a || b, r, f, d.fn+":EOF-kept-only-when-nothing-was-read", "io.EOF is passed on although part of the request had been read (a message cut short would look like a clean end of stream)")
					}
				}
				c.Expect(nSub == 1, r, f, d.fn+":partial-read-EOF-substituted", "a partial read that ends in io.EOF is not turned into io.ErrUnexpectedEOF")
			}
		}
	})
	c.Ob("get-then-load", "R3", "both receive helpers call load() before anything else so that the next queued item moves to the channel; every reader passes the received item to them", 6, func() {
		for _, name := range []string{"recvBufferReader.readAdditional", "recvBufferReader.readMessageHeaderAdditional"} {
			f := c.fn(tr, name)
			ld := one(c, "load call in "+name, callsIn(f, Callee(tr, "recvBuffer.load")))
			for _, r := range returnsOf(f) {
				if r.Block() == f.Recover {
					continue
				}
				c.Expect(instrDominates(ld, r), r, f, "load-before-every-return", "a return is not preceded by load()")
			}
			// error items are returned as errors, not as data
			fE := c.field(tr, "recvMsg", "err")
			for _, b := range blocksWhere(f, NotNil(FieldLoad(fE))) {
				for _, in := range b.Instrs {
					if r, ok := in.(*ssa.Return); ok {
						c.ValueIs(r, r.Results[1], "error-item-returned-as-error", func(v ssa.Value) bool { return DataDep(FieldLoad(fE))(v) || FieldLoad(fE)(v) })
					}
				}
			}
		}
		for _, name := range []string{"recvBufferReader.read", "recvBufferReader.readClient", "recvBufferReader.readMessageHeader", "recvBufferReader.readMessageHeaderClient"} {
			f := c.fn(tr, name)
			n := 0
			for _, ci := range callsIn(f, AnyCM(Callee(tr, "recvBufferReader.readAdditional"), Callee(tr, "recvBufferReader.readMessageHeaderAdditional"))) {
				n++
				c.ArgIs(ci, 1, "passes-the-received-item", func(v ssa.Value) bool {
					return DataDep(func(x ssa.Value) bool { _, ok := x.(*ssa.Select); return ok })(v) || DataDep(func(x ssa.Value) bool { u, ok := x.(*ssa.UnOp); return ok && u.Op == token.ARROW })(v)
				})
			}
			c.Expect(n >= 1, nil, f, "uses-helper", name+" does not go through the load()-calling helper")
			// every blocking wait has the context arm
			for _, s := range instrsWhere(f, func(in ssa.Instruction) bool { s, ok := in.(*ssa.Select); return ok && s.Blocking }) {
				found := false
				for _, stt := range s.(*ssa.Select).States {
					if FieldLoad(c.field(tr, "recvBufferReader", "ctxDone"))(stt.Chan) {
						found = true
					}
				}
				c.Expect(found, s, f, "context-arm", "a blocking receive has no context-done arm")
			}
		}
	})
	c.Ob("sticky-error-and-remainder", "R2", "Read/ReadMessageHeader: a recorded error is returned first; the unread remainder of the previous buffer is served before receiving; a split stores the right half as the new remainder; the error of a failing inner read is recorded", 8, func() {
		fRE := c.field(tr, "recvBufferReader", "err")
		fLast := c.field(tr, "recvBufferReader", "last")
		inner := AnyCM(Callee(tr, "recvBufferReader.read"), Callee(tr, "recvBufferReader.readClient"), Callee(tr, "recvBufferReader.readMessageHeader"), Callee(tr, "recvBufferReader.readMessageHeaderClient"))
		for _, name := range []string{"recvBufferReader.Read", "recvBufferReader.ReadMessageHeader"} {
			f := c.fn(tr, name)
			n := 0
			for _, ci := range callsIn(f, inner) {
				n++
				c.MustFact(ci, "no-recorded-error", IsNil(FieldLoad(fRE)))
				c.MustFact(ci, "no-pending-remainder", IsNil(FieldLoad(fLast)))
			}
			c.Expect(n == 2, nil, f, "client-and-server-inner-read", "expected the client and the server inner read")
			for _, st := range storesToField(f, fRE) {
				c.ValueIs(st, st.Val, "records-inner-error", CallRes(inner, 1))
			}
			c.Expect(len(storesToField(f, fRE)) == 2, nil, f, "both-inner-errors-recorded", "the inner read's error is not recorded as the sticky error on both arms")
			for _, b := range blocksWhere(f, NotNil(FieldLoad(fRE))) {
				for _, in := range b.Instrs {
					if r, ok := in.(*ssa.Return); ok {
						c.ValueIs(r, r.Results[1], "returns-recorded-error", FieldLoad(fRE))
					}
				}
			}
		}
		rd := c.fn(tr, "recvBufferReader.Read")
		for _, st := range storesToField(rd, fLast) {
			if ConstNil(st.Val) {
				continue
			}
			c.ValueIs(st, st.Val, "remainder-is-right-half", CallRes(Callee("mem", "SplitUnsafe"), 1))
			c.MustFact(st, "split-only-if-longer-than-requested", Cmp(CallRes(Callee("mem", "Buffer.Len"), 0), token.GTR, ParamV("n")))
		}
		ra := c.fn(tr, "recvBufferReader.readAdditional")
		for _, st := range storesToField(ra, fLast) {
			c.ValueIs(st, st.Val, "remainder-is-right-half", CallRes(Callee("mem", "SplitUnsafe"), 1))
			c.MustFact(st, "split-only-if-longer-than-requested", Cmp(CallRes(Callee("mem", "Buffer.Len"), 0), token.GTR, ParamV("n")))
		}
	})
}
