package main

import (
	"go/constant"
	"go/token"
	"go/types"

	"golang.org/x/tools/go/ssa"
)

func init() {
	register(&PropDef{
		ID:    "C20",
		Pkgs:  []string{"internal/backoff", "grpc"},
		Claim: "Decides the structural part: the backoff function returns the base delay exactly for retry count 0; the value multiplied by the jitter factor has been clamped to the maximum delay on every path (the clamp is not conditional on the growth loop having run); a negative product returns 0 and the float-to-Duration conversion is reached only below MaxInt64 (saturation); after a failed connection attempt every path from reporting TRANSIENT_FAILURE to reporting IDLE passes through the wait on (backoff timer | explicit reset | shutdown), the timer's duration being the strategy's backoff for the current index; the index grows only when the timer fired and is reset to 0 on success and on explicit reset, all under the subchannel mutex.",
		NotDecided:  []string{"the multiplicative interval [(1-j),(1+j)] x min(base x m^n, max) for n >= 1 (floating point arithmetic over all configurations)", "that the wait lasts at least the backoff in real time"},
		Assumptions: []string{"math/rand Float64 returns a value in [0,1)"},
		Technique:   "static analysis: dominating guards on go/ssa branch facts, phi-leaf analysis of the clamped value, must-pass-through path search, who-may-write with must-lockset",
		Run:         c20,
	})
}

func c20(c *Ctx) {
	c.Ob("backoff-shape", "R2", "Backoff: retries==0 returns BaseDelay; the jitter multiply operates on a value that is <= max on every incoming path; negative -> 0; conversion only below MaxInt64", 6, func() {
		f := c.fn("internal/backoff", "Exponential.Backoff")
		fBase := c.field("backoff", "Config", "BaseDelay")
		fMax := c.field("backoff", "Config", "MaxDelay")
		maxV := func(v ssa.Value) bool { return FieldLoad(fMax)(stripFloatConv(v)) }
		for _, r := range returnsOf(f) {
			if FieldLoad(fBase)(r.Results[0]) {
				c.MustFact(r, "base-delay-only-for-first-attempt", CmpInt(ParamV("retries"), token.EQL, 0))
			}
		}
		c.Expect(len(blocksWhere(f, CmpInt(ParamV("retries"), token.EQL, 0))) > 0, nil, f, "first-attempt-arm", "no arm for retries == 0")
		for _, b := range blocksWhere(f, CmpInt(ParamV("retries"), token.EQL, 0)) {
			for _, in := range b.Instrs {
				if r, ok := in.(*ssa.Return); ok {
					c.ValueIs(r, r.Results[0], "first-attempt-returns-base-delay", FieldLoad(fBase))
				}
			}
		}
		// the jitter multiply: backoff * (1 + jitter*(rand*2-1))
		var jm *ssa.BinOp
		for _, in := range instrsWhere(f, func(in ssa.Instruction) bool {
			b, ok := in.(*ssa.BinOp)
			return ok && b.Op == token.MUL && DataDep(CallRes(CalleeX("math/rand/v2", "Float64"), 0))(b.Y)
		}) {
			jm = in.(*ssa.BinOp)
		}
		if jm == nil {
			panic(missingStep{"no jitter multiplication found in Backoff"})
		}
		// every value reaching the multiplicand is max itself, or known <= max on its incoming edge, or min(., max)
		seen := map[ssa.Value]bool{}
		var bounded func(v ssa.Value, fs []Fact) bool
		bounded = func(v ssa.Value, fs []Fact) bool {
			if maxV(v) {
				return true
			}
			is := func(x ssa.Value) bool { return x == v }
			if _, ok := hasFact(fs, Cmp(is, token.LEQ, maxV)); ok {
				return true
			}
			if m := builtinCall(v, "min"); m != nil {
				for _, a := range m.Call.Args {
					if maxV(a) {
						return true
					}
				}
			}
			if p, ok := v.(*ssa.Phi); ok {
				if seen[p] {
					return true
				}
				seen[p] = true
				for i, e := range p.Edges {
					if !bounded(e, edgeFacts(p.Block().Preds[i], p.Block())) {
						return false
					}
				}
				return true
			}
			return false
		}
		okAll, n := bounded(jm.X, FactsAt(jm)), 1
		c.nontrivial("clamp-leaves")
		c.Expect(okAll && n >= 1, jm, f, "clamped-to-max-before-jitter", "the value multiplied by the jitter factor can exceed MaxDelay on some path (e.g. when the growth loop does not run because BaseDelay >= MaxDelay)")
		// negative -> 0, huge -> saturate
		conv := instrsWhere(f, func(in ssa.Instruction) bool {
			cv, ok := in.(*ssa.Convert)
			if !ok {
				return false
			}
			bt, ok1 := cv.X.Type().Underlying().(*types.Basic)
			return ok1 && bt.Info()&types.IsFloat != 0 && isIntegral(cv.Type())
		})
		if c.Expect(len(conv) == 1, nil, f, "one-float-to-duration-conversion", "expected one float64 -> Duration conversion") {
			cv := conv[0].(*ssa.Convert)
			is := func(v ssa.Value) bool { return v == cv.X }
			c.MustFact(conv[0], "not-negative", func(fc Fact) bool {
				return fc.Kind == "cmp" && (fc.Op == token.GEQ || fc.Op == token.GTR) && is(fc.X) && isZeroConst(strip(fc.Y))
			})
			c.MustFact(conv[0], "below-MaxInt64 (saturating)", func(fc Fact) bool {
				if fc.Kind != "cmp" || fc.Op != token.LSS || !is(fc.X) {
					return false
				}
				k := constOf(fc.Y)
				return k != nil && k.Value != nil && constant.Compare(k.Value, token.GEQ, constant.MakeInt64(1<<63-1)) && constant.Compare(k.Value, token.LEQ, constant.MakeUint64(1<<63))
			})
		}
	})
	c.Ob("wait-before-idle", "R3", "subchannel: after a failed attempt, TRANSIENT_FAILURE is followed by IDLE only through the wait on (timer | reset | shutdown); the timer runs for strategy.Backoff(backoffIdx)", 3, func() {
		f := c.fn("grpc", "addrConn.resetTransportAndUnlock")
		upd := Callee("grpc", "addrConn.updateConnectivityState")
		tf := ConstOfObj(c.konst("connectivity", "TransientFailure"))
		idle := ConstOfObj(c.konst("connectivity", "Idle"))
		var tfCall, idleCall ssa.CallInstruction
		for _, ci := range callsIn(f, upd) {
			if tf(ci.Common().Args[1]) {
				tfCall = ci
			}
			if idle(ci.Common().Args[1]) {
				idleCall = ci
			}
		}
		if tfCall == nil || idleCall == nil {
			panic(missingStep{"TRANSIENT_FAILURE / IDLE reports not found in resetTransportAndUnlock"})
		}
		sel := one(c, "backoff wait (blocking select)", instrsWhere(f, func(in ssa.Instruction) bool { s, ok := in.(*ssa.Select); return ok && s.Blocking }))
		q := pathQuery{Fn: f, Starts: []ssa.Instruction{tfCall}, Barrier: func(in ssa.Instruction) bool { return in == sel }, Target: func(in ssa.Instruction) bool { return in == ssa.Instruction(idleCall) }}
		c.MustPass("failure-waits-before-idle", q, sel)
		fIdx := c.field("grpc", "addrConn", "backoffIdx")
		bo := one(c, "strategy Backoff call", callsIn(f, Callee("internal/backoff", "Strategy.Backoff")))
		c.ArgIs(bo, 0, "backoff-for-current-index", FieldLoad(fIdx))
		nt := one(c, "backoff timer", callsIn(f, CalleeX("time", "NewTimer")))
		c.ArgIs(nt, 0, "timer-runs-for-the-backoff", func(v ssa.Value) bool { return v == bo.Value() })
		timerArm, resetArm, doneArm := false, false, false
		for _, st := range sel.(*ssa.Select).States {
			if DataDep(func(v ssa.Value) bool { return v == nt.Value() })(st.Chan) {
				timerArm = true
			}
			if FieldLoad(c.field("grpc", "addrConn", "resetBackoff"))(st.Chan) {
				resetArm = true
			}
			if CallRes(CalleeX("context", "Context.Done"), 0)(st.Chan) {
				doneArm = true
			}
		}
		c.Expect(timerArm && resetArm && doneArm, sel, f, "wait-arms", "the backoff wait does not select on timer, explicit reset and shutdown")
		// the reset channel waited on is the one current after the attempt failed: it is read after the attempt (a channel read before
		// the attempt may have been closed and replaced by a ResetConnectBackoff during the attempt; waiting on it returns at once)
		attempt := one(c, "tryAllAddrs call", callsIn(f, Callee("grpc", "addrConn.tryAllAddrs")))
		for _, st := range sel.(*ssa.Select).States {
			if FieldLoad(c.field("grpc", "addrConn", "resetBackoff"))(st.Chan) {
				ld, _ := strip(st.Chan).(ssa.Instruction)
				c.Expect(ld != nil && instrDominates(attempt, ld), sel, f, "reset-channel-read-after-the-attempt", "the backoff wait listens on a reset channel that was read before the connection attempt (an explicit reset during the attempt would cancel the following backoff)")
			}
		}
		c.MustFact(tfCall, "failure-reported-only-on-error", NotNil(CallRes(Callee("grpc", "addrConn.tryAllAddrs"), 0)))
	})
	c.Ob("backoffIdx", "R1", "the backoff index is written only as +1 when the timer fired, and as 0 on success and on explicit reset, with the subchannel mutex held", 4, func() {
		fIdx := c.field("grpc", "addrConn", "backoffIdx")
		mu := c.field("grpc", "addrConn", "mu")
		muts := c.WhoMayMutate("backoffIdx", fIdx, c.scope("grpc"), "grpc.addrConn.resetTransportAndUnlock", "grpc.addrConn.resetConnectBackoff")
		for _, m := range muts {
			st, ok := m.Instr.(*ssa.Store)
			if !ok {
				continue
			}
			fn := st.Parent()
			ls := locksets(fn, lockOpts{Entry: lockSet{mu: shortName(fn) == "grpc.addrConn.resetTransportAndUnlock"}})
			c.Expect(ls[st][mu], st, fn, "index-written-under-mu", "backoffIdx is written without ac.mu")
			switch {
			case ConstInt(0)(st.Val):
			case BinOpV(token.ADD, FieldLoad(fIdx), ConstInt(1))(st.Val):
				// only on the timer arm of the wait
				c.MustFact(st, "grows-only-when-timer-fired", func(fc Fact) bool {
					return fc.Kind == "cmp" && fc.Op == token.EQL && ExtractOf(func(v ssa.Value) bool { _, ok := v.(*ssa.Select); return ok }, 0)(fc.X)
				})
			default:
				c.Expect(false, st, fn, "index-update-shape", "backoffIdx is updated by something other than +1 or reset to 0")
			}
		}
		f := c.fn("grpc", "addrConn.resetTransportAndUnlock")
		// success resets the index
		zero := 0
		for _, st := range storesToField(f, fIdx) {
			if ConstInt(0)(st.Val) {
				zero++
				c.MustFact(st, "reset-on-success", IsNil(CallRes(Callee("grpc", "addrConn.tryAllAddrs"), 0)))
			}
		}
		c.Expect(zero == 1, nil, f, "success-resets-index", "a successful connection does not reset the backoff index")
	})
}

func stripFloatConv(v ssa.Value) ssa.Value {
	for {
		switch x := v.(type) {
		case *ssa.Convert:
			v = x.X
		case *ssa.ChangeType:
			v = x.X
		default:
			return v
		}
	}
}
