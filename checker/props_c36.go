package main

import (
	"fmt"
	"os"
	"go/token"
	"go/types"

	"golang.org/x/tools/go/ssa"
)

const wrrbp = "balancer/weightedroundrobin"
const orcapb = "github.com/cncf/xds/go/xds/data/orca/v3"

func init() {
	register(&PropDef{
		ID:    "C36",
		Pkgs:  []string{wrrbp},
		Claim: "Decides the structural part only: an endpoint's weight is the stored value exactly when it has a report, the report is younger than the expiration period and (no blackout, or non-empty for at least the blackout period), and constant 0 on each of the other arms (expiry also restarts the blackout); a load report stores qps / (utilization + eps/qps x penalty) with utilization = application utilization falling back to CPU utilization, only when utilization and qps are non-zero, under the endpoint mutex; the scheduler is absent for no endpoints, plain round robin exactly on the arms 'one endpoint', 'at most one non-zero weight' and 'all scaled weights equal' and EDF otherwise; zero weights are replaced by round(scale x sum/(n - zeros)), others by round(scale x w) with scale = 65535/max; the EDF pick returns index seq mod n only when (weight x generation + index x 32767) mod 65535 >= 65535 - weight and otherwise advances; round robin returns seq mod n; the picker indexes its endpoints with the scheduler's index. Unless out-of-band reporting is configured, Pick installs a Done hook that hands a non-nil ORCA report to OnLoadReport of the endpoint whose picker served the call and chains to the child's Done; a failed child pick is returned as failure.",
		NotDecided:  []string{"proportionality over a window of 65535 x n sequence numbers (arithmetic/number-theoretic property of the stride)", "termination within n sequence numbers (needs max scaled weight = 65535, a floating-point rounding fact)", "floating-point values of weights"},
		Assumptions: []string{"math.Round, time.Time.Sub/Equal semantics"},
		Technique:   "static analysis: decision-list extraction from dominating guards on go/ssa, expression-shape checks of the stored formulas, refusing-arm unreachability, must-lockset",
		Run:         c36,
	})
}

func c36(c *Ctx) {
	ew := "endpointWeight"
	fVal := c.field(wrrbp, ew, "weightVal")
	fLast := c.field(wrrbp, ew, "lastUpdated")
	fNES := c.field(wrrbp, ew, "nonEmptySince")
	mu := c.field(wrrbp, ew, "mu")
	timeEq := func(f *types.Var) VM {
		return func(v ssa.Value) bool {
			call, ok := v.(*ssa.Call)
			return ok && CalleeX("time", "Time.Equal")(&call.Call) && FieldLoad(f)(call.Call.Args[0]) && isZeroConst(call.Call.Args[1])
		}
	}
	age := func(f *types.Var) VM {
		return func(v ssa.Value) bool {
			call, ok := v.(*ssa.Call)
			return ok && CalleeX("time", "Time.Sub")(&call.Call) && ParamV("now")(call.Call.Args[0]) && FieldLoad(f)(call.Call.Args[1])
		}
	}
	c.Ob("weight-zero-cases", "R7", "endpointWeight.weight: 0 with no report, 0 (and blackout restarted) when the report is older than the expiration period, 0 during blackout (never non-empty, or non-empty for less than the blackout period), the stored weight otherwise", 9, func() {
		f := c.fn(wrrbp, ew+".weight")
		noReport := Truth(timeEq(fLast), true)
		expired := Cmp(age(fLast), token.GEQ, ParamV("weightExpirationPeriod"))
		blk := Cmp(ParamV("blackoutPeriod"), token.NEQ, ConstInt(0))
		neverNE := Truth(timeEq(fNES), true)
		young := Cmp(age(fNES), token.LSS, ParamV("blackoutPeriod"))
		nZero, nVal := 0, 0
		for _, r := range returnsOf(f) {
			if r.Block() == f.Recover {
				continue
			}
			v := strip(r.Results[0])
			switch {
			case isZeroConst(v):
				nZero++
				fs := FactsAt(r)
				_, a := hasFact(fs, noReport)
				_, b := hasFact(fs, expired)
				_, d := hasFact(fs, blk)
				c.Expect(a || b || d, r, f, "zero-only-on-a-documented-arm", "weight 0 is returned on an arm that is none of: no report, expired, blackout")
			case FieldLoad(fVal)(v):
				nVal++
				c.Unreachable(r, "usable:not-without-report", noReport)
				c.Unreachable(r, "usable:not-after-expiration", expired)
				c.Unreachable(r, "usable:not-in-blackout-never-non-empty", blk, neverNE)
				c.Unreachable(r, "usable:not-in-blackout-too-young", blk, young)
			default:
				c.Expect(false, r, f, "weight-is-0-or-stored", "weight returns something other than 0 or the stored weight")
			}
		}
		c.Expect(nZero == 3 && nVal == 1, nil, f, "four-returns", "expected three zero returns and one return of the stored weight")
		st := one(c, "blackout restart", storesToField(f, fNES))
		c.Expect(isZeroConst(st.Val), st, f, "expiry-restarts-blackout", "expiry does not reset nonEmptySince")
		c.MustFact(st, "restart-only-on-expiry", expired)
		c.GuardedBy(GuardSpec{Label: "endpoint-weight", Mu: mu, Fields: []*types.Var{fVal, fLast, fNES}, Scope: c.scope(wrrbp)})
		ep := c.fn(wrrbp, "picker.endpointWeights")
		w := one(c, "weight call", callsIn(ep, Callee(wrrbp, ew+".weight")))
		cfgF := func(n string) VM {
			return func(v ssa.Value) bool { return FieldLoad(c.field(wrrbp, "lbConfig", n))(stripConv(v)) }
		}
		c.ArgIs(w, 2, "expiration-from-config", cfgF("WeightExpirationPeriod"))
		c.ArgIs(w, 3, "blackout-from-config", cfgF("BlackoutPeriod"))
		c.ArgIs(w, 1, "now", CallRes(ValueCall(GlobalLoad(c.P.LookupObj(wrrbp+"/internal", "TimeNow"))), 0))
	})
	c.Ob("load-report", "R2", "OnLoadReport: weight = qps/(util + eps/qps*penalty), util = application utilization or else CPU utilization; stored only when util != 0 and qps != 0; timestamps updated", 7, func() {
		f := c.fn(wrrbp, ew+".OnLoadReport")
		pf := func(n string) *types.Var { return c.field(orcapb, "OrcaLoadReport", n) }
		app, cpu, rps, eps := FieldLoad(pf("ApplicationUtilization")), FieldLoad(pf("CpuUtilization")), FieldLoad(pf("RpsFractional")), FieldLoad(pf("Eps"))
		isUtil := func(v ssa.Value) bool {
			p, ok := v.(*ssa.Phi)
			if !ok || len(p.Edges) != 2 {
				return false
			}
			okA, okC := false, false
			for i, e := range p.Edges {
				pred := p.Block().Preds[i]
				fs := append(append([]Fact(nil), FactsAtBlock(pred)...), edgeOnlyFacts(pred, p.Block())...)
				if app(e) {
					_, z := hasFact(fs, Cmp(app, token.EQL, isZeroConst))
					okA = !z
				}
				if cpu(e) {
					_, z := hasFact(fs, Cmp(app, token.EQL, isZeroConst))
					okC = z
				}
			}
			return okA && okC
		}
		st := one(c, "weightVal store", storesToField(f, fVal))
		pen := FieldLoad(c.field(wrrbp, "lbConfig", "ErrorUtilizationPenalty"))
		c.ValueIs(st, st.Val, "weight-formula", BinOpV(token.QUO, rps, BinOpV(token.ADD, isUtil, BinOpV(token.MUL, BinOpV(token.QUO, eps, rps), pen))))
		c.MustFact(st, "only-with-utilization", Cmp(isUtil, token.NEQ, isZeroConst))
		c.MustFact(st, "only-with-qps", Cmp(rps, token.NEQ, isZeroConst))
		ls := locksets(f, lockOpts{})
		c.Expect(ls[st][mu], st, f, "stored-under-mu", "the weight is stored without the endpoint mutex")
		lu := one(c, "lastUpdated store", storesToField(f, fLast))
		c.ValueIs(lu, lu.Val, "timestamped-now", CallRes(ValueCall(GlobalLoad(c.P.LookupObj(wrrbp+"/internal", "TimeNow"))), 0))
		ne := one(c, "nonEmptySince store", storesToField(f, fNES))
		c.MustFact(ne, "non-empty-since-set-once", Truth(timeEq(fNES), true))
		c.ValueIs(ne, ne.Val, "non-empty-since-is-report-time", FieldLoad(fLast))
		c.WhoMayMutate("weightVal", fVal, c.scope(wrrbp), wrrbp+"."+ew+".OnLoadReport")
		for _, m := range c.WhoMayMutate("lastUpdated", fLast, c.scope(wrrbp), wrrbp+"."+ew+".OnLoadReport", wrrbp+".wrrBalancer.updateSubConnState") {
			if st, ok := m.Instr.(*ssa.Store); ok && m.Instr.Parent() != f {
				c.Expect(isZeroConst(st.Val), st, m.Instr.Parent(), "outside-reports-only-reset", "the report timestamp is set to a non-zero time outside OnLoadReport")
			}
		}
	})
	c.Ob("per-call-report-hook", "R3", "picker.Pick: unless out-of-band reporting is configured, the pick result's Done is replaced by a closure that hands a non-nil ORCA report from the call to OnLoadReport of the endpoint that was picked (the captured one whose picker produced the result) and then calls the child's Done; a failed child pick is returned as failure", 5, func() {
		pk := c.fn(wrrbp, "picker.Pick")
		fDone := c.field("balancer", "PickResult", "Done")
		var hook *ssa.MakeClosure
		for _, st := range storesToField(pk, fDone) {
			mc, ok := st.Val.(*ssa.MakeClosure)
			if !c.Expect(ok, st, pk, "done-is-a-closure", "Done is replaced by something other than the reporting closure") {
				continue
			}
			hook = mc
			c.MustFact(st, "hook-only-without-out-of-band-reports", Truth(FieldLoad(c.field(wrrbp, "lbConfig", "EnableOOBLoadReport")), false))
		}
		if !c.Expect(hook != nil, nil, pk, "done-hook-installed", "per-call load reports are not hooked into the pick result") {
			return
		}
		// installed on every successful path without OOB
		c.EnteredOnlyWhenExcept(returnsWhere(pk, func(r *ssa.Return) bool { return ConstNil(r.Results[1]) })[0].Block(), "hook-skipped-only-with-out-of-band-reports",
			func(p *ssa.BasicBlock) bool { return len(storesToFieldInBlock(p, fDone)) > 0 }, Truth(FieldLoad(c.field(wrrbp, "lbConfig", "EnableOOBLoadReport")), true))
		c.ErrorsPropagate(pk, "Pick", nil)
		g := hook.Fn.(*ssa.Function)
		rep := one(c, "OnLoadReport call in the Done hook", callsIn(g, Callee(wrrbp, ew+".OnLoadReport")))
		load := func(v ssa.Value) bool {
			e, ok := v.(*ssa.Extract)
			if !ok || e.Index != 0 {
				return false
			}
			ta, ok := e.Tuple.(*ssa.TypeAssert)
			return ok && FieldLoad(c.field("balancer", "DoneInfo", "ServerLoad"))(ta.X)
		}
		c.ArgIs(rep, 1, "reports-the-call's-load", load)
		c.MustFact(rep, "only-a-non-nil-report", NotNil(load))
		// skipped only for a missing / foreign / nil report
		c.EnteredOnlyWhenExcept(rep.Block().Succs[0], "report-skipped-only-when-absent", func(p *ssa.BasicBlock) bool { return p == rep.Block() },
			IsNil(load), Truth(func(v ssa.Value) bool { e, ok := v.(*ssa.Extract); return ok && e.Index == 1 }, false))
		// the endpoint is the picked one: the captured cell is the one whose picker field produced the result
		recv := rep.Common().Args[0]
		okEP := false
		var cell ssa.Value
		if u, ok := recv.(*ssa.UnOp); ok {
			if fa, ok := u.X.(*ssa.FieldAddr); ok {
				if fv, ok := fa.X.(*ssa.FreeVar); ok {
					for i, v := range g.FreeVars {
						if v == fv {
							cell = hook.Bindings[i]
						}
					}
				}
			}
		}
		if cell != nil {
			for _, ci := range callsIn(pk, MethodNamed("Pick", nil)) {
				if u, ok := ci.Common().Value.(*ssa.UnOp); ok {
					if fa, ok := u.X.(*ssa.FieldAddr); ok && fa.X == cell {
						okEP = true
					}
				}
			}
		}
		c.Expect(okEP, rep, g, "report-goes-to-the-picked-endpoint", "the load report is credited to an endpoint other than the one whose picker served the call")
		// the child's Done still runs
		nOld := 0
		for _, b := range g.Blocks {
			for _, in := range b.Instrs {
				if call, ok := in.(*ssa.Call); ok && !call.Call.IsInvoke() && call.Call.StaticCallee() == nil {
					if _, isB := call.Call.Value.(*ssa.Builtin); !isB {
						nOld++
						c.MustFact(in, "child-done-called-when-set", NotNil(AnyV))
					}
				}
			}
		}
		c.Expect(nOld == 1, nil, g, "child-done-chained", "the child picker's Done callback is not called by the hook")
	})
	c.Ob("scheduler-fallback", "R7", "newScheduler: nil for n==0; round robin on n==1, zeros >= n-1, all scaled weights equal; EDF on no other arm; zero weights get the scaled mean of the non-zero ones", 12, func() {
		f := c.fn(wrrbp, "picker.newScheduler")
		epw := CallRes(Callee(wrrbp, "picker.endpointWeights"), 0)
		elem := func(v ssa.Value) bool {
			u, ok := v.(*ssa.UnOp)
			if !ok {
				return false
			}
			ia, ok := u.X.(*ssa.IndexAddr)
			return ok && epw(ia.X) && isRangeIndex(ia.Index)
		}
		n := LenOf(epw)
		isNumZero := func(v ssa.Value) bool {
			p, ok := v.(*ssa.Phi)
			if !ok {
				return false
			}
			inc := 0
			for _, e := range p.Edges {
				switch {
				case e == ssa.Value(p), ConstInt(0)(e):
				default:
					b, ok := e.(*ssa.BinOp)
					if !ok || b.Op != token.ADD || b.X != ssa.Value(p) || !ConstInt(1)(b.Y) {
						return false
					}
					if _, z := hasFact(FactsAtBlock(b.Block()), Cmp(elem, token.EQL, isZeroConst)); !z {
						return false
					}
					inc++
				}
			}
			return inc == 1
		}
		isSum := func(v ssa.Value) bool {
			p, ok := v.(*ssa.Phi)
			if !ok {
				return false
			}
			add := 0
			for _, e := range p.Edges {
				if isZeroConst(e) {
					continue
				}
				b, ok := e.(*ssa.BinOp)
				if !ok || b.Op != token.ADD || b.X != ssa.Value(p) || !elem(b.Y) {
					return false
				}
				for _, fc := range FactsAtBlock(b.Block()) { // summed unconditionally w.r.t. the element
					if fc.X != nil && elem(fc.X) || fc.Y != nil && elem(fc.Y) {
						return false
					}
				}
				add++
			}
			return add >= 1
		}
		var isMax func(v ssa.Value, d int) bool
		isMax = func(v ssa.Value, d int) bool {
			p, ok := v.(*ssa.Phi)
			if !ok || d > 3 {
				return false
			}
			sawElem := false
			for i, e := range p.Edges {
				switch {
				case isZeroConst(e), e == ssa.Value(p):
				case elem(e):
					pred := p.Block().Preds[i]
					fs := append(append([]Fact(nil), FactsAtBlock(pred)...), edgeOnlyFacts(pred, p.Block())...)
					if _, ok := hasFact(fs, Cmp(elem, token.GTR, AnyV)); !ok {
						return false
					}
					sawElem = true
				default:
					q, ok := e.(*ssa.Phi)
					if !ok {
						return false
					}
					// inner join: [outer, elem]
					okInner := false
					for j, ie := range q.Edges {
						if elem(ie) {
							pred := q.Block().Preds[j]
							fs := append(append([]Fact(nil), FactsAtBlock(pred)...), edgeOnlyFacts(pred, q.Block())...)
							if _, ok := hasFact(fs, Cmp(elem, token.GTR, func(x ssa.Value) bool { return x == ssa.Value(p) })); ok {
								okInner = true
							}
						} else if ie != ssa.Value(p) {
							return false
						}
					}
					if !okInner {
						return false
					}
					sawElem = true
				}
			}
			return sawElem
		}
		scale := BinOpV(token.QUO, ConstNum(65535), func(v ssa.Value) bool { return isMax(v, 0) })
		round := func(inner VM) VM {
			return func(v ssa.Value) bool {
				cv, ok := v.(*ssa.Convert)
				if !ok {
					return false
				}
				call, ok := cv.X.(*ssa.Call)
				return ok && CalleeX("math", "Round")(&call.Call) && inner(call.Call.Args[0])
			}
		}
		mean := round(BinOpV(token.MUL, scale, BinOpV(token.QUO, isSum, func(v ssa.Value) bool {
			return BinOpV(token.SUB, n, isNumZero)(stripConv(v))
		})))
		scaled := round(BinOpV(token.MUL, scale, elem))
		isAllEq := func(v ssa.Value) bool {
			p, ok := v.(*ssa.Phi)
			if !ok {
				return false
			}
			nf := 0
			for i, e := range p.Edges {
				switch {
				case e == ssa.Value(p), ConstBool(true)(e):
				case ConstBool(false)(e):
					pred := p.Block().Preds[i]
					fs := append(append([]Fact(nil), FactsAtBlock(pred)...), edgeOnlyFacts(pred, p.Block())...)
					if _, ok := hasFact(fs, Cmp(scaled, token.NEQ, mean)); !ok {
						return false
					}
					nf++
				default:
					return false
				}
			}
			return nf == 1
		}
		if os.Getenv("C36DBG") != "" {
			for _, b := range f.Blocks {
				for _, in := range b.Instrs {
					if v, ok := in.(ssa.Value); ok {
						fmt.Println(v.Name(), "sum", isSum(v), "max", isMax(v, 0), "nz", isNumZero(v), "scale", scale(v), "mean", mean(v), "scaled", scaled(v), "alleq", isAllEq(v))
					}
				}
			}
		}
		fewNonZero := Cmp(isNumZero, token.GEQ, BinOpV(token.SUB, n, ConstInt(1)))
		allEq := Truth(isAllEq, true)
		kinds := map[string]int{}
		for _, r := range returnsOf(f) {
			v := r.Results[0]
			if ConstNil(v) {
				kinds["nil"]++
				c.MustFact(r, "no-scheduler-only-without-endpoints", CmpInt(n, token.EQL, 0))
				continue
			}
			mi, ok := v.(*ssa.MakeInterface)
			if !c.Expect(ok, r, f, "returns-a-scheduler", "unexpected return value") {
				continue
			}
			tn := mi.X.Type().(*types.Pointer).Elem().(*types.Named).Obj().Name()
			kinds[tn]++
			switch tn {
			case "rrScheduler":
				c.MustFactAny(r, "round-robin-only-on-a-fallback-arm", CmpInt(n, token.EQL, 1), fewNonZero, allEq)
				al := mi.X.(*ssa.Alloc)
				for _, st := range partStoresTo(al) {
					if fa, ok := st.Addr.(*ssa.FieldAddr); ok && fieldOfAddr(fa).Name() == "numSCs" {
						c.Expect(ConstInt(1)(st.Val) && c.HasFact(r, CmpInt(n, token.EQL, 1)) || n(stripConv(st.Val)), st, f, "round-robin-over-all-endpoints", "round robin is built over a wrong endpoint count")
					}
				}
			case "edfScheduler":
				c.Unreachable(r, "edf:not-without-endpoints", CmpInt(n, token.EQL, 0))
				c.Unreachable(r, "edf:not-for-one-endpoint", CmpInt(n, token.EQL, 1))
				c.Unreachable(r, "edf:not-with-at-most-one-non-zero-weight", fewNonZero)
				c.Unreachable(r, "edf:not-when-all-equal", allEq)
			default:
				c.Expect(false, r, f, "known-scheduler", "unknown scheduler type")
			}
		}
		c.Expect(kinds["nil"] == 1 && kinds["rrScheduler"] == 3 && kinds["edfScheduler"] == 1, nil, f, "return-kinds", "expected 1 nil, 3 round-robin and 1 EDF return")
		// weights
		nz, nn := 0, 0
		for _, b := range f.Blocks {
			for _, in := range b.Instrs {
				st, ok := in.(*ssa.Store)
				if !ok {
					continue
				}
				ia, ok := st.Addr.(*ssa.IndexAddr)
				if !ok {
					continue
				}
				if _, isMk := ia.X.(*ssa.MakeSlice); !isMk {
					continue
				}
				c.Expect(isRangeIndex(ia.Index), st, f, "weight-slot-is-endpoint-index", "a scaled weight is stored at an index other than its endpoint's")
				if c.HasFact(st, Cmp(elem, token.EQL, isZeroConst)) {
					nz++
					c.ValueIs(st, st.Val, "zero-weight-gets-scaled-mean", mean)
				} else {
					nn++
					c.MustFact(st, "non-zero-arm", Cmp(elem, token.NEQ, isZeroConst))
					c.ValueIs(st, st.Val, "non-zero-weight-scaled", scaled)
				}
			}
		}
		c.Expect(nz == 1 && nn == 1, nil, f, "two-weight-stores", "expected one mean store and one scaled store")
	})
	c.Ob("edf-and-rr-index", "R8", "edfScheduler.nextIndex returns seq mod n only when (w*gen + idx*32767) mod 65535 >= 65535-w; rrScheduler.nextIndex returns seq mod numSCs; Pick indexes weightedPickers with it", 6, func() {
		f := c.fn(wrrbp, "edfScheduler.nextIndex")
		fW := c.field(wrrbp, "edfScheduler", "weights")
		seq := func(v ssa.Value) bool {
			return CallRes(FieldCall(c.field(wrrbp, "edfScheduler", "inc")), 0)(stripConv(v))
		}
		ln := func(v ssa.Value) bool { return LenOf(FieldLoad(fW))(stripConv(v)) }
		bidx := BinOpV(token.REM, seq, ln)
		gen := BinOpV(token.QUO, seq, ln)
		w := func(v ssa.Value) bool {
			u, ok := stripConv(v).(*ssa.UnOp)
			if !ok {
				return false
			}
			ia, ok := u.X.(*ssa.IndexAddr)
			return ok && FieldLoad(fW)(ia.X) && bidx(ia.Index)
		}
		mod := func(v ssa.Value) bool {
			return BinOpV(token.REM, BinOpV(token.ADD, BinOpV(token.MUL, w, gen), BinOpV(token.MUL, bidx, ConstInt(32767))), ConstInt(65535))(stripConv(v))
		}
		nr := 0
		for _, r := range returnsOf(f) {
			nr++
			c.ValueIs(r, stripConv(r.Results[0]), "returns-seq-mod-n", bidx)
			c.MustFact(r, "returned-only-when-deadline-reached", Cmp(mod, token.GEQ, BinOpV(token.SUB, ConstInt(65535), w)))
		}
		c.Expect(nr == 1, nil, f, "one-return", "expected one return in edfScheduler.nextIndex")
		c.Expect(len(callsIn(f, FieldCall(c.field(wrrbp, "edfScheduler", "inc")))) == 1, nil, f, "one-sequence-number-per-iteration", "the sequence counter is read more than once per iteration")
		g := c.fn(wrrbp, "rrScheduler.nextIndex")
		for _, r := range returnsOf(g) {
			c.ValueIs(r, stripConv(r.Results[0]), "rr-returns-seq-mod-n", BinOpV(token.REM, CallRes(FieldCall(c.field(wrrbp, "rrScheduler", "inc")), 0), FieldLoad(c.field(wrrbp, "rrScheduler", "numSCs"))))
		}
		p := c.fn(wrrbp, "picker.Pick")
		okIdx := false
		for _, b := range p.Blocks {
			for _, in := range b.Instrs {
				if ia, ok := in.(*ssa.IndexAddr); ok && FieldLoad(c.field(wrrbp, "picker", "weightedPickers"))(ia.X) {
					okIdx = CallRes(Callee(wrrbp, "scheduler.nextIndex"), 0)(ia.Index)
				}
			}
		}
		c.Expect(okIdx, nil, p, "pick-uses-scheduler-index", "Pick does not index its endpoints with the scheduler's index")
	})
}
