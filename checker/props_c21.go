package main

import (
	"go/token"

	"golang.org/x/tools/go/ssa"
)

func init() {
	register(&PropDef{
		ID:    "C21",
		Pkgs:  []string{"grpc"},
		Claim: "Decides the structural part: the limit-combining function returns the default exactly when both limits are unset, the smaller pointer target when both are set, and the set one otherwise; per-call limits are assigned from it after all call options ran; every transport write in the three SendMsg implementations is dominated by 'post-compression payload length <= limit' with the refusing arm returning RESOURCE_EXHAUSTED; the server stream's limits come from the server options.",
		NotDecided:  []string{"that a message within the limits is delivered intact (value property)", "the receive-side limit (decided under C06)"},
		Assumptions: []string{"mem.BufferSlice.Len returns the payload length"},
		Technique:   "static analysis: decision-list extraction from must-hold branch facts at returns, dominating guards, constant-flow of status codes, value-origin",
		Run:         c21,
	})
}

func c21(c *Ctx) {
	c.Ob("getMaxSize", "R7", "decision list of the limit-combining function: (both unset -> default), (both set -> min of the two), (only one set -> that one)", 4, func() {
		f := c.fn("grpc", "getMaxSize")
		mc, dopt := ParamV("mcMax"), ParamV("doptMax")
		kinds := map[string]int{}
		for _, r := range returnsOf(f) {
			v := r.Results[0]
			switch {
			case mc(v):
				kinds["mc"]++
				c.MustFact(r, "returns-config-limit-only-if-set", NotNil(mc))
				// and the other is unset or irrelevant: the both-set case returned earlier
				c.Unreachable(r, "both-set-does-not-return-config-limit", NotNil(mc), NotNil(dopt))
			case dopt(v):
				kinds["dopt"]++
				c.MustFact(r, "returns-option-limit-only-if-config-unset", IsNil(mc))
			case CallRes(Callee("grpc", "minPointers"), 0)(v):
				kinds["min"]++
				c.MustFact(r, "min-only-if-config-set", NotNil(mc))
				c.MustFact(r, "min-only-if-option-set", NotNil(dopt))
				call := strip(v).(*ssa.Call)
				a0, a1 := call.Call.Args[0], call.Call.Args[1]
				c.Expect(mc(a0) && dopt(a1) || mc(a1) && dopt(a0), call, f, "min-of-both-limits", "minPointers is not applied to the two limits")
			default:
				kinds["default"]++
				c.MustFact(r, "default-only-if-config-unset", IsNil(mc))
				c.MustFact(r, "default-only-if-option-unset", IsNil(dopt))
				al, ok := strip(v).(*ssa.Alloc)
				isDef := false
				if ok {
					for _, st := range storesTo(al) {
						if ParamV("defaultVal")(st.Val) {
							isDef = true
						}
					}
				}
				c.Expect(isDef, r, f, "default-is-the-default-parameter", "the fall-back value is not the default parameter")
			}
		}
		c.Expect(kinds["mc"] == 1 && kinds["dopt"] == 1 && kinds["min"] == 1 && kinds["default"] == 1, nil, f, "four-cases", "expected exactly the four cases default/min/config/option")
		m := c.fn("grpc", "minPointers")
		for _, r := range returnsOf(m) {
			v := r.Results[0]
			a, b := ParamV("a"), ParamV("b")
			switch {
			case a(v):
				c.MustFactAny(r, "returns-a-only-if-not-larger", Cmp(DerefOf(a), token.LSS, DerefOf(b)), Cmp(DerefOf(a), token.LEQ, DerefOf(b)))
			case b(v):
				c.MustFactAny(r, "returns-b-only-if-not-larger", Cmp(DerefOf(b), token.LSS, DerefOf(a)), Cmp(DerefOf(b), token.LEQ, DerefOf(a)))
			default:
				c.Expect(false, r, m, "returns-one-of-its-arguments", "minPointers returns something else than one of its arguments")
			}
		}
	})
	c.Ob("limits-flow", "R8", "the per-call send/receive limits are assigned from the limit-combining function applied to (service-config limit, call-option limit, default), after every call option's before() hook ran; the server stream takes its limits from the server options", 4, func() {
		f := c.fn("grpc", "newClientStreamWithParams")
		ci := "callInfo"
		type lim struct{ field, mcField, def string }
		for _, l := range []lim{{"maxSendMessageSize", "MaxReqSize", "defaultClientMaxSendMessageSize"}, {"maxReceiveMessageSize", "MaxRespSize", "defaultClientMaxReceiveMessageSize"}} {
			fv := c.field("grpc", ci, l.field)
			mcf := c.field("internal/serviceconfig", "MethodConfig", l.mcField)
			st := one(c, "store to callInfo."+l.field+" in newClientStreamWithParams", storesToField(f, fv))
			if !c.ValueIs(st, st.Val, l.field+"-from-getMaxSize", CallRes(Callee("grpc", "getMaxSize"), 0)) {
				continue
			}
			call := strip(st.Val).(*ssa.Call)
			c.ArgIs(call, 0, l.field+"-config-arg", FieldLoad(mcf))
			c.ArgIs(call, 1, l.field+"-option-arg", FieldLoad(fv))
			c.ArgIs(call, 2, l.field+"-default-arg", ConstOfObj(c.konst("grpc", l.def)))
			for _, b := range callsIn(f, Callee("grpc", "CallOption.before")) {
				c.Expect(!reachableBlocks(st.Block())[b.Block()], b, f, "options-applied-before-limits", "a call option's before() hook can run after the limits were computed")
			}
		}
		pr := c.fn("grpc", "Server.processRPC")
		for _, l := range []string{"maxSendMessageSize", "maxReceiveMessageSize"} {
			fv := c.field("grpc", "serverStream", l)
			ov := c.field("grpc", "serverOptions", l)
			st := one(c, "store to serverStream."+l, storesToField(pr, fv))
			c.ValueIs(st, st.Val, "server-"+l+"-from-options", FieldLoad(ov))
		}
	})
	c.Ob("limit-writers", "R1", "a per-call limit is non-nil only if a call option set it: the two limit fields of the call info are written only by the MaxCallRecvMsgSize/MaxCallSendMsgSize options and by the two stream constructors (from the limit-combining function); in particular the defaults are not pre-populated, which would make them take part in the minimum", 4, func() {
		for _, l := range []string{"maxSendMessageSize", "maxReceiveMessageSize"} {
			fv := c.field("grpc", "callInfo", l)
			muts := c.WhoMayMutate("callInfo."+l, fv, c.scope("grpc"),
				"grpc.MaxRecvMsgSizeCallOption.before", "grpc.MaxSendMsgSizeCallOption.before",
				"grpc.newClientStreamWithParams", "grpc.newNonRetryClientStream")
			for _, m := range muts {
				top := shortName(topFunc(m.Instr.Parent()))
				if top == "grpc.newClientStreamWithParams" || top == "grpc.newNonRetryClientStream" {
					c.ValueIs(m.Instr, m.Val, l+"-from-getMaxSize", CallRes(Callee("grpc", "getMaxSize"), 0))
				}
			}
		}
	})
	c.Ob("send-check", "R2", "sibling x3 (client stream, addrConn stream, server stream): the transport write (or the retry-wrapped send op) is dominated by 'payload.Len() <= limit' where payload is the post-compression payload; the refusing arm returns RESOURCE_EXHAUSTED", 6, func() {
		payload := CallRes(Callee("grpc", "prepareMsg"), 2)
		plen := CallWith(Callee("mem", "BufferSlice.Len"), 0, payload)
		type sib struct {
			fn    string
			sink  CM
			limit VM
		}
		ciSend := c.field("grpc", "callInfo", "maxSendMessageSize")
		ssSend := c.field("grpc", "serverStream", "maxSendMessageSize")
		sibs := []sib{
			{"clientStream.SendMsg", Callee("grpc", "clientStream.withRetry"), DerefOf(FieldLoad(ciSend))},
			{"addrConnStream.SendMsg", Callee(tr, "ClientStream.Write"), DerefOf(FieldLoad(ciSend))},
			{"serverStream.SendMsg", Callee(tr, "ServerStream.Write"), FieldLoad(ssSend)},
		}
		for _, s := range sibs {
			f := c.fn("grpc", s.fn)
			sink := one(c, "transport write / retry-wrapped op in "+s.fn, callsIn(f, s.sink))
			c.MustFact(sink, "payload-within-limit", Cmp(plen, token.LEQ, s.limit))
			c.statusCodeIn(blocksWhere(f, Cmp(plen, token.GTR, s.limit)), f, "too-large->ResourceExhausted", "ResourceExhausted")
			// what is written is that payload
			if s.fn != "clientStream.SendMsg" {
				c.ArgIs(sink, 2, "writes-the-checked-payload", payload)
			} else {
				// the op closure sends the captured payload
				ops := closuresPassedTo(f, s.sink, 1)
				if c.Expect(len(ops) == 1, sink, f, "op-closure", "withRetry is not given a closure literal") {
					sm := callsIn(ops[0], Callee("grpc", "csAttempt.sendMsg"))
					c.Expect(len(sm) == 1, sink, f, "op-sends", "the op closure does not call sendMsg exactly once")
				}
			}
		}
	})
}
