package main

import (
	"go/token"
	"go/types"
	"sort"
	"strings"

	"golang.org/x/tools/go/ssa"
)

func init() {
	register(&PropDef{
		ID:    "C16",
		Pkgs:  []string{tr},
		Claim: "Decides the structural part: the control buffer's queue, closed flag, waiting flag and throttle counter are accessed only under its mutex; the throttle channel is created exactly on the increment that makes the count equal the limit and closed exactly on the dequeue performed while the count equals the limit (same limit, equality on both sides, count changed only for throttled items); every close of the throttle channel is on a pointer obtained by an atomic swap to nil; a closed buffer rejects new items with ErrConnClosing; finish is idempotent, orphans queued client headers and releases a blocked throttler; the throttling classification of every control item type is the reviewed table; throttle and get can always escape through the transport's done channel. Hand-over between producers and the consumer is decided structurally: put enqueues every non-nil item past the closed/callback tests, a consumer that announced waiting is signalled after the enqueue on every path, get sleeps only with no frame, no error and block=true, getOnceLocked dequeues only from a non-empty list, finish walks the drained list to its end, throttle dereferences the throttle channel only when one exists.",
		NotDecided:  []string{"absence of lost wake-ups and deadlock over all schedules (liveness)", "that the reader calls throttle() before every frame read (decided per reader under C11/C12)"},
		Assumptions: []string{"atomic.Pointer Swap/Load/Store semantics"},
		Technique:   "static analysis: must-lockset, dominating guards on go/ssa branch facts, who-may-write, once-only close via swap origin, exhaustive table of interface implementations, select-arm inspection",
		Run:         c16,
	})
}

func c16(c *Ctx) {
	cb := func(f string) *types.Var { return c.field(tr, "controlBuffer", f) }
	mu := cb("mu")
	fClosed, fList, fWait, fTRF := cb("closed"), cb("list"), cb("consumerWaiting"), cb("transportResponseFrames")
	limit := GlobalLoad(c.konst(tr, "maxQueuedControlBufferItems"))
	throttled := Truth(CallRes(Callee(tr, "cbItem.isThrottled"), 0), true)
	atLimit := Cmp(FieldLoad(fTRF), token.EQL, limit)
	c.Ob("cbuf-lock", "R4", "closed, list, consumerWaiting and transportResponseFrames are accessed only with the buffer mutex held; getOnceLocked is called only with it held", 15, func() {
		c.GuardedBy(GuardSpec{Label: "controlBuffer", Mu: mu, Fields: []*types.Var{fClosed, fList, fWait, fTRF}, Scope: c.scope(tr),
			Locked: map[string]bool{"internal/transport.controlBuffer.getOnceLocked": true}})
	})
	c.Ob("symmetry", "R2", "the throttle channel is created exactly when the count, just incremented for a throttled item, equals the limit, and swapped-out-and-closed exactly when a throttled item is dequeued while the count equals the limit, before the decrement; the count changes only by +1/-1 for throttled items in these two functions", 12, func() {
		put := c.fn(tr, "controlBuffer.executeAndPut")
		get := c.fn(tr, "controlBuffer.getOnceLocked")
		store := one(c, "trfChan.Store in executeAndPut", callsIn(put, CalleeX("sync/atomic", "Pointer.Store")))
		c.MustFact(store, "created-at-limit", atLimit)
		c.MustFact(store, "created-for-throttled-item", throttled)
		inc := one(c, "count increment in executeAndPut", storesToField(put, fTRF))
		c.ValueIs(inc, inc.Val, "increment-by-one", BinOpV(token.ADD, FieldLoad(fTRF), ConstInt(1)))
		c.MustFact(inc, "increment-only-for-throttled", throttled)
		c.Dominates(inc, store, "increment-before-compare")
		// the compared value is loaded after the increment
		for _, in := range instrsWhere(put, func(in ssa.Instruction) bool {
			b, ok := in.(*ssa.BinOp)
			return ok && b.Op == token.EQL && (FieldLoad(fTRF)(b.X) && limit(b.Y) || FieldLoad(fTRF)(b.Y) && limit(b.X))
		}) {
			b := in.(*ssa.BinOp)
			ld := b.X
			if !FieldLoad(fTRF)(ld) {
				ld = b.Y
			}
			c.Expect(instrDominates(inc, ld.(ssa.Instruction)), in, put, "compare-sees-incremented-count", "the limit comparison reads the count before the increment")
		}
		// the item counted is the item enqueued
		enq := one(c, "list.enqueue in executeAndPut", callsIn(put, Callee(tr, "itemList.enqueue")))
		c.ArgIs(enq, 1, "enqueues-the-item", ParamV("it"))
		swap := one(c, "trfChan.Swap in getOnceLocked", callsIn(get, CalleeX("sync/atomic", "Pointer.Swap")))
		c.MustFact(swap, "released-at-limit", atLimit)
		c.MustFact(swap, "released-for-throttled-item", throttled)
		c.ArgIs(swap, 1, "swap-to-nil", ConstNil)
		dec := one(c, "count decrement in getOnceLocked", storesToField(get, fTRF))
		c.ValueIs(dec, dec.Val, "decrement-by-one", BinOpV(token.SUB, FieldLoad(fTRF), ConstInt(1)))
		c.MustFact(dec, "decrement-only-for-throttled", throttled)
		c.Expect(!reachableBlocks(dec.Block())[swap.Block()] || dec.Block() == swap.Block() && instrIndex(swap) < instrIndex(dec), dec, get, "compare-before-decrement", "the count is decremented before it is compared with the limit")
		// every throttled dequeue decrements
		var thr ssa.Instruction
		for _, ci := range callsIn(get, Callee(tr, "cbItem.isThrottled")) {
			thr = ci
		}
		if thr == nil {
			panic(missingStep{"getOnceLocked does not ask the item whether it is throttled"})
		}
		q := pathQuery{Fn: get, Starts: []ssa.Instruction{thr}, Barrier: func(in ssa.Instruction) bool { return in == ssa.Instruction(dec) }, Target: isReturn,
			EdgeBlock: func(from, to *ssa.BasicBlock) bool {
				_, ok := hasFact(edgeFacts(from, to), Truth(CallRes(Callee(tr, "cbItem.isThrottled"), 0), false))
				return ok
			}}
		c.MustPass("throttled-dequeue-always-decrements", q, thr)
		c.WhoMayMutate("transportResponseFrames", fTRF, c.scope(tr), "internal/transport.controlBuffer.executeAndPut", "internal/transport.controlBuffer.getOnceLocked")
	})
	c.Ob("close-once", "R11", "every close of a throttle channel in the control buffer closes the target of a pointer obtained from trfChan.Swap(nil) (so at most one closer per channel), and only when that pointer is non-nil or the count was at the limit", 2, func() {
		n := 0
		for _, name := range []string{"controlBuffer.getOnceLocked", "controlBuffer.finish", "controlBuffer.executeAndPut", "controlBuffer.throttle", "controlBuffer.get"} {
			f := c.fn(tr, name)
			for _, cl := range callsIn(f, BuiltinCall("close")) {
				n++
				c.ArgIs(cl, 0, "closes-swapped-out-channel", DerefOf(CallRes(CalleeX("sync/atomic", "Pointer.Swap"), 0)))
				if name == "controlBuffer.finish" {
					c.MustFact(cl, "pointer-non-nil", NotNil(CallRes(CalleeX("sync/atomic", "Pointer.Swap"), 0)))
				}
			}
		}
		c.Expect(n == 2, nil, nil, "two-closers", "expected exactly two close sites (dequeue at limit, finish)")
	})
	c.Ob("closed-rejects", "R2", "a closed buffer enqueues nothing and runs no callback: enqueue and the callback are dominated by !closed; the refusing arm returns ErrConnClosing; finish tests-and-sets closed", 6, func() {
		put := c.fn(tr, "controlBuffer.executeAndPut")
		enq := one(c, "list.enqueue", callsIn(put, Callee(tr, "itemList.enqueue")))
		c.MustFact(enq, "not-closed", Truth(FieldLoad(fClosed), false))
		for _, fc := range callsIn(put, ValueCall(ParamV("f"))) {
			c.MustFact(fc, "callback-not-closed", Truth(FieldLoad(fClosed), false))
		}
		// enqueue only if the callback (when given) succeeded
		c.Unreachable(enq, "failed-callback-enqueues-nothing", Truth(CallRes(ValueCall(ParamV("f")), 0), false))
		errClosing := GlobalLoad(c.konst(tr, "ErrConnClosing"))
		nret := 0
		for _, b := range blocksWhere(put, Truth(FieldLoad(fClosed), true)) {
			for _, in := range b.Instrs {
				if r, ok := in.(*ssa.Return); ok {
					nret++
					c.ValueIs(r, r.Results[1], "closed->ErrConnClosing", errClosing)
				}
			}
		}
		c.Expect(nret >= 1, nil, put, "closed-arm-returns", "no return on the closed arm")
		fin := c.fn(tr, "controlBuffer.finish")
		set := one(c, "store closed=true in finish", storesToField(fin, fClosed))
		c.MustFact(set, "finish-idempotent", Truth(FieldLoad(fClosed), false))
		c.ValueIs(set, set.Val, "sets-true", ConstBool(true))
		c.WhoMayMutate("closed", fClosed, c.scope(tr), "internal/transport.controlBuffer.finish")
		g := c.fn(tr, "controlBuffer.getOnceLocked")
		dq := one(c, "list.dequeue in getOnceLocked", callsIn(g, Callee(tr, "itemList.dequeue")))
		c.MustFact(dq, "dequeue-not-closed", Truth(FieldLoad(fClosed), false))
	})
	c.Ob("orphans", "R6", "finish drains the queue and calls onOrphaned for every queued client HEADERS item, and releases a throttled reader when a throttle channel exists", 3, func() {
		fin := c.fn(tr, "controlBuffer.finish")
		one(c, "dequeueAll in finish", callsIn(fin, Callee(tr, "itemList.dequeueAll")))
		fOrph := c.field(tr, "clientHeaders", "onOrphaned")
		// the orphaning walk is in finish itself or in a helper of the package that finish calls with the drained list
		orphs := callsIn(fin, FieldCall(fOrph))
		var at ssa.Instruction // where, in finish, the orphaning happens
		if len(orphs) == 0 {
			for _, b := range fin.Blocks {
				for _, in := range b.Instrs {
					call, ok := in.(*ssa.Call)
					if !ok {
						continue
					}
					if g := call.Call.StaticCallee(); g != nil && g.Pkg == fin.Pkg && len(g.Blocks) > 0 && len(callsIn(g, FieldCall(fOrph))) > 0 {
						orphs = append(orphs, callsIn(g, FieldCall(fOrph))...)
						at = call
						drained := false
						for _, a := range call.Call.Args {
							if DataDep(CallRes(Callee(tr, "itemList.dequeueAll"), 0))(a) {
								drained = true
							}
						}
						c.Expect(drained, call, fin, "orphans-the-drained-list", "the orphaning helper is not handed the list drained by finish")
					}
				}
			}
		}
		orph := one(c, "onOrphaned invocation in finish", orphs)
		if at == nil {
			at = orph
		}
		c.ArgIs(orph, 0, "orphaned-with-ErrConnClosing", GlobalLoad(c.konst(tr, "ErrConnClosing")))
		set := one(c, "store closed=true in finish", storesToField(fin, fClosed))
		c.Dominates(set, at, "closed-before-orphaning")
		sw := one(c, "trfChan.Swap in finish", callsIn(fin, CalleeX("sync/atomic", "Pointer.Swap")))
		c.ArgIs(sw, 1, "swap-to-nil", ConstNil)
		// not skipped on any path after closed was set
		q := pathQuery{Fn: fin, Starts: []ssa.Instruction{set}, Barrier: func(in ssa.Instruction) bool { return in == ssa.Instruction(sw) }, Target: isReturn}
		c.MustPass("finish-always-releases-throttler", q, sw)
	})
	c.Ob("hand-over", "R2", "no item is lost or invented between producer and consumer: put enqueues every non-nil item past the closed/callback tests and returns 'added' without enqueueing only for a nil item; a waiting consumer is always signalled after the enqueue; get goes to sleep only with no frame, no error and block=true, and returns otherwise; getOnceLocked dequeues only from a non-empty list and reports 'nothing' only for an empty one; finish walks the drained list to its end; throttle dereferences the throttle channel only when one exists", 10, func() {
		put := c.fn(tr, "controlBuffer.executeAndPut")
		enq := one(c, "list.enqueue", callsIn(put, Callee(tr, "itemList.enqueue")))
		c.MustFact(enq, "enqueues-only-an-item", NotNil(ParamV("it")))
		c.ArgIs(enq, 1, "enqueues-the-given-item", DataDep(ParamV("it")))
		for _, fc := range callsIn(put, ValueCall(ParamV("f"))) {
			c.MustFact(fc, "callback-called-only-when-given", NotNil(ParamV("f")))
		}
		for _, r := range returnsOf(put) {
			if r.Block() == put.Recover || instrDominates(enq, r) {
				continue
			}
			if ConstBool(true)(r.Results[0]) {
				c.MustFact(r, "added-without-enqueue-only-for-no-item", IsNil(ParamV("it")))
			}
		}
		// every path from the test that saw a waiting consumer to the return passes the wake-up send
		var sel ssa.Instruction
		for _, s := range instrsWhere(put, func(in ssa.Instruction) bool { _, ok := in.(*ssa.Select); return ok }) {
			sel = s
		}
		if c.Expect(sel != nil, nil, put, "wake-up-send", "no wake-up send in executeAndPut") {
			starts := edgeTargetsWhere(put, Truth(FieldLoad(fWait), true))
			if c.Expect(len(starts) >= 1, sel, put, "waiting-consumer-arm", "the waiting flag is not tested") {
				// the local flag set on that arm is tested later; its false edge is infeasible from there (the flag is set only there and never cleared)
				c.MustPass("waiting-consumer-always-signalled", pathQuery{Fn: put, StartBlocks: starts, Barrier: func(in ssa.Instruction) bool { return in == sel }, Target: isReturn,
					EdgeBlock: func(from, to *ssa.BasicBlock) bool {
						_, ok := hasFact(edgeFacts(from, to), Truth(SetWhen(Truth(FieldLoad(fWait), true)), false))
						return ok
					}}, sel)
			}
			c.Expect(instrDominates(enq, sel), sel, put, "signal-after-enqueue", "the consumer is signalled before the item is in the list")
		}
		// get
		g := c.fn(tr, "controlBuffer.get")
		gol := one(c, "getOnceLocked in get", callsIn(g, Callee(tr, "controlBuffer.getOnceLocked")))
		frame := ExtractOf(func(v ssa.Value) bool { return v == gol.Value() }, 0)
		gerr := ExtractOf(func(v ssa.Value) bool { return v == gol.Value() }, 1)
		for _, st := range storesToField(g, fWait) {
			c.MustFact(st, "sleeps-only-without-a-frame", IsNil(frame))
			c.MustFact(st, "sleeps-only-without-an-error", IsNil(gerr))
			c.MustFact(st, "sleeps-only-when-asked-to-block", Truth(ParamV("block"), true))
		}
		c.Expect(len(storesToField(g, fWait)) == 1, nil, g, "announces-waiting-once", "expected one site announcing a waiting consumer")
		for _, r := range returnsOf(g) {
			if r.Block() == g.Recover {
				continue
			}
			if frame(r.Results[0]) {
				c.Expect(gerr(r.Results[1]), r, g, "returns-what-was-dequeued", "get does not return the dequeued frame with its error")
			}
		}
		// getOnceLocked
		gl := c.fn(tr, "controlBuffer.getOnceLocked")
		dq := one(c, "list.dequeue in getOnceLocked", callsIn(gl, Callee(tr, "itemList.dequeue")))
		empty := CallRes(Callee(tr, "itemList.isEmpty"), 0)
		c.MustFact(dq, "dequeue-only-from-a-non-empty-list", Truth(empty, false))
		for _, r := range returnsOf(gl) {
			if r.Block() == gl.Recover {
				continue
			}
			if ConstNil(r.Results[0]) && ConstNil(r.Results[1]) {
				c.MustFact(r, "nothing-only-for-an-empty-list", Truth(empty, true))
			}
		}
		// finish: the orphan walk ends only at the end of the list
		fin := c.fn(tr, "controlBuffer.finish")
		fOrph := c.field(tr, "clientHeaders", "onOrphaned")
		for _, orph := range callsIn(fin, FieldCall(fOrph)) {
			c.MustFact(orph, "orphan-walk-visits-existing-nodes", NotNil(func(v ssa.Value) bool { _, ok := v.(*ssa.Phi); return ok && typeName(v.Type()) == "itemNode" }))
		}
		for _, b := range fin.Blocks {
			i, ok := b.Instrs[len(b.Instrs)-1].(*ssa.If)
			if !ok || !isLoopHeader(b) {
				continue
			}
			if _, node, _, ok := cmpOf(i.Cond); ok && typeName(node.Type()) == "itemNode" {
				c.EnteredOnlyWhenFrom(b.Succs[1], "orphan-walk-ends-only-at-the-end-of-the-list", b, IsNil(func(v ssa.Value) bool { return v == node }))
				c.Expect(len(breakPreds(b)) == 0, i, fin, "orphan-walk-not-left-early", "the orphan walk is left early")
			}
		}
		// throttle
		th := c.fn(tr, "controlBuffer.throttle")
		for _, s := range instrsWhere(th, func(in ssa.Instruction) bool { _, ok := in.(*ssa.Select); return ok }) {
			c.MustFact(s, "throttle-waits-only-on-an-existing-channel", NotNil(CallRes(CalleeX("sync/atomic", "Pointer.Load"), 0)))
		}
	})
	c.Ob("throttled-classification", "R6", "reviewed table of every control-item type and its constant isThrottled(): data frames, client headers and server headers are never throttled; every other item is; a type missing from the table is reported", 16, func() {
		want := map[string]bool{"dataFrame": false, "clientHeaders": false, "serverHeaders": false,
			"registerStream": true, "cleanupStream": true, "earlyAbortStream": true, "incomingWindowUpdate": true, "outgoingWindowUpdate": true,
			"incomingSettings": true, "outgoingSettings": true, "incomingGoAway": true, "goAway": true, "ping": true, "outFlowControlSizeRequest": true, "closeConnection": true, "outStreamRequestForTesting": true}
		pkg := c.P.typesPkg(tr)
		iface := c.P.LookupType(tr, "cbItem").Underlying().(*types.Interface)
		names := pkg.Scope().Names()
		sort.Strings(names)
		seen := map[string]bool{}
		for _, n := range names {
			tn, ok := pkg.Scope().Lookup(n).(*types.TypeName)
			if !ok || tn.IsAlias() {
				continue
			}
			nt, ok := tn.Type().(*types.Named)
			if !ok || types.IsInterface(nt) {
				continue
			}
			if !types.Implements(nt, iface) && !types.Implements(types.NewPointer(nt), iface) {
				continue
			}
			if n == "throttledItem" {
				continue
			}
			// constant value of isThrottled
			ms := types.NewMethodSet(types.NewPointer(nt))
			sel := ms.Lookup(pkg, "isThrottled")
			if sel == nil {
				continue
			}
			fn := c.P.SSA.FuncValue(sel.Obj().(*types.Func))
			val, okc := constBoolResult(fn)
			c.inst(n + ".isThrottled() = " + boolStr(val, okc))
			seen[n] = true
			w, inTable := want[n]
			if !inTable {
				c.violateAt(c.P.Pos(tn.Pos()), tr+"."+n, "unclassified", "control item type "+n+" is not in the reviewed throttling table")
				continue
			}
			if !okc || val != w {
				c.violateAt(c.P.Pos(tn.Pos()), tr+"."+n, "misclassified", "isThrottled() of "+n+" is "+boolStr(val, okc)+", the reviewed table says "+boolStr(w, true))
			}
		}
		var missing []string
		for n := range want {
			if !seen[n] {
				missing = append(missing, n)
			}
		}
		sort.Strings(missing)
		if len(missing) > 0 {
			c.broken("table entries without a type (renamed?): " + strings.Join(missing, ","))
		}
	})
	c.Ob("escape", "R2", "throttle() waits on the throttle channel and on the transport's done channel; get() blocks on the wake-up channel and on done, after announcing consumerWaiting under the mutex; a producer that saw consumerWaiting signals the wake-up channel without blocking", 5, func() {
		fDone := cb("done")
		fWake := cb("wakeupCh")
		hasArm := func(f *ssa.Function, vm VM, label string) {
			sels := instrsWhere(f, func(in ssa.Instruction) bool { _, ok := in.(*ssa.Select); return ok })
			found := false
			for _, s := range sels {
				for _, st := range s.(*ssa.Select).States {
					if vm(st.Chan) {
						found = true
					}
				}
			}
			c.Expect(found, nil, f, label, "no select arm on the required channel")
		}
		th := c.fn(tr, "controlBuffer.throttle")
		hasArm(th, FieldLoad(fDone), "throttle-escapes-on-done")
		hasArm(th, DerefOf(CallRes(CalleeX("sync/atomic", "Pointer.Load"), 0)), "throttle-waits-on-throttle-channel")
		g := c.fn(tr, "controlBuffer.get")
		hasArm(g, FieldLoad(fDone), "get-escapes-on-done")
		hasArm(g, FieldLoad(fWake), "get-waits-on-wakeup")
		ls := locksets(g, lockOpts{})
		for _, st := range storesToField(g, fWait) {
			c.Expect(ls[st][mu], st, g, "waiting-announced-under-mu", "consumerWaiting is set without the mutex")
			c.ValueIs(st, st.Val, "announces-waiting", ConstBool(true))
		}
		put := c.fn(tr, "controlBuffer.executeAndPut")
		for _, s := range instrsWhere(put, func(in ssa.Instruction) bool { _, ok := in.(*ssa.Select); return ok }) {
			sel := s.(*ssa.Select)
			c.Expect(!sel.Blocking, s, put, "wakeup-send-non-blocking", "the wake-up send can block while the mutex is held")
			c.MustFact(s, "wakeup-only-if-consumer-was-waiting", Truth(SetWhen(Truth(FieldLoad(fWait), true)), true))
		}
		// the waiting flag is cleared when the wake-up is decided
		for _, st := range storesToField(put, fWait) {
			c.MustFact(st, "cleared-only-if-set", Truth(FieldLoad(fWait), true))
		}
	})
}

func boolStr(v, ok bool) string {
	if !ok {
		return "non-constant"
	}
	if v {
		return "true"
	}
	return "false"
}

// constBoolResult: the function (possibly a promotion wrapper) returns one
// constant bool on all paths.
func constBoolResult(fn *ssa.Function) (bool, bool) {
	if fn == nil {
		return false, false
	}
	for depth := 0; depth < 4; depth++ {
		rets := returnsOf(fn)
		if len(rets) == 0 {
			return false, false
		}
		var val *bool
		for _, r := range rets {
			if len(r.Results) != 1 {
				return false, false
			}
			v := r.Results[0]
			if c, ok := v.(*ssa.Const); ok && c.Value != nil {
				b := ConstBool(true)(c)
				if val != nil && *val != b {
					return false, false
				}
				val = &b
				continue
			}
			// wrapper: return callee(...)
			if call, ok := v.(*ssa.Call); ok && len(rets) == 1 {
				if cal := call.Call.StaticCallee(); cal != nil {
					fn = cal
					val = nil
					goto next
				}
			}
			return false, false
		}
		if val != nil {
			return *val, true
		}
		return false, false
	next:
	}
	return false, false
}
