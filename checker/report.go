package main

// Obligations, violations, known findings, evidence.

import (
	"bufio"
	"encoding/json"
	"fmt"
	"os"
	"path/filepath"
	"runtime/debug"
	"sort"
	"strings"
	"time"

	"golang.org/x/tools/go/ssa"
)

type Violation struct {
	ID    string   `json:"id"` // obligation key @ construct (function[#tag]); never a line number
	Key   string   `json:"obligation"`
	Rule  string   `json:"rule"`
	Where string   `json:"where"` // file:line
	Func  string   `json:"function"`
	Why   string   `json:"why"`
	Path  []string `json:"witness_path,omitempty"`
	Known bool     `json:"known_finding,omitempty"`
}

type Ob struct {
	Key        string      `json:"key"`
	Rule       string      `json:"rule"`
	Desc       string      `json:"decides"`
	Min        int         `json:"min_instances"`
	N          int         `json:"instances"`
	NonTrivial int         `json:"nontrivial"`
	Viol       []Violation `json:"violations,omitempty"`
	Samples    []string    `json:"samples,omitempty"`
	Broken     []string    `json:"broken,omitempty"`
	Skipped    string      `json:"skipped,omitempty"`
	distinct   map[string]bool
}

type Ctx struct {
	strictUnlock map[*ssa.Function]bool // functions in which an Unlock with no reaching Lock is reported
	P           *Prog
	Prop        string
	Tier        string
	Obs         []*Ob
	cur         *Ob
	Assumptions []string
	NotDecided  []string
}

type anchorErr struct{ msg string }

func (c *Ctx) thorough() bool { return c.Tier == "thorough" }

// Ob runs one obligation. min is the hand-confirmed minimum number of rule
// instances on the pinned tree; matching fewer is a failure (exit 2), because
// a rule that matches nothing passes vacuously.
func (c *Ctx) Ob(key, rule, desc string, min int, body func()) {
	o := &Ob{Key: c.Prop + "/" + rule + "/" + key, Rule: rule, Desc: desc, Min: min, distinct: map[string]bool{}}
	c.Obs = append(c.Obs, o)
	c.cur = o
	defer func() {
		c.cur = nil
		if r := recover(); r != nil {
			if ae, ok := r.(anchorErr); ok {
				o.Broken = append(o.Broken, "anchor moved: "+ae.msg)
				return
			}
			if ms, ok := r.(missingStep); ok {
				o.N++
				o.Viol = append(o.Viol, Violation{ID: o.Key + "@missing-step", Key: o.Key, Rule: o.Rule, Func: "-", Where: "-", Why: "required construct missing or duplicated: " + ms.msg})
				return
			}
			o.Broken = append(o.Broken, fmt.Sprintf("analyser panic: %v\n%s", r, debug.Stack()))
		}
	}()
	body()
	if o.N < o.Min && len(o.Viol) == 0 {
		o.Broken = append(o.Broken, fmt.Sprintf("matched %d instances, fewer than the %d confirmed by hand (rule would pass vacuously)", o.N, o.Min))
	}
}

// ObThorough registers an obligation evaluated only in the thorough tier
// (it needs the whole module); in quick it is recorded as skipped.
func (c *Ctx) ObThorough(key, rule, desc string, min int, body func()) {
	if !c.thorough() {
		o := &Ob{Key: c.Prop + "/" + rule + "/" + key, Rule: rule, Desc: desc, Min: min, Skipped: "needs the whole-module program; evaluated by the thorough tier"}
		c.Obs = append(c.Obs, o)
		return
	}
	c.Ob(key, rule, desc, min, body)
}

func (c *Ctx) fn(pkg, name string) *ssa.Function {
	f := c.P.LookupFunc(pkg, name)
	if f == nil || f.Blocks == nil {
		panic(anchorErr{fmt.Sprintf("function %s.%s not found in the loaded program", pkg, name)})
	}
	if lg := os.Getenv("VCHK_FNLOG"); lg != "" { // dev aid: which functions a check anchors on (file:first-last line)
		if fh, err := os.OpenFile(lg, os.O_APPEND|os.O_CREATE|os.O_WRONLY, 0o644); err == nil {
			if syn := f.Syntax(); syn != nil {
				a, b := c.P.Fset.Position(syn.Pos()), c.P.Fset.Position(syn.End())
				fmt.Fprintf(fh, "%s %s %d %d\n", c.Prop, a.Filename, a.Line, b.Line)
			}
			fh.Close()
		}
	}
	return f
}

// inst records one rule instance (a site the rule was applied to).
func (c *Ctx) inst(sample string) {
	o := c.cur
	o.N++
	if !o.distinct[sample] {
		o.distinct[sample] = true
		if len(o.Samples) < 6 {
			o.Samples = append(o.Samples, sample)
		}
	}
}

// nontrivial records that the current instance needed a real discharge
// (a dominance / dataflow / reachability step), keyed for distinctness.
func (c *Ctx) nontrivial(key string) {
	o := c.cur
	k := "nt:" + key
	if !o.distinct[k] {
		o.distinct[k] = true
		o.NonTrivial++
	}
}

func (c *Ctx) violate(at ssa.Instruction, fn *ssa.Function, tag, why string, path []ssa.Instruction) {
	o := c.cur
	if fn == nil && at != nil {
		fn = at.Parent()
	}
	id := o.Key + "@" + shortName(fn)
	if tag != "" {
		id += "#" + tag
	}
	v := Violation{ID: id, Key: o.Key, Rule: o.Rule, Func: shortName(fn), Why: why}
	if at != nil {
		v.Where = c.P.Pos(posOf(at))
	} else if fn != nil {
		v.Where = c.P.Pos(fn.Pos())
	}
	for _, p := range path {
		v.Path = append(v.Path, c.P.Pos(posOf(p))+" "+instrStr(p))
	}
	o.Viol = append(o.Viol, v)
}

func (c *Ctx) violateAt(where, fnName, tag, why string) {
	o := c.cur
	id := o.Key + "@" + fnName
	if tag != "" {
		id += "#" + tag
	}
	o.Viol = append(o.Viol, Violation{ID: id, Key: o.Key, Rule: o.Rule, Func: fnName, Where: where, Why: why})
}

func (c *Ctx) broken(msg string) {
	c.cur.Broken = append(c.cur.Broken, msg)
}

func instrStr(in ssa.Instruction) string {
	s := in.String()
	if v, ok := in.(ssa.Value); ok {
		s = v.Name() + " = " + s
	}
	if len(s) > 100 {
		s = s[:100] + "…"
	}
	return s
}

// posOf finds a usable position for an instruction (some SSA instructions
// carry NoPos; fall back to operands / neighbours / the function).
func posOf(in ssa.Instruction) (p tokenPos) {
	if in == nil {
		return 0
	}
	if in.Pos().IsValid() {
		return in.Pos()
	}
	for _, op := range in.Operands(nil) {
		if *op != nil {
			if oi, ok := (*op).(ssa.Instruction); ok && oi.Pos().IsValid() {
				return oi.Pos()
			}
		}
	}
	b := in.Block()
	idx := instrIndex(in)
	for d := 1; d < len(b.Instrs); d++ {
		for _, j := range []int{idx - d, idx + d} {
			if j >= 0 && j < len(b.Instrs) && b.Instrs[j].Pos().IsValid() {
				return b.Instrs[j].Pos()
			}
		}
	}
	return in.Parent().Pos()
}

// ---------- known findings ----------

type knownFinding struct {
	Prop, ID, Text string
}

func loadKnown(path string) ([]knownFinding, error) {
	f, err := os.Open(path)
	if err != nil {
		if os.IsNotExist(err) {
			return nil, nil
		}
		return nil, err
	}
	defer f.Close()
	var out []knownFinding
	sc := bufio.NewScanner(f)
	for sc.Scan() {
		line := strings.TrimSpace(sc.Text())
		if !strings.HasPrefix(line, "finding:") {
			continue // comments and "fixed:" lines suppress nothing
		}
		rest := strings.TrimSpace(strings.TrimPrefix(line, "finding:"))
		fields := strings.Fields(rest)
		var kf knownFinding
		n := 0
		for _, fl := range fields {
			if strings.HasPrefix(fl, "property=") {
				kf.Prop = strings.TrimPrefix(fl, "property=")
				n++
			} else if strings.HasPrefix(fl, "id=") {
				kf.ID = strings.TrimPrefix(fl, "id=")
				n++
			} else {
				break
			}
		}
		kf.Text = strings.Join(fields[n:], " ")
		if kf.Prop != "" && kf.ID != "" {
			out = append(out, kf)
		}
	}
	return out, sc.Err()
}

// ---------- evidence ----------

type evidence struct {
	PropertyID  string         `json:"property_id"`
	Tier        string         `json:"tier"`
	Seed        int            `json:"seed"`
	Level       string         `json:"level"`
	Coverage    map[string]any `json:"coverage"`
	Assumptions []string       `json:"assumptions"`
	WallS       float64        `json:"wall_s"`
	Violations  int            `json:"violations"`
}

// finish prints the verdict, writes evidence, and returns the exit code.
func (c *Ctx) finish(def *PropDef, outDir, knownPath string, seed int, start time.Time, loadInfo map[string]any) int {
	known, err := loadKnown(knownPath)
	if err != nil {
		fmt.Printf("BROKEN property=%s cannot read known findings: %v\n", c.Prop, err)
		return 2
	}
	var broken []string
	var viols []Violation
	nObl, nDis, nInst, nNT := 0, 0, 0, 0
	var obSummaries []map[string]any
	var samples []any
	for _, o := range c.Obs {
		if o.Skipped != "" {
			obSummaries = append(obSummaries, map[string]any{"key": o.Key, "rule": o.Rule, "decides": o.Desc, "skipped": o.Skipped})
			continue
		}
		nObl++
		nInst += o.N
		nNT += o.NonTrivial
		for _, b := range o.Broken {
			broken = append(broken, o.Key+": "+b)
		}
		unknownV := 0
		for i := range o.Viol {
			v := &o.Viol[i]
			for _, k := range known {
				if k.Prop == c.Prop && k.ID == v.ID {
					v.Known = true
				}
			}
			if !v.Known {
				unknownV++
			}
			viols = append(viols, *v)
		}
		if len(o.Viol) == 0 && len(o.Broken) == 0 {
			nDis++
		}
		status := "held"
		if len(o.Broken) > 0 {
			status = "broken"
		} else if unknownV > 0 {
			status = "VIOLATED"
		} else if len(o.Viol) > 0 {
			status = "known-finding"
		}
		obSummaries = append(obSummaries, map[string]any{"key": o.Key, "rule": o.Rule, "decides": o.Desc, "instances": o.N, "min_instances": o.Min, "nontrivial": o.NonTrivial, "status": status})
		for _, s := range o.Samples {
			if len(samples) < 40 {
				samples = append(samples, map[string]any{"obligation": o.Key, "instance": s})
			}
		}
	}
	// stdout
	exit := 0
	sort.Slice(viols, func(i, j int) bool { return viols[i].ID < viols[j].ID })
	knownPrinted := map[string]bool{}
	unknown := 0
	for _, v := range viols {
		if v.Known {
			if !knownPrinted[v.ID] {
				knownPrinted[v.ID] = true
				txt := ""
				for _, k := range known {
					if k.Prop == c.Prop && k.ID == v.ID {
						txt = k.Text
					}
				}
				fmt.Printf("KNOWN-FINDING: property=%s %s %s (%s)\n", c.Prop, v.ID, txt, v.Where)
			}
			continue
		}
		unknown++
	}
	violPath := filepath.Join(outDir, c.Prop+".violations.json")
	if unknown > 0 {
		exit = 1
		var uv []Violation
		for _, v := range viols {
			if !v.Known {
				uv = append(uv, v)
			}
		}
		if data, err := json.MarshalIndent(map[string]any{"property_id": c.Prop, "tier": c.Tier, "violations": uv}, "", " "); err == nil {
			os.MkdirAll(outDir, 0o755)
			os.WriteFile(violPath, data, 0o644)
		}
		fmt.Printf("VIOLATION property=%s replay=%s\n", c.Prop, violPath)
		for _, v := range uv {
			fmt.Printf("  %s: %s: %s [%s]: %s\n", v.Where, v.Rule, v.Key, v.Func, v.Why)
			for _, p := range v.Path {
				fmt.Printf("      via %s\n", p)
			}
		}
	} else {
		os.Remove(violPath)
	}
	if len(broken) > 0 {
		if exit == 0 { // a located violation outranks "could not evaluate the rest"
			exit = 2
		}
		for _, b := range broken {
			fmt.Printf("BROKEN property=%s %s\n", c.Prop, b)
		}
	}
	// evidence
	expl := def.Claim + " Obligations evaluated on this run: "
	for i, o := range obSummaries {
		if i > 0 {
			expl += "; "
		}
		expl += fmt.Sprintf("%v [%v]", o["key"], o["rule"])
		if s, ok := o["skipped"]; ok {
			expl += fmt.Sprintf(" (skipped: %v)", s)
		}
	}
	expl += ". NOT decided: " + strings.Join(def.NotDecided, "; ") + "."
	cov := map[string]any{
		"explanation":         expl,
		"evaluations":         nInst,
		"distinct_nontrivial": nNT,
		"rule":                "one evaluation = one (obligation, site) pair the rule was applied to in /repo's current source; non-trivial = the discharge needed at least one dominance/dataflow/reachability/lockset step (not a mere lookup), counted once per distinct (obligation, site)",
		"obligations":         nObl,
		"discharged":          nDis,
		"obligation_list":     obSummaries,
		"samples":             samples,
		"checker_cmd":         fmt.Sprintf("./run.sh %s %s", c.Prop, c.Tier),
		"trusted_base":        []string{"go/packages+go/types (x/tools v0.50.0)", "go/ssa lowering (x/tools v0.50.0)", "this checker's rule library (/verif/checker)"},
		"exhaustive":          false,
	}
	for k, v := range loadInfo {
		cov[k] = v
	}
	if samples == nil {
		cov["samples"] = []any{"(no instances)"}
	}
	ev := evidence{PropertyID: c.Prop, Tier: c.Tier, Seed: seed, Level: "other", Coverage: cov,
		Assumptions: append(append([]string{}, def.Assumptions...), c.Assumptions...), WallS: time.Since(start).Seconds(), Violations: unknown}
	if ev.Assumptions == nil {
		ev.Assumptions = []string{}
	}
	data, err := json.MarshalIndent(ev, "", " ")
	if err == nil {
		os.MkdirAll(outDir, 0o755)
		err = os.WriteFile(filepath.Join(outDir, c.Prop+".json"), data, 0o644)
	}
	if err != nil {
		fmt.Printf("BROKEN property=%s cannot write evidence: %v\n", c.Prop, err)
		return 2
	}
	if exit == 0 {
		fmt.Printf("OK property=%s tier=%s obligations=%d instances=%d nontrivial=%d known_findings=%d wall=%.1fs\n", c.Prop, c.Tier, nObl, nInst, nNT, len(knownPrinted), time.Since(start).Seconds())
	}
	return exit
}
