package main

import (
	"go/constant"
	"go/token"
	"go/types"
	"strings"

	"golang.org/x/tools/go/ssa"
)

func init() {
	register(&PropDef{
		ID:    "C46",
		Pkgs:  []string{xdsrsrc, xres},
		Claim: "Decides the structural part: the runtime-fraction matcher draws from [0, 1000000) and must compare with strict 'draw < fraction' (thorough: the same rule for every zero-based uniform draw compared with a configured threshold in the module); domain match kinds are ordered wildcard < prefix < suffix < exact, 'better' is strict >, the best-virtual-host scan keeps its current choice exactly when it is of a better kind, or of the same kind and at least as long, or the domain does not match, takes the new host/kind/length together otherwise, and returns nil on an invalid domain; each kind's predicate is the documented one; the composite route matcher returns true only when the path matcher, every header matcher and the fraction matcher (when present) matched; SelectConfig uses the first route whose matcher matches and stops scanning, picks the cluster with the route's weighted-round-robin Next(), and the request hash's data sources are only the hash policies, the looked-up header values, the channel id (random only when no policy produced a hash), with -bin headers skipped and a terminal policy stopping only once a hash exists. In the request hash a policy's hash is mixed in exactly when that policy produced one, the policy walk stops early only at a terminal policy once a hash exists, an absent header contributes nothing, and outgoing metadata is consulted only without an extra-metadata value; a cluster is drawn only from a matched route with clusters and a route action, from a WRR filled with the configured cluster weights.",
		NotDecided:  []string{"proportionality of cluster choice (C38 covers the weighted random pick)", "hash quality", "matching over all configurations against a reference router"},
		Assumptions: []string{"math/rand/v2 IntN-style functions are uniform on [0,n)"},
		Technique:   "static analysis: comparison-shape check of threshold tests on uniform draws (sibling sweep), constant ordering, refusing-arm unreachability and phi-edge pairing on go/ssa, must-pass-through, backward data slice with an allow-list of sources",
		Run:         c46,
	})
}

// uniformDraw: v is the direct result of a zero-based uniform integer draw
// (math/rand, math/rand/v2 IntN family) possibly through a package-level
// function variable initialised to one; returns the bound argument.
func uniformDraw(c *Ctx, v ssa.Value) (ssa.Value, bool) {
	call, ok := v.(*ssa.Call)
	if !ok || len(call.Call.Args) < 1 {
		return nil, false
	}
	isDrawFn := func(f *types.Func) bool {
		if f == nil || f.Pkg() == nil {
			return false
		}
		p := f.Pkg().Path()
		if p != "math/rand" && p != "math/rand/v2" {
			return false
		}
		n := f.Name()
		n = n[strings.LastIndex(n, ".")+1:]
		switch n {
		case "IntN", "Int32N", "Int64N", "UintN", "Uint32N", "Uint64N", "Intn", "Int31n", "Int63n", "N":
			return true
		}
		return false
	}
	if f := calleeFunc(&call.Call); f != nil {
		if isDrawFn(f) {
			return call.Call.Args[len(call.Call.Args)-1], true
		}
		return nil, false
	}
	// call through a package-level variable
	u, ok := call.Call.Value.(*ssa.UnOp)
	if !ok {
		return nil, false
	}
	g, ok := u.X.(*ssa.Global)
	if !ok || g.Pkg == nil {
		return nil, false
	}
	init := g.Pkg.Func("init")
	if init == nil {
		return nil, false
	}
	for _, b := range init.Blocks {
		for _, in := range b.Instrs {
			if st, ok := in.(*ssa.Store); ok && st.Addr == ssa.Value(g) {
				if fn, ok := st.Val.(*ssa.Function); ok {
					if tf, ok := fn.Object().(*types.Func); ok && isDrawFn(tf) {
						return call.Call.Args[len(call.Call.Args)-1], true
					}
				}
			}
		}
	}
	return nil, false
}

// dataSources walks the data dependencies of v (through phis, operators, call
// arguments and local cells) and reports the calls and field loads it meets.
func dataSources(v ssa.Value) (calls []*ssa.Call, loads []*types.Var, params []*ssa.Parameter, other []ssa.Value) {
	seen := map[ssa.Value]bool{}
	var walk func(x ssa.Value)
	walk = func(x ssa.Value) {
		if x == nil || seen[x] {
			return
		}
		seen[x] = true
		switch y := x.(type) {
		case *ssa.Const, *ssa.Function, *ssa.Builtin:
		case *ssa.Parameter:
			params = append(params, y)
		case *ssa.Phi:
			for _, e := range y.Edges {
				walk(e)
			}
		case *ssa.BinOp:
			walk(y.X)
			walk(y.Y)
		case *ssa.UnOp:
			switch a := y.X.(type) {
			case *ssa.FieldAddr:
				loads = append(loads, fieldOfAddr(a))
				walk(a.X)
			case *ssa.Alloc:
				for _, st := range storesTo(a) {
					walk(st.Val)
				}
			case *ssa.IndexAddr:
				walk(a.X)
			case *ssa.Global:
				other = append(other, a)
			default:
				walk(y.X)
			}
		case *ssa.Call:
			calls = append(calls, y)
			if y.Call.IsInvoke() {
				walk(y.Call.Value)
			}
			for _, a := range y.Call.Args {
				walk(a)
			}
		case *ssa.Extract:
			walk(y.Tuple)
		case *ssa.Convert:
			walk(y.X)
		case *ssa.ChangeType:
			walk(y.X)
		case *ssa.MakeInterface:
			walk(y.X)
		case *ssa.TypeAssert:
			walk(y.X)
		case *ssa.Field:
			loads = append(loads, fieldOfVal(y))
			walk(y.X)
		case *ssa.Slice:
			walk(y.X)
		case *ssa.Lookup:
			walk(y.X)
			walk(y.Index)
		case *ssa.Alloc:
		case *ssa.FieldAddr:
			walk(y.X)
		default:
			other = append(other, x)
		}
	}
	walk(v)
	return
}

func c46(c *Ctx) {
	c.Ob("fraction-threshold", "R7", "fractionMatcher.match: draw from RandInt64n(1000000) compared as draw < fraction (a fraction of 0 never matches, f matches exactly f draws); thorough: no zero-based uniform draw in the module is compared inclusively (<=) with a non-constant threshold", 1, func() {
		f := c.fn(xdsrsrc, "fractionMatcher.match")
		fFr := c.field(xdsrsrc, "fractionMatcher", "fraction")
		for _, r := range returnsOf(f) {
			b, ok := r.Results[0].(*ssa.BinOp)
			if !c.Expect(ok && isCmp(b.Op), r, f, "result-is-a-comparison", "fractionMatcher.match does not return a comparison") {
				continue
			}
			op, x, y := b.Op, b.X, b.Y
			if FieldLoad(fFr)(x) {
				op, x, y = swapOp(op), y, x
			}
			bound, isDraw := uniformDraw(c, x)
			if !c.Expect(isDraw && FieldLoad(fFr)(y), r, f, "compares-draw-with-fraction", "the comparison is not between a uniform draw and the configured fraction") {
				continue
			}
			c.Expect(ConstInt(1000000)(bound), r, f, "draw-out-of-a-million", "the draw is not out of 1,000,000")
			c.Expect(op == token.LSS, r, f, "strict-less-than:found"+op.String(), "the draw in [0,1000000) is compared with '"+op.String()+"' instead of '<': fraction f matches f+1 draws (0 matches draw 0)")
		}
		for _, st := range storesToField(c.fn(xdsrsrc, "newFractionMatcher"), fFr) {
			c.ValueIs(st, stripConv(st.Val), "fraction-is-the-configured-per-million", ParamV("fraction"))
		}
		if !c.thorough() {
			return
		}
		// sibling sweep
		for _, g := range c.P.AllFuncs() {
			for _, b := range g.Blocks {
				for _, in := range b.Instrs {
					bo, ok := in.(*ssa.BinOp)
					if !ok || !isCmp(bo.Op) {
						continue
					}
					op, x, y := bo.Op, bo.X, bo.Y
					if _, d := uniformDraw(c, stripConv(y)); d {
						op, x, y = swapOp(op), y, x
					}
					if _, d := uniformDraw(c, stripConv(x)); !d {
						continue
					}
					c.inst("threshold test on a uniform draw <- " + c.siteStr(in))
					if constOf(y) != nil {
						continue
					}
					if shortName(g) == xdsrsrc+".fractionMatcher.match" {
						continue // reported above
					}
					// draw <= T  or  draw > T  (its negation) are inclusive tests
					c.Expect(op != token.LEQ && op != token.GTR, in, g, "sibling:no-inclusive-threshold", "a zero-based uniform draw is compared inclusively with a configured threshold")
				}
			}
		}
	})
	c.Ob("domain-precedence", "R7", "kinds ordered wildcard<prefix<suffix<exact with strict betterThan; the scan keeps the old choice iff better kind, or same kind and at least as long, or no match; updates host, kind and length together; invalid domain -> nil; per-kind predicates", 14, func() {
		val := func(n string) int64 {
			k := c.konst(xdsrsrc, n).(*types.Const)
			v, _ := constant.Int64Val(k.Val())
			return v
		}
		c.Expect(val("domainMatchTypeInvalid") < val("domainMatchTypeUniversal") && val("domainMatchTypeUniversal") < val("domainMatchTypePrefix") && val("domainMatchTypePrefix") < val("domainMatchTypeSuffix") && val("domainMatchTypeSuffix") < val("domainMatchTypeExact"), nil, nil, "kind-order", "domain match kinds are not ordered invalid < wildcard < prefix < suffix < exact")
		bt := c.fn(xdsrsrc, "domainMatchType.betterThan")
		for _, r := range returnsOf(bt) {
			c.ValueIs(r, r.Results[0], "better-is-strictly-greater", BinOpV(token.GTR, ParamV("t"), ParamV("b")))
		}
		f := c.fn(xdsrsrc, "FindBestMatchingVirtualHost")
		mc := one(c, "match call", callsIn(f, Callee(xdsrsrc, "match")))
		typ := ExtractOf(func(v ssa.Value) bool { return v == mc.Value() }, 0)
		matched := ExtractOf(func(v ssa.Value) bool { return v == mc.Value() }, 1)
		dom := mc.Common().Args[0]
		c.ArgIs(mc, 1, "matches-against-the-authority", ParamV("host"))
		c.Expect(RangeValueOf(FieldLoad(c.field(xdsrsrc, "VirtualHost", "Domains")))(dom), mc, f, "walks-every-domain", "the scan does not walk the virtual host's domains")
		// the three loop-carried values and their update edge
		var upd *ssa.BasicBlock
		var vhPhi, typPhi, lenPhi *ssa.Phi
		for _, b := range f.Blocks {
			for _, in := range b.Instrs {
				ph, ok := in.(*ssa.Phi)
				if !ok {
					continue
				}
				for i, e := range ph.Edges {
					switch {
					case RangeValueOf(ParamV("vHosts"))(e):
						vhPhi, upd = ph, ph.Block().Preds[i]
					case typ(e):
						typPhi = ph
						c.Expect(upd == nil || upd == ph.Block().Preds[i], ph, f, "kind-updated-with-host", "the match kind is updated on a different arm than the host")
					case LenOf(func(v ssa.Value) bool { return v == dom })(e):
						lenPhi = ph
						c.Expect(upd == nil || upd == ph.Block().Preds[i], ph, f, "length-updated-with-host", "the match length is updated on a different arm than the host")
					}
				}
			}
		}
		if !c.Expect(upd != nil && vhPhi != nil && typPhi != nil && lenPhi != nil, nil, f, "update-arm", "the arm that takes a new best virtual host was not found (host, kind and length must be updated together)") {
			return
		}
		site := upd.Instrs[0]
		isCurT := func(v ssa.Value) bool { return v == ssa.Value(typPhi) }
		isCurL := func(v ssa.Value) bool { return v == ssa.Value(lenPhi) }
		better := func(v ssa.Value) bool {
			call, ok := v.(*ssa.Call)
			return ok && Callee(xdsrsrc, "domainMatchType.betterThan")(&call.Call) && isCurT(call.Call.Args[0]) && typ(call.Call.Args[1])
		}
		c.Unreachable(site, "keeps-a-better-kind", Truth(better, true))
		c.Unreachable(site, "keeps-same-kind-at-least-as-long", Cmp(isCurT, token.EQL, typ), Cmp(isCurL, token.GEQ, LenOf(func(v ssa.Value) bool { return v == dom })))
		c.Unreachable(site, "ignores-non-matching-domain", Truth(matched, false))
		// every domain of every virtual host is examined: taking a new best does not end the walk
		var innerAdv, outerAdv ssa.Instruction
		for _, b := range f.Blocks {
			for _, in := range b.Instrs {
				ia, ok := in.(*ssa.IndexAddr)
				if !ok {
					continue
				}
				bo, isB := ia.Index.(*ssa.BinOp)
				if !isB {
					continue
				}
				if ParamV("vHosts")(ia.X) {
					outerAdv = bo
				} else if FieldLoad(c.field(xdsrsrc, "VirtualHost", "Domains"))(ia.X) {
					innerAdv = bo
				}
			}
		}
		if c.Expect(innerAdv != nil && outerAdv != nil, site, f, "two-walks", "the walks over virtual hosts and their domains were not found") {
			c.MustPass("walk-continues-after-taking-a-new-best", pathQuery{Fn: f, StartBlocks: []*ssa.BasicBlock{upd}, Barrier: func(in ssa.Instruction) bool { return in == innerAdv }, Target: func(in ssa.Instruction) bool {
				return in == outerAdv || isReturn(in)
			}}, nil)
		}
		c.Expect(c.NoEarlyExit(f, ParamV("vHosts"), "every-virtual-host-visited")+c.NoEarlyExit(f, FieldLoad(c.field(xdsrsrc, "VirtualHost", "Domains")), "every-domain-visited") == 2, site, f, "both-walks-complete", "the virtual-host / domain walks were not both found")
		// a domain is passed over only for one of the three documented reasons
		if innerAdv != nil {
			c.MustPass("domain-skipped-only-if-worse-or-not-matching", pathQuery{Fn: f, Starts: []ssa.Instruction{mc}, Barrier: func(in ssa.Instruction) bool { return in == site }, Target: func(in ssa.Instruction) bool { return in == innerAdv },
				EdgeBlock: func(from, to *ssa.BasicBlock) bool {
					fs := edgeFacts(from, to)
					_, a := hasFact(fs, Truth(better, true))
					_, b1 := hasFact(fs, Cmp(isCurT, token.EQL, typ))
					_, b2 := hasFact(fs, Cmp(isCurL, token.GEQ, LenOf(func(v ssa.Value) bool { return v == dom })))
					_, d := hasFact(fs, Truth(matched, false))
					return a || (b1 && b2) || d
				}}, mc)
		}
		// conversely: a matching domain of a strictly better kind, or same kind and longer, is taken
		c.MustFact(site, "taken-only-if-matched", Truth(matched, true))
		for _, r := range returnsOf(f) {
			if ConstNil(r.Results[0]) {
				c.MustFact(r, "nil-only-on-invalid-domain", Cmp(typ, token.EQL, ConstOfObj(c.konst(xdsrsrc, "domainMatchTypeInvalid"))))
			} else {
				c.Expect(r.Results[0] == ssa.Value(vhPhi) || phiReaches(r.Results[0], vhPhi), r, f, "returns-the-best-host", "the scan does not return the tracked best host")
				c.Unreachable(r, "invalid-domain-aborts", Cmp(typ, token.EQL, ConstOfObj(c.konst(xdsrsrc, "domainMatchTypeInvalid"))))
			}
		}
		// per-kind predicates
		m := c.fn(xdsrsrc, "match")
		kindOf := CallRes(Callee(xdsrsrc, "matchTypeForDomain"), 0)
		trim := func(fn string) VM {
			return callArgs(CalleeX("strings", fn), ParamV("domain"), ConstStr("*"))
		}
		preds := map[string]VM{
			"domainMatchTypeInvalid":   ConstBool(false),
			"domainMatchTypeUniversal": ConstBool(true),
			"domainMatchTypePrefix":    callArgs(CalleeX("strings", "HasPrefix"), ParamV("host"), trim("TrimSuffix")),
			"domainMatchTypeSuffix":    callArgs(CalleeX("strings", "HasSuffix"), ParamV("host"), trim("TrimPrefix")),
			"domainMatchTypeExact":     BinOpV(token.EQL, ParamV("domain"), ParamV("host")),
		}
		seen := map[string]bool{}
		for _, r := range returnsOf(m) {
			for n, p := range preds {
				if c.HasFact(r, Cmp(kindOf, token.EQL, ConstOfObj(c.konst(xdsrsrc, n)))) {
					seen[n] = true
					c.ValueIs(r, r.Results[1], n+":predicate", p)
					c.ValueIs(r, r.Results[0], n+":reports-its-kind", OrV(kindOf, ConstOfObj(c.konst(xdsrsrc, n))))
				}
			}
		}
		c.Expect(len(seen) == 5, nil, m, "five-kinds", "expected an arm for each of the five domain kinds")
		mt := c.fn(xdsrsrc, "matchTypeForDomain")
		for _, r := range returnsOf(mt) {
			switch {
			case ConstOfObj(c.konst(xdsrsrc, "domainMatchTypeExact"))(r.Results[0]):
				c.Unreachable(r, "exact-has-no-wildcard", Truth(callArgs(CalleeX("strings", "Contains"), ParamV("d"), ConstStr("*")), true))
			case ConstOfObj(c.konst(xdsrsrc, "domainMatchTypeSuffix"))(r.Results[0]):
				c.MustFact(r, "suffix-kind-starts-with-wildcard", Truth(callArgs(CalleeX("strings", "HasPrefix"), ParamV("d"), ConstStr("*")), true))
			case ConstOfObj(c.konst(xdsrsrc, "domainMatchTypePrefix"))(r.Results[0]):
				c.MustFact(r, "prefix-kind-ends-with-wildcard", Truth(callArgs(CalleeX("strings", "HasSuffix"), ParamV("d"), ConstStr("*")), true))
			case ConstOfObj(c.konst(xdsrsrc, "domainMatchTypeUniversal"))(r.Results[0]):
				c.MustFact(r, "wildcard-kind-is-star", Cmp(ParamV("d"), token.EQL, ConstStr("*")))
			}
		}
	})
	c.Ob("first-route", "R2", "CompositeMatcher.Match is true only if path, every header matcher and the fraction matcher matched; SelectConfig stops at the first matching route and uses it", 6, func() {
		f := c.fn(xdsrsrc, "CompositeMatcher.Match")
		pm := CallRes(Callee(xdsrsrc, "pathMatcher.match"), 0)
		hm := CallRes(Callee(xmatch, "HeaderMatcher.Match"), 0)
		fm := CallRes(Callee(xdsrsrc, "fractionMatcher.match"), 0)
		for _, r := range returnsOf(f) {
			if ConstBool(true)(r.Results[0]) {
				c.Unreachable(r, "path-must-match", Truth(pm, false))
				c.Unreachable(r, "every-header-must-match", Truth(hm, false))
				c.Unreachable(r, "fraction-must-match", Truth(fm, false))
			} else if c.Expect(ConstBool(false)(r.Results[0]), r, f, "constant-results", "non-constant result") {
				// a route is refused only because one of its matchers did not match
				c.MustFactAny(r, "refused-only-by-a-failing-matcher", Truth(pm, false), Truth(hm, false), Truth(fm, false))
			}
		}
		for _, pr := range []struct {
			call CM
			fld  string
			l    string
		}{{Callee(xdsrsrc, "pathMatcher.match"), "pm", "path"}, {Callee(xdsrsrc, "fractionMatcher.match"), "fm", "fraction"}} {
			ci := one(c, pr.l+" matcher consulted", callsIn(f, pr.call))
			// consulted on every path where it is configured
			fv := c.field(xdsrsrc, "CompositeMatcher", pr.fld)
			c.MustPass(pr.l+"-matcher-consulted-when-configured", pathQuery{Fn: f, StartBlocks: edgeTargetsWhere(f, NotNil(FieldLoad(fv))), Barrier: func(in ssa.Instruction) bool { return in == ssa.Instruction(ci) }, Target: func(in ssa.Instruction) bool {
				r, ok := in.(*ssa.Return)
				return ok && ConstBool(true)(r.Results[0])
			}}, nil)
		}
		h := one(c, "header matcher consulted", callsIn(f, Callee(xmatch, "HeaderMatcher.Match")))
		c.Expect(RangeValueOf(FieldLoad(c.field(xdsrsrc, "CompositeMatcher", "hms")))(h.Common().Value), h, f, "every-header-matcher-walked", "the header matchers are not all walked")
		c.ArgIs(h, 0, "headers-matched-against-request-metadata", ParamV("md"))
		sc := c.fn(xres, "configSelector.SelectConfig")
		mc := one(c, "route matcher call", callsIn(sc, Callee(xdsrsrc, "CompositeMatcher.Match")))
		hit := Truth(func(v ssa.Value) bool { return v == mc.Value() }, true)
		st := edgeTargetsWhere(sc, hit)
		if c.Expect(len(st) == 1, nil, sc, "hit-arm", "hit arm not found") {
			c.MustPass("scan-stops-at-first-matching-route", pathQuery{Fn: sc, StartBlocks: st, Target: func(in ssa.Instruction) bool { return in == ssa.Instruction(mc) }}, nil)
		}
		c.Expect(RangeValueOf(FieldLoad(c.field(xres, "configSelector", "routes")))(fieldBase(mc.Common().Args[0])) || DataDep(RangeValueOf(FieldLoad(c.field(xres, "configSelector", "routes"))))(mc.Common().Args[0]), mc, sc, "routes-walked-in-order", "the routes are not walked in configuration order")
		nx := one(c, "wrr Next", callsIn(sc, Callee("internal/wrr", "WRR.Next")))
		c.Expect(FieldLoad(c.field(xres, "route", "clusters"))(nx.Common().Value), nx, sc, "cluster-from-the-route's-wrr", "the cluster is not drawn from the matched route's weighted clusters")
		c.MustFact(nx, "cluster-drawn-only-from-a-matched-route-with-clusters", NotNil(FieldLoad(c.field(xres, "route", "clusters"))))
		c.MustFact(nx, "cluster-drawn-only-with-a-matched-route", NotNil(func(v ssa.Value) bool {
			p, ok := v.(*ssa.Phi)
			return ok && typeName(p.Type()) == "route"
		}))
		c.MustFact(nx, "cluster-drawn-only-for-a-route-action", Cmp(FieldLoad(c.field(xres, "route", "actionType")), token.EQL, ConstOfObj(c.konst(xdsrsrc, "RouteActionRoute"))))
		// the route's WRR is filled with every weighted cluster at its configured weight
		bld := c.fn(xres, "xdsResolver.newConfigSelector")
		nW, nP := 0, 0
		for _, ad := range callsIn(bld, Callee("internal/wrr", "WRR.Add")) {
			w := ad.Common().Args[1]
			switch {
			case FieldLoad(c.field(xdsrsrc, "WeightedCluster", "Weight"))(stripConv(w)):
				nW++
			case ConstInt(1)(w):
				nP++
			default:
				c.Expect(false, ad, bld, "wrr-weight-source", "a cluster is added to the route's WRR with a weight that is neither the configured cluster weight nor the plugin's 1")
			}
		}
		c.Expect(nW == 1 && nP == 1, nil, bld, "clusters-added-to-the-route-wrr", "expected the weighted clusters (at their weight) and the plugin cluster (weight 1) to be added to the route's WRR")
		for _, st := range storesToField(bld, c.field(xres, "route", "clusters")) {
			c.ValueIs(st, st.Val, "route-uses-the-filled-wrr", func(v ssa.Value) bool {
				for _, ad := range callsIn(bld, Callee("internal/wrr", "WRR.Add")) {
					if ad.Common().Value != v {
						return false
					}
				}
				return true
			})
		}
		spc := one(c, "SetPickedCluster", callsIn(sc, Callee("internal/xds/balancer/clustermanager", "SetPickedCluster")))
		c.MustFact(spc, "picked-cluster-only-from-a-successful-draw", Truth(func(v ssa.Value) bool {
			e, ok := v.(*ssa.Extract)
			if !ok || e.Index != 1 {
				return false
			}
			ta, ok := e.Tuple.(*ssa.TypeAssert)
			return ok && ta.X == nx.Value()
		}, true))
		c.ArgIs(spc, 1, "picked-cluster-is-the-drawn-one", DataDep(func(v ssa.Value) bool { return v == nx.Value() }))
	})
	c.Ob("hash-inputs", "R8", "generateHash: the returned hash depends only on hash-policy fields, header values looked up by the policy's header name, and the channel id; random only when no policy generated a hash; -bin header policies skipped; terminal stops only with a hash", 8, func() {
		f := c.fn(xres, "configSelector.generateHash")
		allowedCalls := func(cc *ssa.CallCommon) bool {
			if b, ok := cc.Value.(*ssa.Builtin); ok {
				return b.Name() == "len"
			}
			switch calleeName(cc) {
			case "metadata.FromOutgoingContext", "internal/grpcutil.ExtraMetadata", "metadata.MD.Get", "strings.Join", "regexp.Regexp.ReplaceAllString",
				"github.com/cespare/xxhash/v2.Sum64String", "math/bits.RotateLeft64":
				return true
			}
			return false
		}
		allowedFields := map[string]bool{"HashPolicyType": true, "HeaderName": true, "Regex": true, "RegexSubstitution": true, "Terminal": true, "channelID": true, "Context": true}
		nHash := 0
		var flag *ssa.Phi
		var hashRet *ssa.Return
		for _, r := range returnsOf(f) {
			v := r.Results[0]
			if call, ok := v.(*ssa.Call); ok && CalleeX("math/rand/v2", "Uint64")(&call.Call) {
				for _, fc := range FactsAt(r) {
					if fc.Kind == "truth" && !fc.Pol && FlagTrue()(fc.X) {
						flag, _ = fc.X.(*ssa.Phi)
					}
				}
				c.Expect(flag != nil, r, f, "random-only-without-generated-hash", "a random hash is returned on an arm not guarded by 'no policy generated a hash'")
				continue
			}
			nHash++
			hashRet = r
			calls, loads, params, other := dataSources(v)
			for _, cl := range calls {
				c.inst("hash source call " + calleeName(&cl.Call))
				c.Expect(allowedCalls(&cl.Call), cl, f, "hash-source-call-allowed", "the request hash depends on "+calleeName(&cl.Call)+", which is not a configured hash-policy input")
			}
			for _, l := range loads {
				c.Expect(allowedFields[l.Name()], r, f, "hash-source-field-allowed:"+l.Name(), "the request hash depends on field "+l.Name()+", which is not a configured hash-policy input")
			}
			for _, p := range params {
				c.Expect(paramName(p) == "hashPolicies" || paramName(p) == "rpcInfo" || paramName(p) == "cs", r, f, "hash-source-param:"+paramName(p), "unexpected parameter feeding the hash")
			}
			c.Expect(len(other) == 0, r, f, "hash-source-kinds", "the hash depends on a value of a kind this check does not classify")
		}
		c.Expect(nHash == 1, nil, f, "one-hash-return", "expected one return of the computed hash")
		if hashRet != nil {
			c.Expect(DataDep(CallRes(CalleeX("github.com/cespare/xxhash/v2", "Sum64String"), 0))(hashRet.Results[0]), hashRet, f, "header-hash-reaches-the-result", "the header hash does not flow into the returned hash")
			c.Expect(DataDep(FieldLoad(c.field(xres, "configSelector", "channelID")))(hashRet.Results[0]), hashRet, f, "channel-id-reaches-the-result", "the channel id does not flow into the returned hash")
			c.Expect(DataDep(CallRes(CalleeX("math/bits", "RotateLeft64"), 0))(hashRet.Results[0]), hashRet, f, "policies-are-combined", "successive policy hashes are not combined (rotate-xor)")
		}
		// a policy that produces nothing (-bin header, header absent) moves on to the next policy
		var padv ssa.Instruction
		for _, b := range f.Blocks {
			for _, in := range b.Instrs {
				if ia, ok := in.(*ssa.IndexAddr); ok && ParamV("hashPolicies")(ia.X) {
					if bo, ok := ia.Index.(*ssa.BinOp); ok {
						padv = bo
					}
				}
			}
		}
		if c.Expect(padv != nil, nil, f, "policy-walk", "walk over the hash policies not found") {
			for _, arm := range []struct {
				l  string
				fm FM
			}{{"bin-header", Truth(callArgs(CalleeX("strings", "HasSuffix"), AnyV, ConstStr("-bin")), true)}} {
				st := edgeTargetsWhere(f, arm.fm)
				if c.Expect(len(st) == 1, nil, f, arm.l+"-arm", "arm not found") {
					c.MustPass(arm.l+"-policy-is-skipped-not-fatal", pathQuery{Fn: f, StartBlocks: st, Barrier: func(in ssa.Instruction) bool { return in == padv }, Target: isReturn}, nil)
				}
			}
		}
		if flag != nil && hashRet != nil {
			c.MustFact(hashRet, "computed-hash-only-when-generated", Truth(func(v ssa.Value) bool { return v == ssa.Value(flag) }, true))
			// every producer of a policy hash sets the flag
			trueFrom := map[*ssa.BasicBlock]bool{}
			seen := map[*ssa.Phi]bool{}
			var walk func(q *ssa.Phi)
			walk = func(q *ssa.Phi) {
				if seen[q] {
					return
				}
				seen[q] = true
				for i, e := range q.Edges {
					if ConstBool(true)(e) {
						trueFrom[q.Block().Preds[i]] = true
					}
					if x, ok := e.(*ssa.Phi); ok {
						walk(x)
					}
				}
			}
			walk(flag)
			var producers []ssa.Instruction
			for _, ci := range callsIn(f, CalleeX("github.com/cespare/xxhash/v2", "Sum64String")) {
				producers = append(producers, ci)
			}
			for _, b := range f.Blocks {
				for _, in := range b.Instrs {
					if u, ok := in.(*ssa.UnOp); ok && FieldLoad(c.field(xres, "configSelector", "channelID"))(u) {
						producers = append(producers, in)
					}
				}
			}
			for _, p := range producers {
				c.Expect(leadsInto(trueFrom, p.Block()), p, f, "producer-sets-generated-flag", "a policy hash is produced on an arm that does not mark the hash as generated (a random hash would be used)")
			}
			c.Expect(len(producers) == 2, nil, f, "two-producers", "expected the header and channel-id producers")
		}
		// per-policy flag: a policy's hash is mixed in exactly when that policy produced one
		rot := one(c, "RotateLeft64", callsIn(f, CalleeX("math/bits", "RotateLeft64")))
		var pflag *ssa.Phi
		for _, fc := range FactsAt(rot) {
			if fc.Kind == "truth" && fc.Pol {
				if p, ok := fc.X.(*ssa.Phi); ok && FlagTrue()(p) && p != flag {
					pflag = p
				}
			}
		}
		if c.Expect(pflag != nil, rot, f, "mixed-in-only-when-this-policy-produced-a-hash", "the combination step is not guarded by a per-policy 'produced a hash' flag") {
			ptrue := map[*ssa.BasicBlock]bool{}
			seenP := map[*ssa.Phi]bool{}
			var walkP func(q *ssa.Phi)
			walkP = func(q *ssa.Phi) {
				if seenP[q] {
					return
				}
				seenP[q] = true
				for i, e := range q.Edges {
					if ConstBool(true)(e) {
						ptrue[q.Block().Preds[i]] = true
					}
					if x, ok := e.(*ssa.Phi); ok {
						walkP(x)
					}
				}
			}
			walkP(pflag)
			for _, ci := range callsIn(f, CalleeX("github.com/cespare/xxhash/v2", "Sum64String")) {
				c.Expect(leadsInto(ptrue, ci.Block()), ci, f, "header-hash-marks-the-policy-as-producing", "the header hash is computed but never mixed into the result")
			}
			for _, b := range f.Blocks {
				for _, in := range b.Instrs {
					if u, ok := in.(*ssa.UnOp); ok && FieldLoad(c.field(xres, "configSelector", "channelID"))(u) {
						c.Expect(leadsInto(ptrue, b), in, f, "channel-id-marks-the-policy-as-producing", "the channel id is read but never mixed into the result")
					}
				}
			}
		}
		// terminal: the policy walk stops early only at a terminal policy once some hash exists
		for _, b := range f.Blocks {
			isHdr := false
			for _, in := range b.Instrs {
				if bo, ok := in.(*ssa.BinOp); ok && bo.Op == token.LSS && isRangeIndex(bo.X) {
					if l := builtinCall(bo.Y, "len"); l != nil && ParamV("hashPolicies")(l.Call.Args[0]) {
						isHdr = true
					}
				}
			}
			if !isHdr {
				continue
			}
			bp := breakPreds(b)
			c.Expect(len(breakArms(b)) == 1, b.Instrs[0], f, "one-terminal-stop", "expected exactly one early exit from the policy walk")
			for _, p := range bp {
				for _, fs := range incomingFacts(p, b.Succs[1]) {
					_, t := hasFact(fs, Truth(FieldLoad(c.field(xdsrsrc, "HashPolicy", "Terminal")), true))
					_, g := hasFact(fs, Truth(func(v ssa.Value) bool { ph, ok := v.(*ssa.Phi); return ok && FlagTrue()(ph) }, true))
					c.Expect(t && g, p.Instrs[len(p.Instrs)-1], f, "walk-stops-only-at-a-terminal-policy-with-a-hash", "the policy walk is left on an edge that is not 'terminal policy and a hash was generated'")
				}
			}
		}
		// header lookups use the policy's header name
		fHN := c.field(xdsrsrc, "HashPolicy", "HeaderName")
		if gets := callsIn(f, Callee("metadata", "MD.Get")); len(gets) == 2 {
			first, second := gets[0], gets[1]
			if instrDominates(second, first) {
				first, second = second, first
			}
			c.MustFact(second, "outgoing-metadata-consulted-only-without-extra-metadata-value", CmpInt(LenOf(func(v ssa.Value) bool { return v == first.Value() }), token.EQL, 0))
		}
		// only a header that is present contributes: the joined values come from a lookup that returned something
		for _, j := range callsIn(f, CalleeX("strings", "Join")) {
			ph, ok := j.Common().Args[0].(*ssa.Phi)
			if !c.Expect(ok, j, f, "joined-values-from-the-lookups", "the hashed header values are not chosen between the two metadata lookups") {
				continue
			}
			for i, e := range ph.Edges {
				e := e
				pr := ph.Block().Preds[i]
				fs := append(append([]Fact(nil), FactsAtBlock(pr)...), edgeOnlyFacts(pr, ph.Block())...)
				_, ok := hasFact(fs, CmpInt(LenOf(func(v ssa.Value) bool { return v == e }), token.NEQ, 0))
				c.Expect(ok && CallRes(Callee("metadata", "MD.Get"), 0)(e), j, f, "absent-header-contributes-nothing", "an absent header (empty lookup) is hashed instead of being skipped")
			}
		}
		for _, rx := range callsIn(f, CalleeX("regexp", "Regexp.ReplaceAllString")) {
			c.MustFact(rx, "regex-applied-only-when-configured", NotNil(FieldLoad(c.field(xdsrsrc, "HashPolicy", "Regex"))))
		}
		for _, g := range callsIn(f, Callee("metadata", "MD.Get")) {
			c.ArgIs(g, 1, "lookup-by-policy-header-name", FieldLoad(fHN))
			c.Unreachable(g, "bin-headers-skipped", Truth(callArgs(CalleeX("strings", "HasSuffix"), FieldLoad(fHN), ConstStr("-bin")), true))
		}
		c.Expect(len(callsIn(f, Callee("metadata", "MD.Get"))) == 2, nil, f, "extra-metadata-then-metadata", "expected lookups in extra metadata and then outgoing metadata")
		sum := one(c, "Sum64String", callsIn(f, CalleeX("github.com/cespare/xxhash/v2", "Sum64String")))
		c.Unreachable(sum, "bin-header-never-hashed", Truth(callArgs(CalleeX("strings", "HasSuffix"), FieldLoad(fHN), ConstStr("-bin")), true))
		// channel id arm
		fT := c.field(xdsrsrc, "HashPolicy", "HashPolicyType")
		okCh := false
		for _, b := range blocksWhere(f, Cmp(FieldLoad(fT), token.EQL, ConstOfObj(c.konst(xdsrsrc, "HashPolicyTypeChannelID")))) {
			for _, in := range b.Instrs {
				if u, ok := in.(*ssa.UnOp); ok && FieldLoad(c.field(xres, "configSelector", "channelID"))(u) {
					okCh = true
				}
			}
		}
		c.Expect(okCh, nil, f, "channel-id-policy-uses-channel-id", "the channel-id policy does not use the channel id")
	})
}

// FlagTrue is a placeholder matcher for the generated-hash flag: any boolean
// phi/cell whose only non-false assignments are constant true.
func FlagTrue() VM {
	return func(v ssa.Value) bool {
		p, ok := v.(*ssa.Phi)
		if !ok {
			return false
		}
		if b, ok := p.Type().Underlying().(*types.Basic); !ok || b.Kind() != types.Bool {
			return false
		}
		sawTrue := false
		seen := map[*ssa.Phi]bool{}
		var walk func(q *ssa.Phi) bool
		walk = func(q *ssa.Phi) bool {
			if seen[q] {
				return true
			}
			seen[q] = true
			for _, e := range q.Edges {
				switch x := e.(type) {
				case *ssa.Const:
					if ConstBool(true)(x) {
						sawTrue = true
					}
				case *ssa.Phi:
					if !walk(x) {
						return false
					}
				default:
					return false
				}
			}
			return true
		}
		return walk(p) && sawTrue
	}
}

func phiReaches(v ssa.Value, target *ssa.Phi) bool {
	seen := map[ssa.Value]bool{}
	var walk func(x ssa.Value) bool
	walk = func(x ssa.Value) bool {
		if x == ssa.Value(target) {
			return true
		}
		if seen[x] {
			return false
		}
		seen[x] = true
		if p, ok := x.(*ssa.Phi); ok {
			for _, e := range p.Edges {
				if walk(e) {
					return true
				}
			}
		}
		return false
	}
	return walk(v)
}
