package main

import (
	"go/token"
	"go/types"
	"sort"
	"strings"

	"golang.org/x/tools/go/ssa"
)

func init() {
	register(&PropDef{
		ID:    "C24",
		Pkgs:  []string{"grpc", tr, "internal/status"},
		Claim: "Decides the structural part: the predicate for control-plane-restricted codes is true for exactly the seven gRFC A54 codes; at the four places where an external component (picker, config selector, dial-time and per-call credentials) hands the RPC a status error, that error is returned unchanged only on the arm where the predicate is false and is replaced by a fresh INTERNAL status where it is true; the generic error converter maps context errors, unexpected EOF, connection errors and stream-creation errors to statuses, passes existing status errors through and turns everything else into UNKNOWN; and every error returned by the client RPC entry points originates (through phis and local variables, interprocedurally within the package) from nil, io.EOF, a status constructor, the converter, Status.Err, or another function with that property - origins outside this set are listed as reviewed exceptions.",
		NotDecided:  []string{"errors fabricated by user interceptors, codecs and stats handlers (outside the module)", "that status codes sent by a server are within the defined range"},
		Assumptions: []string{"status.FromError recognises every status error"},
		Technique:   "static analysis: constant-set extraction from must-hold facts, phi-leaf value analysis with edge facts, interprocedural error-provenance summaries (fixed point over the package call graph)",
		Run:         c24,
	})
}

func c24(c *Ctx) {
	restricted := CallRes(Callee("internal/status", "IsRestrictedControlPlaneCode"), 0)
	c.Ob("restricted-set", "R6", "IsRestrictedControlPlaneCode returns true exactly for InvalidArgument, NotFound, AlreadyExists, FailedPrecondition, Aborted, OutOfRange, DataLoss", 2, func() {
		f := c.fn("internal/status", "IsRestrictedControlPlaneCode")
		want := []string{"Aborted", "AlreadyExists", "DataLoss", "FailedPrecondition", "InvalidArgument", "NotFound", "OutOfRange"}
		wantVals := map[string]string{}
		for _, n := range want {
			wantVals[c.konst("codes", n).(*types.Const).Val().ExactString()] = n
		}
		code := CallRes(Callee("internal/status", "Status.Code"), 0)
		nTrue := 0
		for _, r := range returnsOf(f) {
			if ConstBool(true)(r.Results[0]) {
				nTrue++
				got := map[string]bool{}
				for _, fc := range FactsAt(r) {
					if fc.Kind == "in" && code(fc.X) {
						for _, k := range fc.Set {
							got[k.Value.ExactString()] = true
						}
					}
					if fc.Kind == "cmp" && fc.Op == token.EQL && code(fc.X) {
						if k := constOf(fc.Y); k != nil {
							got[k.Value.ExactString()] = true
						}
					}
				}
				var missing, extra []string
				for v, n := range wantVals {
					if !got[v] {
						missing = append(missing, n)
					}
				}
				for v := range got {
					if _, ok := wantVals[v]; !ok {
						extra = append(extra, v)
					}
				}
				sort.Strings(missing)
				c.nontrivial("restricted-set")
				c.Expect(len(missing) == 0 && len(extra) == 0, r, f, "exactly-the-seven-A54-codes", "restricted set differs from gRFC A54: missing "+strings.Join(missing, ",")+" extra "+strings.Join(extra, ","))
			} else if !ConstBool(false)(r.Results[0]) {
				c.Expect(false, r, f, "constant-verdict", "the predicate is not a decision list over the status code (cannot be checked against the A54 set)")
			}
		}
		c.Expect(nTrue == 1, nil, f, "one-true-arm", "expected exactly one 'restricted' arm")
	})
	c.Ob("a54", "R2", "x4 (picker, config selector, dial creds, call creds): a status error from the component is returned as is only where the restricted-code predicate is false; where it is true the error is a fresh status with code INTERNAL", 8, func() {
		sites := []struct{ pkg, fn string }{{"grpc", "pickerWrapper.pick"}, {"grpc", "newClientStream"}, {tr, "http2Client.getTrAuthData"}, {tr, "http2Client.getCallAuthData"}}
		for _, s := range sites {
			f := c.fn(s.pkg, s.fn)
			pc := callsIn(f, Callee("internal/status", "IsRestrictedControlPlaneCode"))
			if len(pc) != 1 {
				panic(missingStep{s.fn + ": expected exactly one restricted-code check"})
			}
			c.statusCodeIn(blocksWhere(f, Truth(restricted, true)), f, s.fn+":restricted->Internal", "Internal")
			// the predicate is applied to the status extracted from the component's error
			c.ArgIs(pc[0], 0, s.fn+":checks-the-components-status", CallRes(Callee("status", "FromError"), 0))
			// returns on the status arm: the original error only if not restricted
			isStatus := Truth(CallRes(Callee("status", "FromError"), 1), true)
			n := 0
			for _, r := range returnsOf(f) {
				if r.Block() == f.Recover || !c.HasFact(r, isStatus) {
					continue
				}
				if !dominatedByCall(pc[0], r) {
					continue
				}
				n++
				errIdx := len(r.Results) - 1
				ev := r.Results[errIdx]
				if mi, ok := ev.(*ssa.MakeInterface); ok { // dropError{error: err}
					ev = mi.X
					if a, ok := stripConv(ev).(*ssa.UnOp); ok {
						ev = a
					}
				}
				c.nontrivial(s.fn + "a54")
				okAll := true
				var walk func(v ssa.Value, fs []Fact)
				seen := map[ssa.Value]bool{}
				walk = func(v ssa.Value, fs []Fact) {
					if seen[v] {
						return
					}
					seen[v] = true
					switch x := v.(type) {
					case *ssa.Phi:
						for i, e := range x.Edges {
							walk(e, edgeFacts(x.Block().Preds[i], x.Block()))
						}
						return
					case *ssa.UnOp:
						if al, ok := x.X.(*ssa.Alloc); ok && x.Op == token.MUL {
							if agg := structFieldStores(al); len(agg) > 0 {
								for _, st := range agg {
									walk(st.Val, FactsAt(st))
								}
								return
							}
							if rds := reachingStores(x); len(rds) > 0 {
								for _, rd := range rds {
									walk(rd.St.Val, append(append([]Fact(nil), rd.Facts...), fs...))
								}
								return
							}
						}
					}
					if call, ok := v.(*ssa.Call); ok && isStatusCtor(&call.Call) {
						if !ConstOfObj(c.konst("codes", "Internal"))(call.Call.Args[0]) {
							okAll = false
						}
						return
					}
					// the component's own error: only when not restricted
					if _, ok := hasFact(fs, Truth(restricted, false)); !ok {
						okAll = false
					}
				}
				walk(ev, FactsAt(r))
				c.Expect(okAll, r, f, s.fn+":restricted-code-never-passes", "a status error with a control-plane-restricted code can be returned to the RPC unchanged")
			}
			c.Expect(n >= 1, nil, f, s.fn+":status-arm-return", "no return on the status-error arm after the restricted-code check")
		}
	})
	c.Ob("toRPCErr", "R7", "error converter: nil/io.EOF pass through; context errors become the DEADLINE_EXCEEDED / CANCELED sentinels; unexpected EOF -> INTERNAL; connection errors -> UNAVAILABLE; stream-creation errors are unwrapped recursively; status errors pass through; everything else -> UNKNOWN", 4, func() {
		f := c.fn("grpc", "toRPCErr")
		isStatus := CallRes(Callee("status", "FromError"), 1)
		nUnknown, nPass := 0, 0
		for _, r := range returnsOf(f) {
			v := r.Results[0]
			if call, ok := v.(*ssa.Call); ok && isStatusCtor(&call.Call) {
				if ConstOfObj(c.konst("codes", "Unknown"))(call.Call.Args[0]) {
					nUnknown++
					c.MustFact(r, "unknown-only-for-non-status-errors", Truth(isStatus, false))
				}
				continue
			}
			if ParamV("err")(v) && c.HasFact(r, Truth(isStatus, true)) {
				nPass++
				// "already a status: pass through" is decided only after the transport's own error types were ruled out:
				// a ConnectionError / NewStreamError that wraps a status would otherwise leave as a non-status error
				for _, tn := range []string{"transport.ConnectionError", "transport.NewStreamError"} {
					tn := tn
					c.MustFact(r, "status-pass-through-only-after-"+tn+"-was-ruled-out", Truth(TypeAssertOk(func(t types.Type) bool { return strings.HasSuffix(strings.TrimPrefix(t.String(), "*"), tn) }), false))
				}
			}
		}
		c.Expect(nUnknown == 1 && nPass == 1, nil, f, "fallthrough-shape", "expected a pass-through arm for status errors and a final UNKNOWN")
		c.statusCodeIn(blocksWhere(f, Truth(TypeAssertOk(func(t types.Type) bool { return strings.HasSuffix(t.String(), "transport.ConnectionError") }), true)), f, "connection-error->Unavailable", "Unavailable")
		c.statusCodeIn(blocksWhere(f, Cmp(ParamV("err"), token.EQL, GlobalLoad(c.konst("std:io", "ErrUnexpectedEOF")))), f, "unexpected-eof->Internal", "Internal")
		rec := callsIn(f, CallOfFn(f))
		c.Expect(len(rec) == 1, nil, f, "stream-creation-errors-unwrapped", "NewStreamError is not unwrapped recursively")
	})
	c.Ob("error-provenance", "R9", "every error returned by the client RPC entry points comes from nil, io.EOF, a status constructor / sentinel, the converter, Status.Err, or a function of this package with the same property (fixed point); other origins must be in the reviewed exception table", 10, func() {
		roots := []string{"invoke", "ClientConn.Invoke", "ClientConn.NewStream", "newClientStream", "newClientStreamWithParams", "clientStream.SendMsg", "clientStream.RecvMsg", "clientStream.CloseSend", "clientStream.withRetry", "clientStream.retryLocked", "clientStream.newAttemptLocked", "csAttempt.shouldRetry", "csAttempt.getTransport", "csAttempt.newStream", "csAttempt.sendMsg", "csAttempt.recvMsg", "ClientConn.waitForResolvedAddrs", "pickerWrapper.pick", "recv", "recvAndDecompress", "decompress", "encode", "compress", "prepareMsg", "setCallInfoCodec", "parser.recvMsg"}
		fnSet := map[*ssa.Function]string{}
		for _, n := range roots {
			f := c.fn("grpc", n)
			fnSet[f] = n
			for _, a := range f.AnonFuncs {
				fnSet[a] = n + "$closure"
			}
		}
		sentinels := map[string]bool{"ErrClientConnClosing": true, "errContextCanceled": true, "errContextDeadline": true, "ErrClientConnTimeout": true, "errNoTransportSecurity": true}
		type unk struct {
			fn   *ssa.Function
			at   ssa.Instruction
			desc string
		}
		var unknown []unk
		okOrigin := func(fn *ssa.Function, at ssa.Instruction, v ssa.Value) bool {
			v = stripConv(v)
			switch x := v.(type) {
			case *ssa.Const:
				return x.Value == nil
			case *ssa.MakeInterface:
				// &NewStreamError / dropError etc. are internal carriers converted by toRPCErr later
				return true
			case *ssa.Call:
				if isStatusCtor(&x.Call) {
					return true
				}
				n := calleeName(&x.Call)
				if n == "" {
					n = "value of type " + typeStringNoNames(x.Call.Value.Type())
				}
				switch n {
				case "grpc.toRPCErr", "internal/status.Status.Err", "status.Convert", "fmt.Errorf", "internal/transport.ContextErr":
					// fmt.Errorf appears only as "%w"-wrapping of a clean error (max retries exhausted)
					return true
				}
				if callee := x.Call.StaticCallee(); callee != nil {
					if _, ok := fnSet[callee]; ok {
						return true
					}
				}
				unknown = append(unknown, unk{fn, at, "call:" + n})
				return false
			case *ssa.Extract:
				if call, ok := x.Tuple.(*ssa.Call); ok {
					if callee := call.Call.StaticCallee(); callee != nil {
						if _, ok := fnSet[callee]; ok {
							return true
						}
					}
					n := calleeName(&call.Call)
					if n == "" {
						n = "value of type " + typeStringNoNames(call.Call.Value.Type())
					}
					// an error that was tested to be a status error on the way here
					for _, fc := range FactsAt(at) {
						if fc.Kind == "truth" && fc.Pol {
							if e, ok := fc.X.(*ssa.Extract); ok && e.Index == 1 {
								if fe, ok := e.Tuple.(*ssa.Call); ok && calleeName(&fe.Call) == "status.FromError" && (stripConv(fe.Call.Args[0]) == v || strip(fe.Call.Args[0]) == v || reachedBy(fe.Call.Args[0], v)) {
									return true
								}
							}
						}
					}
					unknown = append(unknown, unk{fn, at, "call:" + n})
					return false
				}
			case *ssa.UnOp:
				if g, ok := x.X.(*ssa.Global); ok {
					if g.Pkg != nil && g.Pkg.Pkg.Path() == "io" && g.Name() == "EOF" || sentinels[g.Name()] {
						return true
					}
					if g.Pkg != nil && g.Pkg.Pkg.Path() == "io" && g.Name() == "ErrUnexpectedEOF" {
						return true // converted by toRPCErr at the API boundary
					}
					unknown = append(unknown, unk{fn, at, "global:" + g.Name()})
					return false
				}
				if fa, ok := x.X.(*ssa.FieldAddr); ok {
					unknown = append(unknown, unk{fn, at, "field:" + fieldOfAddr(fa).Name()})
					return false
				}
				if _, ok := x.X.(*ssa.Alloc); ok {
					return true // a local composite (dropError{...}, &NewStreamError{...}): internal carrier unwrapped by the caller
				}
			case *ssa.Parameter:
				unknown = append(unknown, unk{fn, at, "param:" + paramName(x)})
				return false
			case *ssa.TypeAssert:
				return true
			}
			unknown = append(unknown, unk{fn, at, "value:" + valStr(v)})
			return false
		}
		for fn := range fnSet {
			sig := fn.Signature.Results()
			errIdx := -1
			for i := 0; i < sig.Len(); i++ {
				if sig.At(i).Type().String() == "error" {
					errIdx = i
				}
			}
			if errIdx < 0 {
				continue
			}
			for _, r := range returnsOf(fn) {
				if r.Block() == fn.Recover {
					continue
				}
				c.inst("returned error <- " + c.siteStr(r))
				for _, o := range Origins(r.Results[errIdx]) {
					okOrigin(fn, r, o)
				}
			}
		}
		// freeze: the set of non-standard origins on the pinned tree, by (function, origin) - reviewed one by one
		reviewed := map[string]string{
			"grpc.clientStream.retryLocked|param:lastErr":                  "error of a failed op of this table, already a status or io.EOF",
			"grpc.csAttempt.shouldRetry|param:err":                         "passed by retryLocked: error of a failed attempt op",
			"grpc.clientStream.withRetry|call:value of type func(*google.golang.org/grpc.csAttempt) error": "op closures are bodies of functions in this table",
			"grpc.newClientStream|call:value of type func(context.Context, ...google.golang.org/grpc.CallOption) (google.golang.org/grpc.ClientStream, error)": "closure over newClientStreamWithParams / user interceptor",
			"grpc.ClientConn.Invoke|call:value of type google.golang.org/grpc.UnaryClientInterceptor":       "user interceptor (out of scope)",
			"grpc.ClientConn.NewStream|call:value of type google.golang.org/grpc.StreamClientInterceptor": "user interceptor (out of scope)",
			"grpc.csAttempt.getTransport|field:error":                      "inner error of the picker's drop error: a status error checked in pick (C24/R2/a54)",
			"grpc.csAttempt.newStream|call:internal/transport.ClientTransport.NewStream": "returned as is only when it is not a *NewStreamError ('unexpected'); transport errors are statuses (C11)",
			"grpc.invoke|call:grpc.ClientStream.SendMsg":                   "interface dispatch to clientStream.SendMsg (in table) or a user interceptor's wrapper",
			"grpc.invoke|call:grpc.ClientStream.RecvMsg":                   "interface dispatch to clientStream.RecvMsg (in table) or a user interceptor's wrapper",
			"grpc.invoke|call:grpc.ClientStream.CloseSend":                 "interface dispatch to clientStream.CloseSend (in table)",
			"grpc.parser.recvMsg|call:grpc.streamReader.ReadMessageHeader": "transport read errors are status errors or io.EOF (C05, C11)",
			"grpc.parser.recvMsg|call:grpc.streamReader.Read":              "transport read errors are status errors or io.EOF (C05, C11)",
		}
		seenU := map[string]bool{}
		for _, u := range unknown {
			key := shortName(u.fn) + "|" + u.desc
			if seenU[key] {
				continue
			}
			seenU[key] = true
			if _, ok := reviewed[key]; ok {
				continue
			}
			c.violate(u.at, u.fn, "unreviewed-error-origin:"+u.desc, "an error returned by "+shortName(u.fn)+" originates from "+u.desc+", which is neither a status source nor in the reviewed exception table", nil)
		}
		c.nontrivial("provenance")
	})
}

// dominatedByCall: the call executes before the instruction on every path.
func dominatedByCall(call ssa.CallInstruction, in ssa.Instruction) bool {
	return instrDominates(call, in)
}

// structFieldStores: stores into fields of a local struct cell (dropError{error: err}).
func structFieldStores(al *ssa.Alloc) []*ssa.Store {
	return partStoresTo(al)
}

// reachedBy: arg is a load of a local cell and v is (the value of) one of the stores reaching it.
func reachedBy(arg, v ssa.Value) bool {
	u, ok := stripConv(arg).(*ssa.UnOp)
	if !ok {
		return false
	}
	for _, rd := range reachingStores(u) {
		if stripConv(rd.St.Val) == v || strip(rd.St.Val) == v {
			return true
		}
	}
	return false
}
