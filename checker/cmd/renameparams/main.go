// renameparams rewrites, in a scratch copy of grpc-go, every parameter,
// receiver and named result of every function of the given packages to
// <name>_r (type-resolved, all uses). It is a selftest aid: the checks must
// give the same verdicts on the renamed tree (see DESIGN §12.6).
// With LOCALS=1 every local variable and named result is renamed too.
// SWAPCMP=1 mirrors every comparison with side-effect-free operands (a < b -> b > a);
// SWAPIF=1 turns every if/else into if !(c) with the arms exchanged.
// REORDER=1 reverses the order of the function declarations of every file;
// DEFERS=1 puts `defer func() {}()` at the top of every declared function; LOGS=1 puts a guarded
// debug statement in front of every statement (both instead of the renaming).
// usage: renameparams <repo-dir> <pkg-pattern>...
package main

import (
	"fmt"
	"go/ast"
	"go/format"
	"go/token"
	"go/types"
	"os"
	"path/filepath"
	"sort"

	"golang.org/x/tools/go/packages"
)

// pure: no calls, receives or composite literals (operand order is then irrelevant,
// and gofmt never needs extra parentheses in an if header).
func pure(e ast.Expr) bool {
	ok := true
	ast.Inspect(e, func(nd ast.Node) bool {
		switch x := nd.(type) {
		case *ast.CallExpr:
			if id, isId := x.Fun.(*ast.Ident); !isId || (id.Name != "len" && id.Name != "cap") {
				ok = false
			}
		case *ast.UnaryExpr:
			if x.Op == token.ARROW {
				ok = false
			}
		case *ast.CompositeLit, *ast.FuncLit:
			ok = false
		}
		return ok
	})
	return ok
}

func main() {
	dir := os.Args[1]
	cfg := &packages.Config{Mode: packages.NeedName | packages.NeedFiles | packages.NeedCompiledGoFiles | packages.NeedSyntax | packages.NeedTypes | packages.NeedTypesInfo | packages.NeedImports, Dir: dir,
		Env: append(os.Environ(), "GOWORK=off", "GOFLAGS=-mod=mod", "GOPROXY=off", "GOSUMDB=off", "GOTOOLCHAIN=local")}
	pkgs, err := packages.Load(cfg, os.Args[2:]...)
	if err != nil || packages.PrintErrors(pkgs) > 0 {
		fmt.Println("load failed", err)
		os.Exit(2)
	}
	n := 0
	for _, p := range pkgs {
		ren := map[types.Object]bool{}
		mark := func(fl *ast.FieldList) {
			if fl == nil {
				return
			}
			for _, f := range fl.List {
				for _, id := range f.Names {
					if id.Name == "_" {
						continue
					}
					if o := p.TypesInfo.Defs[id]; o != nil {
						ren[o] = true
					}
				}
			}
		}
		for _, f := range p.Syntax {
			ast.Inspect(f, func(nd ast.Node) bool {
				switch x := nd.(type) {
				case *ast.FuncDecl:
					mark(x.Recv)
					mark(x.Type.Params)
				case *ast.FuncLit:
					mark(x.Type.Params)
				}
				return true
			})
		}
		if os.Getenv("LOCALS") != "" {
			for id, o := range p.TypesInfo.Defs {
				v, ok := o.(*types.Var)
				if !ok || v.IsField() || id.Name == "_" || v.Parent() == nil || v.Parent() == p.Types.Scope() {
					continue
				}
				ren[o] = true
			}
		}
		if os.Getenv("REORDER") != "" {
			// the function declarations of every file in reverse order (doc comments move with them)
			for i, f := range p.Syntax {
				type rng struct{ a, b int }
				var slots []rng
				for _, d := range f.Decls {
					if fd, ok := d.(*ast.FuncDecl); ok {
						a := fd.Pos()
						if fd.Doc != nil {
							a = fd.Doc.Pos()
						}
						slots = append(slots, rng{p.Fset.Position(a).Offset, p.Fset.Position(fd.End()).Offset})
					}
				}
				if len(slots) < 2 {
					continue
				}
				src, err := os.ReadFile(p.CompiledGoFiles[i])
				if err != nil {
					panic(err)
				}
				var out []byte
				last := 0
				for k, sl := range slots {
					out = append(out, src[last:sl.a]...)
					o := slots[len(slots)-1-k]
					out = append(out, src[o.a:o.b]...)
					last = sl.b
					n++
				}
				out = append(out, src[last:]...)
				if err := os.WriteFile(p.CompiledGoFiles[i], out, 0o644); err != nil {
					panic(err)
				}
			}
			continue
		}
		if os.Getenv("DEFERS") != "" {
			// an empty deferred call at the top of every declared function
			for i, f := range p.Syntax {
				var offs []int
				for _, d := range f.Decls {
					if fd, ok := d.(*ast.FuncDecl); ok && fd.Body != nil {
						offs = append(offs, p.Fset.Position(fd.Body.Lbrace).Offset+1)
					}
				}
				src, err := os.ReadFile(p.CompiledGoFiles[i])
				if err != nil {
					panic(err)
				}
				sort.Sort(sort.Reverse(sort.IntSlice(offs)))
				for _, o := range offs {
					src = append(src[:o:o], append([]byte("\ndefer func() {}()\n"), src[o:]...)...)
					n++
				}
				if err := os.WriteFile(p.CompiledGoFiles[i], src, 0o644); err != nil {
					panic(err)
				}
			}
			continue
		}
		if os.Getenv("LOGS") != "" {
			// a debug statement before every statement of every function body (text insertion at statement starts)
			for i, f := range p.Syntax {
				var offs []int
				note := func(l []ast.Stmt) {
					for _, st := range l {
						switch st.(type) {
						case *ast.CaseClause, *ast.CommClause:
							continue
						}
						offs = append(offs, p.Fset.Position(st.Pos()).Offset)
					}
				}
				ast.Inspect(f, func(nd ast.Node) bool {
					if x, ok := nd.(*ast.FuncDecl); ok {
						if x.Body != nil {
							ast.Inspect(x.Body, func(nd ast.Node) bool {
								switch y := nd.(type) {
								case *ast.BlockStmt:
									note(y.List)
								case *ast.CaseClause:
									note(y.Body)
								case *ast.CommClause:
									note(y.Body)
								}
								return true
							})
						}
						return false
					}
					return true
				})
				src, err := os.ReadFile(p.CompiledGoFiles[i])
				if err != nil {
					panic(err)
				}
				sort.Sort(sort.Reverse(sort.IntSlice(offs)))
				for _, o := range offs {
					src = append(src[:o:o], append([]byte("if grpcVerifDbg {\nprintln()\n}\n"), src[o:]...)...)
					n++
				}
				if err := os.WriteFile(p.CompiledGoFiles[i], src, 0o644); err != nil {
					panic(err)
				}
			}
			if len(p.CompiledGoFiles) > 0 {
				os.WriteFile(filepath.Join(filepath.Dir(p.CompiledGoFiles[0]), "zz_verifdbg.go"), []byte("package "+p.Name+"\n\nvar grpcVerifDbg bool\n"), 0o644)
			}
			continue
		}
		swapCmp, swapIf := os.Getenv("SWAPCMP") != "", os.Getenv("SWAPIF") != ""
		mirror := map[token.Token]token.Token{token.EQL: token.EQL, token.NEQ: token.NEQ, token.LSS: token.GTR, token.GTR: token.LSS, token.LEQ: token.GEQ, token.GEQ: token.LEQ}
		for i, f := range p.Syntax {
			changed := false
			if swapCmp || swapIf {
				ast.Inspect(f, func(nd ast.Node) bool {
					switch x := nd.(type) {
					case *ast.BinaryExpr:
						if m, ok := mirror[x.Op]; ok && swapCmp && pure(x.X) && pure(x.Y) {
							x.X, x.Y, x.Op = x.Y, x.X, m
							changed = true
							n++
						}
					case *ast.IfStmt:
						if eb, ok := x.Else.(*ast.BlockStmt); ok && swapIf {
							x.Cond = &ast.UnaryExpr{Op: token.NOT, X: &ast.ParenExpr{X: x.Cond}}
							x.Body, x.Else = eb, x.Body
							changed = true
							n++
						}
					}
					return true
				})
			}
			ast.Inspect(f, func(nd ast.Node) bool {
				id, ok := nd.(*ast.Ident)
				if !ok {
					return true
				}
				o := p.TypesInfo.Defs[id]
				if o == nil {
					o = p.TypesInfo.Uses[id]
				}
				if o != nil && ren[o] {
					id.Name += "_r"
					changed = true
					n++
				}
				return true
			})
			if changed {
				out, err := os.Create(p.CompiledGoFiles[i])
				if err != nil {
					panic(err)
				}
				if err := format.Node(out, p.Fset, f); err != nil {
					panic(err)
				}
				out.Close()
			}
		}
	}
	fmt.Println("renamed identifiers:", n)
}
