#!/bin/bash
# ./run.sh <Cnn> <quick|thorough>   — decide one property on /repo's current working tree.
# ./run.sh --build                  — (re)build the checker from /verif/checker (vendored deps, offline).
# Exit: 0 held, 1 VIOLATION, 2 checker broken (unresolved anchor, vacuous rule, load failure).
set -u
HERE="$(cd "$(dirname "${BASH_SOURCE[0]}")" && pwd)"
export PATH=/opt/veriftools/go1.26.8/bin:$PATH
export GOTOOLCHAIN=local GOPROXY=off GOSUMDB=off GOWORK=off
unset GOFLAGS
REPO="${VERIF_REPO:-/repo}"
build() {
  (cd "$HERE/checker" && GOFLAGS=-mod=vendor go build -o "$HERE/bin/vchk" .) || { echo "BROKEN cannot build checker"; exit 2; }
}
if [ "${1:-}" = "--build" ]; then
  mkdir -p "$HERE/bin"; build
  # warm Go's build cache with the export data of /repo's packages (go/packages needs it to type-check
  # dependencies); analysis results themselves are never cached. Best effort.
  (cd "$REPO" && GOFLAGS=-mod=mod go build ./... >/dev/null 2>&1) || true
  exit 0
fi
if [ ! -x "$HERE/bin/vchk" ] || [ -n "$(find "$HERE/checker" -name '*.go' -newer "$HERE/bin/vchk" -not -path '*/vendor/*' -print -quit 2>/dev/null)" ]; then
  mkdir -p "$HERE/bin"; build
fi
if [ "${1:-}" = "dump" ] || [ "${1:-}" = "list" ] || [ "${1:-}" = "paramtable" ]; then exec "$HERE/bin/vchk" -repo "$REPO" "$@"; fi
ID="${1:?property id}"; TIER="${2:-${VERIF_TIER:-quick}}"
OUT="${VERIF_EVIDENCE:-$HERE/evidence}"   # selftests against scratch trees write elsewhere
mkdir -p "$OUT"
exec "$HERE/bin/vchk" -repo "$REPO" -out "$OUT" -known "$HERE/known-findings.txt" "$ID" "$TIER"
