package main

import (
	_ "embed"
	"encoding/json"
	"go/types"
	"os"
	"sort"

	"golang.org/x/tools/go/ssa"
)

// Parameter roles. Matchers name a parameter by the name it has on the tree
// the checks were written against (ParamV("name")). So that renaming a
// parameter is not reported as a change of behaviour, paramnames.json records,
// per function of the analysed packages, the parameter names by position on
// that tree; a parameter whose current name is not one of the recorded names
// of its function takes the recorded name of its position, provided the arity
// is unchanged and no current parameter already uses that name. A parameter
// whose current name is a recorded name keeps it (so a reordering of
// parameters, with names following, is read by name). Regenerate with
// `vchk -repo /repo paramtable > checker/paramnames.json` after reviewing a
// signature change.
//
//go:embed paramnames.json
var paramRefJSON []byte

var paramRef map[string][]string

func init() {
	if len(paramRefJSON) > 0 {
		_ = json.Unmarshal(paramRefJSON, &paramRef)
	}
}

func paramRefKey(fn *ssa.Function) string {
	if o := fn.Origin(); o != nil {
		fn = o
	}
	return fn.String()
}

// paramName returns the role name of p (see above).
func paramName(p *ssa.Parameter) string {
	fn := p.Parent()
	if fn == nil {
		return p.Name()
	}
	ref, ok := paramRef[paramRefKey(fn)]
	if !ok || len(ref) != len(fn.Params) {
		return p.Name()
	}
	idx := -1
	for i, q := range fn.Params {
		if q == p {
			idx = i
		}
	}
	if idx < 0 {
		return p.Name()
	}
	for _, r := range ref {
		if r == p.Name() {
			return p.Name()
		}
	}
	cand := ref[idx]
	for _, q := range fn.Params {
		if q.Name() == cand {
			return p.Name()
		}
	}
	return cand
}

// dumpParamTable prints the reference table for the given program.
func dumpParamTable(pr *Prog) {
	out := map[string][]string{}
	for _, fn := range pr.AllFuncs() {
		if len(fn.Params) == 0 {
			continue
		}
		k := paramRefKey(fn)
		if _, dup := out[k]; dup {
			continue
		}
		var names []string
		for _, q := range fn.Params {
			names = append(names, q.Name())
		}
		out[k] = names
	}
	keys := make([]string, 0, len(out))
	for k := range out {
		keys = append(keys, k)
	}
	sort.Strings(keys)
	os.Stdout.WriteString("{\n")
	for i, k := range keys {
		kb, _ := json.Marshal(k)
		vb, _ := json.Marshal(out[k])
		os.Stdout.Write(kb)
		os.Stdout.WriteString(": ")
		os.Stdout.Write(vb)
		if i < len(keys)-1 {
			os.Stdout.WriteString(",")
		}
		os.Stdout.WriteString("\n")
	}
	os.Stdout.WriteString("}\n")
}

// freeVarRole names a free variable by the role name of the parameter it
// captures (directly, by reference, or through an enclosing closure); a free
// variable that captures something else keeps its own name.
func freeVarRole(fv *ssa.FreeVar) string {
	fn := fv.Parent()
	if fn == nil || fn.Parent() == nil {
		return fv.Name()
	}
	idx := -1
	for i, q := range fn.FreeVars {
		if q == fv {
			idx = i
		}
	}
	if idx < 0 {
		return fv.Name()
	}
	for _, b := range fn.Parent().Blocks {
		for _, in := range b.Instrs {
			mc, ok := in.(*ssa.MakeClosure)
			if !ok || mc.Fn != fn || idx >= len(mc.Bindings) {
				continue
			}
			switch x := mc.Bindings[idx].(type) {
			case *ssa.Parameter:
				return paramName(x)
			case *ssa.FreeVar:
				return freeVarRole(x)
			case *ssa.Alloc:
				for _, r := range *x.Referrers() {
					if st, ok := r.(*ssa.Store); ok && st.Addr == x {
						if p, ok := st.Val.(*ssa.Parameter); ok {
							return paramName(p)
						}
					}
				}
			}
			return fv.Name()
		}
	}
	return fv.Name()
}

// sigStringNoNames renders a type; signatures are rendered without parameter
// and result names so that table keys do not depend on them.
func typeStringNoNames(t types.Type) string {
	sig, ok := t.(*types.Signature)
	if !ok {
		return t.String()
	}
	strip := func(tu *types.Tuple) *types.Tuple {
		var vs []*types.Var
		for i := 0; i < tu.Len(); i++ {
			vs = append(vs, types.NewVar(0, nil, "", tu.At(i).Type()))
		}
		return types.NewTuple(vs...)
	}
	return types.NewSignatureType(nil, nil, nil, strip(sig.Params()), strip(sig.Results()), sig.Variadic()).String()
}
