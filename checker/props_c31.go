package main

import (
	"go/token"
	"go/types"

	"golang.org/x/tools/go/ssa"
)

func init() {
	register(&PropDef{
		ID:    "C31",
		Pkgs:  []string{"internal/buffer", "internal/grpcsync", "internal/xds/clients/internal/buffer", "internal/xds/clients/internal/syncutil", "grpc"},
		Claim: "Decides the structural part, for both copies of the unbounded buffer and callback serializer (internal/{buffer,grpcsync} and internal/xds/clients/internal/{buffer,syncutil}): backlog/closing/closed are accessed only under the buffer mutex; items are appended at the tail and taken from index 0; nothing is queued or sent once closing is set (Put fails then); the channel is closed once, guarded by !closed, only when the backlog is empty; the serializer's run loop loads the next item before running each callback, installs the close-on-cancel hook before the loop and defers closing its done channel; ScheduleOr calls onFailure exactly when Put failed; PubSub re-checks the subscription under its mutex before delivering; (thorough) every consumer of an Unbounded in the module calls Load after each successful receive.",
		NotDecided:  []string{"the close-while-draining window as a schedule property", "eventual execution of every scheduled callback (liveness)"},
		Assumptions: []string{"channel of capacity 1 with a single consumer"},
		Technique:   "static analysis: must-lockset, dominating guards on go/ssa branch facts, who-may-write, must-pass-through path search, sibling cross-check of two copies",
		Run:         c31,
	})
}

func c31(c *Ctx) {
	type copyT struct{ buf, ser, tag string }
	copies := []copyT{{"internal/buffer", "internal/grpcsync", "grpc"}, {"internal/xds/clients/internal/buffer", "internal/xds/clients/internal/syncutil", "xds"}}
	for _, cp := range copies {
		cp := cp
		fBack := c.field(cp.buf, "Unbounded", "backlog")
		fClosing := c.field(cp.buf, "Unbounded", "closing")
		fClosed := c.field(cp.buf, "Unbounded", "closed")
		fC := c.field(cp.buf, "Unbounded", "c")
		mu := c.field(cp.buf, "Unbounded", "mu")
		c.Ob(cp.tag+"/unbounded-lock", "R4", "backlog, closing and closed of the unbounded buffer are accessed only under its mutex", 10, func() {
			c.GuardedBy(GuardSpec{Label: "Unbounded", Mu: mu, Fields: []*types.Var{fBack, fClosing, fClosed}, Scope: c.scope(cp.buf)})
		})
		c.Ob(cp.tag+"/put-after-close", "R2", "Put: the direct send and the append are on the !closing arm, the other arm returns the closed error; the direct send happens only with an empty backlog (FIFO); append is at the tail", 5, func() {
			put := c.fn(cp.buf, "Unbounded.Put")
			sel := one(c, "select in Put", instrsWhere(put, func(in ssa.Instruction) bool { _, ok := in.(*ssa.Select); return ok })).(*ssa.Select)
			c.MustFact(sel, "send-only-if-not-closing", Truth(FieldLoad(fClosing), false))
			c.MustFact(sel, "direct-send-only-if-backlog-empty", CmpInt(LenOf(FieldLoad(fBack)), token.EQL, 0))
			c.Expect(!sel.Blocking && len(sel.States) == 1 && sel.States[0].Dir == types.SendOnly && FieldLoad(fC)(sel.States[0].Chan), sel, put, "non-blocking-send-on-c", "Put's select is not a non-blocking send on the buffer channel")
			st := one(c, "append to backlog in Put", storesToField(put, fBack))
			c.MustFact(st, "append-only-if-not-closing", Truth(FieldLoad(fClosing), false))
			ap, ok := st.Val.(*ssa.Call)
			if c.Expect(ok && BuiltinCall("append")(&ap.Call) && FieldLoad(fBack)(ap.Call.Args[0]), st, put, "append-at-tail", "the backlog is not extended by append(backlog, t)") {
				c.Expect(DataDep(ParamV("t"))(ap.Call.Args[1]), st, put, "appends-the-item", "the appended element is not the item put")
			}
			n := 0
			for _, b := range blocksWhere(put, Truth(FieldLoad(fClosing), true)) {
				for _, in := range b.Instrs {
					if r, ok := in.(*ssa.Return); ok {
						n++
						c.Expect(provablyNonNil(r.Results[0], r, 0), r, put, "closing->error", "Put on a closing buffer returns nil")
					}
				}
			}
			c.Expect(n >= 1, nil, put, "closing-arm-returns", "no return on the closing arm of Put")
			// not both: an item handed to the channel is not also appended
			q := pathQuery{Fn: put, Starts: []ssa.Instruction{sel}, Target: func(in ssa.Instruction) bool { return in == ssa.Instruction(st) },
				EdgeBlock: func(from, to *ssa.BasicBlock) bool {
					// follow only the "sent" arm: select index == 0
					fs := edgeFacts(from, to)
					_, notSent := hasFact(fs, CmpInt(ExtractOf(func(v ssa.Value) bool { return v == ssa.Value(sel) }, 0), token.NEQ, 0))
					return notSent
				}}
			c.MustPass("sent-item-not-also-queued", q, sel)
		})
		c.Ob(cp.tag+"/load-shape", "R1", "Load: sends backlog[0] (head) and drops exactly that element after a successful send; closes the channel only on (closing && !closed) with an empty backlog and marks closed first", 6, func() {
			ld := c.fn(cp.buf, "Unbounded.Load")
			sel := one(c, "select in Load", instrsWhere(ld, func(in ssa.Instruction) bool { _, ok := in.(*ssa.Select); return ok })).(*ssa.Select)
			c.MustFact(sel, "send-only-if-backlog-non-empty", CmpInt(LenOf(FieldLoad(fBack)), token.GTR, 0))
			head := func(v ssa.Value) bool {
				u, ok := strip(v).(*ssa.UnOp)
				if !ok {
					return false
				}
				ia, ok := u.X.(*ssa.IndexAddr)
				return ok && FieldLoad(fBack)(ia.X) && ConstInt(0)(ia.Index)
			}
			c.Expect(len(sel.States) == 1 && head(sel.States[0].Send), sel, ld, "sends-the-head", "Load does not send backlog[0]")
			st := one(c, "reslice of backlog in Load", storesToField(ld, fBack))
			c.ValueIs(st, st.Val, "drops-exactly-the-head", SliceOf(FieldLoad(fBack), ConstInt(1), nil))
			c.MustFact(st, "drop-only-after-send", CmpInt(ExtractOf(func(v ssa.Value) bool { return v == ssa.Value(sel) }, 0), token.EQL, 0))
			cl := one(c, "close(b.c) in Load", callsIn(ld, BuiltinCall("close")))
			c.MustFact(cl, "close-only-if-closing", Truth(FieldLoad(fClosing), true))
			c.MustFact(cl, "close-only-if-not-closed", Truth(FieldLoad(fClosed), false))
			c.MustFact(cl, "close-only-if-backlog-empty", CmpInt(LenOf(FieldLoad(fBack)), token.LEQ, 0))
			mark := one(c, "closed=true in Load", storesToField(ld, fClosed))
			c.ValueIs(mark, mark.Val, "Load:marks-closed-true", ConstBool(true))
			c.Dominates(mark, cl, "mark-closed-before-close")
		})
		c.Ob(cp.tag+"/close-once", "R11", "Close: idempotent via the closing flag; closes the channel only with an empty backlog, after marking closed; the channel is closed nowhere else", 5, func() {
			cf := c.fn(cp.buf, "Unbounded.Close")
			cl := one(c, "close(b.c) in Close", callsIn(cf, BuiltinCall("close")))
			c.MustFact(cl, "first-close-call", Truth(FieldLoad(fClosing), false))
			c.MustFact(cl, "backlog-empty", CmpInt(LenOf(FieldLoad(fBack)), token.EQL, 0))
			mark := one(c, "closed=true in Close", storesToField(cf, fClosed))
			c.ValueIs(mark, mark.Val, "Close:marks-closed-true", ConstBool(true))
			c.Dominates(mark, cl, "mark-closed-before-close")
			setc := one(c, "closing=true in Close", storesToField(cf, fClosing))
			c.MustFact(setc, "closing-test-and-set", Truth(FieldLoad(fClosing), false))
			n := 0
			for _, f := range c.scope(cp.buf) {
				for _, m := range mutationsOf(f, fC) {
					if m.Kind == "close" {
						n++
					}
				}
			}
			c.Expect(n == 2, nil, cf, "two-closers", "the buffer channel is closed at a number of sites different from the two reviewed ones (Load, Close)")
			c.WhoMayMutate("closing", fClosing, c.scope(cp.buf), shortNameOf(cp.buf, "Unbounded.Close"))
			c.WhoMayMutate("closed", fClosed, c.scope(cp.buf), shortNameOf(cp.buf, "Unbounded.Close"), shortNameOf(cp.buf, "Unbounded.Load"))
		})
		c.Ob(cp.tag+"/run-loop", "R3", "serializer run loop: Load() precedes every callback invocation, the cancel hook closing the buffer is installed before the loop, closing of done is deferred; ScheduleOr invokes onFailure exactly when Put failed; ScheduleAndWait closes its done channel on both arms", 6, func() {
			run := c.fn(cp.ser, "CallbackSerializer.run")
			get := one(c, "callbacks.Get in run", callsIn(run, Callee(cp.buf, "Unbounded.Get")))
			load := one(c, "callbacks.Load in run", callsIn(run, Callee(cp.buf, "Unbounded.Load")))
			var cbCall ssa.CallInstruction
			for _, ci := range instrsWhere(run, func(in ssa.Instruction) bool {
				call, ok := in.(*ssa.Call)
				if !ok || call.Call.IsInvoke() || call.Call.StaticCallee() != nil {
					return false
				}
				_, isB := call.Call.Value.(*ssa.Builtin)
				return !isB
			}) {
				cbCall = ci.(ssa.CallInstruction)
			}
			if cbCall == nil {
				panic(missingStep{"run does not invoke the received callback"})
			}
			c.Dominates(load, cbCall, "load-before-callback")
			c.Expect(func() bool { u, ok := cbCall.Common().Value.(*ssa.UnOp); return ok && u.CommaOk || ExtractOf(AnyV, 0)(cbCall.Common().Value) }(), cbCall, run, "runs-the-received-callback", "the function invoked is not the value received from the buffer")
			af := one(c, "context.AfterFunc in run", callsIn(run, CalleeX("context", "AfterFunc")))
			c.Dominates(af, get, "cancel-hook-before-loop")
			dfs := instrsWhere(run, func(in ssa.Instruction) bool { d, ok := in.(*ssa.Defer); return ok && BuiltinCall("close")(&d.Call) })
			c.Expect(len(dfs) == 1 && instrDominates(dfs[0], get), nil, run, "done-closed-by-defer", "closing of the serializer's done channel is not deferred at the top of run")
			so := c.fn(cp.ser, "CallbackSerializer.ScheduleOr")
			onf := one(c, "onFailure invocation", callsIn(so, ValueCall(ParamV("onFailure"))))
			c.MustFact(onf, "onFailure-iff-put-failed", NotNil(CallRes(Callee(cp.buf, "Unbounded.Put"), 0)))
			pt := one(c, "Put in ScheduleOr", callsIn(so, Callee(cp.buf, "Unbounded.Put")))
			c.ArgIs(pt, 1, "schedules-the-callback", ParamV("f"))
			q := pathQuery{Fn: so, Starts: []ssa.Instruction{pt}, Barrier: func(in ssa.Instruction) bool { return in == ssa.Instruction(onf) }, Target: isReturn,
				EdgeBlock: func(from, to *ssa.BasicBlock) bool {
					_, ok := hasFact(edgeFacts(from, to), IsNil(CallRes(Callee(cp.buf, "Unbounded.Put"), 0)))
					return ok
				}}
			c.MustPass("failed-put-always-reports", q, pt)
		})
	}
	c.Ob("pubsub", "R4", "PubSub: msg and subscribers only under its mutex; each delivery closure re-checks the subscription under the mutex before OnMessage", 6, func() {
		const gp = "internal/grpcsync"
		fMsg := c.field(gp, "PubSub", "msg")
		fSubs := c.field(gp, "PubSub", "subscribers")
		mu := c.field(gp, "PubSub", "mu")
		c.GuardedBy(GuardSpec{Label: "PubSub", Mu: mu, Fields: []*types.Var{fMsg, fSubs}, Scope: c.scope(gp)})
		n := 0
		for _, f := range c.scope(gp) {
			for _, om := range callsIn(f, Callee(gp, "Subscriber.OnMessage")) {
				n++
				c.MustFact(om, "still-subscribed", Truth(LookupOf(FieldLoad(fSubs), AnyV), true))
				ls := locksets(f, lockOpts{})
				c.Expect(ls[om][mu], om, f, "delivery-under-mu", "OnMessage is delivered without the PubSub mutex (unsubscribe could race)")
				// the subscriber checked is the subscriber delivered to
				lk := instrsWhere(f, func(in ssa.Instruction) bool { l, ok := in.(*ssa.Lookup); return ok && FieldLoad(fSubs)(l.X) })
				if c.Expect(len(lk) == 1, om, f, "one-lookup", "expected one subscription lookup in the delivery closure") {
					c.Expect(sameValue(lk[0].(*ssa.Lookup).Index, om.Common().Value), om, f, "checked-subscriber-is-recipient", "the subscription checked is not the recipient's")
				}
				c.Expect(f.Parent() != nil, om, f, "delivery-in-serialized-closure", "OnMessage is invoked outside a closure scheduled on the serializer")
			}
		}
		c.Expect(n == 2, nil, nil, "two-delivery-sites", "expected two delivery closures (Subscribe, Publish)")
	})
	c.ObThorough("get-load-protocol", "R3", "every receive from an Unbounded's Get() channel in the module is followed, on the received-a-value arm, by Load() on the same buffer before the next receive", 6, func() {
		for _, cp := range copies {
			getCM := Callee(cp.buf, "Unbounded.Get")
			loadCM := Callee(cp.buf, "Unbounded.Load")
			for _, f := range c.P.AllFuncs() {
				if excludedPkg(f) {
					continue
				}
				gets := callsIn(f, getCM)
				if len(gets) == 0 {
					continue
				}
				// receives: UnOp ARROW or Select states or Next(range) on the Get() result
				for _, in := range instrsWhere(f, func(in ssa.Instruction) bool {
					switch x := in.(type) {
					case *ssa.UnOp:
						return x.Op == token.ARROW && CallRes(getCM, 0)(x.X)
					case *ssa.Select:
						for _, s := range x.States {
							if s.Dir == types.RecvOnly && CallRes(getCM, 0)(s.Chan) {
								return true
							}
						}
					}
					return false
				}) {
					c.inst("receive from Unbounded.Get <- " + c.siteStr(in))
					// from this receive, the next receive from Get (incl. itself via loop) or return... must pass Load unless nothing was received
					q := pathQuery{Fn: f, Starts: []ssa.Instruction{in}, Barrier: isCallTo(loadCM),
						Target: func(x ssa.Instruction) bool { return x == in },
						EdgeBlock: func(from, to *ssa.BasicBlock) bool {
							// arms where this select did not pick the Get() channel, or the channel was closed, need no Load
							return !armReceived(in, from, to)
						}}
					_ = q
					w := q.search()
					if w != nil {
						c.violate(in, f, "get-without-load", "a value received from Unbounded.Get() can be followed by the next receive without an intervening Load()", w)
					}
					c.nontrivial("getload" + shortName(f) + c.P.Pos(in.Pos()))
				}
			}
		}
	})
	c.Ob("serializer-confinement", "R4", "the channel's LB-policy wrapper touches its balancer field only inside closures scheduled on its serializer (or in functions only called from such closures), apart from construction", 5, func() {
		fBal := c.field("grpc", "ccBalancerWrapper", "balancer")
		fSer := c.field("grpc", "ccBalancerWrapper", "serializer")
		sched := AnyCM(Callee("internal/grpcsync", "CallbackSerializer.TrySchedule"), Callee("internal/grpcsync", "CallbackSerializer.ScheduleOr"), Callee("internal/grpcsync", "CallbackSerializer.ScheduleAndWait"))
		// closures passed to the serializer
		serialized := map[*ssa.Function]bool{}
		for _, f := range c.scope("grpc") {
			for _, ci := range callsIn(f, sched) {
				if !FieldLoad(fSer)(ci.Common().Args[0]) {
					continue
				}
				if cl := funcOfValue(ci.Common().Args[1]); cl != nil {
					serialized[cl] = true
				}
			}
		}
		c.Expect(len(serialized) >= 5, nil, nil, "serialized-closures-found", "fewer closures scheduled on the balancer wrapper's serializer than confirmed by hand")
		inSerialized := func(f *ssa.Function) bool {
			for g := f; g != nil; g = g.Parent() {
				if serialized[g] {
					return true
				}
			}
			return false
		}
		for _, f := range c.scope("grpc") {
			for _, fa := range fieldAddrsOf(f, fBal) {
				c.inst("ccb.balancer access <- " + c.siteStr(fa))
				if inSerialized(f) || freshReceiver(fa.X) {
					continue
				}
				name := shortName(topFunc(f))
				if name == "grpc.newCCBalancerWrapper" {
					continue
				}
				c.violate(fa, f, "balancer-outside-serializer", "ccBalancerWrapper.balancer is accessed outside a closure scheduled on the wrapper's serializer", nil)
			}
		}
	})
}

func shortNameOf(pkg, name string) string { return pkg + "." + name }

// armReceived: on the edge from->to, is it possible that the receive
// instruction `in` delivered a value from the channel? False when the edge is
// known to be a different select arm or the closed/!ok arm.
func armReceived(in ssa.Instruction, from, to *ssa.BasicBlock) bool {
	fs := edgeFacts(from, to)
	switch x := in.(type) {
	case *ssa.Select:
		// index of the Get() state
		idx := -1
		for i, s := range x.States {
			if s.Dir == types.RecvOnly {
				if _, ok := strip(s.Chan).(*ssa.Call); ok {
					idx = i
				}
			}
		}
		self := func(v ssa.Value) bool { return v == ssa.Value(x) }
		for _, f := range fs {
			if f.Kind == "cmp" && f.Op == token.EQL && ExtractOf(self, 0)(f.X) {
				if c := constOf(f.Y); c != nil && !ConstInt(int64(idx))(c) {
					return false // another arm was selected
				}
			}
			if f.Kind == "cmp" && f.Op == token.NEQ && ExtractOf(self, 0)(f.X) && ConstInt(int64(idx))(f.Y) {
				return false
			}
			if f.Kind == "truth" && !f.Pol && ExtractOf(self, 1)(f.X) {
				return false // recvOk false
			}
		}
	case *ssa.UnOp:
		self := func(v ssa.Value) bool { return v == ssa.Value(x) }
		for _, f := range fs {
			if f.Kind == "truth" && !f.Pol && ExtractOf(self, 1)(f.X) {
				return false // channel closed
			}
		}
	}
	return true
}
