package main

import (
	"go/token"
	"go/types"

	"golang.org/x/tools/go/ssa"
)

func init() {
	register(&PropDef{
		ID:    "C01",
		Pkgs:  []string{tr},
		Claim: "Decides the structural part: DATA frames are written by exactly one function; the number of bytes it hands to the frame writer is, by symbolic upper-bound derivation over the SSA values, at most 16384, at most the writer's connection quota and at most max(initial window - bytes outstanding, 0); after a successful write both ledgers are updated by exactly that size; the connection quota, the initial window and the per-stream outstanding count are written only by the reviewed functions in the reviewed shapes (quota += increment for stream 0, outstanding -= increment, window = SETTINGS value); the increments come from the WINDOW_UPDATE frame; header block fragments are at most the frame size.",
		NotDecided:  []string{"that the writer's ledgers equal the peer's view over all histories of WINDOW_UPDATE / SETTINGS changes (ledger arithmetic over histories)", "integer wrap-around of the uint32 connection quota under a peer that overflows the window (the peer must not, RFC 7540 6.9.1)"},
		Assumptions: []string{"integer conversions between int and uint32 are order preserving for window/frame sizes (< 2^31)", "the byte slices appended to the write buffer have the lengths requested (h[:n], Reader.Peek(n))"},
		Technique:   "static analysis: symbolic upper-bound dataflow over go/ssa (min/max/phi/difference rules), who-may-call and who-may-write, dominating guards, must-pass-through for the ledger updates, value-origin",
		Run:         c01,
	})
}

func c01(c *Ctx) {
	lw := func(f string) *types.Var { return c.field(tr, "loopyWriter", f) }
	fQuota, fOiws := lw("sendQuota"), lw("oiws")
	fBOS := c.field(tr, "outStream", "bytesOutStanding")
	var wd ssa.CallInstruction
	var pd *ssa.Function
	c.Ob("writeData-callers", "R1", "the DATA frame writer is called from the data-processing step of the writer loop only; the x/net framer's own WriteData is not used", 1, func() {
		sites := c.WhoMayCall("framer.writeData", Callee(tr, "framer.writeData"), c.scope(tr), "internal/transport.loopyWriter.processData")
		c.WhoMayCall("http2.Framer.WriteData", AnyCM(CalleeX(h2, "Framer.WriteData"), CalleeX(h2, "Framer.WriteDataPadded")), c.scope(tr))
		pd = c.fn(tr, "loopyWriter.processData")
		wd = one(c, "writeData call", sites)
	})
	if wd == nil {
		return
	}
	var size ssa.Value
	c.Ob("data-len", "R5", "the size written (= header part + data part, the lengths of the two pieces put into the write buffer) is bounded above by 16384, by the connection send quota and by max(initial window - outstanding, 0)", 6, func() {
		// the two pieces
		fH := c.field(tr, "dataFrame", "h")
		var hSize, dSize ssa.Value
		for _, in := range instrsWhere(pd, func(in ssa.Instruction) bool { s, ok := in.(*ssa.Slice); return ok && FieldLoad(fH)(s.X) && s.Low == nil && s.High != nil }) {
			hSize = in.(*ssa.Slice).High
		}
		pk := one(c, "Reader.Peek call", callsIn(pd, Callee("mem", "Reader.Peek")))
		dSize = pk.Common().Args[1]
		if hSize == nil {
			panic(missingStep{"no dataItem.h[:hSize] slice in processData"})
		}
		// size = hSize + dSize is what the ledgers are charged with
		for _, st := range storesToField(pd, fBOS) {
			if b, ok := st.Val.(*ssa.BinOp); ok && b.Op == token.ADD {
				size = b.Y
				if FieldLoad(fBOS)(b.Y) {
					size = b.X
				}
			}
		}
		if size == nil {
			panic(missingStep{"no bytesOutStanding += size in processData"})
		}
		c.Expect(BinOpV(token.ADD, func(v ssa.Value) bool { return v == hSize }, func(v ssa.Value) bool { return v == dSize })(size), wd, pd, "size-is-sum-of-pieces", "the size charged to the ledgers is not hSize+dSize of the pieces written")
		c.inst("upper bounds of size")
		c.nontrivial("ub-size")
		c.Expect(boundedBy(size, ConstInt(16384)), wd, pd, "size<=16KiB", "cannot derive size <= 16384 (http2MaxFrameLen)")
		c.Expect(boundedBy(size, FieldLoad(fQuota)), wd, pd, "size<=connection-quota", "cannot derive size <= l.sendQuota")
		strQuota := BinOpV(token.SUB, func(v ssa.Value) bool { return FieldLoad(fOiws)(stripConv(v)) }, FieldLoad(fBOS))
		isMax0 := func(v ssa.Value) bool {
			m := builtinCall(stripConv(v), "max")
			if m == nil || len(m.Call.Args) != 2 {
				return false
			}
			return strQuota(m.Call.Args[0]) && ConstInt(0)(m.Call.Args[1]) || strQuota(m.Call.Args[1]) && ConstInt(0)(m.Call.Args[0])
		}
		c.Expect(boundedBy(size, isMax0), wd, pd, "size<=stream-window", "cannot derive size <= max(oiws - bytesOutStanding, 0)")
		// what is discarded / trimmed after the write is what was written
		ds := one(c, "Reader.Discard call", callsIn(pd, Callee("mem", "Reader.Discard")))
		c.ArgIs(ds, 1, "discards-what-was-written", func(v ssa.Value) bool { return v == dSize })
		for _, st := range storesToField(pd, fH) {
			c.ValueIs(st, st.Val, "header-trimmed-by-what-was-written", SliceOf(FieldLoad(fH), func(v ssa.Value) bool { return v == hSize }, nil))
		}
		c.ArgIs(wd, 3, "writes-the-write-buffer", FieldLoad(lw("writeBuf")))
	})
	c.Ob("ledger", "R3", "after a successful DATA write every path to the return charges the stream (outstanding += size) and the connection (quota -= size) with the size written", 4, func() {
		okW := IsNil(CallRes(Callee(tr, "framer.writeData"), 0))
		isSize := func(v ssa.Value) bool { return stripConv(v) == stripConv(size) }
		sB := one(c, "bytesOutStanding update", storesToField(pd, fBOS))
		sQ := one(c, "sendQuota update", storesToField(pd, fQuota))
		c.ValueIs(sB, sB.Val, "outstanding+=size", BinOpV(token.ADD, FieldLoad(fBOS), isSize))
		c.ValueIs(sQ, sQ.Val, "quota-=size", BinOpV(token.SUB, FieldLoad(fQuota), isSize))
		c.MustFact(sB, "only-after-successful-write", okW)
		c.MustFact(sQ, "only-after-successful-write", okW)
		for _, st := range []*ssa.Store{sB, sQ} {
			st := st
			q := pathQuery{Fn: pd, Starts: []ssa.Instruction{wd}, Barrier: func(in ssa.Instruction) bool { return in == ssa.Instruction(st) }, Target: isReturn,
				EdgeBlock: func(from, to *ssa.BasicBlock) bool {
					_, ok := hasFact(edgeFacts(from, to), NotNil(CallRes(Callee(tr, "framer.writeData"), 0)))
					return ok
				}}
			c.MustPass("successful-write-always-charged", q, st)
		}
	})
	c.Ob("ledger-writers", "R1", "connection quota: constructor (default window), window-update handler (+= increment, stream 0 only), data step (-= size); initial window: constructor and SETTINGS handler (= setting value, under ID == INITIAL_WINDOW_SIZE); outstanding bytes: data step (+= size) and window-update handler (-= increment) only", 9, func() {
		c.WhoMayMutate("sendQuota", fQuota, c.scope(tr), "internal/transport.newLoopyWriter", "internal/transport.loopyWriter.incomingWindowUpdateHandler", "internal/transport.loopyWriter.processData")
		c.WhoMayMutate("oiws", fOiws, c.scope(tr), "internal/transport.newLoopyWriter", "internal/transport.loopyWriter.applySettings")
		c.WhoMayMutate("bytesOutStanding", fBOS, c.scope(tr), "internal/transport.loopyWriter.incomingWindowUpdateHandler", "internal/transport.loopyWriter.processData")
		wu := c.fn(tr, "loopyWriter.incomingWindowUpdateHandler")
		fInc := c.field(tr, "incomingWindowUpdate", "increment")
		fSID := c.field(tr, "incomingWindowUpdate", "streamID")
		inc := func(v ssa.Value) bool { return FieldLoad(fInc)(stripConv(v)) }
		sq := one(c, "quota update in the window-update handler", storesToField(wu, fQuota))
		c.ValueIs(sq, sq.Val, "quota+=increment", BinOpV(token.ADD, FieldLoad(fQuota), inc))
		c.MustFact(sq, "connection-level-only-for-stream-0", CmpInt(FieldLoad(fSID), token.EQL, 0))
		sb := one(c, "outstanding update in the window-update handler", storesToField(wu, fBOS))
		c.ValueIs(sb, sb.Val, "outstanding-=increment", BinOpV(token.SUB, FieldLoad(fBOS), inc))
		c.MustFact(sb, "stream-level-only-for-non-zero-stream", CmpInt(FieldLoad(fSID), token.NEQ, 0))
		// the stream credited is the one named by the frame
		lk := one(c, "estdStreams lookup", instrsWhere(wu, func(in ssa.Instruction) bool { l, ok := in.(*ssa.Lookup); return ok && FieldLoad(lw("estdStreams"))(l.X) }))
		c.ValueIs(lk, lk.(*ssa.Lookup).Index, "credits-the-named-stream", FieldLoad(fSID))
		as := c.fn(tr, "loopyWriter.applySettings")
		so := one(c, "oiws update in applySettings", storesToField(as, fOiws))
		fVal := c.field(h2, "Setting", "Val")
		fID := c.field(h2, "Setting", "ID")
		c.ValueIs(so, so.Val, "window=setting-value", FieldLoad(fVal))
		c.MustFact(so, "only-for-INITIAL_WINDOW_SIZE", Cmp(FieldLoad(fID), token.EQL, ConstOfObj(c.konst(h2, "SettingInitialWindowSize"))))
		nl := c.fn(tr, "newLoopyWriter")
		def := ConstOfObj(c.konst(tr, "defaultWindowSize"))
		for _, st := range storesToField(nl, fQuota) {
			c.ValueIs(st, st.Val, "initial-quota-is-default-window", def)
		}
		for _, st := range storesToField(nl, fOiws) {
			c.ValueIs(st, st.Val, "initial-window-is-default-window", def)
		}
	})
	c.Ob("increment-origin", "R8", "sibling x2 (client, server): the window-update item handed to the writer carries the frame's Increment and the frame header's stream id", 2, func() {
		fInc := c.field(tr, "incomingWindowUpdate", "increment")
		fSID := c.field(tr, "incomingWindowUpdate", "streamID")
		wInc := c.field(h2, "WindowUpdateFrame", "Increment")
		hSID := c.field(h2, "FrameHeader", "StreamID")
		n := 0
		for _, f := range c.scope(tr) {
			for _, st := range storesToField(f, fInc) {
				n++
				c.ValueIs(st, st.Val, "increment-from-frame", FieldLoad(wInc))
			}
			for _, st := range storesToField(f, fSID) {
				c.ValueIs(st, st.Val, "stream-id-from-frame-header", FieldLoad(hSID))
			}
		}
		c.Expect(n == 2, nil, nil, "two-producers", "expected exactly two producers of incoming window updates (client and server reader)")
	})
	c.Ob("header-fragment", "R5", "every HEADERS/CONTINUATION block fragment has length at most the HTTP/2 frame size", 2, func() {
		wh := c.fn(tr, "loopyWriter.writeHeader")
		n := 0
		for _, nx := range callsIn(wh, CalleeX("bytes", "Buffer.Next")) {
			n++
			c.nontrivial("ub-fragment" + c.P.Pos(nx.Pos()))
			c.Expect(boundedBy(nx.Common().Args[1], ConstInt(16384)), nx, wh, "fragment<=16KiB", "cannot derive fragment size <= 16384")
		}
		c.Expect(n == 2, nil, wh, "two-fragment-writers", "expected HEADERS and CONTINUATION fragment sites")
	})
}
