package main

// R10: panic-freedom of a closed set of (pure, string-processing) functions.
// Every panic source in the SSA of the functions is enumerated and must be
// discharged by one of:
//   (a) the Go compiler's prove pass: the bounds check at that position was
//       eliminated (`go build -gcflags=-d=ssa/check_bce/debug=1` lists the
//       checks that REMAIN; a site not listed was proven in-bounds),
//   (b) a dominating guard with difference constraints (base+k < len ⇒ base+c ≤ len for c ≤ k+1),
//   (c) a reviewed standard-library contract,
//   (d) a non-zero constant divisor.
// Not covered (stated in the evidence): nil dereferences, stack overflow, out-of-memory.

import (
	"bytes"
	"fmt"
	"go/constant"
	"go/token"
	"go/types"
	"os/exec"
	"regexp"
	"strconv"
	"strings"

	"golang.org/x/tools/go/ssa"
)

var bceCache = map[string]map[string]bool{}

// remainingBoundsChecks returns the set "file:line:col" of bounds checks the compiler could not eliminate in pkg.
func (c *Ctx) remainingBoundsChecks(pkg string) map[string]bool {
	if m, ok := bceCache[pkg]; ok {
		return m
	}
	cmd := exec.Command("go", "build", "-gcflags=-d=ssa/check_bce/debug=1", full(pkg))
	cmd.Dir = c.P.Repo
	cmd.Env = append(cmd.Environ(), "GOFLAGS=-mod=mod", "GOWORK=off", "GOPROXY=off", "GOSUMDB=off", "GOTOOLCHAIN=local", "GOOS=linux", "GOARCH=amd64", "CGO_ENABLED=0")
	var out bytes.Buffer
	cmd.Stdout, cmd.Stderr = &out, &out
	err := cmd.Run()
	m := map[string]bool{}
	re := regexp.MustCompile(`^(\S+\.go):(\d+):(\d+): Found (IsInBounds|IsSliceInBounds)`)
	n := 0
	for _, line := range strings.Split(out.String(), "\n") {
		if g := re.FindStringSubmatch(line); g != nil {
			m[g[1]+":"+g[2]+":"+g[3]] = true
			n++
		}
	}
	if err != nil && n == 0 {
		panic(anchorErr{fmt.Sprintf("cannot run the compiler's prove pass on %s: %v: %s", pkg, err, firstLines(out.String(), 3))})
	}
	bceCache[pkg] = m
	return m
}

func firstLines(s string, n int) string {
	ls := strings.Split(s, "\n")
	if len(ls) > n {
		ls = ls[:n]
	}
	return strings.Join(ls, " | ")
}

// total standard-library functions (never panic for any argument values of the right type)
var totalCallees = map[string]bool{
	"strconv.ParseUint": true, "strconv.ParseInt": true, "strconv.FormatInt": true, "strconv.Itoa": true, "strconv.Atoi": true,
	"fmt.Errorf": true, "fmt.Fprintf": true, "fmt.Sprintf": true,
	"strings.Builder.WriteByte": true, "strings.Builder.String": true, "strings.Builder.WriteString": true, "strings.Builder.Grow": false,
	"unicode/utf8.DecodeRuneInString": true, "unicode/utf8.RuneLen": true,
	"strings.HasSuffix": true, "strings.HasPrefix": true,
}

type panicSite struct {
	in   ssa.Instruction
	kind string
}

// PanicFree enumerates and discharges the panic sources of fns (a closed set: calls must stay inside it or go to total callees).
func (c *Ctx) PanicFree(pkg string, fns []*ssa.Function) { c.panicFree(pkg, fns, false) }

// BoundsSafe is PanicFree restricted to index/slice bounds and integer
// division: the other panic sources (calls, assertions) are not examined.
func (c *Ctx) BoundsSafe(pkg string, fns ...*ssa.Function) { c.panicFree(pkg, fns, true) }

func (c *Ctx) panicFree(pkg string, fns []*ssa.Function, boundsOnly bool) {
	bce := c.remainingBoundsChecks(pkg)
	inSet := map[*ssa.Function]bool{}
	for _, f := range fns {
		inSet[f] = true
	}
	posKey := func(p token.Pos) string {
		ps := c.P.Fset.Position(p)
		rel := strings.TrimPrefix(ps.Filename, c.P.Repo+"/")
		return rel + ":" + strconv.Itoa(ps.Line) + ":" + strconv.Itoa(ps.Column)
	}
	for _, f := range fns {
		for _, b := range f.Blocks {
			for _, in := range b.Instrs {
				var kind string
				switch x := in.(type) {
				case *ssa.Panic:
					kind = "explicit panic"
				case *ssa.TypeAssert:
					if !x.CommaOk {
						kind = "unchecked type assertion"
					}
				case *ssa.BinOp:
					if (x.Op == token.QUO || x.Op == token.REM) && isIntegral(x.X.Type()) {
						kind = "integer division"
					}
				case *ssa.Index, *ssa.IndexAddr, *ssa.Slice:
					kind = "bounds"
				case *ssa.Lookup:
					if _, isStr := x.X.Type().Underlying().(*types.Basic); isStr {
						kind = "bounds"
					}
				case *ssa.Call:
					if _, isB := x.Call.Value.(*ssa.Builtin); isB {
						continue
					}
					callee := x.Call.StaticCallee()
					if callee != nil && inSet[callee] {
						continue
					}
					kind = "call"
				case *ssa.SliceToArrayPointer:
					kind = "slice to array conversion"
				}
				if kind == "" || boundsOnly && kind != "bounds" && kind != "integer division" {
					continue
				}
				c.inst(kind + " <- " + c.siteStr(in))
				why := ""
				switch kind {
				case "bounds":
					if in.Pos() == token.NoPos {
						continue // compiler-generated range indexing: in bounds by construction
					}
					if !bce[posKey(in.Pos())] {
						continue // (a) eliminated by the compiler's prove pass
					}
					c.nontrivial("bce" + posKey(in.Pos()))
					if boundsDischarged(in) {
						continue // (b)/(c)
					}
					why = "bounds check not eliminated by the compiler and not implied by a dominating guard or a library contract"
				case "integer division":
					x := in.(*ssa.BinOp)
					if k := constOf(x.Y); k != nil && k.Value != nil && constant.Sign(k.Value) != 0 {
						continue // (d)
					}
					if nonZeroByFact(x.Y, in) || nonZeroParamOfPositiveConstCalls(x.Y, fns) {
						continue
					}
					why = "divisor not known to be non-zero"
				case "call":
					x := in.(*ssa.Call)
					name := calleeName(&x.Call)
					if totalCallees[name] {
						continue // (c)
					}
					if name == "strings.Builder.Grow" && len(x.Call.Args) == 2 && nonNegSize(x.Call.Args[1], 0) {
						continue // (c) Grow panics only for a negative count
					}
					if x.Call.IsInvoke() || x.Call.StaticCallee() == nil {
						why = "dynamic call to unknown code"
					} else {
						why = "call to " + name + ", which is neither in the analysed set nor in the reviewed list of total library functions"
					}
				default:
					why = kind
				}
				c.violate(in, f, "panic-source", "possible panic ("+kind+"): "+why, nil)
			}
		}
	}
}

// nonZeroByFact: a dominating fact says v != 0 or v > 0.
func nonZeroByFact(v ssa.Value, at ssa.Instruction) bool {
	is := func(x ssa.Value) bool { return stripConv(x) == stripConv(v) }
	for _, f := range FactsAt(at) {
		if CmpInt(is, token.NEQ, 0)(f) || CmpInt(is, token.GTR, 0)(f) {
			return true
		}
	}
	return false
}

// nonZeroParamOfPositiveConstCalls: v is a parameter of a function in the set and every call of it in the set passes a non-zero constant.
func nonZeroParamOfPositiveConstCalls(v ssa.Value, fns []*ssa.Function) bool {
	p, ok := stripConv(v).(*ssa.Parameter)
	if !ok {
		return false
	}
	idx := -1
	for i, q := range p.Parent().Params {
		if q == p {
			idx = i
		}
	}
	n := 0
	for _, f := range fns {
		for _, ci := range callsIn(f, CallOfFn(p.Parent())) {
			n++
			k := constOf(ci.Common().Args[idx])
			if k == nil || k.Value == nil || constant.Sign(k.Value) == 0 {
				return false
			}
		}
	}
	return n > 0
}

// boundsDischarged handles the residual sites: guard-implied and contract-implied bounds.
func boundsDischarged(in ssa.Instruction) bool {
	facts := FactsAt(in)
	lenOf := func(x ssa.Value) VM {
		return func(v ssa.Value) bool {
			if c := builtinCall(stripConv(v), "len"); c != nil {
				return sameStringVal(c.Call.Args[0], x)
			}
			return false
		}
	}
	// offset form: v = base + k
	offset := func(v ssa.Value) (ssa.Value, int64) {
		sv := stripConv(v)
		if b, ok := sv.(*ssa.BinOp); ok && b.Op == token.ADD {
			if k := constOf(b.Y); k != nil && k.Value != nil {
				n, _ := constant.Int64Val(k.Value)
				return stripConv(b.X), n
			}
		}
		return sv, 0
	}
	// upper: base+c <= len(x) (strict=false) or < len(x) (strict=true)
	upperOK := func(v ssa.Value, x ssa.Value, strict bool) bool {
		base, cst := offset(v)
		for _, f := range facts {
			if f.Kind != "cmp" {
				continue
			}
			fx, fy, op := f.X, f.Y, f.Op
			if op == token.GTR || op == token.GEQ {
				fx, fy, op = fy, fx, swapOp(op)
			}
			if (op != token.LSS && op != token.LEQ) || !lenOf(x)(fy) {
				continue
			}
			fb, fk := offset(fx)
			if fb != base {
				continue
			}
			// fact: base+fk < len  (or <=)
			slack := int64(0) // base+fk+slack <= len-? ...
			if op == token.LSS {
				slack = 1 // base+fk+1 <= len
			}
			limit := fk + slack // base+limit <= len
			if strict {
				if cst+1 <= limit {
					return true
				}
			} else if cst <= limit {
				return true
			}
		}
		return false
	}
	nonNeg := func(v ssa.Value) bool {
		base, cst := offset(v)
		if cst < 0 {
			return false
		}
		return nonNegative(base) || nonNegLoopVar(base)
	}
	switch x := in.(type) {
	case *ssa.Slice:
		// contract: _, size := utf8.DecodeRuneInString(s) ⇒ 0 <= size <= len(s)
		if x.High == nil && x.Low != nil {
			if e, ok := stripConv(x.Low).(*ssa.Extract); ok && e.Index == 1 {
				if call, ok := e.Tuple.(*ssa.Call); ok && calleeName(&call.Call) == "unicode/utf8.DecodeRuneInString" && sameStringVal(call.Call.Args[0], x.X) {
					return true
				}
			}
		}
		okHigh := x.High == nil || upperOK(x.High, x.X, false)
		okLow := x.Low == nil || nonNeg(x.Low)
		okOrder := true
		if x.Low != nil && x.High != nil {
			lb, lc := offset(x.Low)
			hb, hc := offset(x.High)
			okOrder = lb == hb && lc <= hc
		} else if x.Low != nil && x.High == nil {
			okOrder = upperOK(x.Low, x.X, false)
		}
		return okHigh && okLow && okOrder
	case *ssa.Lookup:
		return upperOK(x.Index, x.X, true) && nonNeg(x.Index)
	case *ssa.IndexAddr:
		return upperOK(x.Index, x.X, true) && nonNeg(x.Index)
	case *ssa.Index:
		return upperOK(x.Index, x.X, true) && nonNeg(x.Index)
	}
	return false
}

// sameStringVal: the two values denote the same string (same SSA value; strings are immutable).
func sameStringVal(a, b ssa.Value) bool { return stripConv(a) == stripConv(b) }

// nonNegLoopVar: a phi whose leaves are non-negative constants or itself plus non-negative constants.
func nonNegLoopVar(v ssa.Value) bool {
	p, ok := v.(*ssa.Phi)
	if !ok {
		return false
	}
	seen := map[ssa.Value]bool{}
	var okv func(x ssa.Value) bool
	okv = func(x ssa.Value) bool {
		x = stripConv(x)
		if seen[x] {
			return true
		}
		seen[x] = true
		switch y := x.(type) {
		case *ssa.Const:
			return y.Value != nil && y.Value.Kind() == constant.Int && constant.Sign(y.Value) >= 0
		case *ssa.Phi:
			for _, e := range y.Edges {
				if !okv(e) {
					return false
				}
			}
			return true
		case *ssa.BinOp:
			if y.Op == token.ADD {
				return okv(y.X) && okv(y.Y)
			}
		}
		return false
	}
	return okv(p)
}

// nonNegSize: v is a length, a non-negative constant, or a sum / small constant multiple of such values. A length is
// bounded by addressable memory (< 2^48 bytes), so adding a constant below 2^20 or scaling by at most 4 cannot wrap
// a 64-bit int; larger constants are not accepted.
func nonNegSize(v ssa.Value, depth int) bool {
	if depth > 4 {
		return false
	}
	switch x := stripConv(v).(type) {
	case *ssa.Const:
		return x.Value != nil && x.Value.Kind() == constant.Int && x.Int64() >= 0 && x.Int64() < 1<<20
	case *ssa.Call:
		if b, ok := x.Call.Value.(*ssa.Builtin); ok && (b.Name() == "len" || b.Name() == "cap") {
			return true
		}
	case *ssa.BinOp:
		switch x.Op {
		case token.ADD:
			return nonNegSize(x.X, depth+1) && nonNegSize(x.Y, depth+1)
		case token.MUL:
			k, ok := stripConv(x.Y).(*ssa.Const)
			if !ok {
				k, ok = stripConv(x.X).(*ssa.Const)
				if ok {
					return k.Value != nil && k.Value.Kind() == constant.Int && k.Int64() >= 0 && k.Int64() <= 4 && nonNegSize(x.Y, depth+1)
				}
				return false
			}
			return k.Value != nil && k.Value.Kind() == constant.Int && k.Int64() >= 0 && k.Int64() <= 4 && nonNegSize(x.X, depth+1)
		}
	}
	return false
}
