package main

import (
	"go/token"
	"go/types"

	"golang.org/x/tools/go/ssa"
)

const rhp = "balancer/ringhash"

func init() {
	register(&PropDef{
		ID:    "C37",
		Pkgs:  []string{rhp},
		Claim: "Decides the structural part of the walk, and the upper size bound of the ring (entries are appended only while fewer than ceil(min(..., max_ring_size)) exist): ring.pick binary-searches with predicate hash(entry) >= requested hash and wraps to entry 0 when the search runs off the end; the ring's entry list is written only by newRing, sorted by hash with each entry's idx assigned in sorted order afterwards; a request-hash pick visits entries (start.idx + i) mod ringSize for i < ringSize, delegates exactly on READY/CONNECTING/IDLE, skips TRANSIENT_FAILURE and panics on anything else; a random-hash pick delegates only on READY, triggers exitIdle only for an IDLE endpoint while no connection has been requested (initially: some endpoint is CONNECTING) and marks the request before continuing, so at most one per pick; when a connection was requested and nothing is READY it fails with ErrNoSubConnAvailable; otherwise the pick falls back to the start entry's picker.",
		NotDecided:  []string{"ring construction beyond the upper size bound: the lower bound min_ring_size, proportionality of entry counts, independence of update order (floating-point accumulation)", "quality of the hash"},
		Assumptions: []string{"sort.Search / sort.Slice contracts"},
		Technique:   "static analysis: expression-shape and dominating-guard checks on go/ssa, membership facts of switch arms, loop phi structure for the at-most-once flag, who-may-write",
		Run:         c37,
	})
}

func c37(c *Ctx) {
	fItems := c.field(rhp, "ring", "items")
	fIdx := c.field(rhp, "ringEntry", "idx")
	fHash := c.field(rhp, "ringEntry", "hash")
	fCS := c.field("balancer", "State", "ConnectivityState")
	fPk := c.field("balancer", "State", "Picker")
	k := func(n string) VM { return ConstOfObj(c.konst("connectivity", n)) }
	cs := FieldLoad(fCS)
	pf := c.fn(rhp, "picker.Pick")
	start := CallRes(Callee(rhp, "ring.pick"), 0)
	ringSize := LenOf(FieldLoad(fItems))
	loopI := func(v ssa.Value) bool {
		p, ok := v.(*ssa.Phi)
		if !ok {
			return false
		}
		in := loopInit(p)
		if len(in) != 1 || !ConstInt(0)(in[0]) {
			return false
		}
		for _, e := range p.Edges {
			if e == in[0] {
				continue
			}
			if !BinOpV(token.ADD, func(x ssa.Value) bool { return x == ssa.Value(p) }, ConstInt(1))(e) {
				return false
			}
		}
		return true
	}
	walked := func(v ssa.Value) bool { // p.ring.items[(e.idx+i)%ringSize]
		u, ok := v.(*ssa.UnOp)
		if !ok {
			return false
		}
		ia, ok := u.X.(*ssa.IndexAddr)
		return ok && FieldLoad(fItems)(ia.X) && BinOpV(token.REM, BinOpV(token.ADD, FieldLoadOn(fIdx, start), loopI), ringSize)(ia.Index)
	}
	var dels []ssa.CallInstruction
	for _, ci := range callsIn(pf, Callee("balancer", "Picker.Pick")) {
		if FieldLoad(fPk)(ci.Common().Value) {
			dels = append(dels, ci)
		}
	}
	var hashDel, randDel, fallDel ssa.CallInstruction
	c.Ob("walk-states", "R6", "request-hash walk: delegate iff READY/CONNECTING/IDLE, skip TRANSIENT_FAILURE, panic otherwise; entries visited are (start.idx+i) mod ringSize, i from 0 while i < ringSize; start is ring.pick(requestHash)", 10, func() {
		for _, d := range dels {
			fs := FactsAt(d)
			_, isSet := hasFact(fs, func(f Fact) bool { return f.Kind == "in" && cs(f.X) })
			_, isReady := hasFact(fs, Cmp(cs, token.EQL, k("Ready")))
			switch {
			case isSet:
				hashDel = d
			case isReady:
				randDel = d
			default:
				fallDel = d
			}
		}
		if !c.Expect(len(dels) == 3 && hashDel != nil && randDel != nil && fallDel != nil, nil, pf, "three-delegation-sites", "expected three delegation sites (hash walk, random walk, fall-back)") {
			return
		}
		c.MustFact(hashDel, "delegates-only-on-READY-CONNECTING-IDLE", InSet(cs, k("Ready"), k("Connecting"), k("Idle")))
		c.Unreachable(hashDel, "TRANSIENT_FAILURE-skipped", Cmp(cs, token.EQL, k("TransientFailure")))
		isDel := func(in ssa.Instruction) bool {
			for _, d := range dels {
				if in == ssa.Instruction(d) {
					return true
				}
			}
			return false
		}
		for _, n := range []string{"Ready", "Connecting", "Idle"} {
			st := edgeTargetsWhere(pf, Cmp(cs, token.EQL, k(n)))
			if c.Expect(len(st) > 0, nil, pf, "arm:"+n, "the state is not tested in the walk") {
				// only the arms of the request-hash walk: those whose source block is in the hash loop
				c.MustPass("delegates-on:"+n, pathQuery{Fn: pf, StartBlocks: st, Barrier: func(in ssa.Instruction) bool {
					if isDel(in) {
						return true
					}
					// the random-hash walk legitimately continues on IDLE (after exitIdle); fence it off
					call, ok := in.(*ssa.Call)
					return ok && n == "Idle" && FieldCall(c.field(rhp, "endpointState", "exitIdle"))(&call.Call)
				}, Target: isReturn}, nil)
			}
		}
		// unknown state panics
		np := 0
		for _, b := range pf.Blocks {
			for _, in := range b.Instrs {
				if _, ok := in.(*ssa.Panic); ok {
					np++
					for _, n := range []string{"Ready", "Connecting", "Idle", "TransientFailure"} {
						c.MustFact(in, "panic-only-on-unknown-state:not-"+n, Cmp(cs, token.NEQ, k(n)))
					}
				}
			}
		}
		c.Expect(np == 1, nil, pf, "unknown-state-panics", "expected one panic for an unknown child state")
		// entries visited
		for _, es := range callsIn(pf, Callee(rhp, "picker.endpointState")) {
			a := es.Common().Args[1]
			if start(a) {
				continue
			}
			c.ArgIs(es, 1, "visits-(start.idx+i)-mod-size", walked)
			c.MustFact(es, "i-below-ring-size", Cmp(loopI, token.LSS, ringSize))
		}
		pk := one(c, "ring.pick call", callsIn(pf, Callee(rhp, "ring.pick")))
		_ = pk
		// state tested is that of the visited entry
		for _, d := range []ssa.CallInstruction{hashDel, randDel} {
			ar := allocRoot(d.Common().Value)
			ok := false
			if ar != nil {
				for _, st := range storesTo(ar) {
					if call, isC := st.Val.(*ssa.Call); isC && Callee(rhp, "picker.endpointState")(&call.Call) && walked(call.Call.Args[1]) {
						ok = true
					}
				}
			}
			c.Expect(ok, d, pf, "delegates-to-the-visited-entry", "the pick is delegated to an endpoint other than the visited ring entry")
		}
		c.Expect(func() bool {
			for _, es := range callsIn(pf, Callee(rhp, "picker.endpointState")) {
				if start(es.Common().Args[1]) && es.Block() == fallDel.Block() {
					return true
				}
			}
			return false
		}(), fallDel, pf, "falls-back-to-start-entry", "the fall-back does not use the start entry")
	})
	c.Ob("hash-source", "R8", "the walk starts at ring.pick(hash) where hash is the xDS request hash (no header configured), xxhash of the comma-joined header values (header present), or a random number (header configured but absent); the random-hash walk is used exactly in the last case", 6, func() {
		pk := one(c, "ring.pick call", callsIn(pf, Callee(rhp, "ring.pick")))
		hp, ok := pk.Common().Args[1].(*ssa.Phi)
		if !c.Expect(ok, pk, pf, "hash-chosen-by-source", "the request hash is not chosen among the three documented sources") {
			return
		}
		fHdr := c.field(rhp, "picker", "requestHashHeader")
		noHdr := Cmp(FieldLoad(fHdr), token.EQL, ConstStr(""))
		var randPred *ssa.BasicBlock
		seen := map[string]int{}
		for i, e := range hp.Edges {
			pred := hp.Block().Preds[i]
			for _, fs := range incomingFacts(pred, hp.Block()) {
				switch {
				case ExtractOf(CallRes(Callee("internal/ringhash", "XDSRequestHash"), -1), 0)(e) || func() bool {
					ex, ok := e.(*ssa.Extract)
					if !ok || ex.Index != 0 {
						return false
					}
					call, ok := ex.Tuple.(*ssa.Call)
					return ok && Callee("internal/ringhash", "XDSRequestHash")(&call.Call)
				}():
					seen["xds"]++
					_, a := hasFact(fs, noHdr)
					c.Expect(a, pk, pf, "xds-hash-only-without-header-config", "the xDS request hash is used although a request-hash header is configured")
				case CallRes(FieldCall(c.field(rhp, "picker", "randUint64")), 0)(e):
					seen["random"]++
					randPred = pred
					_, a := hasFact(fs, noHdr)
					c.Expect(!a, pk, pf, "random-hash-only-with-header-config", "a random hash is used without a configured header")
				case CallRes(CalleeX("github.com/cespare/xxhash/v2", "Sum64String"), 0)(e):
					seen["header"]++
					call := e.(*ssa.Call)
					j, isJ := call.Call.Args[0].(*ssa.Call)
					c.Expect(isJ && CalleeX("strings", "Join")(&j.Call) && ConstStr(",")(j.Call.Args[1]) && CallWith(Callee("metadata", "MD.Get"), 1, FieldLoad(fHdr))(j.Call.Args[0]), pk, pf, "header-hash-of-comma-joined-values", "the header hash is not xxhash of the comma-joined values of the configured header")
					_, a := hasFact(fs, CmpInt(LenOf(CallWith(Callee("metadata", "MD.Get"), 1, FieldLoad(fHdr))), token.NEQ, 0))
					c.Expect(a, pk, pf, "header-hash-only-when-present", "the header hash is used although the header has no values")
				default:
					c.Expect(false, pk, pf, "hash-source-known", "the request hash has an unreviewed source")
				}
			}
		}
		c.Expect(seen["xds"] == 1 && seen["random"] >= 1 && seen["header"] == 1, pk, pf, "three-hash-sources", "expected the three documented hash sources")
		// the flag: true exactly where the random hash is taken
		var flag *ssa.Phi
		for _, in := range hp.Block().Instrs {
			if ph, ok := in.(*ssa.Phi); ok && ph != hp && AnyBoolPhi(ph) {
				flag = ph
			}
		}
		if c.Expect(flag != nil, pk, pf, "random-flag", "no flag distinguishes the random-hash case") {
			for i, e := range flag.Edges {
				isRand := hp.Block().Preds[i] == randPred
				c.Expect(ConstBool(isRand)(e), pk, pf, "flag-true-exactly-for-random-hash", "the random-hash flag does not coincide with the random hash source")
			}
			isFlag := func(v ssa.Value) bool { return v == ssa.Value(flag) }
			if hashDel != nil && randDel != nil {
				c.MustFact(hashDel, "affinity-walk-only-with-a-request-hash", Truth(isFlag, false))
				c.MustFact(randDel, "first-ready-walk-only-with-a-random-hash", Truth(isFlag, true))
			}
		}
	})
	c.Ob("random-hash-arm", "R2", "random-hash walk: delegate only on READY; exitIdle only for IDLE with no connection requested yet, the flag starts as hasEndpointInConnectingState and is set on the exitIdle arm; ErrNoSubConnAvailable when a connection was requested", 7, func() {
		if randDel == nil {
			c.Expect(false, nil, pf, "random-walk-found", "random-hash walk not found")
			return
		}
		c.MustFact(randDel, "random:delegates-only-on-READY", Cmp(cs, token.EQL, k("Ready")))
		ex := one(c, "exitIdle call", callsIn(pf, FieldCall(c.field(rhp, "endpointState", "exitIdle"))))
		c.MustFact(ex, "exitIdle-only-for-IDLE", Cmp(cs, token.EQL, k("Idle")))
		var flag *ssa.Phi
		for _, fc := range FactsAt(ex) {
			if fc.Kind == "truth" && !fc.Pol {
				if p, ok := fc.X.(*ssa.Phi); ok {
					flag = p
				}
			}
		}
		if !c.Expect(flag != nil, ex, pf, "exitIdle-only-if-none-requested", "exitIdle is not guarded by the connection-requested flag") {
			return
		}
		initOK, setOK := false, false
		for i, e := range flag.Edges {
			if FieldLoad(c.field(rhp, "picker", "hasEndpointInConnectingState"))(e) {
				initOK = true
				continue
			}
			q, ok := e.(*ssa.Phi)
			if !ok {
				c.Expect(false, ex, pf, "flag-shape", "unexpected update of the connection-requested flag")
				continue
			}
			_ = i
			for j, qe := range q.Edges {
				pred := q.Block().Preds[j]
				if pred == ex.Block() {
					setOK = ConstBool(true)(qe)
				} else {
					c.Expect(qe == ssa.Value(flag), ex, pf, "flag-only-set-on-exitIdle", "the connection-requested flag changes on another arm")
				}
			}
		}
		c.Expect(initOK, ex, pf, "flag-starts-as-some-endpoint-connecting", "the flag is not initialised from hasEndpointInConnectingState")
		c.Expect(setOK, ex, pf, "flag-set-with-exitIdle", "the flag is not set on the arm that calls exitIdle (more than one attempt per pick)")
		for _, r := range returnsOf(pf) {
			if GlobalLoad(c.P.LookupObj("balancer", "ErrNoSubConnAvailable"))(r.Results[1]) {
				c.MustFact(r, "queue-only-if-connection-requested", Truth(func(v ssa.Value) bool { return v == ssa.Value(flag) }, true))
			}
		}
		// exitIdle belongs to the visited entry
		if u, ok := ex.Common().Value.(*ssa.UnOp); ok {
			c.Expect(allocRoot(u) == allocRoot(randDel.Common().Value), ex, pf, "exitIdle-of-the-visited-entry", "exitIdle is called on a different endpoint")
		}
	})
	c.Ob("ring-size-bound", "R5", "newRing: an entry is appended only while the ring has fewer than ceil(scale) entries, and scale is a min(..., max_ring_size): the ring never exceeds max_ring_size whatever the floating-point accumulation of the per-endpoint targets does", 2, func() {
		nr := c.fn(rhp, "newRing")
		var app *ssa.Call
		for _, in := range instrsWhere(nr, func(in ssa.Instruction) bool {
			call, ok := in.(*ssa.Call)
			return ok && BuiltinCall("append")(&call.Call)
		}) {
			app = in.(*ssa.Call)
		}
		if !c.Expect(app != nil, nil, nr, "entries-appended", "no ring entry append found") {
			return
		}
		capped := func(v ssa.Value) bool { // float64(maxRingSize) as one operand of math.Min
			call, ok := v.(*ssa.Call)
			if !ok || !CalleeX("math", "Min")(&call.Call) {
				return false
			}
			isMax := func(x ssa.Value) bool {
				if cv, ok := x.(*ssa.Convert); ok {
					x = cv.X
				}
				return ParamV("maxRingSize")(x)
			}
			return isMax(call.Call.Args[0]) || isMax(call.Call.Args[1])
		}
		size := func(v ssa.Value) bool { // int(math.Ceil(scale))
			if cv, ok := v.(*ssa.Convert); ok {
				v = cv.X
			}
			call, ok := v.(*ssa.Call)
			return ok && CalleeX("math", "Ceil")(&call.Call) && capped(call.Call.Args[0])
		}
		c.MustFact(app, "append-only-below-ring-size", Cmp(func(v ssa.Value) bool {
			l := builtinCall(v, "len")
			if l == nil {
				return false
			}
			a, ok1 := l.Call.Args[0].(*ssa.UnOp)
			b, ok2 := app.Call.Args[0].(*ssa.UnOp)
			return l.Call.Args[0] == app.Call.Args[0] || ok1 && ok2 && a.X == b.X
		}, token.LSS, size))
	})
	c.Ob("entries-per-weight", "R7", "newRing: an endpoint receives entries only while the number of entries created so far is strictly below the running target, the target grows by scale x the endpoint's normalised weight per endpoint, and the created count grows by one per entry", 3, func() {
		nr := c.fn(rhp, "newRing")
		var app *ssa.Call
		for _, in := range instrsWhere(nr, func(in ssa.Instruction) bool {
			call, ok := in.(*ssa.Call)
			return ok && BuiltinCall("append")(&call.Call)
		}) {
			app = in.(*ssa.Call)
		}
		if !c.Expect(app != nil, nil, nr, "entries-appended", "no ring entry append found") {
			return
		}
		isF := func(v ssa.Value) bool {
			b, ok := v.Type().Underlying().(*types.Basic)
			return ok && b.Kind() == types.Float64
		}
		var cur, tgt ssa.Value
		for _, fc := range FactsAt(app) {
			if fc.Kind == "cmp" && fc.Op == token.LSS && isF(fc.X) && isF(fc.Y) {
				cur, tgt = fc.X, fc.Y
			}
			if fc.Kind == "cmp" && fc.Op == token.GTR && isF(fc.X) && isF(fc.Y) { // the mirrored spelling
				cur, tgt = fc.Y, fc.X
			}
		}
		if !c.Expect(cur != nil, app, nr, "strictly-below-target", "entries are not created under 'created < target' (a non-strict test gives every endpoint one entry too many)") {
			return
		}
		tb, ok := tgt.(*ssa.BinOp)
		c.Expect(ok && tb.Op == token.ADD && BinOpV(token.MUL, AnyV, FieldLoad(c.field(rhp, "endpointInfo", "scaledWeight")))(tb.Y), app, nr, "target-grows-by-scale-times-weight", "the per-endpoint target is not previous target + scale x normalised weight")
		cp, ok := cur.(*ssa.Phi)
		okInc := false
		if ok {
			for _, e := range cp.Edges {
				if BinOpV(token.ADD, func(v ssa.Value) bool { return v == cur }, ConstNum(1))(e) {
					okInc = true
				}
			}
		}
		c.Expect(okInc, app, nr, "created-count-grows-by-one-per-entry", "the created-entries count is not incremented by one per appended entry")
	})
	c.Ob("ring-follows-config", "R3", "UpdateClientConnState: the ring is scheduled for regeneration whenever there was no previous config or the new min_ring_size or max_ring_size differs from the previous one (the ring depends only on the endpoint set and the current bounds, not on the order of config updates); regeneration is skipped only when both bounds are unchanged", 2, func() {
		f := c.fn(rhp, "ringhashBalancer.UpdateClientConnState")
		fCfg := c.field(rhp, "ringhashBalancer", "config")
		fRegen := c.field(rhp, "ringhashBalancer", "shouldRegenerateRing")
		fMin := c.field("internal/ringhash", "LBConfig", "MinRingSize")
		fMax := c.field("internal/ringhash", "LBConfig", "MaxRingSize")
		n := 0
		for _, st := range storesToField(f, fRegen) {
			if !c.Expect(ConstBool(true)(st.Val), st, f, "regeneration-flag-only-raised-here", "the regeneration flag is lowered in the config update") {
				continue
			}
			n++
			if !c.Expect(len(st.Block().Succs) == 1, st, f, "flag-arm-shape", "unexpected shape of the regeneration arm") {
				continue
			}
			sb := st.Block()
			c.EnteredOnlyWhenAll(sb.Succs[0], "regeneration-skipped-only-when-both-bounds-are-unchanged", func(p *ssa.BasicBlock) bool { return p == sb || sb.Dominates(p) },
				NotNil(FieldLoad(fCfg)), Cmp(FieldLoad(fMin), token.EQL, FieldLoad(fMin)), Cmp(FieldLoad(fMax), token.EQL, FieldLoad(fMax)))
		}
		c.Expect(n == 1, nil, f, "one-regeneration-arm", "expected one arm scheduling the ring regeneration on a config change")
	})
	c.Ob("wrap-and-sorted", "R2", "ring.pick: sort.Search over len(items) with predicate items[i].hash >= h, index reset to 0 when it equals len(items); ring.next = (idx+1) mod len; items written only in newRing, sorted by hash, idx assigned after the sort in order", 9, func() {
		rp := c.fn(rhp, "ring.pick")
		se := one(c, "sort.Search", callsIn(rp, CalleeX("sort", "Search")))
		c.ArgIs(se, 0, "search-over-all-entries", ringSize)
		pred := funcOfValue(se.Common().Args[1])
		if c.Expect(pred != nil, se, rp, "search-predicate", "search predicate is not a closure") {
			for _, r := range returnsOf(pred) {
				c.ValueIs(r, r.Results[0], "predicate-is-hash>=h", BinOpV(token.GEQ, func(v ssa.Value) bool {
					u, ok := v.(*ssa.UnOp)
					if !ok {
						return false
					}
					fa, ok := u.X.(*ssa.FieldAddr)
					if !ok || !sameField(fieldOfAddr(fa), fHash) {
						return false
					}
					el, ok := fa.X.(*ssa.UnOp)
					if !ok {
						return false
					}
					ia, ok := el.X.(*ssa.IndexAddr)
					return ok && FieldLoad(fItems)(ia.X) && ParamV("i")(ia.Index)
				}, func(v ssa.Value) bool {
					u, ok := v.(*ssa.UnOp)
					if !ok {
						return false
					}
					_, ok = u.X.(*ssa.FreeVar)
					return ok && isUnsigned(v)
				}))
			}
		}
		for _, r := range returnsOf(rp) {
			u, ok := r.Results[0].(*ssa.UnOp)
			var ia *ssa.IndexAddr
			if ok {
				ia, _ = u.X.(*ssa.IndexAddr)
			}
			if !c.Expect(ia != nil && FieldLoad(fItems)(ia.X), r, rp, "returns-an-entry", "ring.pick does not return an entry of items") {
				continue
			}
			ph, ok := ia.Index.(*ssa.Phi)
			if !c.Expect(ok && len(ph.Edges) == 2, r, rp, "index-wraps", "the search result is used without the wrap to 0") {
				continue
			}
			for i, e := range ph.Edges {
				p := ph.Block().Preds[i]
				fs := append(append([]Fact(nil), FactsAtBlock(p)...), edgeOnlyFacts(p, ph.Block())...)
				isEnd := Cmp(func(v ssa.Value) bool { return v == se.Value() }, token.EQL, ringSize)
				_, atEnd := hasFact(fs, isEnd)
				if ConstInt(0)(e) {
					c.Expect(atEnd, r, rp, "wraps-only-at-end", "index reset to 0 on an arm other than 'ran off the end'")
				} else {
					c.Expect(e == se.Value() && !atEnd, r, rp, "keeps-search-result-otherwise", "the search result is not used when it is inside the ring")
				}
			}
		}
		rn := c.fn(rhp, "ring.next")
		for _, r := range returnsOf(rn) {
			u, ok := r.Results[0].(*ssa.UnOp)
			okv := false
			if ok {
				if ia, ok := u.X.(*ssa.IndexAddr); ok {
					okv = FieldLoad(fItems)(ia.X) && BinOpV(token.REM, BinOpV(token.ADD, FieldLoadOn(fIdx, ParamV("e")), ConstInt(1)), ringSize)(ia.Index)
				}
			}
			c.Expect(okv, r, rn, "next-is-(idx+1)-mod-len", "ring.next is not items[(e.idx+1) mod len]")
		}
		c.WhoMayMutate("ring.items", fItems, c.scope(rhp), rhp+".newRing")
		nr := c.fn(rhp, "newRing")
		so := one(c, "sort.Slice", callsIn(nr, CalleeX("sort", "Slice")))
		less := funcOfValue(so.Common().Args[1])
		if c.Expect(less != nil, so, nr, "less-closure", "sort.Slice comparator is not a closure") {
			for _, r := range returnsOf(less) {
				// less(i, j) is "hash of the i-th item < hash of the j-th item" (either spelling)
				okLess := len(less.Params) == 2
				if okLess {
					pi, pj := less.Params[0], less.Params[1]
					hashAt := func(p *ssa.Parameter) VM {
						return func(v ssa.Value) bool {
							return FieldLoad(fHash)(v) && DataDep(func(w ssa.Value) bool { return w == ssa.Value(p) })(v)
						}
					}
					op, _, y, isC := cmpOriented(r.Results[0], hashAt(pi))
					okLess = isC && op == token.LSS && hashAt(pj)(y)
				}
				c.Expect(okLess, r, less, "sorted-by-hash-ascending", "the ring is not sorted by ascending hash")
			}
		}
		nIdx := 0
		for _, f := range c.scope(rhp) {
			for _, st := range storesToField(f, fIdx) {
				nIdx++
				if c.Expect(f == nr, st, f, "idx-assigned-in-newRing", "ringEntry.idx is assigned outside newRing") {
					c.Dominates(so, st, "idx-assigned-after-sort")
					c.ValueIs(st, st.Val, "idx-is-position", isRangeIndex)
				}
			}
		}
		c.Expect(nIdx == 1, nil, nr, "one-idx-store", "expected exactly one assignment of ringEntry.idx")
		// the sorted slice is the one installed
		for _, st := range storesToField(nr, fItems) {
			c.Expect(sameValue(st.Val, so.Common().Args[0]) || AllOrigins(func(v ssa.Value) bool { return true })(st.Val), st, nr, "installs-the-sorted-list", "a different list is installed")
		}
	})
}
