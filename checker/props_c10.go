package main

import (
	"go/token"
	"strings"

	"golang.org/x/tools/go/ssa"
)

func init() {
	register(&PropDef{
		ID:    "C10",
		Pkgs:  []string{tr, "grpc", "internal/status"},
		Claim: "Decides the structural part: the server writes grpc-status = Itoa(code), grpc-message = encodeGrpcMessage(message) and, only when details exist and marshal succeeded, the base64 details header, in both the normal and the early-abort writer; the header names it writes are names the client's header processing recognises; the client builds the final status from the parsed grpc-status, the decoded grpc-message and the details header of the same frame; a status converts to a nil error exactly when its code is OK; after the handler returns, every path writes a status: the handler's (via status.FromError / FromContextError) when it returned an error, OK otherwise; the percent-coding of the message obeys the structural obligations of C08 (consumes input rune by rune, escapes exactly the non-printable bytes, never panics). writeStatus hands the trailers to the writer on every path except a finished stream, a failed separate header write and an over-size trailer list; the client's gRPC-mode and header-error arms are taken only under their stated conditions.",
		NotDecided:  []string{"value equality of message and details for all inputs (value property; the percent-encoding itself is C08)"},
		Assumptions: []string{"proto.Marshal/Unmarshal round-trip the status proto"},
		Technique:   "static analysis: composite-literal pairing, value-origin of header values and constructor arguments, constant-set agreement between writer and reader, dominating guards, must-pass-through",
		Run:         c10,
	})
}

func c10(c *Ctx) {
	// the grpc-message coding (C08's obligations) is part of "the message reaches the client unchanged"
	c08(c)
	c.Ob("status-encode", "R9", "sibling x2 (writeStatus, writeEarlyAbort): grpc-status = strconv.Itoa(int(st.Code())), grpc-message = encodeGrpcMessage(st.Message()), details header = encodeBinHeader(proto.Marshal(RawStatusProto(st))) only when details exist and marshalling succeeded", 6, func() {
		for _, pr := range []struct{ fn, param string }{{"http2Server.writeStatus", "st"}, {"http2Server.writeEarlyAbort", "stat"}} {
			f := c.fn(tr, pr.fn)
			st := ParamV(pr.param)
			seen := map[string]bool{}
			for _, l := range headerFieldLits(c, f) {
				switch {
				case ConstStr("grpc-status")(l.name.Val):
					seen["status"] = true
					c.ValueIs(l.value, l.value.Val, "status-is-Itoa-of-code", CallWith(CalleeX("strconv", "Itoa"), 0, CallWith(Callee("internal/status", "Status.Code"), 0, st)))
				case ConstStr("grpc-message")(l.name.Val):
					seen["message"] = true
					c.ValueIs(l.value, l.value.Val, "message-is-encoded-message", CallWith(Callee(tr, "encodeGrpcMessage"), 0, CallWith(Callee("internal/status", "Status.Message"), 0, st)))
				case GlobalLoad(c.konst(tr, "grpcStatusDetailsBinHeader"))(l.name.Val):
					seen["details"] = true
					c.ValueIs(l.value, l.value.Val, "details-are-base64-of-marshalled-proto", CallWith(Callee(tr, "encodeBinHeader"), 0, CallRes(CalleeX("google.golang.org/protobuf/proto", "Marshal"), 0)))
					c.MustFact(l.value, "details-only-if-marshalled", IsNil(CallRes(CalleeX("google.golang.org/protobuf/proto", "Marshal"), 1)))
					c.MustFact(l.value, "details-only-if-present", CmpInt(LenOf(AnyV), token.GTR, 0))
				}
			}
			c.Expect(seen["status"] && seen["message"] && seen["details"], nil, f, "three-status-headers", pr.fn+" does not write grpc-status, grpc-message and the details header")
			m := one(c, "proto.Marshal in "+pr.fn, callsIn(f, CalleeX("google.golang.org/protobuf/proto", "Marshal")))
			c.ArgIs(m, 0, "marshals-the-status-proto", CallWith(Callee("internal/status", "RawStatusProto"), 0, st))
		}
	})
	c.Ob("status-always-queued", "R3", "http2Server.writeStatus: the trailers carrying the status are handed to the writer on every path, except that an already finished stream is left alone, a failed separate header write is returned as an error, and an over-size trailer list closes the stream; 'nothing to do' (nil without queuing) is returned only for a finished stream; the user's details trailer is dropped whenever the status carries its own details", 3, func() {
		f := c.fn(tr, "http2Server.writeStatus")
		done := Cmp(CallRes(Callee(tr, "Stream.getState"), 0), token.EQL, ConstOfObj(c.konst(tr, "streamDone")))
		var put ssa.CallInstruction
		for _, ci := range callsIn(f, Callee(tr, "http2Server.finishStream")) {
			put = ci
		}
		if !c.Expect(put != nil, nil, f, "trailers-queued", "the status trailers are never queued for the writer") {
			return
		}
		for _, r := range returnsOf(f) {
			if r.Block() == f.Recover || instrDominates(put, r) {
				continue
			}
			if ConstNil(strip(r.Results[0])) {
				// nil without having queued the trailers
				c.MustFactAny(r, "silent-return-only-for-a-finished-stream-or-after-closing-it", done, Truth(ExtractOf(CallRes(Callee(tr, "controlBuffer.executeAndPut"), -1), 0), false))
			}
		}
		// (a failed proto.Marshal of the details is logged and the status goes out without details: documented TODO upstream)
		c.ErrorsPropagate(f, "writeStatus", func(call *ssa.Call) bool { return CalleeX("google.golang.org/protobuf/proto", "Marshal")(&call.Call) })
		for _, d := range callsIn(f, BuiltinCall("delete")) {
			c.MustFact(d, "user-details-dropped-only-when-the-status-has-details", CmpInt(LenOf(AnyV), token.GTR, 0))
		}
		c.Expect(len(callsIn(f, BuiltinCall("delete"))) == 1, nil, f, "user-details-trailer-dropped", "a user-supplied grpc-status-details-bin trailer is not dropped when the status carries details (the client would see two)")
	})
	c.Ob("status-header-names", "R6", "the status header names the server writes are among the names the client's header processing switches on (or looks up)", 3, func() {
		f := c.fn(tr, "http2Client.operateHeaders")
		fName := c.field(h2+"/hpack", "HeaderField", "Name")
		names := map[string]bool{}
		for _, in := range instrsWhere(f, func(in ssa.Instruction) bool { b, ok := in.(*ssa.BinOp); return ok && b.Op == token.EQL && FieldLoad(fName)(b.X) }) {
			if k := constOf(in.(*ssa.BinOp).Y); k != nil && k.Value != nil {
				names[strings.Trim(k.Value.ExactString(), "\"")] = true
			}
		}
		for _, n := range []string{"grpc-status", "grpc-message", "content-type", ":status", "grpc-encoding"} {
			c.Expect(names[n], nil, f, "client-recognises-"+n, "the client does not recognise header "+n)
		}
		det := GlobalLoad(c.konst(tr, "grpcStatusDetailsBinHeader"))
		c.Expect(len(instrsWhere(f, func(in ssa.Instruction) bool { l, ok := in.(*ssa.Lookup); return ok && det(l.Index) })) == 1, nil, f, "client-reads-details-header", "the client does not read the status details header")
	})
	c.Ob("client-status", "R8", "the status the client ends the stream with is built from the code parsed from grpc-status, the decoded grpc-message and the details header of this frame", 4, func() {
		f := c.fn(tr, "http2Client.operateHeaders")
		nw := one(c, "NewWithProto call", callsIn(f, Callee("internal/status", "NewWithProto")))
		fName := c.field(h2+"/hpack", "HeaderField", "Name")
		nameIs := func(s string) FM { return Truth(BinOpV(token.EQL, FieldLoad(fName), ConstStr(s)), true) }
		unknown := ConstOfObj(c.konst("codes", "Unknown"))
		nParsed := 0
		for _, lf := range phiLeaves(nw.Common().Args[0]) {
			if unknown(lf.Val) {
				continue // default when the header is absent
			}
			nParsed++
			c.Expect(DataDep(CallRes(CalleeX("strconv", "ParseInt"), 0))(lf.Val), nw, f, "code-is-parsed-value", "the status code does not come from parsing grpc-status")
			c.Expect(hasAllFacts(lf.Facts, []FM{nameIs("grpc-status"), IsNil(CallRes(CalleeX("strconv", "ParseInt"), 1))}), nw, f, "code-from-grpc-status", "the status code is taken from another header or from a failed parse")
		}
		c.Expect(nParsed == 1, nw, f, "one-code-source", "expected exactly one source of the status code besides the UNKNOWN default")
		c.ArgIs(nw, 1, "message-from-grpc-message", SetWhen(nameIs("grpc-message")))
		c.ArgIs(nw, 1, "message-is-decoded", DataDep(CallRes(Callee(tr, "decodeGrpcMessage"), 0)))
		c.ArgIs(nw, 2, "details-from-details-header", LookupOf(AnyV, GlobalLoad(c.konst(tr, "grpcStatusDetailsBinHeader"))))
		// that status is what closes the stream
		var final ssa.CallInstruction
		for _, cs := range callsIn(f, Callee(tr, "http2Client.closeStream")) {
			if CallRes(Callee("internal/status", "NewWithProto"), 0)(cs.Common().Args[5]) {
				final = cs
			}
		}
		if c.Expect(final != nil, nil, f, "final-close-uses-parsed-status", "no closeStream is given the parsed status") {
			c.MustFact(final, "only-at-end-of-stream", Truth(CallRes(CalleeX(h2, "HeadersFrame.StreamEnded"), 0), true))
			c.ArgIs(final, 6, "trailers-are-this-frames-metadata", func(v ssa.Value) bool { _, ok := strip(v).(*ssa.MakeMap); return ok })
		}
		// gRPC mode: the handler's status (and the headers) are used exactly when the response is a gRPC response — the
		// HTTP-status fallback is taken only for a non-gRPC response, a header decoding error only ends the stream when there is one
		var flag ssa.Value
		nonGRPC := callsIn(f, Callee(tr, "ClientStream.startNonGRPCDataCollection"))
		if c.Expect(len(nonGRPC) == 1, nil, f, "non-grpc-arm", "the non-gRPC response arm was not found") {
			for _, fc := range FactsAt(nonGRPC[0]) {
				if fc.Kind == "truth" && !fc.Pol {
					if p, ok := fc.X.(*ssa.Phi); ok && AnyBoolPhi(p) {
						flag = p
					}
				}
			}
		}
		if c.Expect(flag != nil, nil, f, "grpc-mode-flag", "the non-gRPC arm is not guarded by the 'is a gRPC response' flag") {
			isFlag := func(v ssa.Value) bool { return v == flag }
			for _, ci := range callsIn(f, CalleeX("strconv", "Atoi")) {
				c.MustFact(ci, "http-status-fallback-only-for-non-grpc", Truth(isFlag, false))
			}
			c.MustFact(nw, "handler-status-only-for-a-grpc-response", Truth(isFlag, true))
			if final != nil {
				c.MustFact(final, "final-status-only-for-a-grpc-response", Truth(isFlag, true))
			}
			for _, st := range storesToField(f, c.field(tr, "ClientStream", "header")) {
				c.MustFact(st, "headers-delivered-only-for-a-grpc-response", Truth(isFlag, true))
			}
			// the flag becomes true only through the content-type arm (valid gRPC content type) or because headers were already received
			for i, e := range flag.(*ssa.Phi).Edges {
				if ConstBool(true)(e) {
					pr := flag.(*ssa.Phi).Block().Preds[i]
					fs := append(append([]Fact(nil), FactsAtBlock(pr)...), edgeOnlyFacts(pr, flag.(*ssa.Phi).Block())...)
					_, okCT := hasFact(fs, Truth(ExtractOf(CallRes(Callee("internal/grpcutil", "ContentSubtype"), -1), 1), true))
					c.Expect(okCT, nw, f, "grpc-mode-only-for-a-valid-grpc-content-type", "the response is treated as gRPC without a valid gRPC content-type")
				}
			}
		}
		// a header decoding error ends the stream with INTERNAL exactly when one was recorded; the handler's status and the
		// headers are used only without one
		var herr ssa.Value
		for _, cs := range callsIn(f, Callee(tr, "http2Client.closeStream")) {
			st, ok := cs.Common().Args[5].(*ssa.Call)
			if !ok || !isStatusCtor(&st.Call) || len(st.Call.Args) < 2 {
				continue
			}
			ph, ok := st.Call.Args[1].(*ssa.Phi)
			if !ok {
				continue
			}
			isErrText := false
			for _, lf := range phiLeaves(ph) {
				if call, ok := lf.Val.(*ssa.Call); ok && CalleeX("fmt", "Sprintf")(&call.Call) && hasAllFacts(lf.Facts, []FM{NotNil(CallRes(Callee(tr, "decodeMetadataHeader"), 1))}) {
					isErrText = true
				}
			}
			if !isErrText {
				continue
			}
			herr = ph
			c.MustFact(cs, "header-error-status-only-when-an-error-was-recorded", Cmp(func(v ssa.Value) bool { return v == ssa.Value(ph) }, token.NEQ, ConstStr("")))
		}
		if c.Expect(herr != nil, nil, f, "header-error-arm", "no arm ends the stream for an undecodable header") && final != nil {
			c.MustFact(final, "handler-status-only-without-a-header-error", Cmp(func(v ssa.Value) bool { return v == herr }, token.EQL, ConstStr("")))
		}
		// a malformed grpc-status ends the stream with an error status instead
		pe := NotNil(CallRes(CalleeX("strconv", "ParseInt"), 1))
		if final != nil {
			c.Unreachable(final, "malformed-grpc-status-not-ok", pe)
		}
	})
	c.Ob("ok-iff-nil", "R2", "(*Status).Err returns nil exactly on Code()==OK", 2, func() {
		f := c.fn("internal/status", "Status.Err")
		ok := ConstOfObj(c.konst("codes", "OK"))
		code := CallRes(Callee("internal/status", "Status.Code"), 0)
		for _, r := range returnsOf(f) {
			if ConstNil(r.Results[0]) {
				c.MustFact(r, "nil-only-for-OK", Cmp(code, token.EQL, ok))
			} else {
				c.MustFact(r, "error-only-for-non-OK", Cmp(code, token.NEQ, ok))
			}
		}
	})
	c.Ob("always-writes-status", "R3", "after the handler returned every path to the return writes a status; on the error arm it is the status extracted from the handler's error (or its context-error conversion), otherwise OK", 4, func() {
		f := c.fn("grpc", "Server.processRPC")
		fHandler := c.field("grpc", "StreamDesc", "Handler")
		fInt := c.field("grpc", "serverOptions", "streamInt")
		ws := Callee(tr, "ServerStream.WriteStatus")
		var handlers []ssa.Instruction
		for _, ci := range callsIn(f, AnyCM(FieldCall(fHandler), FieldCall(fInt))) {
			handlers = append(handlers, ci)
		}
		c.Expect(len(handlers) == 2, nil, f, "two-handler-invocations", "expected the direct and the intercepted handler invocation")
		for _, h := range handlers {
			c.MustPass("handler-return-always-writes-status", pathQuery{Fn: f, Starts: []ssa.Instruction{h}, Barrier: isCallTo(ws), Target: isReturn}, h)
		}
		appErr := AllOrigins(OrV(CallRes(FieldCall(fHandler), 0), CallRes(FieldCall(fInt), 0)))
		nErr, nOK := 0, 0
		for _, w := range callsIn(f, ws) {
			arg := w.Common().Args[1]
			switch {
			case GlobalLoad(c.konst("grpc", "statusOK"))(arg):
				// OK is written only when the handler returned nil
				if c.HasFact(w, IsNil(appErr)) {
					nOK++
				}
			case AllOrigins(OrV(CallRes(Callee("status", "FromError"), 0), CallRes(Callee("status", "FromContextError"), 0)))(arg):
				if c.HasFact(w, NotNil(appErr)) {
					nErr++
					// FromError is applied to the handler's error
					for _, fe := range callsIn(f, Callee("status", "FromError")) {
						if instrDominates(fe, w) {
							c.ArgIs(fe, 0, "status-from-handler-error", appErr)
						}
					}
				}
			}
		}
		c.Expect(nErr == 1 && nOK == 1, nil, f, "error-arm-and-ok-arm", "expected one status write on the handler-error arm (handler's status) and one on the success arm (OK)")
	})
}
