#!/usr/bin/env python3
"""Regenerates the machine-written tables of DESIGN.md section 12 (between the
BEGIN/END markers) from evidence/*.json and seeded/*/meta.json."""
import json,os,re,glob
H=os.path.dirname(os.path.abspath(__file__))
def ob_table():
    out=[]
    for i in range(1,59):
        pid=f"C{i:02d}"
        p=os.path.join(H,'evidence',pid+'.json')
        if not os.path.exists(p): continue
        e=json.load(open(p))
        cov=e['coverage']
        out.append(f"**{pid}** — {cov['obligations']} obligations, {cov['evaluations']} rule instances ({cov['distinct_nontrivial']} non-trivial) on the last run.\n")
        for o in cov['obligation_list']:
            if 'skipped' in o:
                out.append(f"* `{o['key']}` ({o['rule']}, thorough only): {o['decides']}")
            else:
                out.append(f"* `{o['key']}` ({o['rule']}, ≥{o['min_instances']} instances): {o['decides']}")
        out.append("")
    return "\n".join(out)
def seed_table():
    rows=["| Seed | Property | Change needs, to manifest | Caught by (obligation → label @ function) |","|---|---|---|---|"]
    for d in sorted(glob.glob(os.path.join(H,'seeded','*','meta.json'))):
        m=json.load(open(d))
        needs=m['needs_to_manifest'][:200].replace('|','/').replace('\n',' ')
        cb="; ".join(f"`{c['obligation']}` → {c['label'][:70].replace('|','/')} @ {c['function'].split('/')[-1]}" for c in m['caught_by'][:2]) or "(exit 1)"
        rows.append(f"| {m['seed_id']} | {m['property']} | {needs} | {cb} |")
    return "\n".join(rows)
s=open(os.path.join(H,'DESIGN.md')).read()
for tag,fn in (('OBLIGATIONS',ob_table),('SEEDS',seed_table)):
    b=f"<!-- BEGIN {tag} -->"; e=f"<!-- END {tag} -->"
    if b in s and e in s:
        s=s[:s.index(b)+len(b)]+"\n"+fn()+"\n"+s[s.index(e):]
open(os.path.join(H,'DESIGN.md'),'w').write(s)
print("tables regenerated")
