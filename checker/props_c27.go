package main

import (
	"go/token"

	"golang.org/x/tools/go/ssa"
)

func init() {
	register(&PropDef{
		ID:    "C27",
		Pkgs:  []string{"grpc", tr},
		Claim: "Decides the structural part: on both client stream constructors the announced grpc-encoding is assigned exactly together with the compressor that will be used (call-option name with the registered compressor of that name, failing with INTERNAL if none is registered; else the dial-option compressor's own type), identity announcing no compressor; the compress step uses the registered (named) compressor whenever one is set and the legacy compressor only otherwise, returns the 'compressed' flag only on arms where a compressor ran and never for an empty message or without any compressor; the frame header carries that flag; the server accepts a handler-chosen send compressor only if it is identity or registered and advertised by the client, picks its response compressor by the legacy option or else by the request's encoding, and re-reads the stream's send-compressor name before every send; unsupported request encodings fail with UNIMPLEMENTED on the server and INTERNAL on the client; the decompressor used is the registered compressor named by the peer's grpc-encoding, subject to the client's accepted-compressors restriction.",
		NotDecided:  []string{"the literal 'iff' for empty messages (sent uncompressed by design)", "correctness of the compressors themselves"},
		Assumptions: []string{"encoding.GetCompressor returns the compressor registered under that name"},
		Technique:   "static analysis: dominating guards on go/ssa branch facts, paired stores (header name with compressor), constant-flow of status codes, value-origin",
		Run:         c27,
	})
}

func c27(c *Ctx) {
	getC := Callee("encoding", "GetCompressor")
	c.Ob("encoding-iff-compressor", "R12", "sibling x2 (retrying and non-retrying client stream): SendCompress = call-option name, with compressor = GetCompressor(name) unless identity (nil -> INTERNAL); otherwise SendCompress = dial compressor's Type() with that compressor", 8, func() {
		fSC := c.field(tr, "CallHdr", "SendCompress")
		fName := c.field("grpc", "callInfo", "compressorName")
		fV0 := c.field("grpc", "dialOptions", "compressorV0")
		for _, name := range []string{"newClientStreamWithParams", "newNonRetryClientStream"} {
			f := c.fn("grpc", name)
			sts := storesToField(f, fSC)
			if len(sts) != 2 {
				panic(missingStep{name + ": expected two assignments of SendCompress"})
			}
			nName, nDial := 0, 0
			for _, st := range sts {
				switch {
				case FieldLoad(fName)(st.Val):
					nName++
					c.MustFact(st, "name-only-if-call-option-set", Cmp(FieldLoad(fName), token.NEQ, ConstStr("")))
				case CallWith(Callee("grpc", "Compressor.Type"), 0, FieldLoad(fV0))(st.Val) || CallRes(Callee("grpc", "Compressor.Type"), 0)(st.Val):
					nDial++
					c.MustFact(st, "dial-compressor-only-without-call-option", Cmp(FieldLoad(fName), token.EQL, ConstStr("")))
					c.MustFact(st, "dial-compressor-present", NotNil(FieldLoad(fV0)))
				default:
					c.Expect(false, st, f, "known-encoding-source", "grpc-encoding is announced from an unknown source")
				}
			}
			c.Expect(nName == 1 && nDial == 1, nil, f, "two-sources", "expected the call-option and the dial-option source of grpc-encoding")
			gc := one(c, "GetCompressor in "+name, callsIn(f, getC))
			c.ArgIs(gc, 0, "compressor-looked-up-by-announced-name", FieldLoad(fName))
			c.MustFact(gc, "no-compressor-for-identity", Cmp(FieldLoad(fName), token.NEQ, ConstOfObj(c.konst("encoding", "Identity"))))
			c.statusCodeIn(blocksWhere(f, IsNil(CallRes(getC, 0))), f, "unregistered-compressor->Internal", "Internal")
		}
	})
	c.Ob("encoding-header", "R2", "the client transport announces grpc-encoding exactly when the call header names a compressor, and announces that name", 2, func() {
		f := c.fn(tr, "http2Client.createHeaderFields")
		fSC := c.field(tr, "CallHdr", "SendCompress")
		fN := c.field("golang.org/x/net/http2/hpack", "HeaderField", "Name")
		fV := c.field("golang.org/x/net/http2/hpack", "HeaderField", "Value")
		n := 0
		for _, st := range storesToField(f, fN) {
			if !ConstStr("grpc-encoding")(st.Val) {
				continue
			}
			n++
			c.MustFact(st, "announced-only-with-a-compressor-name", Cmp(FieldLoad(fSC), token.NEQ, ConstStr("")))
			okV := false
			for _, sv := range storesToField(f, fV) {
				if together(sv, st) && FieldLoad(fSC)(sv.Val) && sv.Addr.(*ssa.FieldAddr).X == st.Addr.(*ssa.FieldAddr).X {
					okV = true
				}
			}
			c.Expect(okV, st, f, "announces-the-call-header's-compressor", "grpc-encoding does not carry the call header's compressor name")
			// skipped only when no compressor is named
			if d, other := decidingBranch(st.Block()); c.Expect(d != nil, st, f, "grpc-encoding-conditional", "the grpc-encoding field is not written under a test") {
				c.EnteredOnlyWhenFrom(other, "omitted-only-without-a-compressor-name", d, Cmp(FieldLoad(fSC), token.EQL, ConstStr("")))
			}
		}
		c.Expect(n == 1, nil, f, "one-grpc-encoding-field", "expected exactly one grpc-encoding header field site")
	})
	c.Ob("decoder-named-by-encoding", "R2", "client receive (retrying and non-retrying streams): whenever a registered compressor is looked up by the response's grpc-encoding, the legacy decompressor is cleared in the same step, so the decoder handed to the receive function is the one named by grpc-encoding (the legacy decompressor survives only when its Type() equals the encoding); without compression the legacy decompressor is cleared too", 2, func() {
		for _, d := range []struct{ typ, fn string }{{"csAttempt", "csAttempt.recvMsg"}, {"addrConnStream", "addrConnStream.RecvMsg"}} {
			f := c.fn("grpc", d.fn)
			fV0 := c.field("grpc", d.typ, "decompressorV0")
			fV1 := c.field("grpc", d.typ, "decompressorV1")
			n := 0
			for _, st := range storesToField(f, fV1) {
				if !CallRes(getC, 0)(st.Val) {
					c.Expect(false, st, f, d.typ+":registered-decoder-looked-up-by-name", "the registered decompressor is not the result of a lookup by name")
					continue
				}
				n++
				call := st.Val.(*ssa.Call)
				c.Expect(CallRes(Callee(tr, "ClientStream.RecvCompress"), 0)(call.Call.Args[0]), st, f, d.typ+":looked-up-by-the-response-encoding", "the registered decompressor is not looked up by the response's grpc-encoding")
				cleared := false
				for _, s0 := range storesToField(f, fV0) {
					if ConstNil(s0.Val) && together(s0, st) {
						cleared = true
					}
				}
				c.Expect(cleared, st, f, d.typ+":legacy-decoder-cleared-when-another-is-chosen", "a registered compressor is chosen for the response encoding while the legacy decompressor (of another or no type) stays installed and takes precedence")
			}
			c.Expect(n == 1, nil, f, d.typ+":one-lookup", "expected one lookup of the registered compressor for the response encoding")
		}
	})
	c.Ob("compress-step", "R2", "compress(): nothing is compressed without a compressor or for an empty message; the registered compressor is used whenever set, the legacy one only otherwise; 'compressed' is returned only after a compressor ran; the frame header's first byte is that flag", 7, func() {
		f := c.fn("grpc", "compress")
		named, legacy := ParamV("compressor"), ParamV("cp")
		nc := one(c, "named compressor Compress call", callsIn(f, Callee("encoding", "Compressor.Compress")))
		c.MustFact(nc, "named-compressor-when-set", NotNil(named))
		lc := one(c, "legacy compressor Do call", callsIn(f, Callee("grpc", "Compressor.Do")))
		c.MustFact(lc, "legacy-only-without-named", IsNil(named))
		made := ConstOfObj(c.konst("grpc", "compressionMade"))
		n := 0
		for _, r := range returnsOf(f) {
			if r.Block() == f.Recover || !made(strip(r.Results[1])) {
				continue
			}
			n++
			c.Unreachable(r, "no-flag-without-compressor", IsNil(named), IsNil(legacy))
			c.Unreachable(r, "no-flag-for-empty-message", CmpInt(CallRes(Callee("mem", "BufferSlice.Len"), 0), token.EQL, 0))
			q := pathQuery{Fn: f, AtEntry: true, Barrier: orInstr(func(in ssa.Instruction) bool { return in == ssa.Instruction(nc) }, func(in ssa.Instruction) bool { return in == ssa.Instruction(lc) }), Target: func(in ssa.Instruction) bool { return in == ssa.Instruction(r) }}
			c.MustPass("flag-only-after-compressing", q, r)
		}
		c.Expect(n == 1, nil, f, "one-compressed-return", "expected exactly one 'compressed' return")
		mh := c.fn("grpc", "msgHeader")
		okFlag := false
		for _, in := range instrsWhere(mh, func(in ssa.Instruction) bool { _, ok := in.(*ssa.Store); return ok }) {
			st := in.(*ssa.Store)
			if ia, ok := st.Addr.(*ssa.IndexAddr); ok && ConstInt(0)(ia.Index) && ParamV("pf")(stripConv(st.Val)) {
				okFlag = true
			}
		}
		c.Expect(okFlag, nil, mh, "header-byte-0-is-flag", "the frame header's first byte is not the compression flag")
		pm := c.fn("grpc", "prepareMsg")
		cc := one(c, "compress call in prepareMsg", callsIn(pm, Callee("grpc", "compress")))
		c.ArgIs(cc, 1, "legacy-compressor-forwarded", ParamV("cp"))
		c.ArgIs(cc, 2, "named-compressor-forwarded", ParamV("comp"))
	})
	c.Ob("server-send-compressor", "R2", "SetSendCompressor forwards a name to the stream only after validation succeeded; validation accepts identity, or a registered name that the client advertised; the server re-reads the stream's send compressor before every send and looks the compressor up by that name", 6, func() {
		f := c.fn("grpc", "SetSendCompressor")
		fw := one(c, "stream.SetSendCompress", callsIn(f, Callee(tr, "ServerStream.SetSendCompress")))
		c.MustFact(fw, "validated", IsNil(CallRes(Callee("grpc", "validateSendCompressor"), 0)))
		c.ArgIs(fw, 1, "validated-name-forwarded", ParamV("name"))
		v := c.fn("grpc", "validateSendCompressor")
		for _, r := range returnsOf(v) {
			if !ConstNil(r.Results[0]) {
				continue
			}
			if c.HasFact(r, Cmp(ParamV("name"), token.EQL, ConstOfObj(c.konst("encoding", "Identity")))) {
				continue
			}
			c.MustFact(r, "accepted-only-if-registered", Truth(CallRes(Callee("internal/grpcutil", "IsCompressorNameRegistered"), 0), true))
			c.MustFact(r, "accepted-only-if-advertised", Cmp(AnyV, token.EQL, ParamV("name")))
		}
		sm := c.fn("grpc", "serverStream.SendMsg")
		g := one(c, "GetCompressor in serverStream.SendMsg", callsIn(sm, getC))
		c.ArgIs(g, 0, "compressor-of-current-send-encoding", CallRes(Callee(tr, "ServerStream.SendCompress"), 0))
		pr := c.fn("grpc", "Server.processRPC")
		fCp := c.field("grpc", "serverOptions", "cp")
		for _, st := range storesToField(pr, c.field("grpc", "serverStream", "compressorV0")) {
			c.ValueIs(st, st.Val, "legacy-compressor-from-options", FieldLoad(fCp))
		}
		for _, st := range storesToField(pr, c.field("grpc", "serverStream", "compressorV1")) {
			c.ValueIs(st, st.Val, "response-compressor-by-request-encoding", CallWith(getC, 0, CallRes(AnyCM(Callee(tr, "Stream.RecvCompress"), Callee(tr, "ServerStream.RecvCompress")), 0)))
			c.MustFact(st, "only-without-legacy-compressor", IsNil(FieldLoad(fCp)))
		}
	})
	c.Ob("unsupported", "R7", "unsupported / inconsistent encodings: compressed flag without a usable decompressor -> UNIMPLEMENTED on the server, INTERNAL on the client; request encoding without registered compressor -> UNIMPLEMENTED; response encoding not allowed by AcceptCompressors -> INTERNAL", 5, func() {
		f := c.fn("grpc", "checkRecvPayload")
		made := ConstOfObj(c.konst("grpc", "compressionMade"))
		isMade := Cmp(ParamV("pf"), token.EQL, made)
		c.statusCodeIn(blocksWhere(f, isMade, Truth(ParamV("haveCompressor"), false), Truth(ParamV("isServer"), true)), f, "server:no-decompressor->Unimplemented", "Unimplemented")
		c.statusCodeIn(blocksWhere(f, isMade, Truth(ParamV("haveCompressor"), false), Truth(ParamV("isServer"), false)), f, "client:no-decompressor->Internal", "Internal")
		c.statusCodeIn(blocksWhere(f, isMade, Cmp(ParamV("recvCompress"), token.EQL, ConstStr(""))), f, "flag-with-empty-encoding->Internal", "Internal")
		pr := c.fn("grpc", "Server.processRPC")
		c.statusCodeIn(blocksWhere(pr, IsNil(FieldLoad(c.field("grpc", "serverStream", "decompressorV1")))), pr, "request-encoding-unregistered->Unimplemented", "Unimplemented")
		for _, name := range []string{"csAttempt.recvMsg", "addrConnStream.RecvMsg"} {
			g := c.fn("grpc", name)
			c.statusCodeIn(blocksWhere(g, Truth(CallRes(Callee("grpc", "acceptedCompressorAllows"), 0), false)), g, name+":encoding-not-accepted->Internal", "Internal")
			gc := one(c, "GetCompressor in "+name, callsIn(g, getC))
			c.ArgIs(gc, 0, name+":decompressor-by-peer-encoding", CallRes(Callee(tr, "ClientStream.RecvCompress"), 0))
		}
	})
}
