#!/bin/bash
# usage: mt.sh Cnn file  (reads pairs old|||new from stdin, one per line)
ID=$1; F=$2
while IFS= read -r line; do
  old="${line%%|||*}"; new="${line##*|||}"
  /verif/selftest_mut.sh $ID $F "$old" "$new" > /tmp/o_mt 2>&1
  v=$(grep -c 'VIOLATION\|BROKEN' /tmp/o_mt); e=$(grep -o 'exit=[0-9]*' /tmp/o_mt); m=$(grep 'MUT:' /tmp/o_mt)
  echo "[$v $e $m] $old -> $new :: $(grep -m1 -A1 'VIOLATION\|BROKEN' /tmp/o_mt | tail -1 | cut -c1-220)"
done
