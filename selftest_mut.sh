#!/bin/bash
# dev aid: ./selftest_mut.sh <Cnn> <file> <python-regex-old> <new>   — apply one textual edit to a scratch worktree, run the check there, revert.
# Not part of any registered check (checks always analyse /repo).
set -u
MUT=${MUT:-/tmp/mut}
trap "git -C $MUT checkout -q -- . 2>/dev/null" EXIT PIPE
[ -d "$MUT" ] || git -C /repo worktree add --detach "$MUT" HEAD >/dev/null 2>&1
ID=$1; FILE=$2; OLD=$3; NEW=$4
python3 - "$MUT/$FILE" "$OLD" "$NEW" <<'PY' || exit 3
import sys,re
p,old,new=sys.argv[1:4]
s=open(p).read()
if old not in s: print("MUT: pattern not found"); sys.exit(1)
if s.count(old)!=1: print("MUT: pattern occurs",s.count(old),"times"); sys.exit(1)
open(p,'w').write(s.replace(old,new))
PY
(cd $MUT && PATH=/opt/veriftools/go1.26.8/bin:$PATH GOTOOLCHAIN=local GOFLAGS=-mod=mod GOPROXY=off go build ./$(dirname $FILE)/ 2>&1 | head -5)
VERIF_REPO=$MUT /verif/run.sh $ID ${TIER:-quick} | sed "s#^#  #" | cut -c1-400
echo "  exit=${PIPESTATUS[0]}"
git -C $MUT checkout -- . 
