package main

import (
	"go/token"

	"golang.org/x/tools/go/ssa"
)

const tr = "internal/transport"
const h2 = "golang.org/x/net/http2"

func init() {
	register(&PropDef{
		ID:    "C12",
		Pkgs:  []string{tr},
		Claim: "Decides the structural part: every documented reason to refuse a request is a guard that dominates the single hand-off of a new stream to the application (the handle(s) call in the server's header processing) and the registration of the stream in the active set; the refusing arms carry the documented reset codes. It does not decide run-time behaviour of golang.org/x/net/http2. Server frame handlers dereference a looked-up stream only where the lookup succeeded and call the tap hook only when one is installed.",
		NotDecided:  []string{"absence of crashes inside golang.org/x/net/http2 (outside the module)", "that the refusing arms emit exactly the right frames on the wire for every input", "hang-freedom of the server under hostile frame sequences"},
		Assumptions: []string{"frame parsing by golang.org/x/net/http2 is correct", "no unsafe/reflect writes to the guarded fields"},
		Technique:   "static analysis: must-hold branch facts (dominating guards) over go/ssa, refusing-arm unreachability, who-may-write, must-lockset",
		Run:         c12,
	})
}

// serverHeaderGuards lists the refusal reasons as facts that must hold at the
// hand-off. Shared with C14/C22/C26 where relevant.
func serverHeaderGuards(c *Ctx) []namedFM {
	fTrunc := c.field(h2, "MetaHeadersFrame", "Truncated")
	fMaxID := c.field(tr, "http2Server", "maxStreamID")
	fState := c.field(tr, "http2Server", "state")
	fActive := c.field(tr, "http2Server", "activeStreams")
	fMaxStreams := c.field(tr, "http2Server", "maxStreams")
	reachable := c.konst(tr, "reachable")
	hfName := c.field(h2+"/hpack", "HeaderField", "Name")
	nameIs := func(s string) VM { return BinOpV(token.EQL, FieldLoad(hfName), ConstStr(s)) }
	return []namedFM{
		{"not-truncated", Truth(FieldLoad(fTrunc), false)},
		{"odd-stream-id", Cmp(BinOpV(token.REM, AnyV, ConstInt(2)), token.EQL, ConstInt(1))},
		{"stream-id-increases", Cmp(AnyV, token.GTR, FieldLoad(fMaxID))},
		{"single-authority", CmpInt(LenOf(LookupOf(AnyV, ConstStr(":authority"))), token.LEQ, 1)},
		{"single-host", CmpInt(LenOf(LookupOf(AnyV, ConstStr("host"))), token.LEQ, 1)},
		{"no-connection-header", Truth(flagOn(nameIs("connection")), false)},
		{"valid-content-type", Truth(flagOn(CallRes(Callee("internal/grpcutil", "ContentSubtype"), 1)), true)},
		{"header-errors-refuse", IsNil(FlagSet(
			FlagRule{Src: CallRes(Callee(tr, "decodeTimeout"), 1), When: NotNil(CallRes(Callee(tr, "decodeTimeout"), 1)), Unless: IsNil(CallRes(Callee(tr, "decodeTimeout"), 1))},
			FlagRule{Src: CallRes(Callee(tr, "decodeMetadataHeader"), 1), When: NotNil(CallRes(Callee(tr, "decodeMetadataHeader"), 1)), Unless: IsNil(CallRes(Callee(tr, "decodeMetadataHeader"), 1))},
		))},
		{"transport-reachable", Cmp(FieldLoad(fState), token.EQL, ConstOfObj(reachable))},
		{"below-max-streams", Cmp(LenOf(FieldLoad(fActive)), token.LSS, FieldLoad(fMaxStreams))},
		{"method-is-post", Cmp(flagOn(nameIs(":method")), token.EQL, ConstStr("POST"))},
		{"context-alive", IsNil(CallRes(CalleeX("context", "Context.Err"), 0))},
	}
}

func c12(c *Ctx) {
	var oh *ssa.Function
	var handle ssa.CallInstruction
	c.Ob("handle-site", "R1", "the application hand-off handle(s) is invoked exactly once, directly in server header processing", 1, func() {
		oh = c.fn(tr, "http2Server.operateHeaders")
		sites := callsInTree(oh, ValueCall(ParamV("handle")))
		for _, s := range sites {
			c.inst(c.siteStr(s))
		}
		handle = one(c, "call of parameter handle in operateHeaders", sites)
		c.Expect(handle.Parent() == oh, handle, oh, "handle-direct", "handle is invoked from a nested closure, not from operateHeaders itself")
	})
	if handle == nil {
		return
	}
	var register ssa.Instruction
	c.Ob("handle-guards", "R2", "each refusal reason (truncated header list, even/non-increasing stream id, duplicate :authority/host, connection header, bad content-type, undecodable grpc-timeout or binary metadata, transport not reachable, MAX_CONCURRENT_STREAMS reached, method not POST, expired context) is a guard dominating handle(s) with the accepting polarity", 12, func() {
		for _, g := range serverHeaderGuards(c) {
			c.MustFact(handle, g.Label, g.FM)
		}
	})
	c.Ob("register-guards", "R2", "the same guards dominate the insertion of the stream into the active-stream set, which happens with the transport mutex held", 13, func() {
		fActive := c.field(tr, "http2Server", "activeStreams")
		var ups []ssa.Instruction
		for _, m := range mutationsOf(oh, fActive) {
			if m.Kind == "mapupdate" {
				ups = append(ups, m.Instr)
			}
		}
		register = one(c, "insertion into activeStreams in operateHeaders", ups)
		for _, g := range serverHeaderGuards(c) {
			c.MustFact(register, g.Label, g.FM)
		}
		ls := locksets(oh, lockOpts{})
		mu := c.field(tr, "http2Server", "mu")
		c.Expect(ls[register][mu], register, oh, "register-under-mu", "activeStreams insertion without t.mu held")
		c.Dominates(register, handle, "register-before-handle")
	})
	c.Ob("lookups-checked", "R10", "server frame handlers dereference a looked-up stream only where the lookup succeeded, and call the optional tap hook only when one is installed (the reader goroutine has no recover)", 4, func() {
		n := 0
		for _, name := range []string{"handleData", "handleRSTStream", "handleWindowUpdate", "operateHeaders"} {
			n += c.OkCheckedUse(c.fn(tr, "http2Server."+name), Callee(tr, "http2Server.getStream"), name+":unknown-stream-not-dereferenced")
		}
		c.Expect(n >= 4, nil, nil, "stream-lookup-uses", "fewer dereferencing uses of looked-up streams than on the reviewed tree")
		oh := c.fn(tr, "http2Server.operateHeaders")
		fTap := c.field(tr, "http2Server", "inTapHandle")
		for _, ci := range callsIn(oh, FieldCall(fTap)) {
			c.MustFact(ci, "tap-hook-called-only-when-installed", NotNil(FieldLoad(fTap)))
		}
	})
	c.Ob("tap-refusal", "R2", "a non-nil error from the InTapHandle hook makes the hand-off unreachable", 1, func() {
		fTap := c.field(tr, "http2Server", "inTapHandle")
		c.Unreachable(handle, "tap-error-refuses", NotNil(CallRes(ValueCall(FieldLoad(fTap)), 1)))
	})
	c.Ob("refusal-codes", "R7", "the refusing arms reset the stream with the documented HTTP/2 codes: MAX_CONCURRENT_STREAMS -> REFUSED_STREAM, connection header -> PROTOCOL_ERROR, truncated header list -> FRAME_SIZE_ERROR", 3, func() {
		fCode := c.field(tr, "cleanupStream", "rstCode")
		fActive := c.field(tr, "http2Server", "activeStreams")
		fMaxStreams := c.field(tr, "http2Server", "maxStreams")
		fTrunc := c.field(h2, "MetaHeadersFrame", "Truncated")
		hfName := c.field(h2+"/hpack", "HeaderField", "Name")
		type arm struct {
			label string
			when  FM
			code  string
		}
		arms := []arm{
			{"max-streams->REFUSED_STREAM", Cmp(LenOf(FieldLoad(fActive)), token.GEQ, FieldLoad(fMaxStreams)), "ErrCodeRefusedStream"},
			{"connection-header->PROTOCOL_ERROR", Truth(flagOn(BinOpV(token.EQL, FieldLoad(hfName), ConstStr("connection"))), true), "ErrCodeProtocol"},
			{"truncated->FRAME_SIZE_ERROR", Truth(FieldLoad(fTrunc), true), "ErrCodeFrameSize"},
		}
		for _, a := range arms {
			want := ConstOfObj(c.konst(h2, a.code))
			found := false
			for _, b := range blocksWhere(oh, a.when) {
				for _, in := range b.Instrs {
					if st, ok := in.(*ssa.Store); ok && FieldAddrOf(fCode)(st.Addr) {
						found = true
						c.ValueIs(st, st.Val, a.label, want)
					}
				}
			}
			c.Expect(found, nil, oh, a.label, "no stream reset is built on the refusing arm")
		}
	})
	c.Ob("maxStreamID-writers", "R1", "the highest-seen stream id is written only in server header processing (after the id checks), and the whole function runs under maxStreamMu", 1, func() {
		fMaxID := c.field(tr, "http2Server", "maxStreamID")
		muts := c.WhoMayMutate("maxStreamID", fMaxID, c.scope(tr), "internal/transport.http2Server.operateHeaders")
		mmu := c.field(tr, "http2Server", "maxStreamMu")
		ls := locksets(oh, lockOpts{})
		for _, m := range muts {
			if m.Instr.Parent() != oh {
				continue
			}
			c.Expect(ls[m.Instr][mmu], m.Instr, oh, "maxStreamID-under-lock", "maxStreamID written without maxStreamMu")
			c.MustFact(m.Instr, "stream-id-increases", Cmp(AnyV, token.GTR, FieldLoad(fMaxID)))
			c.MustFact(m.Instr, "odd-stream-id", Cmp(BinOpV(token.REM, AnyV, ConstInt(2)), token.EQL, ConstInt(1)))
		}
		c.Expect(ls[handle][mmu], handle, oh, "handle-under-maxStreamMu", "hand-off happens outside maxStreamMu (GOAWAY last-stream-id could miss it)")
		// every legal, non-truncated HEADERS advances the high-water mark, also when the
		// request is then refused: otherwise a later stream could reuse a lower or equal id
		fTrunc := c.field(h2, "MetaHeadersFrame", "Truncated")
		isMaxStore := func(in ssa.Instruction) bool {
			st, ok := in.(*ssa.Store)
			return ok && FieldAddrOf(fMaxID)(st.Addr)
		}
		isNilReturn := func(in ssa.Instruction) bool {
			r, ok := in.(*ssa.Return)
			return ok && r.Block() != oh.Recover && !provablyNonNil(r.Results[0], r, 0)
		}
		q := pathQuery{Fn: oh, AtEntry: true, Barrier: isMaxStore, Target: isNilReturn,
			EdgeBlock: func(from, to *ssa.BasicBlock) bool {
				_, ok := hasFact(edgeFacts(from, to), Truth(FieldLoad(fTrunc), true))
				return ok
			}}
		c.MustPass("id-recorded-before-any-refusal", q, nil)
	})
	c.Ob("illegal-id-is-connection-error", "R7", "an illegal stream id makes header processing return a non-nil error (the reader turns it into GOAWAY PROTOCOL_ERROR)", 1, func() {
		fMaxID := c.field(tr, "http2Server", "maxStreamID")
		fTrunc := c.field(h2, "MetaHeadersFrame", "Truncated")
		n := 0
		for _, r := range successReturns(oh, 0) {
			if r.Block() == oh.Recover {
				continue
			}
			n++
			fs := FactsAt(r)
			_, tr1 := hasFact(fs, Truth(FieldLoad(fTrunc), true))
			_, odd := hasFact(fs, Cmp(BinOpV(token.REM, AnyV, ConstInt(2)), token.EQL, ConstInt(1)))
			_, inc := hasFact(fs, Cmp(AnyV, token.GTR, FieldLoad(fMaxID)))
			c.Expect(tr1 || (odd && inc), r, oh, "nil-return-implies-legal-id", "a nil-error return is reachable with an even or non-increasing stream id")
		}
		c.Expect(n > 0, nil, oh, "has-success-returns", "no success return found")
	})
}

// flagOn: a flag variable that is set exactly on the true arm of a boolean
// value matching cond (set only there, and never left unset once cond is true).
func flagOn(cond VM) VM {
	return FlagSet(FlagRule{Src: cond, When: Truth(cond, true), Unless: Truth(cond, false)})
}
