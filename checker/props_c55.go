package main

import (
	"fmt"
	"go/token"
	"strings"

	"golang.org/x/tools/go/ssa"
)

const bl = "internal/binarylog"
const blpb = "binarylog/grpc_binarylog_v1"

func init() {
	register(&PropDef{
		ID:    "C55",
		Pkgs:  []string{bl},
		Claim: "Decides the structural part: binary-log metadata entries are created in one place, only for keys the omit predicate rejects; the omit predicate covers the documented set (lb-token, :path, :authority, content-type, user-agent, te, and every grpc- key except grpc-trace-bin); metadata truncation does not charge grpc-trace-bin against the limit, keeps every grpc-trace-bin entry of the dropped tail, and reports 'truncated' exactly when fewer entries are kept than there were; message truncation cuts to the limit exactly when the message is longer and reports it; every payload kind that carries metadata or a message stores the truncation result in the entry. The fitting-prefix loop of the metadata truncation stops only at an entry strictly larger than the remaining limit (an exempt key never ends it).",
		NotDecided:  []string{"'longest prefix' as a value property over arbitrary maps (the entry order itself comes from Go map iteration)"},
		Assumptions: []string{"proto getters return the stored fields"},
		Technique:   "static analysis: who-may-construct, dominating guards on go/ssa branch facts, constant-set extraction, value-origin of the stored slice",
		Run:         c55,
	})
}

func c55(c *Ctx) {
	fKey := c.field(blpb, "MetadataEntry", "Key")
	traceBin := ConstStr("grpc-trace-bin")
	c.Ob("omit", "R2", "metadata entries are built only in the metadata conversion, only when the omit predicate is false for the key; the predicate omits the documented keys and the grpc- prefix except grpc-trace-bin", 10, func() {
		f := c.fn(bl, "mdToMetadataProto")
		n := 0
		for _, fn := range c.scope(bl) {
			for _, st := range storesToField(fn, fKey) {
				n++
				c.inst("MetadataEntry literal <- " + c.siteStr(st))
				if fn != f {
					c.violate(st, fn, "entry-built-elsewhere", "a binary-log metadata entry is constructed outside the conversion that applies the omit predicate", nil)
					continue
				}
				c.MustFact(st, "only-loggable-keys", Truth(CallRes(Callee(bl, "metadataKeyOmit"), 0), false))
				omit := one(c, "metadataKeyOmit call", callsIn(f, Callee(bl, "metadataKeyOmit")))
				c.Expect(sameValue(omit.Common().Args[0], st.Val), st, f, "predicate-applied-to-the-entry-key", "the omit predicate is applied to a different key than the entry's")
			}
		}
		c.Expect(n == 1, nil, f, "one-construction-site", "expected exactly one construction site of metadata entries")
		o := c.fn(bl, "metadataKeyOmit")
		omitted := switchStringSet(o, true)
		for _, must := range []string{"lb-token", ":path", ":authority", "content-type", "user-agent", "te"} {
			found := false
			for _, g := range omitted {
				if g == must {
					found = true
				}
			}
			c.Expect(found, nil, o, "omits-"+must, must+" is not omitted from binary logs")
		}
		kept := switchStringSet(o, false)
		c.Expect(strings.Join(kept, ",") == "grpc-trace-bin", nil, o, "only-trace-bin-explicitly-kept", "explicitly kept keys are "+strings.Join(kept, ","))
		hp := one(c, "HasPrefix in the omit predicate", callsIn(o, CalleeX("strings", "HasPrefix")))
		c.ArgIs(hp, 1, "grpc-prefix-omitted", ConstStr("grpc-"))
		c.ArgIs(hp, 0, "prefix-of-the-key", ParamV("key"))
		// the grpc- prefix rule must not swallow grpc-trace-bin: the prefix test is unreachable for it
		c.Unreachable(hp, "trace-bin-escapes-prefix-rule", Cmp(ParamV("key"), token.EQL, traceBin))
	})
	c.Ob("metadata-truncation", "R3", "truncateMetadata: grpc-trace-bin is not charged against the limit; entries are dropped from the first one that does not fit; grpc-trace-bin entries of the dropped tail are kept; 'truncated' is reported exactly when fewer entries are kept than existed; no truncation at all for the unlimited setting", 6, func() {
		f := c.fn(bl, "TruncatingMethodLogger.truncateMetadata")
		fEntry := c.field(blpb, "Metadata", "Entry")
		isTrace := Cmp(FieldLoad(fKey), token.EQL, traceBin)
		notTrace := Cmp(FieldLoad(fKey), token.NEQ, traceBin)
		// the size accounting (bytesLimit -= len) happens only for non-exempt entries
		n := 0
		for _, in := range instrsWhere(f, func(in ssa.Instruction) bool {
			b, ok := in.(*ssa.BinOp)
			return ok && b.Op == token.SUB && DataDep(FieldLoad(c.field(bl, "TruncatingMethodLogger", "headerMaxLen")))(b.X)
		}) {
			n++
			c.MustFact(in, "exempt-key-not-charged", notTrace)
		}
		c.Expect(n == 1, nil, f, "one-accounting-site", "expected one size-accounting subtraction")
		// the stored result contains appended exempt entries
		st := one(c, "store of the kept entries", storesToField(f, fEntry))
		exemptKept := false
		for _, in := range instrsWhere(f, func(in ssa.Instruction) bool {
			call, ok := in.(*ssa.Call)
			return ok && BuiltinCall("append")(&call.Call)
		}) {
			if c.HasFact(in, isTrace) && DataDep(func(v ssa.Value) bool { return v == in.(ssa.Value) })(st.Val) {
				exemptKept = true
			}
		}
		c.Expect(exemptKept, st, f, "exempt-entries-of-dropped-tail-kept", "grpc-trace-bin entries located after the first over-limit entry are dropped (the kept list is only a prefix)")
		c.Expect(DataDep(func(v ssa.Value) bool { s, ok := v.(*ssa.Slice); return ok && FieldLoad(fEntry)(s.X) && s.Low == nil })(st.Val), st, f, "kept-starts-with-fitting-prefix", "the kept list does not start with the fitting prefix of the entries")
		// the fitting-prefix loop: it stops early only at an entry strictly larger than what is left of the limit
		var header *ssa.BasicBlock
		for _, b := range f.Blocks {
			if i, ok := b.Instrs[len(b.Instrs)-1].(*ssa.If); ok {
				if bo, ok := i.Cond.(*ssa.BinOp); ok {
					x, y, op := bo.X, bo.Y, bo.Op
					if op == token.GTR { // len(entries) > index
						x, y, op = y, x, token.LSS
					}
					if _, isPhi := x.(*ssa.Phi); isPhi && op == token.LSS && LenOf(FieldLoad(fEntry))(y) && isLoopHeader(b) {
						header = b
					}
				}
			}
		}
		if c.Expect(header != nil, st, f, "prefix-loop", "no loop 'index < len(entries)' computing the fitting prefix") {
			nb := 0
			body, done := header.Succs[0], header.Succs[1]
			for _, p := range done.Preds {
				if p == header || !(p == body || body.Dominates(p)) {
					continue
				}
				nb++
				okEdge := false
				for _, fs := range incomingFacts(p, done) {
					for _, fc := range fs {
						if fc.Kind != "cmp" {
							continue
						}
						x, y, op := fc.X, fc.Y, fc.Op
						if op == token.LSS {
							x, y, op = y, x, token.GTR
						}
						// entry size > remaining limit, exactly
						if op == token.GTR && DataDep(LenOf(AnyV))(x) && DataDep(FieldLoad(c.field(bl, "TruncatingMethodLogger", "headerMaxLen")))(y) {
							okEdge = true
						}
					}
				}
				c.Expect(okEdge, p.Instrs[len(p.Instrs)-1], f, "prefix-stops-only-at-first-entry-that-does-not-fit", "the fitting-prefix loop is left on an edge that is not 'entry size > remaining limit' (an entry that fits exactly must be kept; an exempt key never ends the prefix)")
			}
			nb = len(breakArms(header))
			c.Expect(nb == 1, st, f, "one-prefix-stop", fmt.Sprintf("expected exactly one early exit from the fitting-prefix loop, found %d", nb))
		}
		// truncated flag
		for _, r := range returnsOf(f) {
			if r.Block() == f.Recover {
				continue
			}
			v := strip(r.Results[0])
			if ConstBool(false)(v) {
				c.MustFact(r, "no-truncation-only-for-unlimited", Cmp(FieldLoad(c.field(bl, "TruncatingMethodLogger", "headerMaxLen")), token.EQL, AnyConst))
				continue
			}
			// kept < len(entries), in either spelling
			op, _, _, ok := cmpOriented(v, func(w ssa.Value) bool { return LenOf(FieldLoad(fEntry))(w) || DataDep(LenOf(FieldLoad(fEntry)))(w) })
			c.Expect(ok && op == token.GTR, r, f, "truncated-iff-fewer-kept", "the truncated flag is not 'kept fewer entries than existed'")
		}
	})
	c.Ob("message-truncation", "R2", "truncateMessage: the data is cut to the message limit exactly when it is longer, and only then reported truncated; Build stores the truncation verdict for client headers, server headers and messages", 4, func() {
		f := c.fn(bl, "TruncatingMethodLogger.truncateMessage")
		fData := c.field(blpb, "Message", "Data")
		fMax := c.field(bl, "TruncatingMethodLogger", "messageMaxLen")
		st := one(c, "reslice of message data", storesToField(f, fData))
		c.ValueIs(st, st.Val, "cut-to-limit", SliceOf(FieldLoad(fData), nil, FieldLoad(fMax)))
		c.MustFact(st, "cut-only-if-longer", Cmp(FieldLoad(fMax), token.LSS, func(v ssa.Value) bool { return LenOf(FieldLoad(fData))(stripConv(v)) }))
		for _, r := range returnsOf(f) {
			if ConstBool(true)(r.Results[0]) {
				c.Expect(instrDominates(st, r), r, f, "true-only-after-cut", "truncated is reported without cutting")
			}
		}
		b := c.fn(bl, "TruncatingMethodLogger.Build")
		fTr := c.field(blpb, "GrpcLogEntry", "PayloadTruncated")
		nMD, nMsg := 0, 0
		for _, s := range storesToField(b, fTr) {
			switch {
			case CallRes(Callee(bl, "TruncatingMethodLogger.truncateMetadata"), 0)(s.Val):
				nMD++
			case CallRes(Callee(bl, "TruncatingMethodLogger.truncateMessage"), 0)(s.Val):
				nMsg++
			default:
				c.Expect(false, s, b, "flag-from-truncation", "PayloadTruncated is not the verdict of a truncation function")
			}
		}
		c.Expect(nMD == 2 && nMsg == 1, nil, b, "three-payload-kinds", "expected truncation of client header, server header and message payloads")
	})
}
