package main

import (
	"go/token"
	"go/types"

	"golang.org/x/tools/go/ssa"
)

func init() {
	register(&PropDef{
		ID:    "C13",
		Pkgs:  []string{tr},
		Claim: "Decides the structural part: the client's stream-quota state (quota, waiter count, limit, wake-up channel) is touched only inside closures that are handed to the control buffer's locked executor (or the constructor); a stream id is assigned only after the quota was tested positive and decremented, with the transport mutex held, the transport not draining/closed, and the id taken from the odd, +2 counter after which the counter advances; the quota is changed only by -1 (admission), +1 (stream end, once per stream) and +(new limit - old limit) without clamping; every closure that can raise the quota wakes waiters. handleSettings ignores only an ACK, applies the frame's MAX_CONCURRENT_STREAMS value, substitutes 'unlimited' only for a first SETTINGS frame without one, and schedules the quota update whenever a limit is present.",
		NotDecided:  []string{"the count of open streams over all histories of SETTINGS changes and stream ends (ledger arithmetic)", "sufficiency of the one-slot wake-up channel under all interleavings"},
		Assumptions: []string{"controlBuffer.executeAndPut runs its callback under the control buffer mutex (decided under C16)"},
		Technique:   "static analysis: closure-confinement (who-may-access through closures passed to the locked executor), dominating guards on go/ssa branch facts, must-lockset, stored-value shape check, once-only guard",
		Run:         c13,
	})
}

func c13(c *Ctx) {
	hc := func(f string) *types.Var { return c.field(tr, "http2Client", f) }
	fQuota, fWait, fMax, fAvail, fNext := hc("streamQuota"), hc("waitingStreams"), hc("maxConcurrentStreams"), hc("streamsQuotaAvailable"), hc("nextID")
	mu := hc("mu")
	exec := Callee(tr, "controlBuffer.executeAndPut")
	quotaFields := []*types.Var{fQuota, fWait, fMax, fAvail}
	touches := func(f *ssa.Function) bool {
		for _, fv := range quotaFields {
			if len(fieldAddrsOf(f, fv)) > 0 {
				return true
			}
		}
		return false
	}
	var quotaClosures []*ssa.Function
	c.Ob("quota-confinement", "R4", "quota, waiter count, limit and wake-up channel are accessed only in the constructor and in closures of NewStream/closeStream/handleSettings that reach the locked executor (passed to it directly, or invoked only from a closure passed to it); the enclosing functions never invoke them directly", 3, func() {
		allowedParents := map[string]bool{"internal/transport.http2Client.NewStream": true, "internal/transport.http2Client.closeStream": true, "internal/transport.http2Client.handleSettings": true}
		ww := wakeWrappers(c, tr, fAvail)
		for _, f := range c.scope(tr) {
			if !touches(f) {
				continue
			}
			if ww[f] {
				continue // a wake-up wrapper: judged by who calls it (below)
			}
			c.inst("quota state accessed in " + shortName(f))
			if f.Parent() == nil {
				if shortName(f) != "internal/transport.NewHTTP2Client" {
					c.violate(nil, f, "quota-outside-closure", "stream-quota state is accessed directly in "+shortName(f)+" (outside the control buffer's critical section)", nil)
				}
				continue
			}
			top := shortName(topFunc(f))
			if !allowedParents[top] {
				c.violate(nil, f, "quota-in-unexpected-function", "stream-quota state is accessed in a closure of "+top, nil)
				continue
			}
			quotaClosures = append(quotaClosures, f)
			parent := f.Parent()
			// direct confinement: passed as executeAndPut's callback
			direct := false
			var cell *ssa.Alloc
			for _, b := range parent.Blocks {
				for _, in := range b.Instrs {
					mc, ok := in.(*ssa.MakeClosure)
					if !ok || mc.Fn != f {
						continue
					}
					for _, r := range *mc.Referrers() {
						switch x := r.(type) {
						case *ssa.Call:
							if exec(&x.Call) && len(x.Call.Args) > 1 && x.Call.Args[1] == mc {
								direct = true
							} else if x.Call.Value == mc {
								c.violate(x, parent, "quota-closure-called-directly", "a stream-quota closure is invoked directly, outside the control buffer's critical section", nil)
							}
						case *ssa.Store:
							if a, ok := x.Addr.(*ssa.Alloc); ok {
								cell = a
							}
						}
					}
				}
			}
			if direct {
				continue
			}
			// indirect: the parent body itself never calls through the cell; some closure passed to executeAndPut exists in the parent tree
			if cell != nil {
				for _, b := range parent.Blocks {
					for _, in := range b.Instrs {
						if call, ok := in.(ssa.CallInstruction); ok {
							if u, ok := call.Common().Value.(*ssa.UnOp); ok && u.X == cell {
								c.violate(in, parent, "quota-closure-called-directly", "a stream-quota closure is invoked by "+shortName(parent)+" itself, outside the control buffer's critical section", nil)
							}
						}
					}
				}
			}
			c.Expect(len(closuresPassedTo(parent, exec, 1)) >= 1, nil, parent, "parent-uses-locked-executor", "the enclosing function never hands a closure to the locked executor")
		}
		isQC := map[*ssa.Function]bool{}
		for _, f := range quotaClosures {
			isQC[f] = true
		}
		for _, f := range c.scope(tr) {
			for _, b := range f.Blocks {
				for _, in := range b.Instrs {
					if ci, ok := in.(ssa.CallInstruction); ok {
						if g := ci.Common().StaticCallee(); g != nil && ww[g] {
							c.inst("wake-up wrapper called in " + shortName(f))
							_, plain := in.(*ssa.Call)
							c.Expect(plain && isQC[f], in, f, "wake-wrapper-called-outside-closure", "the stream-quota wake-up wrapper is called outside the control buffer's critical section")
						}
					}
				}
			}
		}
		c.Expect(len(quotaClosures) == 3, nil, nil, "three-quota-closures", "expected exactly three closures touching the quota state (admission, give-back, limit update)")
	})
	c.Ob("admit", "R2", "a stream id is assigned only with quota tested positive and already decremented, under t.mu, with the transport not draining and not closed; the id is the current counter value and the counter then advances by 2", 7, func() {
		f := c.fn(tr, "http2Client.NewStream")
		fSID := c.field(tr, "clientHeaders", "streamID")
		var adm *ssa.Function
		for _, a := range f.AnonFuncs {
			if len(storesToField(a, fSID)) > 0 {
				adm = a
			}
		}
		if adm == nil {
			panic(missingStep{"no closure assigning the stream id in NewStream"})
		}
		st := one(c, "stream id assignment", storesToField(adm, fSID))
		c.MustFact(st, "quota-positive", CmpInt(FieldLoad(fQuota), token.GTR, 0))
		c.MustFact(st, "not-draining", Cmp(FieldLoad(hc("state")), token.NEQ, ConstOfObj(c.konst(tr, "draining"))))
		c.MustFact(st, "not-closed", NotNil(FieldLoad(hc("activeStreams"))))
		ls := locksets(adm, lockOpts{})
		c.Expect(ls[st][mu], st, adm, "id-assigned-under-mu", "the stream id is assigned without t.mu")
		c.ValueIs(st, st.Val, "id-is-counter", FieldLoad(fNext))
		dec := one(c, "quota decrement in the admission closure", storesToField(adm, fQuota))
		c.ValueIs(dec, dec.Val, "decrement-by-one", BinOpV(token.SUB, FieldLoad(fQuota), ConstInt(1)))
		c.Dominates(dec, st, "decrement-before-id")
		adv := one(c, "counter advance", storesToField(adm, fNext))
		c.ValueIs(adv, adv.Val, "advance-by-two", BinOpV(token.ADD, FieldLoad(fNext), ConstInt(2)))
		c.Dominates(st, adv, "id-taken-before-advance")
		c.Expect(ls[adv][mu], adv, adm, "advance-under-mu", "the id counter advances without t.mu")
		// registration in activeStreams under the same lock, with that id
		var regs []ssa.Instruction
		for _, m := range mutationsOf(adm, hc("activeStreams")) {
			if m.Kind == "mapupdate" {
				regs = append(regs, m.Instr)
			}
		}
		reg := one(c, "activeStreams insertion", regs)
		c.Expect(ls[reg][mu], reg, adm, "registered-under-mu", "the stream is registered without t.mu")
		c.WhoMayMutate("nextID", fNext, c.scope(tr), "internal/transport.http2Client.NewStream", "internal/transport.NewHTTP2Client")
		ctor := c.fn(tr, "NewHTTP2Client")
		for _, s := range storesToField(ctor, fNext) {
			c.ValueIs(s, s.Val, "first-id-is-1", ConstInt(1))
		}
	})
	c.Ob("settings-intake", "R2", "handleSettings: only an ACK is ignored; the limit applied is the frame's MAX_CONCURRENT_STREAMS value, and the 'unlimited' default is substituted only for a first SETTINGS frame that does not carry one; the quota update is scheduled whenever a limit is present", 5, func() {
		hs := c.fn(tr, "http2Client.handleSettings")
		isAck := CallRes(CalleeX("golang.org/x/net/http2", "SettingsFrame.IsAck"), 0)
		ex := one(c, "executeAndPut in handleSettings", callsIn(hs, exec))
		for _, r := range returnsOf(hs) {
			if r.Block() == hs.Recover || instrDominates(ex, r) {
				continue
			}
			c.MustFact(r, "ignored-only-when-ack", Truth(isAck, true))
		}
		c.MustFact(ex, "settings-applied-only-when-not-ack", Truth(isAck, false))
		// the limit cell: captured by the per-setting closure (which stores the frame's value) and by the quota closure
		var cell *ssa.Alloc
		var perSetting *ssa.Function
		for _, a := range hs.AnonFuncs {
			for _, b := range a.Blocks {
				for _, in := range b.Instrs {
					st, ok := in.(*ssa.Store)
					if !ok {
						continue
					}
					if u, ok := st.Addr.(*ssa.UnOp); ok {
						if fv, ok := u.X.(*ssa.FreeVar); ok && FieldLoad(c.field("golang.org/x/net/http2", "Setting", "Val"))(st.Val) && c.HasFact(st, CmpInt(FieldLoad(c.field("golang.org/x/net/http2", "Setting", "ID")), token.EQL, 3)) {
							perSetting = a
							for _, in2 := range instrsWhere(hs, func(in ssa.Instruction) bool { mc, ok := in.(*ssa.MakeClosure); return ok && mc.Fn == ssa.Value(a) }) {
								for i, f2 := range a.FreeVars {
									if f2 == fv {
										cell, _ = in2.(*ssa.MakeClosure).Bindings[i].(*ssa.Alloc)
									}
								}
							}
						}
					}
				}
			}
		}
		if !c.Expect(cell != nil && perSetting != nil, ex, hs, "limit-from-the-frame", "the MAX_CONCURRENT_STREAMS value of the frame is not recorded as the limit") {
			return
		}
		isCell := func(v ssa.Value) bool { u, ok := v.(*ssa.UnOp); return ok && u.X == ssa.Value(cell) }
		nDef := 0
		for _, st := range storesTo(cell) {
			if st.Parent() != hs {
				continue
			}
			nDef++
			// the default substitution
			c.MustFact(st, "default-only-on-the-first-frame", Truth(ParamV("isFirst"), true))
			c.MustFact(st, "default-only-without-a-limit-in-the-frame", IsNil(isCell))
		}
		c.Expect(nDef == 1, ex, hs, "one-default-substitution", "expected one substitution of the unlimited default")
		for _, in := range instrsWhere(hs, func(in ssa.Instruction) bool {
			st, ok := in.(*ssa.Store)
			if !ok {
				return false
			}
			u, ok := st.Addr.(*ssa.UnOp)
			return ok && u.X == ssa.Value(cell)
		}) {
			c.ValueIs(in, in.(*ssa.Store).Val, "default-is-unlimited", ConstNum(4294967295))
		}
		// the quota update is appended whenever a limit is present
		var quotaMC ssa.Instruction
		for _, in := range instrsWhere(hs, func(in ssa.Instruction) bool {
			mc, ok := in.(*ssa.MakeClosure)
			return ok && len(storesToField(mc.Fn.(*ssa.Function), fQuota)) > 0
		}) {
			quotaMC = in
		}
		if c.Expect(quotaMC != nil, ex, hs, "quota-update-scheduled", "no quota update is scheduled for a new limit") {
			c.MustFact(quotaMC, "quota-update-only-with-a-limit", NotNil(isCell))
			if len(quotaMC.Block().Succs) == 1 {
				qb := quotaMC.Block()
				c.EnteredOnlyWhenExcept(qb.Succs[0], "quota-update-skipped-only-without-a-limit", func(p *ssa.BasicBlock) bool { return p == qb }, IsNil(isCell))
			}
		}
	})
	c.Ob("quota-arithmetic", "R7", "the quota is written only as quota-1 (admission), quota+1 (give-back) and quota+(new limit - old limit) with no clamp, the limit is replaced by the new limit in the same closure", 4, func() {
		n := 0
		for _, f := range quotaClosures {
			for _, st := range storesToField(f, fQuota) {
				n++
				old := FieldLoad(fQuota)
				delta := BinOpV(token.SUB, DerefOf(AnyV), FieldLoad(fMax))
				ok := BinOpV(token.SUB, old, ConstInt(1))(st.Val) || BinOpV(token.ADD, old, ConstInt(1))(st.Val) || BinOpV(token.ADD, old, delta)(st.Val)
				c.Expect(ok, st, f, "quota-update-shape", "the quota is updated by something other than -1, +1 or +(new limit - old limit); a clamp here forgets how far the client is over a lowered limit")
			}
		}
		c.Expect(n == 3, nil, nil, "three-quota-writes", "expected exactly three writes of the quota")
		hs := c.fn(tr, "http2Client.handleSettings")
		for _, a := range hs.AnonFuncs {
			for _, st := range storesToField(a, fMax) {
				c.ValueIs(st, st.Val, "limit-becomes-new-limit", DerefOf(AnyV))
				// delta is computed from the old limit: the load for delta precedes this store
				for _, rd := range readsOf(a, fMax) {
					c.Expect(instrDominates(rd, st), rd, a, "delta-uses-old-limit", "the delta is computed after the limit was already replaced")
				}
			}
		}
	})
	c.Ob("give-back-once", "R11", "the quota give-back is enqueued only from closeStream, after the stream's state was swapped to done for the first time", 2, func() {
		f := c.fn(tr, "http2Client.closeStream")
		swap := CallRes(Callee(tr, "Stream.swapState"), 0)
		done := ConstOfObj(c.konst(tr, "streamDone"))
		for _, ex := range callsIn(f, exec) {
			c.MustFact(ex, "first-close-of-stream", Cmp(swap, token.NEQ, done))
			cl := funcOfValue(ex.Common().Args[1])
			c.Expect(cl != nil && len(storesToField(cl, fQuota)) == 1, ex, f, "gives-quota-back", "closeStream's executor callback does not return the stream's quota")
		}
		c.Expect(len(callsIn(f, exec)) == 1, nil, f, "one-give-back", "expected one executeAndPut in closeStream")
	})
	c.Ob("wake", "R3", "every closure that can raise the quota wakes waiters: non-blocking send when quota > 0 and waiters exist (admission, give-back), or close-and-replace of the wake-up channel when the limit grew and waiters exist (limit update)", 3, func() {
		ww := wakeWrappers(c, tr, fAvail)
		for _, f := range quotaClosures {
			sends := instrsWhere(f, func(in ssa.Instruction) bool {
				if isWakeCall(ww, in) {
					return true
				}
				s, ok := in.(*ssa.Select)
				return ok && len(s.States) == 1 && s.States[0].Dir == types.SendOnly && FieldLoad(fAvail)(s.States[0].Chan)
			})
			closes := instrsWhere(f, func(in ssa.Instruction) bool {
				call, ok := in.(*ssa.Call)
				return ok && BuiltinCall("close")(&call.Call) && FieldLoad(fAvail)(call.Call.Args[0])
			})
			c.Expect(len(sends)+len(closes) == 1, nil, f, "one-wake-up", "a quota closure has no (or more than one) wake-up of waiting streams")
			for _, s := range sends {
				sel, isSel := s.(*ssa.Select)
				c.Expect(!isSel || !sel.Blocking, s, f, "wake-non-blocking", "the wake-up send can block inside the critical section")
				c.MustFact(s, "wake-if-quota-positive", CmpInt(FieldLoad(fQuota), token.GTR, 0))
				c.MustFact(s, "wake-if-waiters", CmpInt(FieldLoad(fWait), token.GTR, 0))
				// not skipped when both hold: from the quota write to return, passing the send unless quota<=0 or no waiters
				for _, st := range storesToField(f, fQuota) {
					q := pathQuery{Fn: f, Starts: []ssa.Instruction{st}, Barrier: func(in ssa.Instruction) bool { return in == s },
						Target: func(in ssa.Instruction) bool { r, ok := in.(*ssa.Return); return ok && ConstBool(true)(r.Results[0]) },
						EdgeBlock: func(from, to *ssa.BasicBlock) bool {
							fs := edgeFacts(from, to)
							_, a := hasFact(fs, CmpInt(FieldLoad(fQuota), token.LEQ, 0))
							_, b := hasFact(fs, CmpInt(FieldLoad(fWait), token.LEQ, 0))
							return a || b
						}}
					c.MustPass("raise-always-wakes", q, st)
				}
			}
			for _, cl := range closes {
				c.MustFact(cl, "wake-all-if-waiters", CmpInt(FieldLoad(fWait), token.GTR, 0))
				c.MustFact(cl, "wake-all-if-limit-grew", CmpInt(BinOpV(token.SUB, DerefOf(AnyV), AnyV), token.GTR, 0))
				repl := storesToField(f, fAvail)
				if c.Expect(len(repl) == 1, cl, f, "channel-replaced", "the closed wake-up channel is not replaced") {
					c.Dominates(cl, repl[0], "close-then-replace")
				}
			}
		}
	})
}

// wakeWrappers: named functions of the package whose whole effect is one non-blocking token send on the wake-up
// channel field av, executed on every call (the select sits in the entry block; no stores, no calls, no closures).
// A call to such a function is the wake-up itself, wherever a rule looks for one.
func wakeWrappers(c *Ctx, pkg string, av *types.Var) map[*ssa.Function]bool {
	out := map[*ssa.Function]bool{}
	for _, f := range c.scope(pkg) {
		if f.Parent() != nil || len(f.AnonFuncs) > 0 || len(f.Blocks) == 0 {
			continue
		}
		nSel, ok := 0, true
		for _, b := range f.Blocks {
			for _, in := range b.Instrs {
				switch x := in.(type) {
				case *ssa.Select:
					nSel++
					if x.Blocking || len(x.States) != 1 || x.States[0].Dir != types.SendOnly || !FieldLoad(av)(x.States[0].Chan) || b != f.Blocks[0] {
						ok = false
					}
				case *ssa.Store, *ssa.Call, *ssa.Go, *ssa.Defer, *ssa.Send, *ssa.MapUpdate, *ssa.Panic:
					ok = false
				}
			}
		}
		if ok && nSel == 1 {
			out[f] = true
		}
	}
	return out
}

func isWakeCall(ww map[*ssa.Function]bool, in ssa.Instruction) bool {
	call, ok := in.(*ssa.Call)
	if !ok {
		return false
	}
	g := call.Call.StaticCallee()
	return g != nil && ww[g]
}
