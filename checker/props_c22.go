package main

import (
	"go/token"

	"golang.org/x/tools/go/ssa"
)

func init() {
	register(&PropDef{
		ID:    "C22",
		Pkgs:  []string{tr, "grpc"},
		Claim: "Decides the structural part: every blocking wait on the RPC path (picker wait, name-resolution wait, stream-quota wait, write-quota wait, receive waits, header wait, retry backoff wait) has an arm on the RPC's context (or the stream's done channel); a watcher goroutine finishes a streaming RPC when its context ends; the client sends grpc-timeout = EncodeDuration(time.Until(deadline)) exactly when the context has a deadline and fails with DEADLINE_EXCEEDED when it already passed; the server derives the stream context from the decoded timeout and arms a timer that cancels the stream with RST_STREAM(CANCEL); context errors map to DEADLINE_EXCEEDED / CANCELED. No time bound is decided.",
		NotDecided:  []string{"'within a bounded time' (real-time quantity)", "propagation delay through the network"},
		Assumptions: []string{"context.Context semantics of the standard library"},
		Technique:   "static analysis: select-arm inspection with value-origin of channels, dominating guards on go/ssa branch facts, composite-literal pairing, constant-flow of status codes",
		Run:         c22,
	})
}

func c22(c *Ctx) {
	ctxDone := CallRes(CalleeX("context", "Context.Done"), 0)
	c.Ob("select-arms", "R6", "every blocking select on the RPC path has a cancellation arm (ctx.Done() of the RPC/stream context, the cached context-done channel, or the stream's done channel)", 9, func() {
		type site struct {
			pkg, fn string
			arm     VM
			label   string
			ctx     VM // the context whose Done() is the arm, when the arm has that form (enables the helper look-through)
		}
		sites := []site{
			{"grpc", "pickerWrapper.pick", doneOf(ParamV("ctx")), "picker wait", ParamV("ctx")},
			{"grpc", "ClientConn.waitForResolvedAddrs", doneOf(ParamV("ctx")), "name-resolution wait", ParamV("ctx")},
			{"grpc", "csAttempt.shouldRetry", doneOf(FieldLoad(c.field("grpc", "clientStream", "ctx"))), "retry backoff wait", FieldLoad(c.field("grpc", "clientStream", "ctx"))},
			{tr, "http2Client.NewStream", doneOf(DataDep(ParamV("ctx"))), "stream-quota wait", DataDep(ParamV("ctx"))},
			{tr, "writeQuota.get", FieldLoad(c.field(tr, "writeQuota", "done")), "write-quota wait", nil},
			{tr, "ClientStream.waitOnHeader", doneOf(FieldLoad(c.field(tr, "Stream", "ctx"))), "header wait", FieldLoad(c.field(tr, "Stream", "ctx"))},
			{tr, "recvBufferReader.read", FieldLoad(c.field(tr, "recvBufferReader", "ctxDone")), "receive wait", nil},
			{tr, "recvBufferReader.readClient", FieldLoad(c.field(tr, "recvBufferReader", "ctxDone")), "receive wait (client)", nil},
			{tr, "recvBufferReader.readMessageHeader", FieldLoad(c.field(tr, "recvBufferReader", "ctxDone")), "header-bytes wait", nil},
			{tr, "recvBufferReader.readMessageHeaderClient", FieldLoad(c.field(tr, "recvBufferReader", "ctxDone")), "header-bytes wait (client)", nil},
		}
		for _, s := range sites {
			f := c.fn(s.pkg, s.fn)
			sels := instrsWhere(f, func(in ssa.Instruction) bool { x, ok := in.(*ssa.Select); return ok && x.Blocking })
			if len(sels) == 0 && s.ctx != nil {
				// the wait may live in a helper of the same package that is handed the context: the helper's blocking
				// selects then carry the obligation (each must have the Done() arm of that parameter)
				sels = helperSelects(f, s.ctx)
				for _, in := range sels {
					g := in.Parent()
					found := false
					for _, st := range in.(*ssa.Select).States {
						for _, p := range g.Params {
							pp := p
							if doneOf(func(v ssa.Value) bool { return stripConv(v) == ssa.Value(pp) })(st.Chan) && helperGets(f, g, pp, s.ctx) {
								found = true
							}
						}
					}
					c.Expect(found, in, g, "cancellation-arm", s.label+": blocking select (in a helper) without a cancellation arm")
				}
				c.Expect(len(sels) >= 1, nil, f, "has-blocking-select", s.label+": no blocking select found")
				continue
			}
			c.Expect(len(sels) >= 1, nil, f, "has-blocking-select", s.label+": no blocking select found")
			for _, in := range sels {
				found := false
				for _, st := range in.(*ssa.Select).States {
					if s.arm(st.Chan) {
						found = true
					}
				}
				c.Expect(found, in, f, "cancellation-arm", s.label+": blocking select without a cancellation arm")
			}
		}
		// the client receive waits close the stream with the context's error before waiting for the final item
		for _, n := range []string{"recvBufferReader.readClient", "recvBufferReader.readMessageHeaderClient", "ClientStream.waitOnHeader"} {
			f := c.fn(tr, n)
			cl := callsIn(f, Callee(tr, "ClientStream.Close"))
			if c.Expect(len(cl) == 1, nil, f, "cancel-closes-stream", n+": the cancellation arm does not close the stream") {
				c.ArgIs(cl[0], 1, "closed-with-context-error", CallWith(Callee(tr, "ContextErr"), 0, CallRes(CalleeX("context", "Context.Err"), 0)))
			}
		}
	})
	c.Ob("ctx-closes-stream", "R3", "for streaming RPCs a goroutine finishes the client stream when the RPC context (or the channel) ends, with the context's error mapped to a status", 2, func() {
		f := c.fn("grpc", "newClientStreamWithParams")
		var w *ssa.Function
		for _, in := range instrsWhere(f, func(in ssa.Instruction) bool { _, ok := in.(*ssa.Go); return ok }) {
			if cl := in.(*ssa.Go).Call.StaticCallee(); cl != nil && len(callsIn(cl, Callee("grpc", "clientStream.finish"))) > 0 {
				w = cl
			}
		}
		if w == nil {
			panic(missingStep{"no watcher goroutine finishing the stream on context end"})
		}
		sel := one(c, "select in the watcher", instrsWhere(w, func(in ssa.Instruction) bool { _, ok := in.(*ssa.Select); return ok })).(*ssa.Select)
		n := 0
		for _, st := range sel.States {
			if ctxDone(st.Chan) {
				n++
			}
		}
		c.Expect(n == 2 && sel.Blocking, sel, w, "waits-on-rpc-and-channel-context", "the watcher does not wait on both the RPC context and the channel context")
		okArg := false
		for _, fc := range callsIn(w, Callee("grpc", "clientStream.finish")) {
			if CallWith(Callee("grpc", "toRPCErr"), 0, CallRes(CalleeX("context", "Context.Err"), 0))(fc.Common().Args[1]) {
				okArg = true
			}
		}
		c.Expect(okArg, nil, w, "finishes-with-context-status", "the watcher does not finish the stream with the context's error converted to a status")
		// the watcher never gives up silently: whatever wakes it, it finishes the stream
		// (it must outlive retries: a later attempt is cancelled only through it)
		c.MustPass("watcher-exits-only-by-finishing-the-stream", pathQuery{Fn: w, Starts: []ssa.Instruction{sel}, Barrier: isCallTo(Callee("grpc", "clientStream.finish")), Target: isReturn}, sel)
		// started only for RPCs that can outlive the call (streaming), i.e. desc != unaryStreamDesc
		c.inst("watcher goroutine " + shortName(w))
	})
	c.Ob("timeout-header", "R2", "client: a grpc-timeout header with value EncodeDuration(time.Until(deadline)) is added exactly when the context has a deadline; an already expired deadline fails the RPC with DEADLINE_EXCEEDED before anything is sent", 4, func() {
		f := c.fn(tr, "http2Client.createHeaderFields")
		hasDl := Truth(CallRes(CalleeX("context", "Context.Deadline"), 1), true)
		until := CallWith(CalleeX("time", "Until"), 0, CallRes(CalleeX("context", "Context.Deadline"), 0))
		n := 0
		for _, l := range headerFieldLits(c, f) {
			if !ConstStr("grpc-timeout")(l.name.Val) {
				continue
			}
			n++
			c.MustFact(l.name, "only-with-deadline", hasDl)
			c.ValueIs(l.value, l.value.Val, "value-is-encoded-remaining-time", CallWith(Callee("internal/grpcutil", "EncodeDuration"), 0, until))
			c.MustFact(l.name, "only-if-time-remains", CmpInt(until, token.GTR, 0))
		}
		c.Expect(n == 1, nil, f, "one-timeout-header", "expected exactly one grpc-timeout header site")
		c.statusCodeIn(blocksWhere(f, CmpInt(until, token.LEQ, 0)), f, "expired->DeadlineExceeded", "DeadlineExceeded")
		// never skipped when a deadline exists: from the Deadline() call whose ok is tested for the header
		for _, dl := range callsIn(f, CalleeX("context", "Context.Deadline")) {
			if !until(func() ssa.Value {
				for _, u := range callsIn(f, CalleeX("time", "Until")) {
					if DataDep(func(v ssa.Value) bool { return v == dl.Value() })(u.Common().Args[0]) {
						return u.Value()
					}
				}
				return dl.Value()
			}()) {
				continue
			}
			isHdr := func(in ssa.Instruction) bool {
				st, ok := in.(*ssa.Store)
				return ok && ConstStr("grpc-timeout")(st.Val)
			}
			self := func(v ssa.Value) bool { return v == dl.Value() }
			q := pathQuery{Fn: f, Starts: []ssa.Instruction{dl}, Barrier: isHdr,
				Target: func(in ssa.Instruction) bool { r, ok := in.(*ssa.Return); return ok && !provablyNonNil(r.Results[1], r, 0) },
				EdgeBlock: func(from, to *ssa.BasicBlock) bool {
					_, ok := hasFact(edgeFacts(from, to), Truth(ExtractOf(self, 1), false))
					return ok
				}}
			c.MustPass("deadline-always-sent", q, dl)
		}
	})
	c.Ob("server-deadline", "R8", "server: with a grpc-timeout header the stream context is context.WithTimeout(ctx, decoded timeout) and a timer of the same duration closes the stream with RST_STREAM(CANCEL); RST_STREAM from the client and stream closing cancel the stream's context", 6, func() {
		f := c.fn(tr, "http2Server.operateHeaders")
		dec := CallRes(Callee(tr, "decodeTimeout"), 0)
		hfName := c.field(h2+"/hpack", "HeaderField", "Name")
		tset := Truth(flagOn(BinOpV(token.EQL, FieldLoad(hfName), ConstStr("grpc-timeout"))), true)
		wt := one(c, "context.WithTimeout in operateHeaders", callsIn(f, CalleeX("context", "WithTimeout")))
		c.MustFact(wt, "only-with-timeout-header", tset)
		c.ArgIs(wt, 1, "timeout-is-decoded-header", DataDep(dec))
		c.ArgIs(wt, 0, "derived-from-connection-context", ParamV("ctx"))
		wc := one(c, "context.WithCancel in operateHeaders", callsIn(f, CalleeX("context", "WithCancel")))
		c.MustFact(wc, "cancel-only-without-timeout-header", Truth(flagOn(BinOpV(token.EQL, FieldLoad(hfName), ConstStr("grpc-timeout"))), false))
		taf := one(c, "deadline timer", callsIn(f, ValueCall(GlobalLoad(c.konst("internal", "TimeAfterFunc")))))
		c.MustFact(taf, "timer-only-with-timeout-header", tset)
		c.ArgIs(taf, 0, "timer-duration-is-decoded-header", DataDep(dec))
		if cl := funcOfValue(taf.Common().Args[1]); c.Expect(cl != nil, taf, f, "timer-closure", "the deadline timer is not given a closure") {
			cs := callsIn(cl, Callee(tr, "http2Server.closeStream"))
			if c.Expect(len(cs) == 1, taf, cl, "timer-closes-stream", "the deadline timer does not close the stream") {
				c.ArgIs(cs[0], 2, "timer-sends-rst", ConstBool(true))
				c.ArgIs(cs[0], 3, "timer-rst-code-CANCEL", ConstOfObj(c.konst(h2, "ErrCodeCancel")))
			}
		}
		for _, n := range []string{"http2Server.closeStream", "http2Server.finishStream"} {
			g := c.fn(tr, n)
			c.Expect(len(callsIn(g, FieldCall(c.field(tr, "ServerStream", "cancel")))) >= 1, nil, g, "closing-cancels-context", n+" does not cancel the stream's context")
		}
		rs := c.fn(tr, "http2Server.handleRSTStream")
		c.Expect(len(callsIn(rs, Callee(tr, "http2Server.closeStream"))) == 1, nil, rs, "client-reset-closes-stream", "RST_STREAM from the client does not close the stream")
	})
	c.Ob("status-codes", "R7", "context errors map to their status codes: DeadlineExceeded -> DEADLINE_EXCEEDED, Canceled -> CANCELED (transport helper and RPC-layer conversion)", 4, func() {
		f := c.fn(tr, "ContextErr")
		for _, pr := range []struct{ errVar, code string }{{"DeadlineExceeded", "DeadlineExceeded"}, {"Canceled", "Canceled"}} {
			gv := GlobalLoad(c.konst("std:context", pr.errVar))
			arm := blocksWhere(f, Cmp(ParamV("err"), token.EQL, gv))
			c.statusCodeIn(arm, f, "context."+pr.errVar+"->"+pr.code, pr.code)
		}
		g := c.fn("grpc", "toRPCErr")
		for _, pr := range []struct{ errVar, ret string }{{"DeadlineExceeded", "errContextDeadline"}, {"Canceled", "errContextCanceled"}} {
			gv := GlobalLoad(c.konst("std:context", pr.errVar))
			n := 0
			for _, b := range blocksWhere(g, Cmp(ParamV("err"), token.EQL, gv)) {
				for _, in := range b.Instrs {
					if r, ok := in.(*ssa.Return); ok {
						n++
						c.ValueIs(r, r.Results[0], "toRPCErr-"+pr.errVar, GlobalLoad(c.konst("grpc", pr.ret)))
					}
				}
			}
			c.Expect(n == 1, nil, g, "toRPCErr-arm-"+pr.errVar, "toRPCErr has no arm for context."+pr.errVar)
		}
		// the two sentinel errors carry the right codes
		initf := c.P.SSAPkgs[full("grpc")].Func("init")
		for _, pr := range []struct{ v, code string }{{"errContextDeadline", "DeadlineExceeded"}, {"errContextCanceled", "Canceled"}} {
			ok := false
			for _, b := range initf.Blocks {
				for _, in := range b.Instrs {
					if st, isSt := in.(*ssa.Store); isSt {
						if gl, isG := st.Addr.(*ssa.Global); isG && gl.Object() == c.konst("grpc", pr.v) {
							if call, isC := strip(st.Val).(*ssa.Call); isC && isStatusCtor(&call.Call) && ConstOfObj(c.konst("codes", pr.code))(call.Call.Args[0]) {
								ok = true
							}
						}
					}
				}
			}
			c.Expect(ok, nil, initf, pr.v+"-code", pr.v+" is not a status with code "+pr.code)
		}
	})
}

// doneOf matches x.Done() where the context x satisfies recv (the RPC's context, not some other context in scope).
func doneOf(recv VM) VM {
	return func(v ssa.Value) bool {
		call, ok := strip(v).(*ssa.Call)
		if !ok || !CalleeX("context", "Context.Done")(&call.Call) {
			return false
		}
		if call.Call.IsInvoke() {
			return recv(call.Call.Value)
		}
		return len(call.Call.Args) > 0 && recv(call.Call.Args[0])
	}
}

// helperCalls: the synchronous static calls in f to functions of f's own package that are handed a value matching ctx.
func helperCalls(f *ssa.Function, ctx VM) []*ssa.Call {
	var out []*ssa.Call
	for _, b := range f.Blocks {
		for _, in := range b.Instrs {
			call, ok := in.(*ssa.Call)
			if !ok {
				continue
			}
			g := call.Call.StaticCallee()
			if g == nil || g.Pkg != f.Pkg || len(g.Blocks) == 0 {
				continue
			}
			for _, a := range call.Call.Args {
				if ctx(a) {
					out = append(out, call)
					break
				}
			}
		}
	}
	return out
}

// helperSelects: the blocking selects of those helpers.
func helperSelects(f *ssa.Function, ctx VM) []ssa.Instruction {
	var out []ssa.Instruction
	seen := map[*ssa.Function]bool{}
	for _, call := range helperCalls(f, ctx) {
		g := call.Call.StaticCallee()
		if seen[g] {
			continue
		}
		seen[g] = true
		out = append(out, instrsWhere(g, func(in ssa.Instruction) bool { x, ok := in.(*ssa.Select); return ok && x.Blocking })...)
	}
	return out
}

// helperGets: every call from f to g passes a value matching ctx for parameter p.
func helperGets(f, g *ssa.Function, p *ssa.Parameter, ctx VM) bool {
	idx := -1
	for i, q := range g.Params {
		if q == p {
			idx = i
		}
	}
	n := 0
	for _, call := range helperCalls(f, ctx) {
		if call.Call.StaticCallee() != g {
			continue
		}
		n++
		if idx < 0 || idx >= len(call.Call.Args) || !ctx(call.Call.Args[idx]) {
			return false
		}
	}
	return n > 0
}
