package main

import (
	"go/token"
	"go/types"

	"golang.org/x/tools/go/ssa"
)

const prio = "internal/xds/balancer/priority"

func init() {
	register(&PropDef{
		ID:    "C39",
		Pkgs:  []string{prio},
		Claim: "Decides the structural part: in the priority scan a child is switched to exactly on the arms 'not started', READY, IDLE, 'CONNECTING with a live init timer' or 'last priority' (each arm leads to the switch, and the arm where none holds cannot reach it), the scan stops at the first such child, the state pushed to the parent is the state of that same child and is pushed whenever the child in use changes or the child in use is the one that updated; switching stops every lower priority on every path (also when the child is already in use) before anything else, from index priority+1 to the end; a child is started only through the switch; the init timer is stopped on READY/IDLE/TRANSIENT_FAILURE and restarted on CONNECTING only when no failure was reported since and the previous state was not CONNECTING; updates of unknown or not-started children are dropped; the child-in-use name and child bookkeeping are accessed under the balancer mutex. Only existing children are selected or stopped, and the stop walk over lower priorities is never left early.",
		NotDecided:  []string{"complete failover histories (timer expirations x child updates x config updates) against a model", "behaviour of the balancer group that actually builds/closes children"},
		Assumptions: []string{"balancergroup Add/Remove build and close the child policy (outside this property's anchors)"},
		Technique:   "static analysis: refusing-arm unreachability and per-disjunct must-pass-through on the go/ssa CFG, value identity of call arguments, loop-index initial-value shape, who-may-call/write, must-lockset",
		Run:         c39,
	})
}

// edgeTargetsWhere: successor blocks of edges on which fm becomes true (edge-only facts).
func edgeTargetsWhere(fn *ssa.Function, fm FM) []*ssa.BasicBlock {
	var out []*ssa.BasicBlock
	for _, b := range fn.Blocks {
		for _, s := range b.Succs {
			if _, ok := hasFact(edgeOnlyFacts(b, s), fm); ok {
				out = append(out, s)
			}
		}
	}
	return out
}

func c39(c *Ctx) {
	pb, cb := "priorityBalancer", "childBalancer"
	fStarted := c.field(prio, cb, "started")
	fState := c.field(prio, cb, "state")
	fTimer := c.field(prio, cb, "initTimer")
	fName := c.field(prio, cb, "name")
	fTF := c.field(prio, cb, "reportedTF")
	fInUse := c.field(prio, pb, "childInUse")
	fPrios := c.field(prio, pb, "priorities")
	fCS := c.field("balancer", "State", "ConnectivityState")
	fCC := c.field(prio, pb, "cc")
	k := func(n string) VM { return ConstOfObj(c.konst("connectivity", n)) }
	cs := FieldLoad(fCS)
	sp := c.fn(prio, pb+".syncPriority")
	sw := c.fn(prio, pb+".switchToChild")
	isSwitch := isCallTo(Callee(prio, pb+".switchToChild"))

	c.Ob("selection-condition", "R7", "syncPriority: each of the five selecting arms leads to switchToChild; the arm where the child is started, not READY, not IDLE and not last cannot reach it; the scan breaks after the switch", 8, func() {
		site := one(c, "switchToChild call in syncPriority", callsIn(sp, Callee(prio, pb+".switchToChild")))
		c.MustFact(site, "selects-only-an-existing-child", Truth(CommaOkOf(FieldLoad(c.field(prio, pb, "children"))), true))
		lastP := Cmp(AnyV, token.EQL, BinOpV(token.SUB, LenOf(FieldLoad(fPrios)), ConstInt(1)))
		notLast := Cmp(AnyV, token.NEQ, BinOpV(token.SUB, LenOf(FieldLoad(fPrios)), ConstInt(1)))
		c.Unreachable(site, "no-switch-to-a-failed-non-last-child", Truth(FieldLoad(fStarted), true), Cmp(cs, token.NEQ, k("Ready")), Cmp(cs, token.NEQ, k("Idle")), notLast)
		arms := []namedFM{
			{"not-started", Truth(FieldLoad(fStarted), false)},
			{"ready", Cmp(cs, token.EQL, k("Ready"))},
			{"idle", Cmp(cs, token.EQL, k("Idle"))},
			{"connecting-within-init-timeout", NotNil(FieldLoad(fTimer))},
			{"last-priority", lastP},
		}
		for _, a := range arms {
			starts := edgeTargetsWhere(sp, a.FM)
			if !c.Expect(len(starts) > 0, nil, sp, "arm:"+a.Label, "the selecting arm is not tested in syncPriority") {
				continue
			}
			c.MustPass("arm-selects:"+a.Label, pathQuery{Fn: sp, StartBlocks: starts, Barrier: isSwitch, Target: isReturn}, nil)
		}
		// the live-timer arm is only for CONNECTING
		for _, b := range sp.Blocks {
			for _, su := range b.Succs {
				if _, ok := hasFact(edgeOnlyFacts(b, su), NotNil(FieldLoad(fTimer))); ok {
					_, isC := hasFact(FactsAtBlock(b), Cmp(cs, token.EQL, k("Connecting")))
					c.Expect(isC, b.Instrs[len(b.Instrs)-1], sp, "timer-arm-only-when-connecting", "a live init timer selects a child that is not CONNECTING")
				}
			}
		}
		// first match wins: after the switch no further iteration
		c.MustPass("scan-stops-at-first-match", pathQuery{Fn: sp, Starts: []ssa.Instruction{site}, Target: func(in ssa.Instruction) bool {
			return isSwitch(in) || isCallTo(FieldCallOn(fCC, "UpdateState"))(in)
		}}, site)
		// the priority passed is the scan index, the child is the scanned child
		c.ArgIs(site, 2, "priority-is-scan-index", RangeKeyOfSlice(FieldLoad(fPrios)))
		c.Unreachable(site, "inhibited-updates-skip-sync", Truth(FieldLoad(c.field(prio, pb, "inhibitPickerUpdates")), true))
	})
	c.Ob("picker-of-child-in-use", "R8", "the state pushed to the parent in syncPriority is child.state of the child being switched to; it is pushed when the child in use changes or is the updating child; elsewhere the parent is only told TRANSIENT_FAILURE when all priorities are removed", 5, func() {
		site := one(c, "switchToChild call in syncPriority", callsIn(sp, Callee(prio, pb+".switchToChild")))
		ups := callsIn(sp, FieldCallOn(fCC, "UpdateState"))
		up := one(c, "cc.UpdateState in syncPriority", ups)
		arg := up.Common().Args[0]
		okv := false
		if u, ok := strip(arg).(*ssa.UnOp); ok {
			if fa, ok := u.X.(*ssa.FieldAddr); ok && sameField(fieldOfAddr(fa), fState) {
				okv = sameValue(fa.X, site.Common().Args[1])
			}
		}
		c.Expect(okv, up, sp, "pushed-state-is-of-the-switched-child", "the state pushed to the parent is not the state of the child being switched to")
		for _, a := range []namedFM{
			{"child-in-use-changes", Cmp(FieldLoad(fInUse), token.NEQ, FieldLoad(fName))},
			{"child-in-use-updated", Cmp(FieldLoad(fName), token.EQL, ParamV("childUpdating"))},
		} {
			starts := edgeTargetsWhere(sp, a.FM)
			if c.Expect(len(starts) > 0, nil, sp, "push:"+a.Label, "the push condition is not tested") {
				c.MustPass("pushes-when:"+a.Label, pathQuery{Fn: sp, StartBlocks: starts, Barrier: func(in ssa.Instruction) bool { return in == ssa.Instruction(up) }, Target: isSwitch}, nil)
			}
		}
		// other pushes to the parent
		for _, f := range c.scope(prio) {
			for _, u := range callsIn(f, FieldCallOn(fCC, "UpdateState")) {
				if f == sp {
					continue
				}
				c.inst("parent push <- " + c.siteStr(u))
				if c.Expect(shortName(f) == prio+"."+pb+".UpdateClientConnState", u, f, "parent-push-site", "the parent is updated from an unreviewed site") {
					c.MustFact(u, "all-removed-only", CmpInt(LenOf(FieldLoad(fPrios)), token.EQL, 0))
					okTF := false
					for _, st := range storesToField(f, fCS) {
						if k("TransientFailure")(st.Val) {
							okTF = true
						}
					}
					c.Expect(okTF, u, f, "all-removed-is-TF", "all priorities removed does not report TRANSIENT_FAILURE")
				}
			}
		}
	})
	c.Ob("stop-lower", "R3", "switchToChild stops all lower priorities on every path to every return (also when the child is already in use), with its own priority; the stop walk runs from p+1 to the end; children are started only through switchToChild and only when not started", 7, func() {
		isStop := isCallTo(Callee(prio, pb+".stopSubBalancersLowerThanPriority"))
		c.MustPass("lower-priorities-stopped-on-every-path", pathQuery{Fn: sw, AtEntry: true, Barrier: isStop, Target: isReturn}, nil)
		c.MustPass("stopped-before-child-in-use-changes", pathQuery{Fn: sw, AtEntry: true, Barrier: isStop, Target: func(in ssa.Instruction) bool {
			st, ok := in.(*ssa.Store)
			return ok && FieldAddrOf(fInUse)(st.Addr)
		}}, nil)
		for _, s := range callsIn(sw, Callee(prio, pb+".stopSubBalancersLowerThanPriority")) {
			c.ArgIs(s, 1, "stops-below-own-priority", ParamV("priority"))
		}
		c.WhoMayCall("stopSubBalancersLowerThanPriority", Callee(prio, pb+".stopSubBalancersLowerThanPriority"), c.scope(prio), prio+"."+pb+".switchToChild")
		sl := c.fn(prio, pb+".stopSubBalancersLowerThanPriority")
		stop := one(c, "child.stop in the stop walk", callsIn(sl, Callee(prio, cb+".stop")))
		c.MustFact(stop, "walk-to-the-end", Cmp(AnyV, token.LSS, LenOf(FieldLoad(fPrios))))
		// index: phi starting at p+1
		okIdx := false
		for _, b := range sl.Blocks {
			for _, in := range b.Instrs {
				if ph, ok := in.(*ssa.Phi); ok {
					for _, iv := range loopInit(ph) {
						if BinOpV(token.ADD, ParamV("p"), ConstInt(1))(iv) {
							okIdx = true
						}
					}
				}
			}
		}
		c.Expect(okIdx, nil, sl, "walk-starts-at-p+1", "the stop walk does not start at p+1")
		// every lower priority that has a child is stopped: a priority is skipped only when no child of that name exists, and the walk is not left early
		known := Truth(CommaOkOf(FieldLoad(c.field(prio, pb, "children"))), true)
		c.MustFact(stop, "stops-only-existing-children", known)
		for _, b := range sl.Blocks {
			if i, ok := b.Instrs[len(b.Instrs)-1].(*ssa.If); ok && isLoopHeader(b) {
				if bo, ok := i.Cond.(*ssa.BinOp); ok && LenOf(FieldLoad(fPrios))(bo.Y) {
					c.Expect(len(breakPreds(b)) == 0, i, sl, "stop-walk-not-left-early", "the stop walk over the lower priorities is left early")
				}
			}
		}
		c.MustPass("existing-lower-child-always-stopped", pathQuery{Fn: sl, StartBlocks: edgeTargetsWhere(sl, known), Barrier: func(in ssa.Instruction) bool { return in == stop.(ssa.Instruction) },
			Target: func(in ssa.Instruction) bool { _, isIf := in.(*ssa.If); return isReturn(in) || isIf && isLoopHeader(in.Block()) }}, stop)
		// the stopped child is children[priorities[i]]
		c.Expect(LookupBase(FieldLoad(c.field(prio, pb, "children")))(stop.Common().Args[0]), stop, sl, "stops-the-child-of-that-priority", "the stop walk stops something else than children[priorities[i]]")
		starts := c.WhoMayCall("child.start", Callee(prio, cb+".start"), c.scope(prio), prio+"."+pb+".switchToChild")
		for _, s := range starts {
			c.MustFact(s, "start-only-when-not-started", Truth(FieldLoad(fStarted), false))
		}
		for _, r := range returnsOf(sw) {
			if !instrDominates(one(c, "store to childInUse in switchToChild", storesToField(sw, fInUse)), r) {
				// the early return: only for the child already in use and started
				c.MustFact(r, "early-return-only-for-child-in-use", Cmp(FieldLoad(fInUse), token.EQL, FieldLoad(fName)))
				c.MustFact(r, "early-return-only-if-started", Truth(FieldLoad(fStarted), true))
			}
		}
		st := one(c, "store to childInUse in switchToChild", storesToField(sw, fInUse))
		c.ValueIs(st, st.Val, "child-in-use-is-the-switched-child", FieldLoadOn(fName, ParamV("child")))
		c.WhoMayMutate("childInUse", fInUse, c.scope(prio), prio+"."+pb+".switchToChild", prio+"."+pb+".UpdateClientConnState", prio+"."+pb+".Close")
	})
	c.Ob("init-timer", "R2", "handleChildStateUpdate: unknown / not-started children are dropped; READY/IDLE/TF stop the timer; CONNECTING restarts it only if no TF since and not already CONNECTING; sync follows every accepted update; the timer callback syncs only when not stopped, after clearing the timer", 10, func() {
		h := c.fn(prio, pb+".handleChildStateUpdate")
		stState := one(c, "store child.state", storesToField(h, fState))
		c.MustFact(stState, "known-child", Truth(CommaOkOf(FieldLoad(c.field(prio, pb, "children"))), true))
		c.MustFact(stState, "started-child", Truth(FieldLoad(fStarted), true))
		c.ValueIs(stState, stState.Val, "stores-the-new-state", ParamV("newState"))
		sync := one(c, "syncPriority call", callsIn(h, Callee(prio, pb+".syncPriority")))
		c.Dominates(stState, sync, "state-stored-before-sync")
		c.ArgIs(sync, 1, "sync-names-the-updating-child", ParamV("childName"))
		c.MustPass("every-accepted-update-syncs", pathQuery{Fn: h, Starts: []ssa.Instruction{stState}, Barrier: func(in ssa.Instruction) bool { return in == ssa.Instruction(sync) }, Target: isReturn}, stState)
		newCS := func(v ssa.Value) bool {
			return FieldLoad(fCS)(v) && rootIsParam(v, "newState")
		}
		stops := callsIn(h, Callee(prio, cb+".stopInitTimer"))
		c.Expect(len(stops) == 2, nil, h, "two-stop-sites", "expected the init timer to be stopped on the READY/IDLE arm and on the TF arm")
		for _, s := range stops {
			c.MustFactAny(s, "timer-stopped-on-ready-idle-tf", InSet(newCS, k("Ready"), k("Idle")), Cmp(newCS, token.EQL, k("TransientFailure")))
		}
		for _, arm := range []struct {
			l  string
			fm FM
		}{{"ready-or-idle", InSet(newCS, k("Ready"), k("Idle"))}, {"transient-failure", Cmp(newCS, token.EQL, k("TransientFailure"))}} {
			bs := blocksWhere(h, arm.fm)
			n := 0
			for _, b := range bs {
				for _, in := range b.Instrs {
					if isCallTo(Callee(prio, cb+".stopInitTimer"))(in) {
						n++
					}
				}
			}
			c.Expect(n == 1, nil, h, "timer-stopped-on:"+arm.l, "the init timer is not stopped on this arm")
		}
		for _, st := range storesToField(h, fTF) {
			if ConstBool(true)(st.Val) {
				c.MustFact(st, "reportedTF-set-on-TF", Cmp(newCS, token.EQL, k("TransientFailure")))
			} else {
				c.MustFact(st, "reportedTF-cleared-on-ready-idle", InSet(newCS, k("Ready"), k("Idle")))
			}
		}
		rs := one(c, "startInitTimer in handleChildStateUpdate", callsIn(h, Callee(prio, cb+".startInitTimer")))
		c.MustFact(rs, "restart-only-on-connecting", Cmp(newCS, token.EQL, k("Connecting")))
		c.MustFact(rs, "restart-only-without-TF-since", Truth(FieldLoad(fTF), false))
		c.MustFact(rs, "restart-only-from-other-state", Cmp(func(v ssa.Value) bool { return FieldLoad(fCS)(v) && !rootIsParam(v, "newState") }, token.NEQ, k("Connecting")))
		// timer callback
		si := c.fn(prio, cb+".startInitTimer")
		var cbk *ssa.Function
		for _, g := range si.AnonFuncs {
			if len(callsIn(g, Callee(prio, pb+".syncPriority"))) > 0 {
				cbk = g
			}
		}
		if c.Expect(cbk != nil, nil, si, "timer-callback", "the init timer callback does not re-sync priorities") {
			s := callsIn(cbk, Callee(prio, pb+".syncPriority"))[0]
			c.MustFact(s, "expired-timer-syncs-only-if-not-stopped", Truth(FieldLoad(c.field(prio, "timerWrapper", "stopped")), false))
			clr := false
			for _, st := range storesToField(cbk, fTimer) {
				if ConstNil(st.Val) && instrDominates(st, s) {
					clr = true
				}
			}
			c.Expect(clr, s, cbk, "timer-cleared-before-sync", "the expired init timer is not cleared before the re-sync")
		}
		c.MustFact(one(c, "timer creation", callsIn(si, ValueCall(GlobalLoad(c.P.LookupObj(prio, "timeAfterFunc"))))), "one-timer-at-a-time", IsNil(FieldLoad(fTimer)))
	})
	c.Ob("under-mu", "R4", "childInUse, priorities, and per-child started/state/initTimer/reportedTF are accessed with the balancer mutex held", 20, func() {
		mu := c.field(prio, pb, "mu")
		locked := map[string]bool{}
		for _, n := range []string{pb + ".syncPriority", pb + ".switchToChild", pb + ".stopSubBalancersLowerThanPriority", pb + ".handleChildStateUpdate",
			cb + ".start", cb + ".stop", cb + ".sendUpdate", cb + ".updateConfig", cb + ".updateBalancerName", cb + ".startInitTimer", cb + ".stopInitTimer"} {
			locked[prio+"."+n] = true
		}
		c.GuardedBy(GuardSpec{Label: "priority-state", Mu: mu, Fields: []*types.Var{fInUse, fPrios, fStarted, fState, fTimer, fTF}, Scope: c.scope(prio),
			Locked: locked,
			Exempt: map[string]string{
				prio + ".newChildBalancer": "constructs a child not yet published",
				prio + ".bb.Build":         "constructs the balancer before it is published",
			}})
	})
}

// FieldCallOn: an interface method call named m on a value loaded from field f.
func FieldCallOn(f *types.Var, m string) CM {
	return func(cc *ssa.CallCommon) bool {
		if !cc.IsInvoke() || cc.Method.Name() != m {
			return false
		}
		return FieldLoad(f)(cc.Value)
	}
}

// RangeKeyOfSlice: the index variable of `for i, x := range <slice matching vm>`.
func RangeKeyOfSlice(vm VM) VM {
	return func(v ssa.Value) bool {
		ph, ok := strip(v).(*ssa.Phi)
		if !ok {
			// rangeindex loops: index is BinOp(phi + 1)
			if b, ok := strip(v).(*ssa.BinOp); ok && b.Op == token.ADD {
				if p2, ok := b.X.(*ssa.Phi); ok && ConstInt(1)(b.Y) {
					ph = p2
				}
			}
			if ph == nil {
				return false
			}
		}
		// bounded by len(slice)
		for _, r := range *ph.Referrers() {
			_ = r
		}
		blk := ph.Block()
		for _, in := range blk.Instrs {
			if b, ok := in.(*ssa.BinOp); ok && b.Op == token.LSS && LenOf(vm)(b.Y) {
				return true
			}
		}
		for _, s := range blk.Succs {
			for _, in := range s.Instrs {
				if b, ok := in.(*ssa.BinOp); ok && b.Op == token.LSS && LenOf(vm)(b.Y) {
					return true
				}
			}
		}
		return false
	}
}

// LookupBase: v is m[k] (plain or comma-ok, value part) for a map matching vm.
func LookupBase(vm VM) VM {
	return func(v ssa.Value) bool {
		v = strip(v)
		if e, ok := v.(*ssa.Extract); ok && e.Index == 0 {
			v = e.Tuple
		}
		l, ok := v.(*ssa.Lookup)
		return ok && vm(l.X)
	}
}

// rootIsParam: v is a load through field addresses rooted at the named parameter.
func rootIsParam(v ssa.Value, name string) bool {
	for i := 0; i < 8; i++ {
		switch x := v.(type) {
		case *ssa.UnOp:
			v = x.X
		case *ssa.FieldAddr:
			v = x.X
		case *ssa.Field:
			v = x.X
		case *ssa.Alloc:
			for _, st := range storesTo(x) {
				if p, ok := st.Val.(*ssa.Parameter); ok && paramName(p) == name {
					return true
				}
			}
			return false
		case *ssa.Parameter:
			return paramName(x) == name
		default:
			return false
		}
	}
	return false
}
