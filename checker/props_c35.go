package main

import (
	"go/token"
	"go/types"

	"golang.org/x/tools/go/ssa"
)

const (
	balp  = "balancer"
	eshp  = "balancer/endpointsharding"
	waggp = "balancer/weightedtarget/weightedaggregator"
	cmgrp = "internal/xds/balancer/clustermanager"
)

func init() {
	register(&PropDef{
		ID:    "C35",
		Pkgs:  []string{balp, eshp, waggp, cmgrp},
		Claim: "Decides the structural part: the evaluator's decision list is READY > CONNECTING > IDLE > TRANSIENT_FAILURE with TRANSIENT_FAILURE as the fall-through (each returned constant is dominated by exactly the counter tests of its rank); RecordTransition applies -1 to the old state's counter and +1 to the new one's, one counter per state; the endpoint-sharding aggregate state and the picker list are chosen on the same arm, the list for state K collects only children whose state is K, the precedence of the arms is the same list, and the no-children arm reports TRANSIENT_FAILURE with a non-empty picker list; Pick indexes pickers[AddUint32(&next,1) % len(pickers)] and delegates to that element; the weighted-target and cluster-manager aggregators take the reported state from the evaluator (TRANSIENT_FAILURE when there are no children) and keep the evaluator's counters conserved: every change of a child's counted state is paired with a RecordTransition from the previously counted state to the newly counted one, additions count from Shutdown, removals to Shutdown.",
		NotDecided:  []string{"floor/ceil fairness across the uint32 wrap of the pick counter (2^32 is not a multiple of every n)", "sequences of child transitions against a reference model"},
		Assumptions: []string{"aggregator methods run under the aggregator mutex (not checked here)"},
		Technique:   "static analysis: decision-list extraction from dominating guards on go/ssa, phi-edge pairing of state and picker list, value-shape checks of counter updates, pairing of counted-state writes with evaluator transitions (sibling check over two aggregators)",
		Run:         c35,
	})
}

func loadOfCell(cell ssa.Value) VM {
	return func(v ssa.Value) bool {
		u, ok := v.(*ssa.UnOp)
		return ok && u.Op == token.MUL && u.X == cell
	}
}

func c35(c *Ctx) {
	k := func(n string) VM { return ConstOfObj(c.konst("connectivity", n)) }
	order := []string{"Ready", "Connecting", "Idle", "TransientFailure"}
	cse := "ConnectivityStateEvaluator"
	cnt := map[string]*types.Var{
		"Ready": c.field(balp, cse, "numReady"), "Connecting": c.field(balp, cse, "numConnecting"),
		"Idle": c.field(balp, cse, "numIdle"), "TransientFailure": c.field(balp, cse, "numTransientFailure"),
	}
	c.Ob("precedence", "R7", "CurrentState: Ready iff numReady>0; else Connecting iff numConnecting>0; else Idle iff numIdle>0; else TransientFailure", 4, func() {
		f := c.fn(balp, cse+".CurrentState")
		seen := map[string]int{}
		for _, r := range returnsOf(f) {
			var name string
			for _, n := range order {
				if k(n)(r.Results[0]) {
					name = n
				}
			}
			if !c.Expect(name != "", r, f, "returns-a-state-constant", "CurrentState returns something other than one of the four states") {
				continue
			}
			seen[name]++
			for i, n := range order[:3] {
				if n == name {
					c.MustFact(r, name+":own-counter-positive", CmpInt(FieldLoad(cnt[n]), token.GTR, 0))
					break
				}
				_ = i
				c.MustFact(r, name+":higher-rank-"+n+"-is-zero", CmpInt(FieldLoad(cnt[n]), token.LEQ, 0))
			}
		}
		for _, n := range order {
			c.Expect(seen[n] == 1, nil, f, "one-return-for-"+n, "expected exactly one return of this state")
		}
	})
	c.Ob("counters", "R8", "RecordTransition: counters change only here; the walked pair is [old,new]; the delta is 2*idx-1; each state's arm updates that state's counter by the delta", 6, func() {
		f := c.fn(balp, cse+".RecordTransition")
		for n, fv := range cnt {
			c.WhoMayMutate("counter "+n, fv, c.scope(balp), balp+"."+cse+".RecordTransition")
			st := one(c, "store to counter "+n, storesToField(f, fv))
			isDelta := func(v ssa.Value) bool {
				b, ok := v.(*ssa.BinOp)
				if !ok || b.Op != token.SUB || !ConstInt(1)(b.Y) {
					return false
				}
				m, ok := b.X.(*ssa.BinOp)
				if !ok || m.Op != token.MUL {
					return false
				}
				idx := m.Y
				if !ConstInt(2)(m.X) {
					if !ConstInt(2)(m.Y) {
						return false
					}
					idx = m.X
				}
				return RangeKeyOfSlice(AnyV)(stripConv(idx)) || isRangeIndex(stripConv(idx))
			}
			c.ValueIs(st, st.Val, n+":counter+=delta", BinOpV(token.ADD, FieldLoad(fv), isDelta))
			c.MustFact(st, n+":on-its-own-arm", Cmp(AnyV, token.EQL, k(n)))
		}
		// the walked slice is [oldState, newState]
		ok0, ok1 := false, false
		for _, b := range f.Blocks {
			for _, in := range b.Instrs {
				if st, ok := in.(*ssa.Store); ok {
					if ia, ok := st.Addr.(*ssa.IndexAddr); ok {
						if ConstInt(0)(ia.Index) && ParamV("oldState")(st.Val) {
							ok0 = true
						}
						if ConstInt(1)(ia.Index) && ParamV("newState")(st.Val) {
							ok1 = true
						}
					}
				}
			}
		}
		c.Expect(ok0 && ok1, nil, f, "pair-is-[old,new]", "the walked pair is not [oldState, newState] (sign of the delta)")
		for _, r := range returnsOf(f) {
			c.ValueIs(r, r.Results[0], "returns-current-state", CallRes(Callee(balp, cse+".CurrentState"), 0))
		}
	})
	c.Ob("rr-pickers", "R8", "endpointsharding.updateStateLocked: list K collects exactly children in state K (picker and state of the same child); aggregate state K is chosen with list K on the arm len(list K)>=1 and all higher-rank lists empty; no children -> TransientFailure with a one-element list", 14, func() {
		f := c.fn(eshp, "endpointSharding.updateStateLocked")
		fCS := c.field(balp, "State", "ConnectivityState")
		fPk := c.field(balp, "State", "Picker")
		cell := map[string]ssa.Value{}
		// collection sites (inside the range-over-func body)
		for _, g := range f.AnonFuncs {
			mc := makeClosureOf(g)
			for _, b := range g.Blocks {
				for _, in := range b.Instrs {
					st, ok := in.(*ssa.Store)
					if !ok {
						continue
					}
					fv, ok := st.Addr.(*ssa.FreeVar)
					if !ok {
						continue
					}
					ap := builtinCall(st.Val, "append")
					if ap == nil || !isPickerSlice(ap.Type()) {
						continue
					}
					c.inst("picker collected <- " + c.siteStr(st))
					var name string
					for _, n := range order {
						if c.HasFact(st, Cmp(FieldLoad(fCS), token.EQL, k(n))) {
							name = n
						}
					}
					if !c.Expect(name != "", st, g, "collected-under-a-state-arm", "a child picker is collected outside a state arm") {
						continue
					}
					c.Expect(loadOfCell(fv)(ap.Call.Args[0]), st, g, name+":appends-to-its-own-list", "the list is rebuilt from a different list")
					for i, x := range g.FreeVars {
						if x == fv && mc != nil {
							if prev, dup := cell[name]; dup && prev != mc.Bindings[i] {
								c.Expect(false, st, g, name+":one-list-per-state", "two lists collect the same state")
							}
							cell[name] = mc.Bindings[i]
						}
					}
					// element appended: Picker of the child whose state was tested
					el := appendedElems(ap)
					okEl := len(el) == 1 && FieldLoad(fPk)(el[0])
					if okEl {
						var tested ssa.Value
						for _, fc := range FactsAt(st) {
							if fc.Kind == "cmp" && FieldLoad(fCS)(fc.X) {
								tested = fc.X
							}
						}
						okEl = tested != nil && allocRoot(tested) != nil && allocRoot(tested) == allocRoot(el[0])
					}
					c.Expect(okEl, st, g, name+":picker-and-state-of-the-same-child", "the collected picker does not belong to the child whose state was tested")
				}
			}
		}
		for _, n := range order {
			c.Expect(cell[n] != nil, nil, f, n+":has-a-list", "no list collects children in this state")
		}
		if len(cell) != 4 {
			return
		}
		// decision
		up := one(c, "cc.UpdateState in updateStateLocked", callsIn(f, MethodNamed("UpdateState", nil)))
		var stState, stPick *ssa.Store
		for _, st := range storesToField(f, fCS) {
			stState = st
		}
		for _, st := range storesToField(f, c.field(eshp, "pickerWithChildStates", "pickers")) {
			stPick = st
		}
		if !c.Expect(stState != nil && stPick != nil, up, f, "state-and-pickers-stored", "aggregate state / picker list are not set") {
			return
		}
		ps, ok1 := stState.Val.(*ssa.Phi)
		pp, ok2 := stPick.Val.(*ssa.Phi)
		if !c.Expect(ok1 && ok2 && ps.Block() == pp.Block(), stState, f, "state-and-pickers-chosen-together", "aggregate state and picker list are not chosen on the same arms") {
			return
		}
		seen := map[string]int{}
		for i, e := range ps.Edges {
			pred := ps.Block().Preds[i]
			fs := append(append([]Fact(nil), FactsAtBlock(pred)...), edgeOnlyFacts(pred, ps.Block())...)
			var name string
			for _, n := range order {
				if k(n)(e) {
					name = n
				}
			}
			at := pred.Instrs[len(pred.Instrs)-1]
			if !c.Expect(name != "", at, f, "arm-state-constant", "an arm reports a non-constant or unknown state") {
				continue
			}
			has := func(n string, op token.Token) bool {
				_, ok := hasFact(fs, CmpInt(LenOf(loadOfCell(cell[n])), op, 1))
				return ok
			}
			own := has(name, token.GEQ)
			if name == "TransientFailure" && !own {
				// no children at all
				seen["none"]++
				for _, n := range order {
					c.Expect(has(n, token.LSS), at, f, "no-children:list-"+n+"-empty", "the fall-through arm is reachable with a non-empty list")
				}
				c.Expect(nonEmptyFresh(pp.Edges[i]), at, f, "no-children:non-empty-picker-list", "the no-children arm installs an empty picker list (Pick would divide by zero)")
				continue
			}
			seen[name]++
			c.Expect(own, at, f, name+":own-list-non-empty", "the arm is not guarded by its own list being non-empty")
			for _, n := range order {
				if n == name {
					break
				}
				c.Expect(has(n, token.LSS), at, f, name+":higher-rank-"+n+"-empty", "the arm is reachable while a higher-rank list is non-empty")
			}
			c.Expect(loadOfCell(cell[name])(pp.Edges[i]), at, f, name+":pickers-are-its-own-list", "the picker list installed with this state is a different list")
		}
		for _, n := range append([]string{"none"}, order...) {
			c.Expect(seen[n] == 1, nil, f, "one-arm-for-"+n, "expected exactly one arm for this case")
		}
		c.WhoMayMutate("pickerWithChildStates.pickers", c.field(eshp, "pickerWithChildStates", "pickers"), c.scope(eshp), eshp+".endpointSharding.updateStateLocked")
	})
	c.Ob("rr-index", "R8", "pickerWithChildStates.Pick: element index is AddUint32(&p.next,1) % uint32(len(p.pickers)) and the pick is delegated to that element", 3, func() {
		f := c.fn(eshp, "pickerWithChildStates.Pick")
		fP := c.field(eshp, "pickerWithChildStates", "pickers")
		fN := c.field(eshp, "pickerWithChildStates", "next")
		pk := one(c, "delegated Pick", callsIn(f, Callee(balp, "Picker.Pick")))
		u, ok := pk.Common().Value.(*ssa.UnOp)
		var ia *ssa.IndexAddr
		if ok {
			ia, _ = u.X.(*ssa.IndexAddr)
		}
		if !c.Expect(ia != nil && FieldLoad(fP)(ia.X), pk, f, "delegates-to-element-of-pickers", "Pick is not delegated to an element of p.pickers") {
			return
		}
		inc := func(v ssa.Value) bool {
			call, ok := v.(*ssa.Call)
			return ok && CalleeX("sync/atomic", "AddUint32")(&call.Call) && FieldAddrOf(fN)(call.Call.Args[0]) && ConstInt(1)(call.Call.Args[1])
		}
		c.ValueIs(pk, stripConv(ia.Index), "index-is-counter-mod-len", BinOpV(token.REM, inc, func(v ssa.Value) bool { return LenOf(FieldLoad(fP))(stripConv(v)) }))
		c.Expect(len(callsIn(f, CalleeX("sync/atomic", "AddUint32"))) == 1, pk, f, "one-increment-per-pick", "the counter is not advanced exactly once per pick")
		for _, r := range returnsOf(f) {
			c.ValueIs(r, r.Results[0], "returns-the-delegate's-result", ExtractOf(func(v ssa.Value) bool { return v == pk.Value() }, 0))
		}
	})
	type agg struct {
		pkg, typ, ev, build string
	}
	for _, a := range []agg{{waggp, "Aggregator", "csEvltr", "build"}, {cmgrp, "balancerStateAggregator", "csEval", "buildLocked"}} {
		a := a
		c.Ob("aggregator:"+a.typ, "R8", a.pkg+": reported state comes from the evaluator (TF when there are no children); each write of a child's counted state is paired with RecordTransition(previously counted, newly counted); add counts Shutdown->K with a fresh entry counted K; remove counts counted->Shutdown and deletes the entry", 7, func() {
			fEv := c.field(a.pkg, a.typ, a.ev)
			fMap := c.field(a.pkg, a.typ, "idToPickerState")
			var elemT string
			if a.pkg == waggp {
				elemT = "weightedPickerState"
			} else {
				elemT = "subBalancerState"
			}
			fAgg := c.field(a.pkg, elemT, "stateToAggregate")
			fCS := c.field(balp, "State", "ConnectivityState")
			isRT := Callee(balp, cse+".RecordTransition")
			shut := k("Shutdown")
			bf := c.fn(a.pkg, a.typ+"."+a.build)
			n := 0
			for _, st := range storesToField(bf, fCS) {
				n++
				if CallRes(Callee(balp, cse+".CurrentState"), 0)(st.Val) {
					continue
				}
				if c.Expect(k("TransientFailure")(st.Val), st, bf, "reported-state-from-evaluator", "the reported state is neither the evaluator's state nor the no-children TransientFailure") {
					c.MustFact(st, "TF-constant-only-without-children", CmpInt(LenOf(FieldLoad(fMap)), token.EQL, 0))
				}
			}
			c.Expect(n >= 1, nil, bf, "builds-a-state", "no reported state found")
			for _, cs := range callsIn(bf, Callee(balp, cse+".CurrentState")) {
				c.Expect(FieldLoad(fEv)(cs.Common().Args[0]), cs, bf, "own-evaluator", "state taken from a different evaluator")
			}
			// weighted target: in the READY arm only READY children feed the picker
			if a.pkg == waggp {
				n := 0
				for _, in := range instrsWhere(bf, func(in ssa.Instruction) bool {
					call, ok := in.(*ssa.Call)
					return ok && BuiltinCall("append")(&call.Call)
				}) {
					if c.HasFact(in, Cmp(CallRes(Callee(balp, cse+".CurrentState"), 0), token.EQL, k("TransientFailure"))) {
						continue // all children are in TF: every picker is used
					}
					n++
					c.MustFact(in, "ready-arm-uses-only-ready-children", Cmp(FieldLoad(fAgg), token.EQL, k("Ready")))
				}
				c.Expect(n == 1, nil, bf, "ready-arm-collects", "expected one collection of READY children")
			}
			// conservation
			for _, f := range c.scope(a.pkg) {
				rts := callsIn(f, isRT)
				sts := storesToField(f, fAgg)
				usedRT := map[ssa.CallInstruction]bool{}
				for _, st := range sts {
					c.inst("counted-state write <- " + c.siteStr(st))
					fa := st.Addr.(*ssa.FieldAddr)
					_, fresh := fa.X.(*ssa.Alloc)
					var match ssa.CallInstruction
					for _, rt := range rts {
						args := rt.Common().Args
						if !FieldLoad(fEv)(args[0]) {
							continue
						}
						newOK := sameValue(args[2], st.Val) || constEq(args[2], st.Val)
						var oldOK bool
						if fresh {
							oldOK = shut(args[1])
						} else {
							oldOK = FieldLoad(fAgg)(args[1]) && sameValue(fieldBase(args[1]), fa.X)
						}
						if newOK && oldOK && (fresh || thenAlways(rt, st)) {
							match = rt
						}
					}
					if c.Expect(match != nil, st, f, "counted-state-write-is-recorded", "a child's counted state changes without the matching RecordTransition(previous, new)") {
						usedRT[match] = true
					}
				}
				for _, rt := range rts {
					c.inst("RecordTransition <- " + c.siteStr(rt))
					if usedRT[rt] {
						continue
					}
					args := rt.Common().Args
					// removal: counted -> Shutdown, followed by delete of the entry
					okRem := shut(args[2]) && FieldLoad(fAgg)(args[1]) && LookupBase(FieldLoad(fMap))(fieldBase(args[1]))
					if okRem {
						del := false
						for _, in := range instrsWhere(f, func(in ssa.Instruction) bool {
							call, ok := in.(*ssa.Call)
							return ok && BuiltinCall("delete")(&call.Call) && FieldLoad(fMap)(call.Call.Args[0])
						}) {
							if instrDominates(rt, in) {
								del = true
							}
						}
						okRem = del
					}
					c.Expect(okRem, rt, f, "unpaired-transition-is-a-removal", "a RecordTransition is neither paired with a counted-state write nor a removal (counted -> Shutdown + delete)")
				}
			}
			// every aggregator user of RecordTransition uses its own evaluator
			c.WhoMayMutate(a.ev, fEv, c.scope(a.pkg), a.pkg+".New", a.pkg+".newBalancerStateAggregator")
		})
	}
}

func isPickerSlice(t types.Type) bool {
	s, ok := t.Underlying().(*types.Slice)
	if !ok {
		return false
	}
	n, ok := s.Elem().(*types.Named)
	return ok && n.Obj().Name() == "Picker"
}

// appendedElems: for append(x, a, b) (lowered to a varargs array) the stored element values.
func appendedElems(ap *ssa.Call) []ssa.Value {
	if len(ap.Call.Args) != 2 {
		return nil
	}
	sl, ok := ap.Call.Args[1].(*ssa.Slice)
	if !ok {
		return nil
	}
	al, ok := sl.X.(*ssa.Alloc)
	if !ok {
		return nil
	}
	var out []ssa.Value
	for _, r := range *al.Referrers() {
		if ia, ok := r.(*ssa.IndexAddr); ok {
			for _, rr := range *ia.Referrers() {
				if st, ok := rr.(*ssa.Store); ok && st.Addr == ia {
					out = append(out, st.Val)
				}
			}
		}
	}
	return out
}

func allocRoot(v ssa.Value) *ssa.Alloc {
	for i := 0; i < 10; i++ {
		switch x := v.(type) {
		case *ssa.UnOp:
			v = x.X
		case *ssa.FieldAddr:
			v = x.X
		case *ssa.Alloc:
			return x
		default:
			return nil
		}
	}
	return nil
}

// nonEmptyFresh: v is a slice of a fresh array of constant length >= 1.
func nonEmptyFresh(v ssa.Value) bool {
	sl, ok := v.(*ssa.Slice)
	if !ok {
		return false
	}
	al, ok := sl.X.(*ssa.Alloc)
	if !ok {
		return false
	}
	arr, ok := al.Type().Underlying().(*types.Pointer).Elem().Underlying().(*types.Array)
	return ok && arr.Len() >= 1 && sl.Low == nil && sl.High == nil
}

// isRangeIndex: the index of a `for i := range s` loop (phi+1 in go/ssa's
// rangeindex lowering) or of the equivalent `for i := 0; i < n; i++` loop.
func isRangeIndex(v ssa.Value) bool {
	if p, ok := v.(*ssa.Phi); ok {
		in := loopInit(p)
		if len(in) != 1 || !ConstInt(0)(in[0]) {
			return false
		}
		for _, e := range p.Edges {
			if e == in[0] {
				continue
			}
			if !BinOpV(token.ADD, func(x ssa.Value) bool { return x == ssa.Value(p) }, ConstInt(1))(e) {
				return false
			}
		}
		return true
	}
	b, ok := v.(*ssa.BinOp)
	if !ok || b.Op != token.ADD || !ConstInt(1)(b.Y) {
		return false
	}
	p, ok := b.X.(*ssa.Phi)
	return ok && p.Comment == "rangeindex"
}

func constEq(a, b ssa.Value) bool {
	ca, cb := constOf(a), constOf(b)
	return ca != nil && cb != nil && ca.Value != nil && cb.Value != nil && ca.Value.ExactString() == cb.Value.ExactString() && types.Identical(ca.Type(), cb.Type())
}
