package main

// Must-hold branch facts: a forward must-analysis (intersection at joins)
// over the CFG of an SSA function. An atom is "condition value c evaluated to
// pol on the way here"; at joins, equalities of one value with different
// constants are merged into a membership atom (the `case A, B:` idiom).

import (
	"go/types"
	"fmt"
	"go/constant"
	"go/token"
	"sort"
	"strings"

	"golang.org/x/tools/go/ssa"
)

type atom struct {
	v    ssa.Value // condition (bool) or, for set atoms, the compared value
	pol  bool
	set  []*ssa.Const // non-nil for membership atoms: v ∈ set
	skey string
}

func (a atom) key() string {
	if a.set != nil {
		return fmt.Sprintf("S%p{%s}", a.v, a.skey)
	}
	if a.pol {
		return fmt.Sprintf("T%p", a.v)
	}
	return fmt.Sprintf("F%p", a.v)
}

type atomSet map[string]atom

func constKey(c *ssa.Const) string {
	if c.Value == nil {
		return "nil:" + c.Type().String()
	}
	return c.Value.ExactString()
}

func mkSetAtom(x ssa.Value, cs []*ssa.Const) atom {
	m := map[string]*ssa.Const{}
	for _, c := range cs {
		m[constKey(c)] = c
	}
	keys := make([]string, 0, len(m))
	for k := range m {
		keys = append(keys, k)
	}
	sort.Strings(keys)
	out := make([]*ssa.Const, 0, len(keys))
	for _, k := range keys {
		out = append(out, m[k])
	}
	return atom{v: x, set: out, skey: strings.Join(keys, ",")}
}

// eqConsts extracts, from an atom set, for each value X the constants C such
// that the set implies X ∈ C.
func eqConsts(s atomSet) map[ssa.Value][]*ssa.Const {
	out := map[ssa.Value][]*ssa.Const{}
	for _, a := range s {
		if a.set != nil {
			out[a.v] = append(out[a.v], a.set...)
			continue
		}
		x, c, ok := eqConstOf(a.v, a.pol)
		if ok {
			out[x] = append(out[x], c)
		}
	}
	return out
}

// eqConstOf: does (cond==pol) mean X == const?
func eqConstOf(cond ssa.Value, pol bool) (ssa.Value, *ssa.Const, bool) {
	for {
		u, ok := cond.(*ssa.UnOp)
		if ok && u.Op == token.NOT {
			cond, pol = u.X, !pol
			continue
		}
		break
	}
	b, ok := cond.(*ssa.BinOp)
	if !ok {
		return nil, nil, false
	}
	if !(b.Op == token.EQL && pol || b.Op == token.NEQ && !pol) {
		return nil, nil, false
	}
	if c, ok := b.Y.(*ssa.Const); ok {
		return b.X, c, true
	}
	if c, ok := b.X.(*ssa.Const); ok {
		return b.Y, c, true
	}
	return nil, nil, false
}

func (fi *FuncInfo) computeFacts() {
	if fi.factsOK {
		return
	}
	fi.factsOK = true
	fn := fi.Fn
	n := len(fn.Blocks)
	in := make([]atomSet, n) // nil = TOP
	if n == 0 {
		return
	}
	in[0] = atomSet{}
	if fn.Recover != nil {
		in[fn.Recover.Index] = atomSet{}
	}
	edgeOut := func(p, b *ssa.BasicBlock) atomSet {
		if in[p.Index] == nil || blockNoReturn(p) {
			return nil
		}
		out := atomSet{}
		for k, a := range in[p.Index] {
			out[k] = a
		}
		if c := blockCond(p); c != nil && len(p.Succs) == 2 && p.Succs[0] != p.Succs[1] {
			var a atom
			if p.Succs[0] == b {
				a = atom{v: c, pol: true}
			} else {
				a = atom{v: c, pol: false}
			}
			out[a.key()] = a
		}
		return out
	}
	changed := true
	for iter := 0; changed && iter < 200; iter++ {
		changed = false
		for _, b := range fn.Blocks {
			if b.Index == 0 || b == fn.Recover {
				continue
			}
			var acc atomSet
			var contrib []atomSet
			for _, p := range b.Preds {
				e := edgeOut(p, b)
				if e == nil {
					continue // TOP
				}
				contrib = append(contrib, e)
			}
			if len(contrib) == 0 {
				continue
			}
			acc = atomSet{}
			for k, a := range contrib[0] {
				ok := true
				for _, o := range contrib[1:] {
					if _, has := o[k]; !has {
						ok = false
						break
					}
				}
				if ok {
					acc[k] = a
				}
			}
			if len(contrib) > 1 {
				// membership merge
				first := eqConsts(contrib[0])
				for x, cs := range first {
					all := append([]*ssa.Const(nil), cs...)
					ok := true
					for _, o := range contrib[1:] {
						oc := eqConsts(o)[x]
						if len(oc) == 0 {
							ok = false
							break
						}
						all = append(all, oc...)
					}
					if ok {
						a := mkSetAtom(x, all)
						if len(a.set) > 1 {
							acc[a.key()] = a
						}
					}
				}
			}
			if in[b.Index] == nil || !sameKeys(in[b.Index], acc) {
				in[b.Index] = acc
				changed = true
			}
		}
	}
	fi.facts = make([][]Fact, n)
	for i := range in {
		fi.facts[i] = normalize(in[i])
	}
}

func sameKeys(a, b atomSet) bool {
	if len(a) != len(b) {
		return false
	}
	for k := range a {
		if _, ok := b[k]; !ok {
			return false
		}
	}
	return true
}

// Fact is a normalised branch fact known to hold.
//
//	Kind "truth": X evaluated to Pol          (X is a bool value)
//	Kind "cmp":   X Op Y                      (Op one of == != < <= > >=)
//	Kind "in":    X ∈ Set
type Fact struct {
	Kind string
	X, Y ssa.Value
	Op   token.Token
	Pol  bool
	Set  []*ssa.Const
}

func (f Fact) String() string {
	switch f.Kind {
	case "truth":
		return fmt.Sprintf("%s is %v", valStr(f.X), f.Pol)
	case "cmp":
		return fmt.Sprintf("%s %s %s", valStr(f.X), f.Op, valStr(f.Y))
	case "in":
		var cs []string
		for _, c := range f.Set {
			cs = append(cs, c.String())
		}
		return fmt.Sprintf("%s in {%s}", valStr(f.X), strings.Join(cs, ","))
	}
	return "?"
}

func valStr(v ssa.Value) string {
	if v == nil {
		return "<nil>"
	}
	switch x := v.(type) {
	case *ssa.Const:
		return x.String()
	case *ssa.Call:
		if c := calleeName(&x.Call); c != "" {
			return c + "(...)"
		}
	case *ssa.Extract:
		return fmt.Sprintf("%s#%d", valStr(x.Tuple), x.Index)
	case *ssa.UnOp:
		if x.Op == token.MUL {
			return "*" + valStr(x.X)
		}
		return x.Op.String() + valStr(x.X)
	case *ssa.FieldAddr:
		return valStr(x.X) + "." + fieldOfAddr(x).Name()
	case *ssa.Field:
		return valStr(x.X) + "." + fieldOfVal(x).Name()
	case *ssa.Parameter:
		return x.Name()
	case *ssa.FreeVar:
		return x.Name()
	case *ssa.Global:
		return x.Name()
	case *ssa.Alloc:
		if x.Comment != "" {
			return x.Comment
		}
	case *ssa.BinOp:
		return "(" + valStr(x.X) + " " + x.Op.String() + " " + valStr(x.Y) + ")"
	case *ssa.Lookup:
		return valStr(x.X) + "[" + valStr(x.Index) + "]"
	}
	return v.Name()
}

func negOp(op token.Token) token.Token {
	switch op {
	case token.EQL:
		return token.NEQ
	case token.NEQ:
		return token.EQL
	case token.LSS:
		return token.GEQ
	case token.GEQ:
		return token.LSS
	case token.GTR:
		return token.LEQ
	case token.LEQ:
		return token.GTR
	}
	return token.ILLEGAL
}

func swapOp(op token.Token) token.Token {
	switch op {
	case token.LSS:
		return token.GTR
	case token.GTR:
		return token.LSS
	case token.LEQ:
		return token.GEQ
	case token.GEQ:
		return token.LEQ
	}
	return op
}

func isCmp(op token.Token) bool {
	switch op {
	case token.EQL, token.NEQ, token.LSS, token.LEQ, token.GTR, token.GEQ:
		return true
	}
	return false
}

func normalize(s atomSet) []Fact {
	if s == nil {
		return nil
	}
	keys := make([]string, 0, len(s))
	for k := range s {
		keys = append(keys, k)
	}
	sort.Strings(keys)
	var out []Fact
	for _, k := range keys {
		a := s[k]
		if a.set != nil {
			out = append(out, Fact{Kind: "in", X: a.v, Set: a.set})
			continue
		}
		out = append(out, expandAtom(a.v, a.pol, 0)...)
	}
	return out
}

func expandAtom(v ssa.Value, pol bool, depth int) []Fact {
	out := []Fact{{Kind: "truth", X: v, Pol: pol}}
	if depth > 6 {
		return out
	}
	switch x := v.(type) {
	case *ssa.UnOp:
		if x.Op == token.NOT {
			out = append(out, expandAtom(x.X, !pol, depth+1)...)
		}
	case *ssa.BinOp:
		// `b == false`, `b != true`, ...: the truth of the boolean operand
		if x.Op == token.EQL || x.Op == token.NEQ {
			for _, pr := range [][2]ssa.Value{{x.X, x.Y}, {x.Y, x.X}} {
				if k, ok := pr[1].(*ssa.Const); ok && k.Value != nil && k.Value.Kind() == constant.Bool {
					p := constant.BoolVal(k.Value) == (x.Op == token.EQL)
					if !pol {
						p = !p
					}
					out = append(out, expandAtom(pr[0], p, depth+1)...)
				}
			}
		}
		if isCmp(x.Op) {
			op := x.Op
			if !pol {
				op = negOp(op)
			}
			// constants are kept on the right (`nil != err` is the fact `err != nil`), so that rules and
			// reports read the same for either spelling
			fx, fy := x.X, x.Y
			if _, isC := fx.(*ssa.Const); isC {
				if _, isC2 := fy.(*ssa.Const); !isC2 {
					fx, fy, op = fy, fx, swapOp(op)
				}
			}
			out = append(out, Fact{Kind: "cmp", X: fx, Op: op, Y: fy})
			// len(s) == 0 / != 0 / > 0 on a string is the same test as s == "" / != "": add the twin so that
			// either spelling satisfies a rule stated on the other
			if tw, ok := emptyStringTwin(fx, op, fy); ok {
				out = append(out, tw)
			}
		}
	case *ssa.Phi:
		// `a && b` / `a || b` stored in a variable: phi [const, b].
		// true  & edges {false-const, b}  => b true (and the branch that led to b)
		// false & edges {true-const, b}   => b false
		var other ssa.Value
		constCount := 0
		for _, e := range x.Edges {
			if c, ok := e.(*ssa.Const); ok && c.Value != nil && c.Value.Kind() == constant.Bool {
				if constant.BoolVal(c.Value) == pol {
					// phi could be pol via this edge: nothing can be concluded
					return out
				}
				constCount++
			} else {
				if other != nil && other != e {
					return out
				}
				other = e
			}
		}
		if other != nil && constCount > 0 {
			out = append(out, expandAtom(other, pol, depth+1)...)
		}
	}
	return out
}

// FactsAt returns the must-facts at an instruction (block entry facts).
func FactsAt(in ssa.Instruction) []Fact {
	fi := info(in.Parent())
	fi.computeFacts()
	return fi.facts[in.Block().Index]
}

func FactsAtBlock(b *ssa.BasicBlock) []Fact {
	fi := info(b.Parent())
	fi.computeFacts()
	return fi.facts[b.Index]
}

// emptyStringTwin: for `len(s) op 0` with s a string and op in {==, !=, >, <=, <1...} return the fact `s ==/!= ""`.
func emptyStringTwin(x ssa.Value, op token.Token, y ssa.Value) (Fact, bool) {
	call, ok := x.(*ssa.Call)
	if !ok {
		return Fact{}, false
	}
	b, ok := call.Call.Value.(*ssa.Builtin)
	if !ok || b.Name() != "len" || len(call.Call.Args) != 1 {
		return Fact{}, false
	}
	st, ok := call.Call.Args[0].Type().Underlying().(*types.Basic)
	if !ok || st.Info()&types.IsString == 0 {
		return Fact{}, false
	}
	k, ok := y.(*ssa.Const)
	if !ok || k.Value == nil || k.Value.Kind() != constant.Int {
		return Fact{}, false
	}
	n, _ := constant.Int64Val(k.Value)
	empty := ssa.NewConst(constant.MakeString(""), call.Call.Args[0].Type())
	switch {
	case n == 0 && (op == token.EQL || op == token.LEQ), n == 1 && op == token.LSS:
		return Fact{Kind: "cmp", X: call.Call.Args[0], Op: token.EQL, Y: empty}, true
	case n == 0 && (op == token.NEQ || op == token.GTR), n == 1 && op == token.GEQ:
		return Fact{Kind: "cmp", X: call.Call.Args[0], Op: token.NEQ, Y: empty}, true
	}
	return Fact{}, false
}
