package main

import (
	"go/token"
	"go/types"
	"strings"

	"golang.org/x/tools/go/ssa"
)

const pfp = "balancer/pickfirst"

func init() {
	register(&PropDef{
		ID:    "C34",
		Pkgs:  []string{pfp},
		Claim: "Decides the structural part: READY (and a picker carrying a subchannel) is reported only on arms where the reporting subchannel's new (raw resp. health) state is READY, with that same subchannel in the picker; the raw-READY arm shuts down all other subchannels before reporting anything, and shutdownRemaining keeps only the selected one; both state callbacks do nothing for a subchannel that is no longer the active one for its address and record the raw state first; in a pass Connect is requested only for an IDLE subchannel and the walk stops there (no second attempt in the same call), failed addresses are marked; the first pass ends (firstPass=false, TRANSIENT_FAILURE reported) only when the address list is exhausted and no subchannel is unmarked; outside the first pass the subchannel callback reports only TRANSIENT_FAILURE (never CONNECTING), in the first pass CONNECTING is not reported for a subchannel whose effective state is TRANSIENT_FAILURE, and duplicate-state suppression never drops a TRANSIENT_FAILURE report; the address list installed is interleave(deDup(addresses)) and deDup keeps an address only on the not-seen arm; the happy-eyeballs timer callback reads its cancellation flag, advances the list and requests the next connection only with the balancer mutex held, all timer cancellations run under that mutex, and balancer/subchannel bookkeeping fields are accessed under it. The existing connection is kept across a resolver update only if the previously selected subchannel was raw READY; no Connect follows a failed subchannel creation and the walk is abandoned only then; the policy drops back to IDLE only when the selected subchannel left READY or went from CONNECTING straight to IDLE.",
		NotDecided:  []string{"that interleaving is a permutation preserving per-family order (value property of the slices)", "the state space of address lists x subchannel event orders against a model", "RFC 8305 family classification of address strings"},
		Assumptions: []string{"sync.Mutex and sync.OnceFunc semantics", "the channel delivers subchannel state updates serially"},
		Technique:   "static analysis: must-hold branch facts and refusing-arm unreachability on go/ssa (including range-over-func bodies via their exit codes), must-pass-through, value identity of picker contents, who-may-write, must-lockset including captured cells",
		Run:         c34,
	})
}

func c34(c *Ctx) {
	pb, sdT := "pickfirstBalancer", "scData"
	fState := c.field(pfp, pb, "state")
	fSubs := c.field(pfp, pb, "subConns")
	fAL := c.field(pfp, pb, "addressList")
	fFirst := c.field(pfp, pb, "firstPass")
	fNumTF := c.field(pfp, pb, "numTF")
	fCancel := c.field(pfp, pb, "cancelConnectionTimer")
	fHC := c.field(pfp, pb, "healthCheckingEnabled")
	mu := c.field(pfp, pb, "mu")
	fRaw := c.field(pfp, sdT, "rawConnectivityState")
	fEff := c.field(pfp, sdT, "effectiveState")
	fFailed := c.field(pfp, sdT, "connectionFailedInFirstPass")
	fSC := c.field(pfp, sdT, "subConn")
	fCS := c.field("balancer", "State", "ConnectivityState")
	fSCS := c.field("balancer", "SubConnState", "ConnectivityState")
	fPRsc := c.field("balancer", "PickResult", "SubConn")
	k := func(n string) VM { return ConstOfObj(c.konst("connectivity", n)) }
	us := c.fn(pfp, pb+".updateSubConnState")
	uh := c.fn(pfp, pb+".updateSubConnHealthState")
	newCS := func(v ssa.Value) bool { return FieldLoad(fSCS)(v) && (rootIsParam(v, "newState") || rootIsParam(v, "state")) }
	isReport := AnyCM(Callee(pfp, pb+".updateBalancerState"), Callee(pfp, pb+".forceUpdateConcludedStateLocked"))
	active := Truth(CallRes(Callee(pfp, pb+".isActiveSCData"), 0), true)

	// reportedConst: the ConnectivityState constant of the State literal passed to a report call.
	reportedConst := func(ci ssa.CallInstruction) (string, *ssa.Alloc) {
		arg := ci.Common().Args[1]
		u, ok := arg.(*ssa.UnOp)
		if !ok {
			return "", nil
		}
		al, ok := u.X.(*ssa.Alloc)
		if !ok {
			return "", nil
		}
		for _, st := range partStoresTo(al) {
			if fa, ok := st.Addr.(*ssa.FieldAddr); ok && sameField(fieldOfAddr(fa), fCS) {
				for _, n := range []string{"Ready", "Connecting", "Idle", "TransientFailure", "Shutdown"} {
					if k(n)(st.Val) {
						return n, al
					}
				}
			}
		}
		return "", al
	}
	// pickerSubConn: the SubConn stored into the picker of the State literal (nil if none).
	pickerSubConn := func(f *ssa.Function, ci ssa.CallInstruction) ssa.Value {
		for _, st := range storesToField(f, fPRsc) {
			if together(st, ci) {
				return st.Val
			}
		}
		return nil
	}

	c.Ob("ready-picker", "R2", "READY and pickers carrying a subchannel are produced only where the callback's new state is READY, for the callback's own subchannel (raw READY additionally only without health checking)", 6, func() {
		nReady, nPR := 0, 0
		for _, f := range c.scope(pfp) {
			for _, st := range storesToField(f, fPRsc) {
				nPR++
				c.inst("picker with subchannel <- " + c.siteStr(st))
				c.MustFact(st, "subchannel-picker-only-when-READY", Cmp(newCS, token.EQL, k("Ready")))
				c.ValueIs(st, st.Val, "picker-carries-the-reporting-subchannel", FieldLoadOn(fSC, ParamV("sd")))
				c.MustFact(st, "subchannel-picker-only-for-active-subchannel", active)
			}
			for _, ci := range callsIn(f, isReport) {
				n, _ := reportedConst(ci)
				c.inst("report " + n + " <- " + c.siteStr(ci))
				if !c.Expect(n != "" || shortName(f) == pfp+"."+pb+".updateBalancerState", ci, f, "reported-state-is-a-literal", "a state report whose connectivity state is not a literal constant") {
					continue
				}
				if n == "Ready" {
					nReady++
					c.MustFact(ci, "READY-only-when-subchannel-READY", Cmp(newCS, token.EQL, k("Ready")))
					c.Expect(pickerSubConn(f, ci) != nil, ci, f, "READY-comes-with-a-subchannel-picker", "READY is reported with a picker that carries no subchannel")
					if f == us {
						c.MustFact(ci, "raw-READY-suffices-only-without-health-checking", Truth(FieldLoad(fHC), false))
					}
				} else if n != "" {
					c.Expect(pickerSubConn(f, ci) == nil, ci, f, n+"-has-no-subchannel-picker", "a non-READY report carries a subchannel picker")
				}
			}
		}
		c.Expect(nReady == 2 && nPR == 2, nil, nil, "two-READY-sites", "expected two READY report sites (raw READY without health listener, health READY)")
		for _, st := range storesToField(us, fEff) {
			if k("Ready")(st.Val) {
				c.MustFact(st, "effective-READY-only-when-raw-READY", Cmp(newCS, token.EQL, k("Ready")))
			}
		}
	})
	c.Ob("obsolete-subconn", "R2", "both callbacks record the state first, then return unless the subchannel is the active one for its address; all effects are on the active arm", 10, func() {
		for _, f := range []*ssa.Function{us, uh} {
			n := 0
			for _, b := range f.Blocks {
				for _, in := range b.Instrs {
					call, ok := in.(*ssa.Call)
					if !ok || call.Call.IsInvoke() && call.Call.Method.Name() == "V" {
						continue
					}
					cf := calleeFunc(&call.Call)
					if cf == nil || cf.Pkg() == nil {
						continue
					}
					nm := cf.Name()
					if strings.HasSuffix(nm, "Lock") || strings.HasSuffix(nm, "Unlock") || nm == "isActiveSCData" || nm == "V" || nm == "Infof" || nm == "Errorf" {
						continue
					}
					n++
					c.MustFact(call, f.Name()+":effect-only-for-active-subchannel:"+nm, active)
				}
			}
			c.Expect(n >= 3, nil, f, f.Name()+":effects-found", "fewer effects than expected")
			for _, st := range storesToField(f, fEff) {
				c.MustFact(st, f.Name()+":effective-state-only-for-active", active)
			}
			for _, ci := range callsIn(f, Callee(pfp, pb+".isActiveSCData")) {
				c.ArgIs(ci, 1, f.Name()+":liveness-of-own-subchannel", ParamV("sd"))
			}
		}
		st := one(c, "raw state store", storesToField(us, fRaw))
		c.ValueIs(st, st.Val, "raw-state-is-the-new-state", newCS)
		c.Expect(len(FactsAt(st)) == 0, st, us, "raw-state-recorded-unconditionally", "the raw state is recorded only on some arms")
		c.WhoMayMutate("rawConnectivityState", fRaw, c.scope(pfp), pfp+"."+pb+".updateSubConnState", pfp+"."+pb+".newSCData")
		ia := c.fn(pfp, pb+".isActiveSCData")
		for _, r := range returnsOf(ia) {
			_ = r
		}
		c.Expect(len(callsIn(ia, Callee("resolver", "AddressMapV2.Get"))) == 1, nil, ia, "active-means-in-the-map", "isActiveSCData does not consult the subchannel map")
	})
	c.Ob("shutdown-others", "R3", "raw READY: shutdownRemainingLocked(sd) runs before any report; it shuts down every other subchannel and keeps only the selected one", 6, func() {
		var starts []*ssa.BasicBlock
		for _, b := range us.Blocks {
			for _, su := range b.Succs {
				if _, ok := hasFact(edgeOnlyFacts(b, su), Cmp(newCS, token.EQL, k("Ready"))); ok {
					starts = append(starts, su)
				}
			}
		}
		isSR := isCallTo(Callee(pfp, pb+".shutdownRemainingLocked"))
		if c.Expect(len(starts) == 1, nil, us, "raw-READY-arm", "the raw READY arm was not found") {
			c.MustPass("others-shut-down-before-any-report", pathQuery{Fn: us, StartBlocks: starts, Barrier: isSR, Target: orInstr(isCallTo(isReport), isReturn)}, nil)
		}
		for _, ci := range callsIn(us, Callee(pfp, pb+".shutdownRemainingLocked")) {
			c.ArgIs(ci, 1, "keeps-the-reporting-subchannel", ParamV("sd"))
		}
		// the address list is positioned on the selected subchannel's address on every raw-READY path: every report on the
		// raw-READY arm follows a successful seekTo(sd.addr), unconditionally (a later resolver update finds the selected
		// subchannel through the list position)
		if len(starts) == 1 {
			seeks := callsIn(us, Callee(pfp, "addressList.seekTo"))
			if c.Expect(len(seeks) == 1, nil, us, "position-set-on-READY", "the address list is not positioned on the READY subchannel") {
				sk := seeks[0]
				c.ArgIs(sk, 1, "seeks-the-reporting-subchannel's-address", FieldLoadOn(c.field(pfp, "scData", "addr"), ParamV("sd")))
				isSk := func(in ssa.Instruction) bool { return in == sk.(ssa.Instruction) }
				c.MustPass("raw-READY-always-positions-the-address-list", pathQuery{Fn: us, StartBlocks: starts, Barrier: isSk, Target: orInstr(isCallTo(isReport), isCallTo(Callee("balancer", "SubConn.RegisterHealthListener")))}, sk)
				for _, rp := range callsIn(us, isReport) {
					if instrDominates(sk, rp) {
						c.MustFact(rp, "report-only-after-the-position-was-found", Truth(func(v ssa.Value) bool { return v == sk.Value() }, true))
					}
				}
			}
		}
		sr := c.fn(pfp, pb+".shutdownRemainingLocked")
		var sdn ssa.CallInstruction
		var body *ssa.Function
		for _, g := range sr.AnonFuncs {
			for _, ci := range callsIn(g, Callee("balancer", "SubConn.Shutdown")) {
				sdn, body = ci, g
			}
		}
		if c.Expect(sdn != nil, nil, sr, "others-shutdown-call", "shutdownRemainingLocked does not shut subchannels down") {
			same := Cmp(FieldLoad(fSC), token.EQL, FieldLoad(fSC))
			diff := Cmp(FieldLoad(fSC), token.NEQ, FieldLoad(fSC))
			c.Unreachable(sdn, "selected-not-shut-down", same)
			c.MustPass("every-other-subchannel-shut-down", pathQuery{Fn: body, StartBlocks: edgeTargetsWhere(body, diff), Barrier: func(in ssa.Instruction) bool { return in == ssa.Instruction(sdn) }, Target: isReturn}, nil)
			c.Expect(len(edgeTargetsWhere(body, diff)) == 1, sdn, body, "other-arm-found", "the other-subchannel arm was not found")
		}
		st := one(c, "map replaced", storesToField(sr, fSubs))
		set := one(c, "selected re-added", callsIn(sr, Callee("resolver", "AddressMapV2.Set")))
		c.Dominates(st, set, "map-reset-then-selected-added")
		c.ArgIs(set, 2, "re-adds-the-selected", ParamV("selected"))
		c.Expect(len(callsIn(sr, FieldCall(fCancel))) == 1, nil, sr, "timer-cancelled", "the happy-eyeballs timer is not cancelled once a subchannel is selected")
	})
	c.Ob("one-attempt-per-address", "R2", "requestConnectionLocked: Connect only for an IDLE subchannel and the walk stops there; a failed one is marked and skipped; CONNECTING waits; the first pass is concluded only after the list is exhausted", 7, func() {
		rq := c.fn(pfp, pb+".requestConnectionLocked")
		con := one(c, "Connect in requestConnectionLocked", callsIn(rq, Callee("balancer", "SubConn.Connect")))
		c.MustFact(con, "connect-only-when-IDLE", Cmp(FieldLoad(fRaw), token.EQL, k("Idle")))
		isInc := isCallTo(Callee(pfp, "addressList.increment"))
		c.MustPass("no-second-attempt-after-connect", pathQuery{Fn: rq, Starts: []ssa.Instruction{con}, Target: orInstr(isInc, func(in ssa.Instruction) bool { return in != ssa.Instruction(con) && isCallTo(Callee("balancer", "SubConn.Connect"))(in) })}, con)
		c.MustPass("timer-scheduled-after-connect", pathQuery{Fn: rq, Starts: []ssa.Instruction{con}, Barrier: isCallTo(Callee(pfp, pb+".scheduleNextConnectionLocked")), Target: isReturn}, con)
		for _, st := range storesToField(rq, fFailed) {
			c.ValueIs(st, st.Val, "failed-marked-true", ConstBool(true))
			c.MustFact(st, "marked-only-when-TF", Cmp(FieldLoad(fRaw), token.EQL, k("TransientFailure")))
		}
		c.Expect(len(storesToField(rq, fFailed)) == 1, nil, rq, "failed-address-marked", "a failed address is not marked in the walk")
		end := one(c, "endFirstPassIfPossibleLocked in requestConnectionLocked", callsIn(rq, Callee(pfp, pb+".endFirstPassIfPossibleLocked")))
		c.MustFact(end, "pass-concluded-only-after-exhaustion", Truth(CallRes(Callee(pfp, "addressList.increment"), 0), false))
		// the subchannel used is the one for the current address
		get := one(c, "subConns.Get in requestConnectionLocked", callsIn(rq, Callee("resolver", "AddressMapV2.Get")))
		c.ArgIs(get, 1, "subchannel-of-current-address", AllOrigins(CallRes(Callee(pfp, "addressList.currentAddress"), 0)))
		for _, ns := range callsIn(rq, Callee(pfp, pb+".newSCData")) {
			c.MustFact(ns, "new-subchannel-only-if-absent", Truth(ExtractOf(func(v ssa.Value) bool { return v == get.Value() }, 1), false))
		}
		for _, ns := range callsIn(rq, Callee(pfp, pb+".newSCData")) {
			ns := ns
			c.Unreachable(con, "no-connect-after-failed-subchannel-creation", NotNil(ExtractOf(func(v ssa.Value) bool { return v == ns.Value() }, 1)))
			// after a successful creation the walk goes on to use the subchannel (it does not give up)
			// (a return that can only be reached through the creation is "giving up right after it")
			nAb := 0
			for _, r := range returnsOf(rq) {
				if r.Block() != rq.Recover && r.Block() != ns.Block() && ns.Block().Dominates(r.Block()) {
					nAb++
					c.MustFact(r, "walk-abandoned-only-when-creation-failed", NotNil(ExtractOf(func(v ssa.Value) bool { return v == ns.Value() }, 1)))
				}
			}
			c.Expect(nAb >= 1, ns, rq, "creation-failure-handled", "a failed subchannel creation does not end the walk")
		}
		// addressList walk
		inc := c.fn(pfp, "addressList.increment")
		for _, st := range storesToField(inc, c.field(pfp, "addressList", "idx")) {
			c.ValueIs(st, st.Val, "advance-by-one", BinOpV(token.ADD, FieldLoad(c.field(pfp, "addressList", "idx")), ConstInt(1)))
			c.MustFact(st, "advance-only-while-valid", Truth(CallRes(Callee(pfp, "addressList.isValid"), 0), true))
		}
	})
	c.Ob("back-to-idle", "R3", "subchannel callback: the policy drops back to IDLE (remaining subchannels shut down, address list reset, idle picker) only when the selected subchannel left raw READY, or went from CONNECTING straight to IDLE", 2, func() {
		rs := one(c, "addressList.reset in the state callback", callsIn(us, Callee(pfp, "addressList.reset")))
		fNew := c.field("balancer", "SubConnState", "ConnectivityState")
		c.EnteredOnlyWhen(rs.Block(), "idle-only-after-losing-READY", Cmp(FieldLoad(fRaw), token.EQL, k("Ready")), Cmp(FieldLoad(fNew), token.EQL, k("Idle")))
		c.Unreachable(rs, "no-idle-drop-from-other-states", Cmp(FieldLoad(fRaw), token.NEQ, k("Ready")), Cmp(FieldLoad(fRaw), token.NEQ, k("Connecting")))
	})
	c.Ob("pass-progress", "R3", "a subchannel failing in the first pass is marked failed and the pass moves on (next address) or is concluded; after the pass an IDLE subchannel is reconnected; a resolver update in TRANSIENT_FAILURE restarts a pass without reporting CONNECTING; the address list's cursor helpers compare with the list length", 9, func() {
		// marking
		var marks []*ssa.Store
		for _, st := range storesToField(us, fFailed) {
			marks = append(marks, st)
		}
		if c.Expect(len(marks) == 1, nil, us, "failure-marked-in-callback", "a failing subchannel is not marked failed in the state callback") {
			c.ValueIs(marks[0], marks[0].Val, "marked-true", ConstBool(true))
			c.MustFact(marks[0], "marked-only-on-TF", Cmp(newCS, token.EQL, k("TransientFailure")))
			c.OnlyFacts(marks[0], "marking-has-no-further-precondition", Cmp(newCS, token.EQL, k("TransientFailure")), Cmp(newCS, token.NEQ, k("Shutdown")), active)
		}
		// first-pass TF arm: advance or conclude
		inFirst := Truth(FieldLoad(fFirst), true)
		var starts []*ssa.BasicBlock
		for _, b := range us.Blocks {
			for _, su := range b.Succs {
				if _, ok := hasFact(edgeOnlyFacts(b, su), Cmp(newCS, token.EQL, k("TransientFailure"))); ok {
					if _, in1 := hasFact(FactsAtBlock(b), inFirst); in1 {
						starts = append(starts, su)
					}
				}
			}
		}
		if c.Expect(len(starts) == 1, nil, us, "first-pass-TF-arm", "first-pass TRANSIENT_FAILURE arm not found") {
			c.MustPass("first-pass-failure-advances-or-concludes", pathQuery{Fn: us, StartBlocks: starts, Barrier: orInstr(isCallTo(Callee(pfp, pb+".requestConnectionLocked")), isCallTo(Callee(pfp, pb+".endFirstPassIfPossibleLocked"))), Target: isReturn}, nil)
		}
		for _, st := range storesToField(us, fEff) {
			if k("TransientFailure")(st.Val) {
				c.MustFact(st, "effective-TF-only-on-TF", Cmp(newCS, token.EQL, k("TransientFailure")))
			}
		}
		// reconnects: Connect outside the walk only for an IDLE subchannel
		for _, f := range []*ssa.Function{us, c.fn(pfp, pb+".endFirstPassIfPossibleLocked")} {
			for _, g := range append([]*ssa.Function{f}, f.AnonFuncs...) {
				for _, ci := range callsIn(g, Callee("balancer", "SubConn.Connect")) {
					c.MustFactAny(ci, shortName(g)+":reconnect-only-when-IDLE", Cmp(FieldLoad(fRaw), token.EQL, k("Idle")), Cmp(newCS, token.EQL, k("Idle")))
				}
			}
		}
		// resolver update
		uc := c.fn(pfp, pb+".UpdateClientConnState")
		sfp := callsIn(uc, Callee(pfp, pb+".startFirstPassLocked"))
		c.Expect(len(sfp) == 2, nil, uc, "two-pass-starts", "expected a pass to start on the CONNECTING arm and on the TRANSIENT_FAILURE arm of a resolver update")
		nTF := 0
		for _, s := range sfp {
			if c.HasFact(s, Cmp(FieldLoad(fState), token.EQL, k("TransientFailure"))) {
				nTF++
				// sticky TF: no CONNECTING report on this arm
				for _, rep := range callsIn(uc, isReport) {
					if n, _ := reportedConst(rep); n == "Connecting" {
						c.Expect(!instrDominates(rep, s) || rep.Block() != s.Block(), rep, uc, "no-CONNECTING-on-the-TF-arm", "a resolver update while in TRANSIENT_FAILURE reports CONNECTING")
					}
				}
			}
		}
		c.Expect(nTF == 1, nil, uc, "pass-restarts-in-TF", "a resolver update in TRANSIENT_FAILURE does not start a new pass")
		for _, rep := range callsIn(uc, isReport) {
			if n, _ := reportedConst(rep); n == "Connecting" {
				c.Unreachable(rep, "CONNECTING-on-update-only-if-ready-connecting-or-first", Truth(AnyBoolPhi, false), Cmp(FieldLoad(fState), token.NEQ, k("Connecting")), CmpInt(CallRes(Callee(pfp, "addressList.size"), 0), token.NEQ, 0))
			}
		}
		// cursor helpers
		fIdx := c.field(pfp, "addressList", "idx")
		fAddrs := c.field(pfp, "addressList", "addresses")
		inBounds := BinOpV(token.LSS, FieldLoad(fIdx), LenOf(FieldLoad(fAddrs)))
		for _, r := range returnsOf(c.fn(pfp, "addressList.isValid")) {
			c.ValueIs(r, r.Results[0], "isValid=idx<len", inBounds)
		}
		for _, r := range returnsOf(c.fn(pfp, "addressList.increment")) {
			if !ConstBool(false)(r.Results[0]) {
				c.ValueIs(r, r.Results[0], "increment-reports-idx<len", inBounds)
			}
		}
		for _, r := range returnsOf(c.fn(pfp, "addressList.hasNext")) {
			if !ConstBool(false)(r.Results[0]) {
				c.ValueIs(r, r.Results[0], "hasNext=idx+1<len", BinOpV(token.LSS, BinOpV(token.ADD, FieldLoad(fIdx), ConstInt(1)), LenOf(FieldLoad(fAddrs))))
			}
		}
	})
	c.Ob("first-pass-end", "R2", "endFirstPassIfPossibleLocked: firstPass=false and the TRANSIENT_FAILURE report only with the list exhausted and no unmarked subchannel; firstPass is set only when a pass starts", 5, func() {
		ef := c.fn(pfp, pb+".endFirstPassIfPossibleLocked")
		st := one(c, "firstPass=false", storesToField(ef, fFirst))
		c.ValueIs(st, st.Val, "first-pass-ends", ConstBool(false))
		c.MustFact(st, "only-when-list-exhausted", Truth(CallRes(Callee(pfp, "addressList.isValid"), 0), false))
		c.UnreachableViaRangeFunc(st, "only-when-every-subchannel-failed", ef, Truth(FieldLoad(fFailed), false))
		rep := one(c, "TF report", callsIn(ef, isReport))
		n, _ := reportedConst(rep)
		c.Expect(n == "TransientFailure", rep, ef, "reports-TF", "the end of the first pass does not report TRANSIENT_FAILURE")
		c.Dominates(st, rep, "first-pass-ended-before-TF-report")
		c.WhoMayMutate("firstPass", fFirst, c.scope(pfp), pfp+"."+pb+".endFirstPassIfPossibleLocked", pfp+"."+pb+".startFirstPassLocked")
		sp := c.fn(pfp, pb+".startFirstPassLocked")
		for _, s := range storesToField(sp, fFirst) {
			c.ValueIs(s, s.Val, "pass-starts", ConstBool(true))
		}
		okClr := false
		for _, g := range sp.AnonFuncs {
			for _, s := range storesToField(g, fFailed) {
				okClr = ConstBool(false)(s.Val)
			}
		}
		c.Expect(okClr, nil, sp, "marks-cleared-at-pass-start", "failure marks are not cleared when a pass starts")
		for _, s := range storesToField(sp, fNumTF) {
			c.ValueIs(s, s.Val, "tf-count-reset", ConstInt(0))
		}
	})
	c.Ob("sticky-tf", "R7", "subchannel callback: CONNECTING is reported only on the raw-READY (health pending) arm or in the first pass for a subchannel not in TF; outside the first pass only TRANSIENT_FAILURE is reported (every numTF wrap); IDLE only when the selected subchannel is lost; duplicate suppression never applies to TRANSIENT_FAILURE", 8, func() {
		inFirst := Truth(FieldLoad(fFirst), true)
		rawReady := Cmp(newCS, token.EQL, k("Ready"))
		for _, ci := range callsIn(us, isReport) {
			n, _ := reportedConst(ci)
			switch n {
			case "Connecting":
				if c.HasFact(ci, rawReady) {
					c.MustFact(ci, "connecting-on-READY-only-with-health-checking", Truth(FieldLoad(fHC), true))
				} else {
					c.MustFact(ci, "connecting-only-in-first-pass", inFirst)
					c.MustFact(ci, "connecting-not-after-TF", Cmp(FieldLoad(fEff), token.NEQ, k("TransientFailure")))
					c.MustFact(ci, "connecting-only-when-subchannel-connecting", Cmp(newCS, token.EQL, k("Connecting")))
				}
			case "TransientFailure":
				c.MustFact(ci, "TF-outside-first-pass", Truth(FieldLoad(fFirst), false))
				c.MustFact(ci, "TF-on-subchannel-TF", Cmp(newCS, token.EQL, k("TransientFailure")))
			case "Idle":
				c.Unreachable(ci, "idle-not-for-READY-subchannel", rawReady)
			case "Ready":
			default:
				c.Expect(false, ci, us, "unexpected-report", "unexpected state reported from the subchannel callback")
			}
		}
		// after the first pass TF re-reports are never dropped
		ub := c.fn(pfp, pb+".updateBalancerState")
		fw := one(c, "forward in updateBalancerState", callsIn(ub, Callee(pfp, pb+".forceUpdateConcludedStateLocked")))
		c.ArgIs(fw, 1, "forwards-the-new-state", ParamV("newState"))
		var starts []*ssa.BasicBlock
		for _, fm := range []FM{Cmp(FieldLoad(fCS), token.NEQ, FieldLoad(fState)), Cmp(FieldLoad(fState), token.EQL, k("TransientFailure"))} {
			s := edgeTargetsWhere(ub, fm)
			c.Expect(len(s) > 0, nil, ub, "forward-arm-tested", "updateBalancerState does not test for a changed state / sticky TF")
			starts = append(starts, s...)
		}
		c.MustPass("changed-state-or-TF-always-forwarded", pathQuery{Fn: ub, StartBlocks: starts, Barrier: func(in ssa.Instruction) bool { return in == ssa.Instruction(fw) }, Target: isReturn}, nil)
		fu := c.fn(pfp, pb+".forceUpdateConcludedStateLocked")
		st := one(c, "state store", storesToField(fu, fState))
		c.ValueIs(st, st.Val, "state-tracks-reported", func(v ssa.Value) bool { return FieldLoad(fCS)(v) && rootIsParam(v, "newState") })
		up := one(c, "cc.UpdateState", callsIn(fu, MethodNamed("UpdateState", nil)))
		c.ArgIs(up, 0, "reports-the-state", ParamV("newState"))
		c.WhoMayMutate("state", fState, c.scope(pfp), pfp+"."+pb+".forceUpdateConcludedStateLocked", pfp+"."+pb+".Close", pfp+".pickfirstBuilder.Build")
		// numTF wrap
		for _, s := range storesToField(us, fNumTF) {
			c.MustFact(s, "tf-counted-outside-first-pass", Truth(FieldLoad(fFirst), false))
			c.MustFact(s, "tf-counted-on-TF", Cmp(newCS, token.EQL, k("TransientFailure")))
		}
	})
	c.Ob("dedup-interleave", "R8", "UpdateClientConnState installs interleaveAddresses(deDupAddresses(addresses)); deDup keeps an address only on the not-seen arm and marks it seen; an empty update clears the list and subchannels and reports TRANSIENT_FAILURE", 7, func() {
		uc := c.fn(pfp, pb+".UpdateClientConnState")
		var inst ssa.CallInstruction
		for _, ci := range callsIn(uc, Callee(pfp, "addressList.updateAddrs")) {
			if ConstNil(ci.Common().Args[1]) {
				c.MustFact(ci, "cleared-only-on-empty-update", CmpInt(LenOf(AnyV), token.EQL, 0))
				continue
			}
			inst = ci
		}
		if c.Expect(inst != nil, nil, uc, "list-installed", "the address list is not installed") {
			il := CallRes(Callee(pfp, "interleaveAddresses"), 0)
			c.ArgIs(inst, 1, "installs-interleaved-list", AllOrigins(il))
			for _, ci := range callsIn(uc, Callee(pfp, "interleaveAddresses")) {
				c.ArgIs(ci, 0, "interleaves-the-deduplicated-list", AllOrigins(CallRes(Callee(pfp, "deDupAddresses"), 0)))
			}
			c.Expect(len(callsIn(uc, Callee(pfp, "interleaveAddresses"))) == 1 && len(callsIn(uc, Callee(pfp, "deDupAddresses"))) == 1, inst, uc, "one-dedup-one-interleave", "expected one de-duplication and one interleaving")
			for _, rc := range callsIn(uc, Callee(pfp, pb+".reconcileSubConnsLocked")) {
				c.ArgIs(rc, 1, "reconciles-against-the-installed-list", AllOrigins(il))
			}
		}
		// the existing connection is kept (no new pass) only when the previously selected subchannel exists, is raw READY, and its address is in the new list
		for _, sk := range callsIn(uc, Callee(pfp, "addressList.seekTo")) {
			kept := Truth(func(v ssa.Value) bool { return v == sk.Value() }, true)
			for _, r := range returnsOf(uc) {
				if r.Block() == uc.Recover || !c.HasFact(r, kept) {
					continue
				}
				c.MustFact(r, "connection-kept-only-if-previously-READY", Cmp(FieldLoad(fRaw), token.EQL, k("Ready")))
			}
		}
		dd := c.fn(pfp, "deDupAddresses")
		get := one(c, "seen lookup", callsIn(dd, Callee("resolver", "AddressMapV2.Get")))
		seenOK := ExtractOf(func(v ssa.Value) bool { return v == get.Value() }, 1)
		n := 0
		for _, in := range instrsWhere(dd, func(in ssa.Instruction) bool {
			call, ok := in.(*ssa.Call)
			return ok && BuiltinCall("append")(&call.Call)
		}) {
			n++
			c.MustFact(in, "kept-only-if-not-seen", Truth(seenOK, false))
			el := appendedElems(in.(*ssa.Call))
			c.Expect(len(el) == 1 && sameValue(el[0], get.Common().Args[1]), in, dd, "keeps-the-looked-up-address", "the kept address is not the one looked up")
		}
		c.Expect(n == 1, nil, dd, "one-keep-site", "expected one append in deDupAddresses")
		set := one(c, "seen mark", callsIn(dd, Callee("resolver", "AddressMapV2.Set")))
		c.MustFact(set, "marked-when-kept", Truth(seenOK, false))
		c.Expect(sameValue(set.Common().Args[1], get.Common().Args[1]) && sameValue(set.Common().Args[0], get.Common().Args[0]), set, dd, "marks-the-same-address-in-the-same-set", "the seen mark is for a different address/set")
		c.ArgIs(get, 1, "walks-the-input", RangeValueOf(ParamV("addrs")))
		// interleave: takes the head of a family list and stores back the tail
		il := c.fn(pfp, "interleaveAddresses")
		okHead, okTail := false, false
		for _, b := range il.Blocks {
			for _, in := range b.Instrs {
				if call, ok := in.(*ssa.Call); ok && BuiltinCall("append")(&call.Call) {
					for _, e := range appendedElems(call) {
						if u, ok := e.(*ssa.UnOp); ok {
							if ia, ok := u.X.(*ssa.IndexAddr); ok && ConstInt(0)(ia.Index) {
								okHead = true
								c.MustFact(in, "head-taken-only-from-non-empty-family", CmpInt(LenOf(AnyV), token.GTR, 0))
							}
						}
					}
				}
				if mu, ok := in.(*ssa.MapUpdate); ok {
					if sl, ok := mu.Value.(*ssa.Slice); ok && ConstInt(1)(sl.Low) && sl.High == nil {
						okTail = true
					}
				}
			}
		}
		c.Expect(okHead && okTail, nil, il, "interleave-pops-heads", "interleaving does not pop the head of each family list in turn")
		// empty update
		for _, ci := range callsIn(uc, Callee(pfp, pb+".closeSubConnsLocked")) {
			c.MustFact(ci, "subchannels-closed-only-on-empty-update", CmpInt(LenOf(AnyV), token.EQL, 0))
		}
	})
	c.Ob("under-mu", "R4", "balancer and subchannel bookkeeping is accessed under b.mu; the timer callback touches its cancellation flag and the address list only after locking; every timer cancellation runs under b.mu", 30, func() {
		locked := map[string]bool{}
		for _, f := range c.scope(pfp) {
			if f.Parent() == nil && f.Signature.Recv() != nil && (strings.HasSuffix(f.Name(), "Locked") || f.Name() == "updateBalancerState" || f.Name() == "isActiveSCData" || f.Name() == "newSCData") {
				locked[shortName(f)] = true
			}
		}
		c.GuardedBy(GuardSpec{Label: "pickfirst-state", Mu: mu, Fields: []*types.Var{fState, fSubs, fAL, fFirst, fNumTF, fCancel, fHC, fRaw, fEff, fFailed}, Scope: c.scope(pfp),
			Locked: locked,
			Exempt: map[string]string{pfp + ".pickfirstBuilder.Build": "constructs the balancer before it is published"}})
		sn := c.fn(pfp, pb+".scheduleNextConnectionLocked")
		var cell *ssa.Alloc
		for _, b := range sn.Blocks {
			for _, in := range b.Instrs {
				// the cancellation flag: the boolean variable of this function that its closures capture
				if al, ok := in.(*ssa.Alloc); ok && al.Heap {
					if bt, isB := al.Type().(*types.Pointer).Elem().Underlying().(*types.Basic); isB && bt.Kind() == types.Bool {
						cell = al
					}
				}
			}
		}
		if !c.Expect(cell != nil, nil, sn, "cancellation-flag", "the timer's cancellation flag was not found") {
			return
		}
		var timerCB *ssa.Function
		for _, g := range closuresPassedTo(sn, ValueCall(GlobalLoad(c.P.LookupObj(pfp+"/internal", "TimeAfterFunc"))), 1) {
			timerCB = g
		}
		if !c.Expect(timerCB != nil, nil, sn, "timer-callback", "the happy-eyeballs timer callback was not found") {
			return
		}
		mc := makeClosureOf(timerCB)
		ls := locksets(timerCB, lockOpts{})
		nLoads := 0
		for i, fv := range timerCB.FreeVars {
			if mc.Bindings[i] != ssa.Value(cell) {
				continue
			}
			for _, r := range *fv.Referrers() {
				nLoads++
				c.Expect(ls[r][mu], r, timerCB, "cancellation-flag-read-under-mu", "the timer callback reads its cancellation flag without holding b.mu (a cancel can slip in between)")
			}
		}
		c.Expect(nLoads >= 1, nil, timerCB, "cancellation-flag-checked", "the timer callback does not check its cancellation flag")
		for _, ci := range callsIn(timerCB, Callee(pfp, "addressList.increment")) {
			c.MustFact(ci, "advance-only-if-not-cancelled", Truth(loadOfFree(timerCB, mc, cell), false))
			c.Expect(ls[ci][mu], ci, timerCB, "advance-under-mu", "the timer callback advances the list without b.mu")
		}
		for _, ci := range callsIn(timerCB, Callee(pfp, pb+".requestConnectionLocked")) {
			c.MustFact(ci, "next-attempt-only-if-list-has-more", Truth(CallRes(Callee(pfp, "addressList.increment"), 0), true))
		}
	})
}

// loadOfFree: loads, inside closure g, of the free variable bound to cell at mc.
func loadOfFree(g *ssa.Function, mc *ssa.MakeClosure, cell ssa.Value) VM {
	return func(v ssa.Value) bool {
		u, ok := v.(*ssa.UnOp)
		if !ok {
			return false
		}
		for i, fv := range g.FreeVars {
			if u.X == ssa.Value(fv) && mc.Bindings[i] == cell {
				return true
			}
		}
		return false
	}
}

// UnreachableViaRangeFunc: site (in fn, after a range-over-func loop) must be
// unreachable once the loop body took the arm where fm holds: the body requests
// an exit with a positive code on every such arm and fn does not reach site
// from the block handling that code.
func (c *Ctx) UnreachableViaRangeFunc(site ssa.Instruction, label string, fn *ssa.Function, fm FM) bool {
	found := false
	ok := true
	for _, g := range fn.AnonFuncs {
		mc := makeClosureOf(g)
		for _, b := range blocksWhere(g, fm) {
			for _, in := range b.Instrs {
				r, isRet := in.(*ssa.Return)
				if !isRet {
					continue
				}
				found = true
				// exit code stored in this block
				var code *ssa.Const
				var cell ssa.Value
				for _, x := range b.Instrs {
					if st, isSt := x.(*ssa.Store); isSt {
						if fv, isFV := st.Addr.(*ssa.FreeVar); isFV && strings.HasPrefix(fv.Name(), "jump$") {
							if k, isC := st.Val.(*ssa.Const); isC {
								code = k
								for i, y := range g.FreeVars {
									if y == fv {
										cell = mc.Bindings[i]
									}
								}
							}
						}
					}
				}
				if !ConstBool(false)(r.Results[0]) || code == nil || cell == nil || code.Int64() < 1 {
					c.violate(r, g, label, label+": the loop body continues iterating (no early exit) on the refusing arm", nil)
					ok = false
					continue
				}
				if !c.Unreachable(site, label, Cmp(loadOfCell(cell), token.EQL, ConstInt(code.Int64()))) {
					ok = false
				}
			}
		}
	}
	if !found {
		c.violate(site, fn, label, label+": the refusing condition is not tested in any range-over-func body of "+shortName(fn), nil)
		return false
	}
	return ok
}

// AnyBoolPhi matches a boolean phi (a flag computed by && / ||).
func AnyBoolPhi(v ssa.Value) bool {
	p, ok := v.(*ssa.Phi)
	if !ok {
		return false
	}
	b, ok := p.Type().Underlying().(*types.Basic)
	return ok && b.Kind() == types.Bool
}

// returnAfter: the block of the first return that the block of `after`
// dominates and that is entered directly from a test on the call's results.
func returnAfter(fn *ssa.Function, after ssa.Instruction) *ssa.BasicBlock {
	ab := after.Block()
	for _, s := range ab.Succs {
		for x := s; x != nil; {
			if _, ok := x.Instrs[len(x.Instrs)-1].(*ssa.Return); ok && len(x.Preds) == 1 {
				return x
			}
			break
		}
	}
	// one level deeper (if err != nil { if logger.V(2) {...}; return })
	for _, s := range ab.Succs {
		seen := map[*ssa.BasicBlock]bool{}
		var walk func(x *ssa.BasicBlock) *ssa.BasicBlock
		walk = func(x *ssa.BasicBlock) *ssa.BasicBlock {
			if seen[x] || !s.Dominates(x) {
				return nil
			}
			seen[x] = true
			if _, ok := x.Instrs[len(x.Instrs)-1].(*ssa.Return); ok {
				return s
			}
			for _, y := range x.Succs {
				if r := walk(y); r != nil {
					return r
				}
			}
			return nil
		}
		if r := walk(s); r != nil {
			// the arm s leads only to a return: s is the abandoning arm
			onlyReturn := true
			for x := range seen {
				for _, y := range x.Succs {
					if !s.Dominates(y) {
						onlyReturn = false
					}
				}
			}
			if onlyReturn {
				return s
			}
		}
	}
	panic(missingStep{"no abandoning arm after " + instrStr(after)})
}
