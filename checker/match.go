package main

// Matchers over the type-checked SSA program. Nothing here matches source
// text or positions: callees are resolved through go/types objects, fields
// through *types.Var identity, constants through their values.

import (
	"go/constant"
	"go/token"
	"go/types"
	"strings"

	"golang.org/x/tools/go/ssa"
)

// ---------- callees ----------

// calleeFunc returns the *types.Func a call resolves to statically (function,
// concrete method, or interface method for invoke-mode calls); nil for calls
// of func values.
func calleeFunc(c *ssa.CallCommon) *types.Func {
	if c.IsInvoke() {
		return c.Method
	}
	if f := c.StaticCallee(); f != nil {
		if o := f.Origin(); o != nil {
			f = o
		}
		if obj, ok := f.Object().(*types.Func); ok {
			return obj
		}
		// bound method closure / thunk
		if f.Synthetic != "" {
			if strings.HasPrefix(f.Synthetic, "bound method wrapper") || strings.HasPrefix(f.Synthetic, "thunk") || strings.HasPrefix(f.Synthetic, "wrapper") {
				if obj, ok := f.Object().(*types.Func); ok {
					return obj
				}
			}
		}
	}
	return nil
}

func funcQual(f *types.Func) (pkg, name string) {
	if f == nil {
		return "", ""
	}
	if f.Pkg() != nil {
		pkg = f.Pkg().Path()
	}
	name = f.Name()
	sig, _ := f.Type().(*types.Signature)
	if sig != nil && sig.Recv() != nil {
		t := sig.Recv().Type()
		if pt, ok := t.(*types.Pointer); ok {
			t = pt.Elem()
		}
		switch tt := t.(type) {
		case *types.Named:
			name = tt.Obj().Name() + "." + name
			if tt.Obj().Pkg() != nil {
				pkg = tt.Obj().Pkg().Path()
			}
		case *types.Alias:
			name = tt.Obj().Name() + "." + name
		}
	}
	return
}

func calleeName(c *ssa.CallCommon) string {
	if b, ok := c.Value.(*ssa.Builtin); ok {
		return b.Name()
	}
	if f := calleeFunc(c); f != nil {
		p, n := funcQual(f)
		p = strings.TrimPrefix(strings.TrimPrefix(p, modPath), "/")
		if p == "" {
			p = "grpc"
		}
		return p + "." + n
	}
	if f := c.StaticCallee(); f != nil {
		return shortName(f)
	}
	return ""
}

// CM is a callee matcher.
type CM func(c *ssa.CallCommon) bool

// Callee matches calls that statically resolve to pkg.name where pkg is
// module-relative and name is "Func" or "Type.Method". Interface-method
// invocations match on the interface's method.
func Callee(pkg, name string) CM {
	fp := full(pkg)
	return func(c *ssa.CallCommon) bool {
		f := calleeFunc(c)
		if f == nil {
			return false
		}
		p, n := funcQual(f)
		return p == fp && n == name
	}
}

// CalleeX is Callee for packages outside the module (full import path).
func CalleeX(pkg, name string) CM {
	pkg = strings.TrimPrefix(pkg, "std:")
	return func(c *ssa.CallCommon) bool {
		f := calleeFunc(c)
		if f == nil {
			return false
		}
		p, n := funcQual(f)
		return p == pkg && n == name
	}
}

// MethodNamed matches any method call (static or invoke) with the given
// method name whose receiver type satisfies recv (may be nil = any).
func MethodNamed(name string, recv func(types.Type) bool) CM {
	return func(c *ssa.CallCommon) bool {
		f := calleeFunc(c)
		if f == nil || f.Name() != name {
			return false
		}
		sig := f.Type().(*types.Signature)
		if sig.Recv() == nil {
			return false
		}
		if recv == nil {
			return true
		}
		if c.IsInvoke() {
			return recv(c.Value.Type())
		}
		return recv(sig.Recv().Type())
	}
}

// CallOfFn matches calls whose static callee is exactly fn (e.g. a closure).
func CallOfFn(fn *ssa.Function) CM {
	return func(c *ssa.CallCommon) bool { return c.StaticCallee() == fn }
}

// BuiltinCall matches a builtin by name (close, delete, len, append, ...).
func BuiltinCall(name string) CM {
	return func(c *ssa.CallCommon) bool {
		b, ok := c.Value.(*ssa.Builtin)
		return ok && b.Name() == name
	}
}

// ValueCall matches calls of a func-typed value satisfying vm (parameter,
// field load, local closure variable).
func ValueCall(vm VM) CM {
	return func(c *ssa.CallCommon) bool {
		if c.IsInvoke() {
			return false
		}
		if _, ok := c.Value.(*ssa.Builtin); ok {
			return false
		}
		if _, ok := c.Value.(*ssa.Function); ok {
			return false
		}
		return vm(c.Value)
	}
}

func AnyCM(cms ...CM) CM {
	return func(c *ssa.CallCommon) bool {
		for _, m := range cms {
			if m(c) {
				return true
			}
		}
		return false
	}
}

// ---------- values ----------

// VM is a value matcher.
type VM func(v ssa.Value) bool

// strip removes representation-only wrappers.
func strip(v ssa.Value) ssa.Value {
	for {
		switch x := v.(type) {
		case *ssa.ChangeType:
			v = x.X
		case *ssa.Convert:
			v = x.X
		case *ssa.ChangeInterface:
			v = x.X
		case *ssa.MakeInterface:
			v = x.X
		case *ssa.UnOp:
			// load of a single-assignment local cell
			if x.Op == token.MUL {
				if a, ok := x.X.(*ssa.Alloc); ok {
					// flow-sensitive within the block: `*cell = v; ...; load cell`
					if ls := lastStoreBefore(x, a); ls != nil {
						v = ls.Val
						continue
					}
					st := storesTo(a)
					if len(st) == 1 {
						v = st[0].Val
						continue
					}
					// across blocks: the one store that reaches the load and lies on every path to it
					if ds := dominatingStore(x, a); ds != nil {
						v = ds.Val
						continue
					}
				}
			}
			return v
		default:
			return v
		}
	}
}

// storesTo lists stores to a local cell (Alloc) in its function and in the
// closures that capture it.
func storesTo(a *ssa.Alloc) []*ssa.Store {
	fi := info(a.Parent())
	if fi.stores == nil {
		fi.stores = map[ssa.Value][]*ssa.Store{}
		var scan func(fn *ssa.Function, bind map[ssa.Value]ssa.Value)
		scan = func(fn *ssa.Function, bind map[ssa.Value]ssa.Value) {
			for _, b := range fn.Blocks {
				for _, in := range b.Instrs {
					switch x := in.(type) {
					case *ssa.Store:
						addr := x.Addr
						if r, ok := bind[addr]; ok {
							addr = r
						}
						if al, ok := addr.(*ssa.Alloc); ok {
							fi.stores[al] = append(fi.stores[al], x)
						} else if ra := rootAlloc(addr, bind); ra != nil {
							if fi.partStores == nil {
								fi.partStores = map[ssa.Value][]*ssa.Store{}
							}
							fi.partStores[ra] = append(fi.partStores[ra], x)
						}
					case *ssa.MakeClosure:
						cf := x.Fn.(*ssa.Function)
						nb := map[ssa.Value]ssa.Value{}
						for i, fv := range cf.FreeVars {
							b := x.Bindings[i]
							if r, ok := bind[b]; ok {
								b = r
							}
							nb[fv] = b
						}
						scan(cf, nb)
					}
				}
			}
		}
		scan(a.Parent(), map[ssa.Value]ssa.Value{})
	}
	return fi.stores[a]
}

// rootAlloc follows FieldAddr/IndexAddr chains to a local cell.
func rootAlloc(addr ssa.Value, bind map[ssa.Value]ssa.Value) *ssa.Alloc {
	for i := 0; i < 10; i++ {
		if r, ok := bind[addr]; ok {
			addr = r
		}
		switch x := addr.(type) {
		case *ssa.Alloc:
			return x
		case *ssa.FieldAddr:
			addr = x.X
		case *ssa.IndexAddr:
			addr = x.X
		default:
			return nil
		}
	}
	return nil
}

func partStoresTo(a *ssa.Alloc) []*ssa.Store {
	storesTo(a)
	return info(a.Parent()).partStores[a]
}

func AnyV(ssa.Value) bool { return true }

func OrV(vms ...VM) VM {
	return func(v ssa.Value) bool {
		for _, m := range vms {
			if m(v) {
				return true
			}
		}
		return false
	}
}

func constOf(v ssa.Value) *ssa.Const {
	c, _ := strip(v).(*ssa.Const)
	return c
}

func ConstInt(n int64) VM {
	return func(v ssa.Value) bool {
		c := constOf(v)
		if c == nil || c.Value == nil {
			return false
		}
		if c.Value.Kind() != constant.Int {
			return false
		}
		x, ok := constant.Int64Val(c.Value)
		if !ok {
			if u, ok2 := constant.Uint64Val(c.Value); ok2 {
				return int64(u) == n
			}
			return false
		}
		return x == n
	}
}

// ConstNum matches an integer or float constant numerically equal to n.
func ConstNum(n float64) VM {
	return func(v ssa.Value) bool {
		c := constOf(v)
		if c == nil || c.Value == nil {
			return false
		}
		if k := c.Value.Kind(); k != constant.Int && k != constant.Float {
			return false
		}
		f, _ := constant.Float64Val(c.Value)
		return f == n
	}
}

func ConstStr(s string) VM {
	return func(v ssa.Value) bool {
		c := constOf(v)
		return c != nil && c.Value != nil && c.Value.Kind() == constant.String && constant.StringVal(c.Value) == s
	}
}

func ConstBool(b bool) VM {
	return func(v ssa.Value) bool {
		c := constOf(v)
		return c != nil && c.Value != nil && c.Value.Kind() == constant.Bool && constant.BoolVal(c.Value) == b
	}
}

func ConstNil(v ssa.Value) bool {
	c := constOf(v)
	return c != nil && c.Value == nil
}

func AnyConst(v ssa.Value) bool { return constOf(v) != nil }

// ConstOfObj matches a constant with the value and type of the named constant.
func ConstOfObj(obj types.Object) VM {
	k, ok := obj.(*types.Const)
	if !ok {
		panic("ConstOfObj: not a constant: " + obj.String())
	}
	return func(v ssa.Value) bool {
		c := constOf(v)
		if c == nil || c.Value == nil {
			return false
		}
		if c.Value.Kind() != k.Val().Kind() && !(c.Value.Kind() == constant.Int && k.Val().Kind() == constant.Int) {
			return false
		}
		if !constant.Compare(c.Value, token.EQL, k.Val()) {
			return false
		}
		// constants of a defined type (codes.Code, connectivity.State, ...) must
		// keep that type; plain numeric/string constants may be converted.
		if _, basic := k.Type().(*types.Basic); basic {
			_, cb := c.Type().Underlying().(*types.Basic)
			return cb
		}
		return types.Identical(c.Type(), k.Type())
	}
}

// CallRes matches the idx-th result of a call matching cm (idx -1: any/sole).
func CallRes(cm CM, idx int) VM {
	return func(v ssa.Value) bool {
		v = strip(v)
		switch x := v.(type) {
		case *ssa.Call:
			return (idx <= 0) && cm(&x.Call)
		case *ssa.Extract:
			if c, ok := x.Tuple.(*ssa.Call); ok {
				return (idx < 0 || idx == x.Index) && cm(&c.Call)
			}
		}
		return false
	}
}

func fieldOfAddr(fa *ssa.FieldAddr) *types.Var {
	t := fa.X.Type().Underlying().(*types.Pointer).Elem()
	return typeparamsCoreStruct(t).Field(fa.Field)
}

func fieldOfVal(f *ssa.Field) *types.Var {
	return typeparamsCoreStruct(f.X.Type()).Field(f.Field)
}

func typeparamsCoreStruct(t types.Type) *types.Struct {
	st, _ := t.Underlying().(*types.Struct)
	if st == nil {
		panic("not a struct: " + t.String())
	}
	return st
}

// sameField compares fields by origin (instantiated generics share Origin).
func sameField(a, b *types.Var) bool {
	if a == nil || b == nil {
		return false
	}
	return a.Origin() == b.Origin()
}

// FieldAddrOf matches &x.f for the given field.
func FieldAddrOf(f *types.Var) VM {
	return func(v ssa.Value) bool {
		fa, ok := v.(*ssa.FieldAddr)
		return ok && sameField(fieldOfAddr(fa), f)
	}
}

// FieldLoad matches a read of x.f (through pointer or by value).
func FieldLoad(f *types.Var) VM {
	return func(v ssa.Value) bool {
		v = strip(v)
		switch x := v.(type) {
		case *ssa.UnOp:
			if x.Op == token.MUL {
				if fa, ok := x.X.(*ssa.FieldAddr); ok {
					return sameField(fieldOfAddr(fa), f)
				}
			}
		case *ssa.Field:
			return sameField(fieldOfVal(x), f)
		}
		return false
	}
}

// FieldLoadOn: read of x.f where x satisfies recv.
func FieldLoadOn(f *types.Var, recv VM) VM {
	return func(v ssa.Value) bool {
		v = strip(v)
		switch x := v.(type) {
		case *ssa.UnOp:
			if x.Op == token.MUL {
				if fa, ok := x.X.(*ssa.FieldAddr); ok {
					return sameField(fieldOfAddr(fa), f) && recv(fa.X)
				}
			}
		case *ssa.Field:
			return sameField(fieldOfVal(x), f) && recv(x.X)
		}
		return false
	}
}

// GlobalLoad matches a read of a package-level variable.
func GlobalLoad(obj types.Object) VM {
	return func(v ssa.Value) bool {
		v = strip(v)
		if u, ok := v.(*ssa.UnOp); ok && u.Op == token.MUL {
			if g, ok := u.X.(*ssa.Global); ok {
				return g.Object() == obj
			}
		}
		return false
	}
}

func ParamV(name string) VM {
	return func(v ssa.Value) bool {
		v = strip(v)
		p, ok := v.(*ssa.Parameter)
		return ok && paramName(p) == name
	}
}

// LenOf matches len(x) with x satisfying vm.
func LenOf(vm VM) VM {
	return func(v ssa.Value) bool {
		v = strip(v)
		c, ok := v.(*ssa.Call)
		if !ok {
			return false
		}
		b, ok := c.Call.Value.(*ssa.Builtin)
		return ok && b.Name() == "len" && vm(c.Call.Args[0])
	}
}

// LookupOf matches m[k] (value result).
func LookupOf(m, k VM) VM {
	return func(v ssa.Value) bool {
		v = strip(v)
		if e, ok := v.(*ssa.Extract); ok && e.Index == 0 {
			v = e.Tuple
		}
		l, ok := v.(*ssa.Lookup)
		return ok && m(l.X) && k(l.Index)
	}
}

// CommaOkOf matches the ok result of a comma-ok map lookup / type assertion /
// receive whose operand satisfies vm.
func CommaOkOf(vm VM) VM {
	return func(v ssa.Value) bool {
		e, ok := v.(*ssa.Extract)
		if !ok || e.Index != 1 {
			return false
		}
		switch t := e.Tuple.(type) {
		case *ssa.Lookup:
			return t.CommaOk && vm(t.X)
		case *ssa.TypeAssert:
			return t.CommaOk && vm(t.X)
		case *ssa.UnOp:
			return t.CommaOk && vm(t.X)
		}
		return false
	}
}

// TypeAssertOk matches the ok of `x.(T)` for a T satisfying pred.
func TypeAssertOk(pred func(types.Type) bool) VM {
	return func(v ssa.Value) bool {
		e, ok := v.(*ssa.Extract)
		if !ok || e.Index != 1 {
			return false
		}
		t, ok := e.Tuple.(*ssa.TypeAssert)
		return ok && t.CommaOk && pred(t.AssertedType)
	}
}

func BinOpV(op token.Token, a, b VM) VM {
	return func(v ssa.Value) bool {
		x, ok := strip(v).(*ssa.BinOp)
		if !ok {
			return false
		}
		if x.Op == op && a(x.X) && b(x.Y) {
			return true
		}
		switch op {
		case token.ADD, token.MUL, token.AND, token.OR, token.XOR, token.EQL, token.NEQ:
			return x.Op == op && a(x.Y) && b(x.X)
		case token.LSS, token.LEQ, token.GTR, token.GEQ:
			// the mirrored spelling: a < b is b > a
			return x.Op == swapOp(op) && a(x.Y) && b(x.X)
		}
		return false
	}
}

// Dep matches values whose dependence closure (data dependence through SSA
// operands, phis and local cells, plus control dependence of phi edges and of
// the stores to local cells) contains a value satisfying vm.
func Dep(vm VM) VM {
	return func(v ssa.Value) bool {
		return depSearch(v, vm, true)
	}
}

// DataDep is Dep without control dependence.
func DataDep(vm VM) VM {
	return func(v ssa.Value) bool {
		return depSearch(v, vm, false)
	}
}

func depSearch(root ssa.Value, vm VM, control bool) bool {
	seen := map[ssa.Value]bool{}
	var stack []ssa.Value
	push := func(v ssa.Value) {
		if v != nil && !seen[v] {
			seen[v] = true
			stack = append(stack, v)
		}
	}
	addCD := func(b *ssa.BasicBlock) {
		if !control || b == nil {
			return
		}
		fi := info(b.Parent())
		for _, e := range fi.cdep[b.Index] {
			push(blockCond(e.Branch))
		}
	}
	push(root)
	for len(stack) > 0 {
		v := stack[len(stack)-1]
		stack = stack[:len(stack)-1]
		if vm(v) {
			return true
		}
		switch x := v.(type) {
		case *ssa.Alloc:
			for _, st := range storesTo(x) {
				push(st.Val)
			}
			for _, st := range partStoresTo(x) {
				push(st.Val)
			}
			continue
		case *ssa.Phi:
			for i, e := range x.Edges {
				push(e)
				if control {
					p := x.Block().Preds[i]
					addCD(p)
					if c := blockCond(p); c != nil {
						push(c)
					}
				}
			}
			continue
		case *ssa.UnOp:
			if x.Op == token.MUL {
				if a, ok := x.X.(*ssa.Alloc); ok {
					for _, st := range storesTo(a) {
						push(st.Val)
						addCD(st.Block())
					}
					for _, st := range partStoresTo(a) {
						push(st.Val)
						addCD(st.Block())
					}
					continue
				}
				if a := rootAlloc(x.X, nil); a != nil {
					for _, st := range storesTo(a) {
						push(st.Val)
					}
					for _, st := range partStoresTo(a) {
						push(st.Val)
					}
				}
			}
		}
		if in, ok := v.(ssa.Instruction); ok {
			for _, op := range in.Operands(nil) {
				if *op != nil {
					push(*op)
				}
			}
		}
	}
	return false
}

// Origins returns the leaf origins of v: follows phis, local cells,
// conversions, and slices/field-projections are kept as leaves.
func Origins(v ssa.Value) []ssa.Value {
	seen := map[ssa.Value]bool{}
	var out []ssa.Value
	var walk func(v ssa.Value)
	walk = func(v ssa.Value) {
		v = strip(v)
		if seen[v] {
			return
		}
		seen[v] = true
		switch x := v.(type) {
		case *ssa.Phi:
			for _, e := range x.Edges {
				walk(e)
			}
			return
		case *ssa.UnOp:
			if x.Op == token.MUL {
				if a, ok := x.X.(*ssa.Alloc); ok {
					// flow-sensitive: only the stores that can reach this load
					if rds := reachingStores(x); len(rds) > 0 {
						for _, rd := range rds {
							walk(rd.St.Val)
						}
						return
					}
					sts := storesTo(a)
					if len(sts) > 0 {
						for _, st := range sts {
							walk(st.Val)
						}
						return
					}
				}
			}
		}
		out = append(out, v)
	}
	walk(v)
	return out
}

// AllOrigins: every leaf origin of v satisfies vm.
func AllOrigins(vm VM) VM {
	return func(v ssa.Value) bool {
		os := Origins(v)
		if len(os) == 0 {
			return false
		}
		for _, o := range os {
			if !vm(o) {
				return false
			}
		}
		return true
	}
}

// SomeOrigin: some leaf origin satisfies vm.
func SomeOrigin(vm VM) VM {
	return func(v ssa.Value) bool {
		for _, o := range Origins(v) {
			if vm(o) {
				return true
			}
		}
		return false
	}
}

// ---------- facts ----------

// FM is a fact matcher.
type FM func(f Fact) bool

// Truth: a bool value satisfying vm evaluated to pol.
func Truth(vm VM, pol bool) FM {
	return func(f Fact) bool { return f.Kind == "truth" && f.Pol == pol && vm(f.X) }
}

// canonical integer comparison: strict forms with constant on the right.
func canonCmp(op token.Token, x, y ssa.Value) (token.Token, ssa.Value, ssa.Value, *int64) {
	// put constant on the right
	if constOf(x) != nil && constOf(y) == nil {
		x, y = y, x
		op = swapOp(op)
	}
	if c := constOf(y); c != nil && c.Value != nil && c.Value.Kind() == constant.Int {
		if n, ok := constant.Int64Val(c.Value); ok {
			switch op {
			case token.GEQ: // x >= n  ==  x > n-1
				m := n - 1
				return token.GTR, x, y, &m
			case token.LEQ: // x <= n == x < n+1
				m := n + 1
				return token.LSS, x, y, &m
			}
			return op, x, y, &n
		}
	}
	return op, x, y, nil
}

// Cmp: fact `a op b` (either operand order, int-constant off-by-one forms
// normalised: x>=3 == x>2).
func Cmp(a VM, op token.Token, b VM) FM {
	return func(f Fact) bool {
		if f.Kind != "cmp" {
			return false
		}
		return cmpMatch(f.Op, f.X, f.Y, a, op, b)
	}
}

// cmpImplies: does `x fop y` imply `x op y` (same operand order)?
func cmpImplies(fop, op token.Token) bool {
	if fop == op {
		return true
	}
	switch fop {
	case token.EQL:
		return op == token.LEQ || op == token.GEQ
	case token.LSS:
		return op == token.LEQ || op == token.NEQ
	case token.GTR:
		return op == token.GEQ || op == token.NEQ
	}
	return false
}

// cmpMatch: the fact `fx fop fy` implies the wanted `a op b` (facts are
// matched by implication, so `x == 0` satisfies a required `x <= 0`, and an
// arm on which `x == 0` holds is an arm on which a refusing `x <= 0` holds).
func cmpMatch(fop token.Token, fx, fy ssa.Value, a VM, op token.Token, b VM) bool {
	if cmpImplies(fop, op) && a(fx) && b(fy) {
		return true
	}
	if cmpImplies(swapOp(fop), op) && a(fy) && b(fx) {
		return true
	}
	return false
}

// isNonNegBuiltin: v is len(...) or cap(...).
func isNonNegBuiltin(v ssa.Value) bool {
	call, ok := v.(*ssa.Call)
	if !ok {
		return false
	}
	b, ok := call.Call.Value.(*ssa.Builtin)
	return ok && (b.Name() == "len" || b.Name() == "cap")
}

func isUnsigned(v ssa.Value) bool {
	b, ok := v.Type().Underlying().(*types.Basic)
	return ok && b.Info()&types.IsUnsigned != 0
}

// CmpInt: the fact implies `a op n` over the integers (a >= 3 matches a > 2,
// a == 0 satisfies a <= 0, and for unsigned a, a != 0 satisfies a > 0).
func CmpInt(a VM, op token.Token, n int64) FM {
	wantOp, wantN := op, n
	switch op {
	case token.GEQ:
		wantOp, wantN = token.GTR, n-1
	case token.LEQ:
		wantOp, wantN = token.LSS, n+1
	}
	return func(f Fact) bool {
		if f.Kind != "cmp" {
			return false
		}
		cop, x, _, kp := canonCmp(f.Op, f.X, f.Y)
		if kp == nil || !a(x) {
			return false
		}
		k := *kp
		uns := isUnsigned(x) || isNonNegBuiltin(x)
		// tighten facts on unsigned values (and on len/cap results, which are never negative)
		if uns {
			if cop == token.NEQ && k == 0 {
				cop, k = token.GTR, 0
			} else if cop == token.LSS && k <= 1 {
				cop, k = token.EQL, 0
			}
		}
		switch cop {
		case token.EQL:
			switch wantOp {
			case token.EQL:
				return k == wantN
			case token.NEQ:
				return k != wantN
			case token.LSS:
				return k < wantN
			case token.GTR:
				return k > wantN
			}
		case token.LSS: // x < k
			switch wantOp {
			case token.LSS:
				return k <= wantN
			case token.NEQ:
				return wantN >= k
			case token.EQL:
				return uns && k <= 1 && wantN == 0
			}
		case token.GTR: // x > k
			switch wantOp {
			case token.GTR:
				return k >= wantN
			case token.NEQ:
				return wantN <= k
			}
		case token.NEQ:
			return wantOp == token.NEQ && k == wantN
		}
		return false
	}
}

// IsNil / NotNil facts.
func IsNil(vm VM) FM  { return Cmp(vm, token.EQL, ConstNil) }
func NotNil(vm VM) FM { return Cmp(vm, token.NEQ, ConstNil) }

// InSet: fact that a value satisfying vm is one of the given constants
// (exactly this set or a subset of it).
func InSet(vm VM, allowed ...VM) FM {
	okConst := func(c ssa.Value) bool {
		for _, a := range allowed {
			if a(c) {
				return true
			}
		}
		return false
	}
	return func(f Fact) bool {
		switch f.Kind {
		case "in":
			if !vm(f.X) {
				return false
			}
			for _, c := range f.Set {
				if !okConst(c) {
					return false
				}
			}
			return true
		case "cmp":
			if f.Op != token.EQL {
				return false
			}
			if vm(f.X) && okConst(f.Y) {
				return true
			}
			return vm(f.Y) && okConst(f.X)
		}
		return false
	}
}

func hasFact(fs []Fact, fm FM) (Fact, bool) {
	for _, f := range fs {
		if fm(f) {
			return f, true
		}
	}
	return Fact{}, false
}

// ---------- sites ----------

// callsIn lists the call instructions (call, go, defer) of fn matching cm.
func callsIn(fn *ssa.Function, cm CM) []ssa.CallInstruction {
	var out []ssa.CallInstruction
	for _, b := range fn.Blocks {
		for _, in := range b.Instrs {
			if ci, ok := in.(ssa.CallInstruction); ok && cm(ci.Common()) {
				out = append(out, ci)
			}
		}
	}
	return out
}

// callsInTree: fn and all its nested closures.
func callsInTree(fn *ssa.Function, cm CM) []ssa.CallInstruction {
	out := callsIn(fn, cm)
	for _, a := range fn.AnonFuncs {
		out = append(out, callsInTree(a, cm)...)
	}
	return out
}

func returnsOf(fn *ssa.Function) []*ssa.Return {
	var out []*ssa.Return
	for _, b := range fn.Blocks {
		if b == fn.Recover {
			continue // the compiler-made return after a recovered panic is not a return statement
		}
		for _, in := range b.Instrs {
			if r, ok := in.(*ssa.Return); ok {
				out = append(out, r)
			}
		}
	}
	return out
}

// Mutation is a write-like access to a struct field.
type Mutation struct {
	Instr ssa.Instruction
	Kind  string // "store", "mapupdate", "delete", "close", "addr-arg:<callee>", "send"
	Val   ssa.Value
}

// mutationsOf lists the writes to field f inside fn: direct stores, map
// updates / deletes on the map held by the field, close() of the channel held
// by the field, and calls that receive &x.f.
func mutationsOf(fn *ssa.Function, f *types.Var) []Mutation {
	isLoad := FieldLoad(f)
	isAddr := FieldAddrOf(f)
	var out []Mutation
	for _, b := range fn.Blocks {
		for _, in := range b.Instrs {
			switch x := in.(type) {
			case *ssa.Store:
				if isAddr(x.Addr) {
					out = append(out, Mutation{in, "store", x.Val})
				}
			case *ssa.MapUpdate:
				if isLoad(x.Map) {
					out = append(out, Mutation{in, "mapupdate", x.Value})
				}
			case ssa.CallInstruction:
				c := x.Common()
				if bi, ok := c.Value.(*ssa.Builtin); ok {
					switch bi.Name() {
					case "delete":
						if isLoad(c.Args[0]) {
							out = append(out, Mutation{in, "delete", nil})
						}
					case "close":
						if isLoad(c.Args[0]) {
							out = append(out, Mutation{in, "close", nil})
						}
					case "clear":
						if isLoad(c.Args[0]) {
							out = append(out, Mutation{in, "clear", nil})
						}
					}
					continue
				}
				for _, a := range c.Args {
					if isAddr(a) {
						out = append(out, Mutation{in, "addr-arg:" + calleeName(c), nil})
					}
				}
				if !c.IsInvoke() && c.Signature().Recv() != nil && len(c.Args) > 0 {
					// method call with pointer receiver &x.f (e.g. x.f.Store(v))
				}
			}
		}
	}
	return out
}

// readsOf lists loads of field f in fn (UnOp * of FieldAddr, or Field).
func readsOf(fn *ssa.Function, f *types.Var) []ssa.Instruction {
	var out []ssa.Instruction
	for _, b := range fn.Blocks {
		for _, in := range b.Instrs {
			switch x := in.(type) {
			case *ssa.UnOp:
				if x.Op == token.MUL {
					if fa, ok := x.X.(*ssa.FieldAddr); ok && sameField(fieldOfAddr(fa), f) {
						out = append(out, in)
					}
				}
			case *ssa.Field:
				if sameField(fieldOfVal(x), f) {
					out = append(out, in)
				}
			}
		}
	}
	return out
}

// fieldAddrsOf lists every &x.f instruction in fn (reads, writes, escapes).
func fieldAddrsOf(fn *ssa.Function, f *types.Var) []*ssa.FieldAddr {
	var out []*ssa.FieldAddr
	for _, b := range fn.Blocks {
		for _, in := range b.Instrs {
			if fa, ok := in.(*ssa.FieldAddr); ok && sameField(fieldOfAddr(fa), f) {
				out = append(out, fa)
			}
		}
	}
	return out
}

// edgeFacts: facts known when control flows from pred to succ.
func edgeFacts(pred, succ *ssa.BasicBlock) []Fact {
	fs := append([]Fact(nil), FactsAtBlock(pred)...)
	if c := blockCond(pred); c != nil && len(pred.Succs) == 2 && pred.Succs[0] != pred.Succs[1] {
		if pred.Succs[0] == succ {
			fs = append(fs, expandAtom(c, true, 0)...)
		} else if pred.Succs[1] == succ {
			fs = append(fs, expandAtom(c, false, 0)...)
		}
	}
	return fs
}

func isZeroConst(v ssa.Value) bool {
	c, ok := v.(*ssa.Const)
	if !ok {
		return false
	}
	if c.Value == nil {
		return true
	}
	switch c.Value.Kind() {
	case constant.Bool:
		return !constant.BoolVal(c.Value)
	case constant.String:
		return constant.StringVal(c.Value) == ""
	case constant.Int, constant.Float:
		return constant.Sign(c.Value) == 0
	}
	return false
}

// SetWhen matches a flag-like variable (a tree of phis, or a local cell) that
// receives a non-zero value only on edges / in blocks where `when` holds, and
// receives one at least once. It recognises the idiom
//
//	for ... { if bad { flag = true } }   ...   if flag { refuse }
//
// precisely: which condition sets the flag, not merely "depends on".
func SetWhen(whens ...FM) VM {
	when := func(fs []Fact) bool { return hasAllFacts(fs, whens) }
	return func(v ssa.Value) bool {
		seen := map[ssa.Value]bool{}
		nset, bad := 0, 0
		var walk func(v ssa.Value)
		leaf := func(val ssa.Value, fs []Fact) {
			if isZeroConst(val) {
				return
			}
			if when(fs) {
				nset++
			} else {
				bad++
			}
		}
		walk = func(v ssa.Value) {
			if seen[v] {
				return
			}
			seen[v] = true
			switch x := v.(type) {
			case *ssa.Phi:
				for i, e := range x.Edges {
					if _, isPhi := e.(*ssa.Phi); isPhi {
						walk(e)
						continue
					}
					if u, ok := e.(*ssa.UnOp); ok && u.Op == token.MUL {
						if _, isAlloc := u.X.(*ssa.Alloc); isAlloc {
							walk(e)
							continue
						}
					}
					leaf(e, edgeFacts(x.Block().Preds[i], x.Block()))
				}
			case *ssa.UnOp:
				if a, ok := x.X.(*ssa.Alloc); ok && x.Op == token.MUL {
					for _, st := range storesTo(a) {
						if _, isPhi := st.Val.(*ssa.Phi); isPhi {
							walk(st.Val)
							continue
						}
						leaf(st.Val, FactsAt(st))
					}
					return
				}
				bad++
			default:
				bad++
			}
		}
		walk(v)
		return nset > 0 && bad == 0
	}
}

// FlagRule: the flag is set (to a non-zero value) where When holds; and on
// every edge that leaves the flag unchanged although a value matching Src was
// computed earlier on that path, Unless (the negation of When) must hold.
type FlagRule struct {
	Src    VM
	When   FM
	Unless FM
}

// FlagSet is the two-sided version of SetWhen: "set only when" and "always set
// when". It catches weakened conditions (`bad && extra`) that SetWhen accepts.
func FlagSet(rules ...FlagRule) VM {
	return func(v ssa.Value) bool {
		root, ok := v.(*ssa.Phi)
		if !ok {
			return false
		}
		fn := root.Parent()
		// source instructions per rule
		srcBlocks := make([][]*ssa.BasicBlock, len(rules))
		for _, b := range fn.Blocks {
			for _, in := range b.Instrs {
				if val, ok := in.(ssa.Value); ok {
					for i, r := range rules {
						if r.Src != nil && r.Src(val) {
							srcBlocks[i] = append(srcBlocks[i], b)
						}
					}
				}
			}
		}
		for i, r := range rules {
			if r.Src != nil && len(srcBlocks[i]) == 0 {
				return false
			}
		}
		seen := map[ssa.Value]bool{}
		nset, bad := 0, 0
		var walk func(p *ssa.Phi)
		walk = func(p *ssa.Phi) {
			if seen[p] {
				return
			}
			seen[p] = true
			for i, e := range p.Edges {
				pred := p.Block().Preds[i]
				fs := edgeFacts(pred, p.Block())
				q, isPhi := e.(*ssa.Phi)
				notSet := isZeroConst(e)
				if isPhi {
					walk(q)
				}
				if !isPhi && !notSet {
					okSet := false
					for _, r := range rules {
						if _, ok := hasFact(fs, r.When); ok {
							okSet = true
						}
					}
					if okSet {
						nset++
					} else {
						bad++
					}
					continue
				}
				// unchanged on this edge?
				for ri, r := range rules {
					if r.Src == nil || r.Unless == nil {
						continue
					}
					for _, sb := range srcBlocks[ri] {
						if !sb.Dominates(pred) {
							continue
						}
						if isPhi && !(q.Block() != sb && q.Block().Dominates(sb)) {
							continue // derived value computed after the source: recursion covers it
						}
						if _, ok := hasFact(fs, r.Unless); !ok {
							bad++
						}
					}
				}
			}
		}
		walk(root)
		return nset > 0 && bad == 0
	}
}

// SliceOf matches x[low:high]; a nil matcher requires the bound to be absent.
func SliceOf(x, low, high VM) VM {
	return func(v ssa.Value) bool {
		s, ok := strip(v).(*ssa.Slice)
		if !ok || !x(s.X) {
			return false
		}
		if (low == nil) != (s.Low == nil) || (high == nil) != (s.High == nil) {
			return false
		}
		if low != nil && !low(s.Low) {
			return false
		}
		if high != nil && !high(s.High) {
			return false
		}
		return true
	}
}

// FieldCall matches a call through a func-typed struct field.
func FieldCall(f *types.Var) CM { return ValueCall(FieldLoad(f)) }

// CallWith: a call matching cm whose argument idx satisfies vm (the value is
// the call itself or any extract of it).
func CallWith(cm CM, idx int, vm VM) VM {
	return func(v ssa.Value) bool {
		v = strip(v)
		if e, ok := v.(*ssa.Extract); ok {
			v = e.Tuple
		}
		c, ok := v.(*ssa.Call)
		if !ok || !cm(&c.Call) {
			return false
		}
		return idx < len(c.Call.Args) && vm(c.Call.Args[idx])
	}
}

// DerefOf matches *p with p satisfying vm.
func DerefOf(vm VM) VM {
	return func(v ssa.Value) bool {
		u, ok := strip(v).(*ssa.UnOp)
		return ok && u.Op == token.MUL && vm(u.X)
	}
}

// ExtractOf matches result #idx of a tuple-valued instruction satisfying vm.
func ExtractOf(vm VM, idx int) VM {
	return func(v ssa.Value) bool {
		e, ok := strip(v).(*ssa.Extract)
		return ok && e.Index == idx && vm(e.Tuple)
	}
}

// phiEdgesNeed: for every phi edge of p whose value satisfies vm, the facts on
// that edge must include fm. Returns (edges matching, edges satisfying).
func phiEdgesNeed(p *ssa.Phi, vm VM, fm FM) (int, int) {
	n, ok := 0, 0
	for i, e := range p.Edges {
		if !vm(e) {
			continue
		}
		n++
		if _, has := hasFact(edgeFacts(p.Block().Preds[i], p.Block()), fm); has {
			ok++
		}
	}
	return n, ok
}

// sameValue: the two values are the same SSA value after stripping
// conversions, or two loads of the same local cell / captured variable.
func sameValue(a, b ssa.Value) bool {
	a, b = strip(a), strip(b)
	if a == b {
		return true
	}
	ua, ok1 := a.(*ssa.UnOp)
	ub, ok2 := b.(*ssa.UnOp)
	if ok1 && ok2 && ua.Op == token.MUL && ub.Op == token.MUL && ua.X == ub.X {
		switch ua.X.(type) {
		case *ssa.FreeVar, *ssa.Alloc:
			return true
		}
	}
	if ok1 && ok2 && ua.Op == token.MUL && ub.Op == token.MUL {
		fa, oka := ua.X.(*ssa.FieldAddr)
		fb, okb := ub.X.(*ssa.FieldAddr)
		if oka && okb && fa.X == fb.X && fa.Field == fb.Field {
			if _, isAlloc := fa.X.(*ssa.Alloc); isAlloc {
				return true // two reads of the same field of one local struct (e.g. the loop variable copy)
			}
		}
	}
	return false
}

// phiLeaf is a non-phi value flowing into a phi tree, with the facts known on its incoming edge.
type phiLeaf struct {
	Val   ssa.Value
	Facts []Fact
}

// phiLeaves enumerates the leaves of the phi tree rooted at v (v itself if it is not a phi).
func phiLeaves(v ssa.Value) []phiLeaf {
	var out []phiLeaf
	seen := map[ssa.Value]bool{}
	var walk func(p *ssa.Phi)
	walk = func(p *ssa.Phi) {
		if seen[p] {
			return
		}
		seen[p] = true
		for i, e := range p.Edges {
			if q, ok := e.(*ssa.Phi); ok {
				walk(q)
				continue
			}
			out = append(out, phiLeaf{e, edgeFacts(p.Block().Preds[i], p.Block())})
		}
	}
	if p, ok := v.(*ssa.Phi); ok {
		walk(p)
	} else {
		out = append(out, phiLeaf{v, nil})
	}
	return out
}

// RangeValueOf matches the value variable of `for _, v := range m` where the
// ranged-over map satisfies vm.
func RangeValueOf(vm VM) VM {
	return func(v ssa.Value) bool {
		if u, ok := strip(v).(*ssa.UnOp); ok && u.Op == token.MUL {
			// slice range: *(&X[rangeindex+1])
			if ia, ok := u.X.(*ssa.IndexAddr); ok && isRangeIndex(ia.Index) {
				return vm(ia.X)
			}
		}
		e, ok := strip(v).(*ssa.Extract)
		if !ok || e.Index != 2 {
			return false
		}
		nx, ok := e.Tuple.(*ssa.Next)
		if !ok {
			return false
		}
		r, ok := nx.Iter.(*ssa.Range)
		return ok && vm(r.X)
	}
}

// reachingDef is a store to a local cell that can reach a given load, with
// the branch facts collected on the way from the store to the load
// (intersection over the paths found).
type reachingDef struct {
	St    *ssa.Store
	Facts []Fact
}

// reachingStores walks the CFG backwards from a load of a local cell to the
// stores that can reach it (flow-sensitive reaching definitions for one cell).
func reachingStores(load *ssa.UnOp) []reachingDef {
	a, ok := load.X.(*ssa.Alloc)
	if !ok {
		return nil
	}
	found := map[*ssa.Store][]Fact{}
	var order []*ssa.Store
	record := func(st *ssa.Store, fs []Fact) {
		if old, ok := found[st]; ok {
			// intersect by string form
			keep := []Fact{}
			for _, f := range old {
				for _, g := range fs {
					if f.String() == g.String() && f.X == g.X {
						keep = append(keep, f)
						break
					}
				}
			}
			found[st] = keep
			return
		}
		found[st] = fs
		order = append(order, st)
	}
	lastStoreIn := func(b *ssa.BasicBlock, before int) *ssa.Store {
		for i := before - 1; i >= 0; i-- {
			if st, ok := b.Instrs[i].(*ssa.Store); ok && st.Addr == a {
				return st
			}
		}
		return nil
	}
	if st := lastStoreIn(load.Block(), instrIndex(load)); st != nil {
		return []reachingDef{{st, FactsAt(load)}}
	}
	type item struct {
		b     *ssa.BasicBlock
		facts []Fact
		depth int
	}
	visits := map[*ssa.BasicBlock]int{}
	var walk func(it item)
	walk = func(it item) {
		if visits[it.b] > 3 || it.depth > 40 {
			return
		}
		visits[it.b]++
		for _, p := range it.b.Preds {
			fs := append(append([]Fact(nil), it.facts...), edgeOnlyFacts(p, it.b)...)
			if st := lastStoreIn(p, len(p.Instrs)); st != nil {
				record(st, append(fs, FactsAtBlock(p)...))
				continue
			}
			walk(item{p, fs, it.depth + 1})
		}
		visits[it.b]--
	}
	walk(item{load.Block(), FactsAt(load), 0})
	var out []reachingDef
	for _, st := range order {
		out = append(out, reachingDef{st, found[st]})
	}
	return out
}

// edgeOnlyFacts: the facts contributed by the branch taken from pred to succ.
func edgeOnlyFacts(pred, succ *ssa.BasicBlock) []Fact {
	if c := blockCond(pred); c != nil && len(pred.Succs) == 2 && pred.Succs[0] != pred.Succs[1] {
		if pred.Succs[0] == succ {
			return expandAtom(c, true, 0)
		}
		if pred.Succs[1] == succ {
			return expandAtom(c, false, 0)
		}
	}
	return nil
}

// cmpOf reads a comparison with a constant operand, if there is exactly one,
// on the right (`0 < n` is read as `n > 0`), so that rules that look at the
// operands of a test do not depend on the way it is spelled.
func cmpOf(v ssa.Value) (op token.Token, x, y ssa.Value, ok bool) {
	b, isB := v.(*ssa.BinOp)
	if !isB || !isCmp(b.Op) {
		return 0, nil, nil, false
	}
	op, x, y = b.Op, b.X, b.Y
	if constOf(x) != nil && constOf(y) == nil {
		x, y, op = y, x, swapOp(op)
	}
	return op, x, y, true
}

// cmpOriented reads comparison v as `x op y` with x satisfying first; ok is
// false when neither operand does.
func cmpOriented(v ssa.Value, first VM) (op token.Token, x, y ssa.Value, ok bool) {
	b, isB := v.(*ssa.BinOp)
	if !isB || !isCmp(b.Op) {
		return 0, nil, nil, false
	}
	if first(b.X) {
		return b.Op, b.X, b.Y, true
	}
	if first(b.Y) {
		return swapOp(b.Op), b.Y, b.X, true
	}
	return 0, nil, nil, false
}


var domStoreCache = map[*ssa.UnOp]*ssa.Store{}

// dominatingStore: the load of local cell a sees exactly one store on every
// path (a single reaching store of the same function whose block dominates
// the load), and no closure writes the cell. Then the loaded value is the
// stored value, however many blocks lie in between.
func dominatingStore(load *ssa.UnOp, a *ssa.Alloc) *ssa.Store {
	if st, ok := domStoreCache[load]; ok {
		return st
	}
	var res *ssa.Store
	defer func() { domStoreCache[load] = res }()
	for _, st := range storesTo(a) {
		if st.Parent() != a.Parent() {
			return nil
		}
	}
	for _, r := range *a.Referrers() {
		switch x := r.(type) {
		case *ssa.Store:
			if x.Addr != ssa.Value(a) {
				return nil // the address itself is stored somewhere
			}
		case *ssa.UnOp, *ssa.DebugRef, *ssa.MakeClosure:
		default:
			return nil // escapes (passed as a pointer, field address taken, ...)
		}
	}
	rs := reachingStores(load)
	if len(rs) != 1 || rs[0].St.Block() == load.Block() {
		return nil
	}
	if !rs[0].St.Block().Dominates(load.Block()) {
		return nil
	}
	// belt and braces (the reaching walk is bounded): no other store of the cell lies between the two
	for _, st := range storesTo(a) {
		if st == rs[0].St {
			continue
		}
		after := st.Block() == rs[0].St.Block() && instrIndex(st) > instrIndex(rs[0].St) || st.Block() != rs[0].St.Block() && reachableBlocks(rs[0].St.Block())[st.Block()]
		before := false
		if st.Block() == load.Block() {
			before = instrIndex(st) < instrIndex(load)
			for _, su := range st.Block().Succs { // or the block lies on a cycle
				if reachableBlocks(su)[st.Block()] {
					before = true
				}
			}
		} else {
			before = reachableBlocks(st.Block())[load.Block()]
		}
		if after && before {
			return nil
		}
	}
	res = rs[0].St
	return res
}


// valueLeaves: the alternatives a value is chosen from, each with the facts
// known where it is chosen — the incoming edges of a phi, or, for a variable
// that go/ssa kept in a local cell (named results of a function with a defer),
// the stores that reach the load. A plain value is its own single leaf.
func valueLeaves(v ssa.Value) []phiLeaf {
	switch x := v.(type) {
	case *ssa.Phi:
		var out []phiLeaf
		for i, e := range x.Edges {
			pr := x.Block().Preds[i]
			out = append(out, phiLeaf{e, append(append([]Fact(nil), FactsAtBlock(pr)...), edgeOnlyFacts(pr, x.Block())...)})
		}
		return out
	case *ssa.UnOp:
		if x.Op == token.MUL {
			if _, ok := x.X.(*ssa.Alloc); ok {
				if rs := reachingStores(x); len(rs) >= 2 {
					var out []phiLeaf
					for _, rd := range rs {
						out = append(out, phiLeaf{rd.St.Val, rd.Facts})
					}
					return out
				}
			}
		}
	}
	return []phiLeaf{{v, nil}}
}
