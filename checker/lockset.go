package main

// R4: intraprocedural must-lockset over the SSA CFG, with call-site checking
// for "caller must hold" helpers.

import (
	"fmt"
	"go/types"
	"sort"
	"strings"

	"golang.org/x/tools/go/ssa"
)

type lockSet map[*types.Var]bool

func (s lockSet) clone() lockSet {
	o := lockSet{}
	for k := range s {
		o[k] = true
	}
	return o
}

func intersect(a, b lockSet) lockSet {
	o := lockSet{}
	for k := range a {
		if b[k] {
			o[k] = true
		}
	}
	return o
}

func sameLS(a, b lockSet) bool {
	if len(a) != len(b) {
		return false
	}
	for k := range a {
		if !b[k] {
			return false
		}
	}
	return true
}

// mutexOfCall: if the call is (RW)Mutex.Lock/RLock/Unlock/RUnlock on a struct
// field or package variable, return that variable and +1 (acquire) / -1
// (release).
func mutexOfCall(c *ssa.CallCommon) (*types.Var, int) {
	f := calleeFunc(c)
	if f == nil {
		return nil, 0
	}
	p, n := funcQual(f)
	if p != "sync" {
		return nil, 0
	}
	d := 0
	switch n {
	case "Mutex.Lock", "RWMutex.Lock", "RWMutex.RLock":
		d = 1
	case "Mutex.Unlock", "RWMutex.Unlock", "RWMutex.RUnlock":
		d = -1
	default:
		return nil, 0
	}
	if len(c.Args) == 0 {
		return nil, 0
	}
	return lockVarOf(c.Args[0]), d
}

func lockVarOf(v ssa.Value) *types.Var {
	switch x := v.(type) {
	case *ssa.FieldAddr:
		fv := fieldOfAddr(x)
		// embedded sync.Mutex inside a named mutex-like field: use outermost named field
		return fv.Origin()
	case *ssa.Global:
		if gv, ok := x.Object().(*types.Var); ok {
			return gv
		}
	case *ssa.UnOp:
		// *p where p is a field holding *sync.Mutex
		if fa, ok := x.X.(*ssa.FieldAddr); ok {
			return fieldOfAddr(fa).Origin()
		}
	}
	return nil
}

type lockOpts struct {
	Entry     lockSet               // locks held at entry
	Releasers map[string]*types.Var // callee short name -> lock it releases before returning
	Acquirers map[string]*types.Var // callee short name -> lock it returns holding
}

// locksets computes the must-held set before every instruction of fn.
func locksets(fn *ssa.Function, o lockOpts) map[ssa.Instruction]lockSet {
	n := len(fn.Blocks)
	in := make([]lockSet, n)
	done := make([]bool, n)
	if n == 0 {
		return nil
	}
	entry := lockSet{}
	for k := range o.Entry {
		entry[k] = true
	}
	in[0] = entry
	done[0] = true
	transfer := func(b *ssa.BasicBlock, s lockSet, rec map[ssa.Instruction]lockSet) lockSet {
		cur := s.clone()
		for _, ins := range b.Instrs {
			if rec != nil {
				rec[ins] = cur.clone()
			}
			switch x := ins.(type) {
			case *ssa.Call:
				if mv, d := mutexOfCall(&x.Call); mv != nil {
					if d > 0 {
						cur[mv] = true
					} else {
						delete(cur, mv)
					}
					continue
				}
				name := calleeName(&x.Call)
				if mv, ok := o.Releasers[name]; ok {
					delete(cur, mv)
				}
				if mv, ok := o.Acquirers[name]; ok {
					cur[mv] = true
				}
			}
		}
		return cur
	}
	changed := true
	for it := 0; changed && it < 100; it++ {
		changed = false
		for _, b := range fn.Blocks {
			if !done[b.Index] {
				continue
			}
			out := transfer(b, in[b.Index], nil)
			for _, s := range b.Succs {
				if !done[s.Index] {
					in[s.Index] = out.clone()
					done[s.Index] = true
					changed = true
				} else {
					nw := intersect(in[s.Index], out)
					if !sameLS(nw, in[s.Index]) {
						in[s.Index] = nw
						changed = true
					}
				}
			}
		}
	}
	rec := map[ssa.Instruction]lockSet{}
	for _, b := range fn.Blocks {
		if done[b.Index] {
			transfer(b, in[b.Index], rec)
		}
	}
	return rec
}

// GuardSpec describes a guarded-by obligation.
type GuardSpec struct {
	Label   string
	Mu      *types.Var
	Fields  []*types.Var
	Scope   []*ssa.Function
	Exempt  map[string]string // function short name (top-level or closure) -> reason the access needs no lock
	Locked  map[string]bool   // functions whose callers must hold Mu (entry lockset = {Mu}); call sites are checked
	Opts    lockOpts
	WriteOnly bool // only writes need the lock (reads are atomic/immutable-after-init)
	ReturnsHolding map[string]string // function short name -> reason it legitimately returns with Mu held
}

// GuardedBy (R4): every access to Fields inside Scope happens with Mu held.
func (c *Ctx) GuardedBy(g GuardSpec) {
	lsCache := map[*ssa.Function]map[ssa.Instruction]lockSet{}
	// closures that are called immediately / passed to a locked runner inherit
	var entryOf func(fn *ssa.Function) lockSet
	getLS := func(fn *ssa.Function) map[ssa.Instruction]lockSet {
		if ls, ok := lsCache[fn]; ok {
			return ls
		}
		o := g.Opts
		o.Entry = entryOf(fn)
		ls := locksets(fn, o)
		lsCache[fn] = ls
		return ls
	}
	visiting := map[*ssa.Function]bool{}
	entryOf = func(fn *ssa.Function) lockSet {
		e := lockSet{}
		for k := range g.Opts.Entry {
			e[k] = true
		}
		if g.Locked[shortName(fn)] {
			e[g.Mu] = true
			return e
		}
		// immediately-invoked closure: inherits the call site's lockset
		if fn.Parent() != nil && !visiting[fn] {
			visiting[fn] = true
			defer delete(visiting, fn)
			for _, b := range fn.Parent().Blocks {
				for _, in := range b.Instrs {
					mc, ok := in.(*ssa.MakeClosure)
					if !ok || mc.Fn != fn {
						continue
					}
					refs := *mc.Referrers()
					if len(refs) == 1 {
						if call, ok := refs[0].(*ssa.Call); ok && (call.Call.Value == mc || isRangeFuncBody(fn)) {
							// immediately invoked, or the body of a range-over-func loop
							// (run synchronously by the iterator it is passed to)
							pls := getLS(fn.Parent())
							if pls[call][g.Mu] {
								e[g.Mu] = true
							}
						}
					}
				}
			}
		}
		return e
	}
	isField := func(v *types.Var) bool {
		for _, f := range g.Fields {
			if sameField(f, v) {
				return true
			}
		}
		return false
	}
	for _, fn := range g.Scope {
		name := shortName(fn)
		top := shortName(topFunc(fn))
		var ls map[ssa.Instruction]lockSet
		for _, b := range fn.Blocks {
			for _, in := range b.Instrs {
				var fv *types.Var
				var recv ssa.Value
				switch x := in.(type) {
				case *ssa.FieldAddr:
					fv, recv = fieldOfAddr(x), x.X
				case *ssa.Field:
					fv, recv = fieldOfVal(x), x.X
				default:
					continue
				}
				if !isField(fv) {
					continue
				}
				if g.WriteOnly && !isWriteUse(in) {
					continue
				}
				c.inst(fmt.Sprintf("%s: access to %s in %s @%s", g.Label, fv.Name(), name, c.P.Pos(posOf(in))))
				if r, ok := g.Exempt[name]; ok && r != "" {
					continue
				}
				if r, ok := g.Exempt[top]; ok && r != "" {
					continue
				}
				if freshReceiver(recv) {
					continue // object under construction, not yet shared
				}
				if ls == nil {
					ls = getLS(fn)
				}
				c.nontrivial(g.Label + name + fv.Name() + fmt.Sprint(in.Pos()))
				if !ls[in][g.Mu] {
					c.violate(in, fn, g.Label+"/"+fv.Name(), fmt.Sprintf("%s: field %s accessed in %s without %s held (locks held here: %s)", g.Label, fv.Name(), name, g.Mu.Name(), lsStr(ls[in])), nil)
				}
			}
		}
	}
	// every acquire is released on all exits: no function of the scope can return still holding Mu
	for _, fn := range g.Scope {
		if r, ok := g.Exempt[shortName(fn)]; ok && r != "" {
			continue
		}
		if g.ReturnsHolding[shortName(fn)] != "" {
			continue
		}
		if !g.Locked[shortName(fn)] && !g.Locked[shortName(topFunc(fn))] && fn.Parent() == nil {
			if c.strictUnlock == nil {
				c.strictUnlock = map[*ssa.Function]bool{}
			}
			c.strictUnlock[fn] = true
		}
		c.lockBalance(g.Label, g.Mu, fn)
	}
	// call sites of "caller must hold" helpers
	for lname := range g.Locked {
		for _, fn := range g.Scope {
			var ls map[ssa.Instruction]lockSet
			for _, b := range fn.Blocks {
				for _, in := range b.Instrs {
					ci, ok := in.(ssa.CallInstruction)
					if !ok {
						continue
					}
					callee := ci.Common().StaticCallee()
					if callee == nil || shortName(callee) != lname {
						continue
					}
					c.inst(fmt.Sprintf("%s: call of lock-requiring %s from %s", g.Label, lname, shortName(fn)))
					if _, isCall := in.(*ssa.Call); !isCall {
						c.violate(in, fn, g.Label+"/call-"+lname, fmt.Sprintf("%s: %s requires %s but is started with go/defer", g.Label, lname, g.Mu.Name()), nil)
						continue
					}
					if r, ok := g.Exempt[shortName(fn)]; ok && r != "" {
						continue
					}
					if ls == nil {
						ls = getLS(fn)
					}
					c.nontrivial(g.Label + "call" + lname + shortName(fn) + fmt.Sprint(in.Pos()))
					if !ls[in][g.Mu] {
						c.violate(in, fn, g.Label+"/call-"+lname, fmt.Sprintf("%s: %s is called from %s without %s held", g.Label, lname, shortName(fn), g.Mu.Name()), nil)
					}
				}
			}
		}
	}
}

func lsStr(s lockSet) string {
	var ns []string
	for k := range s {
		ns = append(ns, k.Name())
	}
	sort.Strings(ns)
	return "{" + strings.Join(ns, ",") + "}"
}

// freshReceiver: the struct being accessed was allocated in this function
// (composite literal / new) and is therefore not shared yet.
func freshReceiver(v ssa.Value) bool {
	for i := 0; i < 8; i++ {
		switch x := v.(type) {
		case *ssa.Alloc:
			return true
		case *ssa.FieldAddr:
			v = x.X
		case *ssa.UnOp:
			// load of a local cell holding a fresh pointer
			if a, ok := x.X.(*ssa.Alloc); ok {
				sts := storesTo(a)
				if len(sts) == 1 {
					v = sts[0].Val
					continue
				}
			}
			return false
		default:
			return false
		}
	}
	return false
}

// isWriteUse: the field address is used as a store target, map update, or
// passed to a call (not a plain load).
func isWriteUse(in ssa.Instruction) bool {
	v, ok := in.(ssa.Value)
	if !ok {
		return false
	}
	refs := v.Referrers()
	if refs == nil {
		return false
	}
	for _, r := range *refs {
		switch x := r.(type) {
		case *ssa.Store:
			if x.Addr == v {
				return true
			}
		case *ssa.UnOp:
			// load; check whether the loaded map is then updated
			if lr := x.Referrers(); lr != nil {
				for _, rr := range *lr {
					switch y := rr.(type) {
					case *ssa.MapUpdate:
						if y.Map == x {
							return true
						}
					case ssa.CallInstruction:
						if b, ok := y.Common().Value.(*ssa.Builtin); ok && (b.Name() == "delete" || b.Name() == "close" || b.Name() == "clear") {
							return true
						}
					}
				}
			}
		case ssa.CallInstruction:
			return true
		}
	}
	return false
}

func isRangeFuncBody(fn *ssa.Function) bool {
	return strings.Contains(fn.Synthetic, "range-over-func")
}

// lockBalance: may-analysis (union at joins) of "mu acquired in fn and not yet
// released"; a Return reached in that state is reported. `defer mu.Unlock()`
// (directly or inside a deferred closure) releases at rundefers.
func (c *Ctx) lockBalance(label string, mu *types.Var, fn *ssa.Function) {
	c.lockBalanceFrom(label, mu, fn, false, nil)
}

// lockBalanceFrom: entryHeld starts the analysis with mu held (a function
// documented as "called with mu held, releases it"); releases lists callees
// that return with mu released.
func (c *Ctx) lockBalanceFrom(label string, mu *types.Var, fn *ssa.Function, entryHeld bool, releases CM) {
	acquires := entryHeld
	deferredUnlock := false
	var unlockIn func(f *ssa.Function) bool
	unlockIn = func(f *ssa.Function) bool {
		// a deferred closure that takes mu itself (Lock ... Unlock) is balanced on its own
		// and releases nothing for the enclosing function
		rel := false
		for _, b := range f.Blocks {
			for _, in := range b.Instrs {
				if call, ok := in.(*ssa.Call); ok {
					if mv, d := mutexOfCall(&call.Call); mv != nil && sameField(mv, mu) {
						if d > 0 {
							return false
						}
						rel = true
					}
				}
			}
		}
		return rel
	}
	for _, b := range fn.Blocks {
		for _, in := range b.Instrs {
			switch x := in.(type) {
			case *ssa.Call:
				if mv, d := mutexOfCall(&x.Call); mv != nil && sameField(mv, mu) && d > 0 {
					acquires = true
				}
			case *ssa.Defer:
				if mv, d := mutexOfCall(&x.Call); mv != nil && sameField(mv, mu) && d < 0 {
					deferredUnlock = true
				}
				if cl := x.Call.StaticCallee(); cl != nil && cl.Parent() == fn && unlockIn(cl) {
					deferredUnlock = true
				}
				if mc, ok := x.Call.Value.(*ssa.MakeClosure); ok {
					if cf, ok := mc.Fn.(*ssa.Function); ok && unlockIn(cf) {
						deferredUnlock = true
					}
				}
			}
		}
	}
	if !acquires {
		return
	}
	c.inst(fmt.Sprintf("%s: lock balance of %s in %s", label, mu.Name(), shortName(fn)))
	c.nontrivial(label + "balance" + shortName(fn))
	n := len(fn.Blocks)
	in := make([]bool, n)  // may hold at block entry
	seen := make([]bool, n)
	seen[0] = true
	in[0] = entryHeld
	heldBase := make([]ssa.Value, n) // the object whose mutex is (possibly) held, when it is a parameter or captured variable
	if entryHeld && len(fn.Params) > 0 {
		heldBase[0] = fn.Params[0]
	}
	work := []*ssa.BasicBlock{fn.Blocks[0]}
	type leak struct{ at ssa.Instruction }
	var leaks []ssa.Instruction
	for len(work) > 0 {
		b := work[0]
		work = work[1:]
		held := in[b.Index]
		for _, ins := range b.Instrs {
			switch x := ins.(type) {
			case *ssa.Call:
				if mv, d := mutexOfCall(&x.Call); mv != nil && sameField(mv, mu) {
					base := lockBaseOf(x.Call.Args[0])
					if d < 0 && !held && base != nil && c.strictUnlock[fn] {
						leaks = append(leaks, ins)
					}
					if d > 0 && held && base != nil && heldBase[b.Index] == base {
						leaks = append(leaks, ins)
					}
					held = d > 0
					if held {
						heldBase[b.Index] = base
					}
				} else if releases != nil && releases(&x.Call) {
					held = false
				}
			case *ssa.Go:
				// `go helper()` with the mutex held hands it over to the new goroutine
				if releases != nil && releases(&x.Call) {
					held = false
				}
			case *ssa.RunDefers:
				if deferredUnlock {
					held = false
				}
			case *ssa.Return:
				if held {
					leaks = append(leaks, ins)
				}
			}
		}
		if blockNoReturn(b) {
			continue
		}
		for _, s := range b.Succs {
			if !seen[s.Index] || (held && !in[s.Index]) {
				seen[s.Index] = true
				in[s.Index] = in[s.Index] || held
				if held && heldBase[s.Index] == nil {
					heldBase[s.Index] = heldBase[b.Index]
				}
				work = append(work, s)
			}
		}
	}
	reported := map[ssa.Instruction]bool{}
	for _, l := range leaks {
		if reported[l] {
			continue
		}
		reported[l] = true
		if call, isCall := l.(*ssa.Call); isCall {
			if _, d := mutexOfCall(&call.Call); d < 0 {
				c.violate(l, fn, label+"/lock-balance", fmt.Sprintf("%s: %s releases %s on a point where no path has acquired it (an acquire is missing)", label, shortName(fn), mu.Name()), nil)
				continue
			}
		}
		if _, isRet := l.(*ssa.Return); !isRet {
			c.violate(l, fn, label+"/lock-balance", fmt.Sprintf("%s: %s acquires %s on a path on which it already holds it (self-deadlock: an earlier release is missing)", label, shortName(fn), mu.Name()), nil)
			continue
		}
		c.violate(l, fn, label+"/lock-balance", fmt.Sprintf("%s: %s can return still holding %s (an acquire is not released on this exit)", label, shortName(fn), mu.Name()), nil)
	}
}

// lockBaseOf: the object owning the mutex &obj.mu when obj is a parameter or a
// captured variable (identity is then stable across the function), else nil.
func lockBaseOf(v ssa.Value) ssa.Value {
	fa, ok := v.(*ssa.FieldAddr)
	if !ok {
		return nil
	}
	switch x := fa.X.(type) {
	case *ssa.Parameter:
		return x
	case *ssa.FreeVar:
		return x
	case *ssa.UnOp:
		if fv, ok := x.X.(*ssa.FreeVar); ok {
			return fv
		}
	}
	return nil
}
