package main

import (
	"go/token"

	"golang.org/x/tools/go/ssa"
)

const xsrv = "internal/xds/server"

func init() {
	register(&PropDef{
		ID:    "C49",
		Pkgs:  []string{xsrv, xdsrsrc},
		Claim: "Decides the structural part: lookup chains the four stages by data flow (destination prefix -> source type -> source prefix -> source port) on the connection's own addresses/port; the default filter chain is returned only on the arms where a stage produced nothing, and the matched chain is the non-nil result of the port stage; both prefix stages (sibling check) skip entries whose valid prefix does not contain the address, skip entries less specific than the current best, restart the candidate list exactly when an entry is more specific (recording its size as the new best) and keep equally specific ones; the source-type stage prefers the connection's own type over 'any' with the same better/equal/worse discipline; the port stage prefers the exact port over the wildcard port 0; ties are rejected: more than one surviving source prefix is an error, and validation inserts a filter chain for a source port only after finding that slot empty. The prefix length is used only for a real prefix, every entry of each stage is considered, 'no match' is returned only when nothing survived, the port stage returns the exact-port chain, then the wildcard chain, and nothing only without both; the wildcard slot is used exactly for chains without source ports.",
		NotDecided:  []string{"that destination-prefix / source-type / source-prefix duplicates are all rejected at validation (only the source-port slot check is decided)", "agreement with a reference most-specific-match over all chain sets"},
		Assumptions: []string{"net/netip Prefix.Contains/Bits semantics"},
		Technique:   "static analysis: data-flow chaining of call results, dominating guards and refusing-arm unreachability on go/ssa, phi-edge pairing for best-so-far tracking (sibling cross-check of the two prefix stages), check-then-insert for map updates",
		Run:         c49,
	})
}

func c49(c *Ctx) {
	fcm := "filterChainManager"
	lk := c.fn(xsrv, fcm+".lookup")
	fDef := c.field(xsrv, fcm, "defaultFilterChain")
	pField := func(n string) VM { return FieldLoad(c.field(xsrv, "lookupParams", n)) }
	dstC := Callee(xsrv, "filterByDestinationPrefixes")
	typC := Callee(xsrv, "filterBySourceType")
	preC := Callee(xsrv, "filterBySourcePrefixes")
	prtC := Callee(xsrv, "filterBySourcePorts")
	c.Ob("stage-order", "R8", "lookup: dst-prefix stage on fcm.dstPrefixes/isUnspecified/dstAddr feeds the source-type stage, which feeds the source-prefix stage (srcAddr), whose single entry feeds the port stage (srcPort); source type is same-or-loopback iff srcAddr == dstAddr or loopback", 9, func() {
		d := one(c, "dst stage", callsIn(lk, dstC))
		t := one(c, "type stage", callsIn(lk, typC))
		p := one(c, "prefix stage", callsIn(lk, preC))
		q := one(c, "port stage", callsIn(lk, prtC))
		c.ArgIs(d, 0, "dst-stage-over-all-prefixes", FieldLoad(c.field(xsrv, fcm, "dstPrefixes")))
		c.ArgIs(d, 1, "dst-stage-unspecified-flag", pField("isUnspecifiedListener"))
		c.ArgIs(d, 2, "dst-stage-on-destination-address", pField("dstAddr"))
		c.ArgIs(t, 0, "type-stage-over-dst-survivors", func(v ssa.Value) bool { return v == d.Value() })
		c.ArgIs(p, 0, "prefix-stage-over-type-survivors", func(v ssa.Value) bool { return v == t.Value() })
		c.ArgIs(p, 1, "prefix-stage-on-source-address", pField("srcAddr"))
		c.ArgIs(q, 0, "port-stage-on-the-surviving-prefix", ExtractOf(func(v ssa.Value) bool { return v == p.Value() }, 0))
		c.ArgIs(q, 1, "port-stage-on-source-port", pField("srcPort"))
		// source type
		ph, ok := t.Common().Args[1].(*ssa.Phi)
		okT := false
		if ok {
			okT = true
			same := ConstOfObj(c.konst(xsrv, "sourceTypeSameOrLoopback"))
			ext := ConstOfObj(c.konst(xsrv, "sourceTypeExternal"))
			eq := Truth(BinOpV(token.EQL, pField("srcAddr"), pField("dstAddr")), true)
			lb := Truth(CallRes(CalleeX("net/netip", "Addr.IsLoopback"), 0), true)
			nSame, nExt := 0, 0
			// the leaves of the phi tree (a join in front of the use adds a level), each judged on the
			// block it comes from: "same" only inside an arm entered under one of the two tests,
			// "external" only where both are known to have failed
			seenPh := map[*ssa.Phi]bool{}
			var walkPh func(q *ssa.Phi)
			walkPh = func(q *ssa.Phi) {
				if seenPh[q] {
					return
				}
				seenPh[q] = true
				for i, e := range q.Edges {
					if qq, isPhi := e.(*ssa.Phi); isPhi {
						walkPh(qq)
						continue
					}
					pred := q.Block().Preds[i]
					switch {
					case same(e):
						nSame++
						okT = okT && underArm(pred, eq, lb)
					case ext(e):
						nExt++
						fs := append(append([]Fact(nil), FactsAtBlock(pred)...), edgeOnlyFacts(pred, q.Block())...)
						_, na := hasFact(fs, Truth(BinOpV(token.EQL, pField("srcAddr"), pField("dstAddr")), false))
						_, nb := hasFact(fs, Truth(CallRes(CalleeX("net/netip", "Addr.IsLoopback"), 0), false))
						okT = okT && na && nb
					default:
						okT = false
					}
				}
			}
			walkPh(ph)
			okT = okT && nSame >= 1 && nExt == 1
		}
		c.Expect(okT, t, lk, "source-type-classification", "source type is not same-or-loopback exactly when srcAddr == dstAddr or the source is loopback")
		for _, r := range returnsOf(lk) {
			if v := r.Results[0]; !ConstNil(v) && !FieldLoad(fDef)(v) {
				c.ValueIs(r, v, "matched-chain-is-the-port-stage-result", func(x ssa.Value) bool { return x == q.Value() })
				c.MustFact(r, "matched-chain-non-nil", NotNil(func(x ssa.Value) bool { return x == q.Value() }))
			}
		}
		pe := ExtractOf(func(v ssa.Value) bool { return v == p.Value() }, 1)
		c.Unreachable(q, "tie-error-aborts-lookup", NotNil(pe))
	})
	c.Ob("default-only-on-empty", "R2", "the default filter chain is returned only when the destination stage, the source-type stage or the port stage produced nothing", 3, func() {
		n := 0
		for _, r := range returnsOf(lk) {
			if !FieldLoad(fDef)(r.Results[0]) {
				continue
			}
			n++
			c.MustFactAny(r, "default-only-when-a-stage-is-empty",
				CmpInt(LenOf(CallRes(dstC, 0)), token.EQL, 0),
				CmpInt(LenOf(CallRes(typC, 0)), token.EQL, 0),
				IsNil(CallRes(prtC, 0)))
			c.MustFact(r, "default-only-if-configured", NotNil(FieldLoad(fDef)))
		}
		c.Expect(n == 3, nil, lk, "three-default-returns", "expected three fall-backs to the default filter chain")
	})
	c.Ob("most-specific", "R7", "sibling x2 (destination / source prefixes): non-containing valid prefixes skipped, less specific skipped, more specific restarts the list and becomes the best, entry appended otherwise; source type: own type preferred over any; ports: exact before 0", 16, func() {
		for _, st := range []struct{ fn, addr string }{{"filterByDestinationPrefixes", "dstAddr"}, {"filterBySourcePrefixes", "srcAddr"}} {
			f := c.fn(xsrv, st.fn)
			var app *ssa.Call
			for _, in := range instrsWhere(f, func(in ssa.Instruction) bool {
				call, ok := in.(*ssa.Call)
				return ok && BuiltinCall("append")(&call.Call)
			}) {
				app = in.(*ssa.Call)
			}
			if !c.Expect(app != nil, nil, f, st.fn+":collects", "no candidate collection") {
				continue
			}
			valid := CallRes(CalleeX("net/netip", "Prefix.IsValid"), 0)
			contains := callArgs(CalleeX("net/netip", "Prefix.Contains"), AnyV, ParamV(st.addr))
			c.Unreachable(app, st.fn+":non-containing-prefix-skipped", Truth(valid, true), Truth(contains, false))
			for _, ci := range callsIn(f, CalleeX("net/netip", "Prefix.Contains")) {
				c.ArgIs(ci, 1, st.fn+":contains-the-connection-address", ParamV(st.addr))
			}
			// matchSize = phi[unspecified const, Bits()]
			var size *ssa.Phi
			for _, b := range f.Blocks {
				for _, in := range b.Instrs {
					if ph, ok := in.(*ssa.Phi); ok && len(ph.Edges) == 2 {
						hasBits, hasConst := false, false
						for _, e := range ph.Edges {
							if CallRes(CalleeX("net/netip", "Prefix.Bits"), 0)(e) {
								hasBits = true
							}
							if ConstOfObj(c.konst(xsrv, "unspecifiedPrefixMatch"))(e) {
								hasConst = true
							}
						}
						if hasBits && hasConst {
							size = ph
						}
					}
				}
			}
			if !c.Expect(size != nil, app, f, st.fn+":match-size", "match size (prefix bits or unspecified) not found") {
				continue
			}
			for i, e := range size.Edges {
				pr := size.Block().Preds[i]
				fs := append(append([]Fact(nil), FactsAtBlock(pr)...), edgeOnlyFacts(pr, size.Block())...)
				if CallRes(CalleeX("net/netip", "Prefix.Bits"), 0)(e) {
					_, ok := hasFact(fs, Truth(valid, true))
					c.Expect(ok, app, f, st.fn+":bits-only-for-a-real-prefix", "the prefix length is used for an unspecified prefix")
				} else {
					_, ok := hasFact(fs, Truth(valid, false))
					c.Expect(ok, app, f, st.fn+":unspecified-size-only-without-a-prefix", "a real prefix is ranked as unspecified (its length is ignored)")
				}
			}
			c.Expect(c.NoEarlyExit(f, AnyV, st.fn+":every-entry-considered") >= 1, app, f, st.fn+":scan-found", "no scan over the entries")
			isSize := func(v ssa.Value) bool { return v == ssa.Value(size) }
			c49BestSoFar(c, f, app, isSize, st.fn)
			el := appendedElems(app)
			c.Expect(len(el) == 1 && (RangeValueOf(AnyV)(el[0])), app, f, st.fn+":appends-the-entry", "something other than the visited entry is collected")
		}
		sp := c.fn(xsrv, "filterBySourcePrefixes")
		for _, r := range returnsOf(sp) {
			if !ConstNil(r.Results[0]) {
				c.MustFact(r, "exactly-one-survivor", CmpInt(LenOf(AnyV), token.EQL, 1))
			} else if !ConstNil(r.Results[1]) {
				c.MustFact(r, "tie-is-an-error", CmpInt(LenOf(AnyV), token.NEQ, 1))
			} else {
				c.MustFact(r, "no-match-only-when-nothing-survived", CmpInt(LenOf(AnyV), token.EQL, 0))
			}
		}
		// source type stage
		ft := c.fn(xsrv, "filterBySourceType")
		var app *ssa.Call
		for _, in := range instrsWhere(ft, func(in ssa.Instruction) bool {
			call, ok := in.(*ssa.Call)
			return ok && BuiltinCall("append")(&call.Call)
		}) {
			app = in.(*ssa.Call)
		}
		if c.Expect(app != nil, nil, ft, "type:collects", "no collection in the source-type stage") {
			anyT := ConstOfObj(c.konst(xsrv, "sourceTypeAny"))
			var match *ssa.Phi
			for _, b := range ft.Blocks {
				for _, in := range b.Instrs {
					if ph, ok := in.(*ssa.Phi); ok && len(ph.Edges) == 2 {
						a, p := false, false
						for _, e := range ph.Edges {
							if anyT(e) {
								a = true
							}
							if ParamV("srcType")(e) {
								p = true
							}
						}
						if a && p {
							match = ph
						}
					}
				}
			}
			if c.Expect(match != nil, app, ft, "type:match-kind", "own-type / any selection not found") {
				isM := func(v ssa.Value) bool { return v == ssa.Value(match) }
				for i, e := range match.Edges {
					pr := match.Block().Preds[i]
					fs := append(append([]Fact(nil), FactsAtBlock(pr)...), edgeOnlyFacts(pr, match.Block())...)
					_, isNil := hasFact(fs, IsNil(AnyV))
					if anyT(e) {
						c.Expect(isNil, app, ft, "type:any-only-when-own-type-absent", "'any' is used although the connection's own source type is configured")
					}
				}
				c49BestSoFar(c, ft, app, isM, "type")
				c.Expect(c.NoEarlyExit(ft, AnyV, "type:every-entry-considered") >= 1, app, ft, "type:scan-found", "no scan over the entries")
			}
			c.MustFact(app, "type:nil-prefix-sets-not-collected", NotNil(AnyV))
		}
		// ports
		fp := c.fn(xsrv, "filterBySourcePorts")
		fMap := c.field(xsrv, "sourcePrefixEntry", "srcPortMap")
		exact := LookupOf(FieldLoad(fMap), ParamV("srcPort"))
		wild := LookupOf(FieldLoad(fMap), ConstInt(0))
		ne, nw := 0, 0
		for _, r := range returnsOf(fp) {
			v := r.Results[0]
			switch {
			case exact(v):
				ne++
				c.MustFact(r, "exact-port-chain-returned-when-present", NotNil(exact))
			case wild(v):
				nw++
				c.MustFact(r, "wildcard-port-only-without-exact-port", IsNil(exact))
				c.MustFact(r, "wildcard-port-chain-returned-when-present", NotNil(wild))
			default:
				if c.Expect(ConstNil(v), r, fp, "port-result", "unexpected port-stage result") {
					c.MustFactAny(r, "no-chain-only-without-entry-or-without-exact-and-wildcard", IsNil(ParamV("spe")), IsNil(wild))
				}
			}
		}
		c.Expect(ne == 1 && nw == 1, nil, fp, "exact-then-wildcard", "expected an exact-port return and a wildcard-port return")
	})
	c.Ob("error-discipline", "R2", "lookup and the filter-chain validation never turn a helper's error into a success", 3, func() {
		n := c.ErrorsPropagate(lk, "lookup", nil)
		for _, fn := range []string{"addFilterChainsForSourcePorts", "addFilterChainsForSourcePrefixes", "addFilterChainsForSourceType", "addFilterChainsForDestPrefixes", "addFilterChainsForServerNames", "addFilterChainsForTransportProtocols", "addFilterChainsForApplicationProtocols", "buildFilterChainMap"} {
			if f := c.P.LookupFunc(xdsrsrc, fn); f != nil && f.Blocks != nil {
				n += c.ErrorsPropagate(f, fn, nil)
			}
		}
		c.Expect(n >= 3, nil, nil, "error-sites", "fewer tested helper errors than on the reviewed tree")
	})
	c.Ob("tie-rejected", "R2", "addFilterChainsForSourcePorts: a filter chain is stored for a source port only after the slot for that same port was found empty", 2, func() {
		f := c.fn(xdsrsrc, "addFilterChainsForSourcePorts")
		n := 0
		for _, b := range f.Blocks {
			for _, in := range b.Instrs {
				mu, ok := in.(*ssa.MapUpdate)
				if !ok {
					continue
				}
				n++
				empty := func(v ssa.Value) bool {
					call, ok := v.(*ssa.Call)
					if !ok || !Callee(xdsrsrc, "NetworkFilterChainConfig.IsEmpty")(&call.Call) {
						return false
					}
					l, ok := strip(call.Call.Args[0]).(*ssa.Lookup)
					if !ok {
						if u, isU := call.Call.Args[0].(*ssa.UnOp); isU {
							_ = u
						}
						return false
					}
					return (sameValue(l.X, mu.Map) || sameFieldOfSameBase(l.X, mu.Map)) && (sameValue(l.Index, mu.Key) || constEq(l.Index, mu.Key))
				}
				c.Unreachable(mu, "occupied-slot-rejected", Truth(empty, false))
				c.MustFact(mu, "stored-only-when-slot-empty", Truth(empty, true))
				// wildcard slot (port 0) exactly for a chain without source ports; a chain with ports is stored under each of its ports
				if ConstInt(0)(mu.Key) {
					c.MustFact(mu, "wildcard-slot-only-without-source-ports", CmpInt(LenOf(AnyV), token.EQL, 0))
				} else {
					c.MustFact(mu, "per-port-slots-only-with-source-ports", CmpInt(LenOf(AnyV), token.NEQ, 0))
				}
			}
		}
		c.Expect(n == 2, nil, f, "two-insert-sites", "expected the wildcard-port and the per-port insertion")
		c.Expect(c.NoEarlyExit(f, AnyV, "every-source-port-gets-the-chain") >= 1, nil, f, "port-walk", "no walk over the source ports")
	})
}

// allCmpFacts lists the comparison facts that hold in some block or on some edge of fn.
func allCmpFacts(fn *ssa.Function) []Fact {
	var out []Fact
	for _, b := range fn.Blocks {
		for _, fc := range FactsAtBlock(b) {
			if fc.Kind == "cmp" {
				out = append(out, fc)
			}
		}
		for _, s := range b.Succs {
			for _, fc := range edgeOnlyFacts(b, s) {
				if fc.Kind == "cmp" {
					out = append(out, fc)
				}
			}
		}
	}
	return out
}

// sameFieldOfSameBase: two loads of the same field through the same base pointer value.
func sameFieldOfSameBase(a, b ssa.Value) bool {
	ua, ok1 := a.(*ssa.UnOp)
	ub, ok2 := b.(*ssa.UnOp)
	if !ok1 || !ok2 {
		return false
	}
	fa, ok1 := ua.X.(*ssa.FieldAddr)
	fb, ok2 := ub.X.(*ssa.FieldAddr)
	return ok1 && ok2 && sameField(fieldOfAddr(fa), fieldOfAddr(fb)) && (fa.X == fb.X || sameValue(fa.X, fb.X))
}

// incomingFacts: the fact sets with which control can enter blk through pred,
// looking through one empty trampoline block (an `a || b` then-arm).
func incomingFacts(pred, blk *ssa.BasicBlock) [][]Fact {
	if len(pred.Instrs) == 1 && len(pred.Preds) > 1 {
		if _, isJump := pred.Instrs[0].(*ssa.Jump); isJump {
			var out [][]Fact
			for _, pp := range pred.Preds {
				out = append(out, append(append([]Fact(nil), FactsAtBlock(pp)...), edgeOnlyFacts(pp, pred)...))
			}
			return out
		}
	}
	return [][]Fact{append(append([]Fact(nil), FactsAtBlock(pred)...), edgeOnlyFacts(pred, blk)...)}
}

// c49BestSoFar checks the "keep the most specific" discipline around the
// candidate collection `app` in f: entries less specific than the best so far
// are skipped, the list restarts exactly when an entry is more specific (and
// its specificity becomes the best), equally specific entries are added.
func c49BestSoFar(c *Ctx, f *ssa.Function, app *ssa.Call, isSize VM, name string) {
	st := struct{ fn string }{name}
	// best-so-far phi: the Y of `size < best`
	var best ssa.Value
	for _, fc := range allCmpFacts(f) {
		if fc.Op == token.LSS && isSize(fc.X) {
			best = fc.Y
		}
		if fc.Op == token.GTR && isSize(fc.Y) { // spelled `best > size`
			best = fc.X
		}
	}
	if !c.Expect(best != nil, app, f, st.fn+":less-specific-test", "no 'less specific than the best' test") {
		return
	}
	isBest := func(v ssa.Value) bool { return v == best }
	c.Unreachable(app, st.fn+":less-specific-skipped", Cmp(isSize, token.LSS, isBest))
	// list restarted exactly on size > best; best updated to size there
	lst, ok := app.Call.Args[0].(*ssa.Phi)
	okR := false
	if ok && len(lst.Edges) == 2 {
		for i, e := range lst.Edges {
			pr := lst.Block().Preds[i]
			fs := append(append([]Fact(nil), FactsAtBlock(pr)...), edgeOnlyFacts(pr, lst.Block())...)
			_, more := hasFact(fs, Cmp(isSize, token.GTR, isBest))
			if sl, isFresh := e.(*ssa.Slice); isFresh {
		_, fr := sl.X.(*ssa.Alloc)
		okR = fr && more
			} else if _, isMk := e.(*ssa.MakeSlice); isMk {
		okR = more
			} else if more {
		okR = false
			}
		}
		// best phi in the same block
		for _, in := range lst.Block().Instrs {
			if bp, ok := in.(*ssa.Phi); ok && bp != lst {
		for i, e := range bp.Edges {
			pr := bp.Block().Preds[i]
			fs := append(append([]Fact(nil), FactsAtBlock(pr)...), edgeOnlyFacts(pr, bp.Block())...)
			_, more := hasFact(fs, Cmp(isSize, token.GTR, isBest))
			if more {
				c.Expect(isSize(e), app, f, st.fn+":best-updated-to-more-specific", "the best match size is not updated when a more specific entry is found")
			} else {
				c.Expect(isBest(e), app, f, st.fn+":best-kept-otherwise", "the best match size changes without a more specific entry")
			}
		}
			}
		}
	}
	c.Expect(okR, app, f, st.fn+":list-restarts-on-more-specific", "the candidate list is not restarted exactly when a more specific entry is found")
}
