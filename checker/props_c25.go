package main

import (
	"go/token"
	"go/types"

	"golang.org/x/tools/go/ssa"
)

func init() {
	register(&PropDef{
		ID:    "C25",
		Pkgs:  []string{"grpc", tr},
		Claim: "Decides the structural part: every return of the stop routine taken for a graceful stop (or with WaitForHandlers) is preceded by the wait on the handler wait-group, which itself comes after the wait for all connections to disappear; the stop signal is raised before anything else and listeners are closed before waiting for the serve loops; graceful stop drains and hard stop closes the transports; a connection arriving after the stop signal is closed and a transport registered after the connection table was dropped is refused; every accepted stream is added to the wait-group and takes a handler-quota slot before its handler is scheduled, and the scheduled function releases both by defer around the dispatcher; the quota semaphore blocks exactly when the decremented count is negative and signals exactly when the incremented count is not positive, with the configured per-connection limit as initial value; closing a server transport cancels every stream it still had.",
		NotDecided:  []string{"'returns only after every in-flight handler returned' as a schedule property across goroutines", "handlers that ignore cancellation"},
		Assumptions: []string{"sync.WaitGroup / sync.Cond semantics"},
		Technique:   "static analysis: must-pass-through path search, dominating guards on go/ssa branch facts, ordering (dominance), defer inspection, value-origin",
		Run:         c25,
	})
}

func c25(c *Ctx) {
	sv := func(f string) *types.Var { return c.field("grpc", "Server", f) }
	wgWait := func(fv *types.Var) func(ssa.Instruction) bool {
		return func(in ssa.Instruction) bool {
			call, ok := in.(*ssa.Call)
			return ok && CalleeX("sync", "WaitGroup.Wait")(&call.Call) && FieldAddrOf(fv)(call.Call.Args[0])
		}
	}
	c.Ob("stop-waits", "R3", "stop: unless neither graceful nor WaitForHandlers, every return is preceded by handlersWG.Wait(); that wait comes after the connection table emptied; graceful drains, hard stop closes", 6, func() {
		f := c.fn("grpc", "Server.stop")
		fWFH := c.field("grpc", "serverOptions", "waitForHandlers")
		hw := one(c, "handlersWG.Wait in stop", instrsWhere(f, wgWait(sv("handlersWG"))))
		q := pathQuery{Fn: f, AtEntry: true, Barrier: func(in ssa.Instruction) bool { return in == hw },
			Target: func(in ssa.Instruction) bool { r, ok := in.(*ssa.Return); return ok && r.Block() != f.Recover },
			EdgeBlock: func(from, to *ssa.BasicBlock) bool {
				fs := edgeFacts(from, to)
				_, a := hasFact(fs, Truth(ParamV("graceful"), false))
				_, b := hasFact(fs, Truth(FieldLoad(fWFH), false))
				return a && b
			}}
		c.MustPass("graceful-stop-always-waits-for-handlers", q, hw)
		c.MustFact(hw, "connections-gone-first", CmpInt(LenOf(FieldLoad(sv("conns"))), token.EQL, 0))
		drain := one(c, "drainAllServerTransportsLocked", callsIn(f, Callee("grpc", "Server.drainAllServerTransportsLocked")))
		cls := one(c, "closeServerTransportsLocked", callsIn(f, Callee("grpc", "Server.closeServerTransportsLocked")))
		c.MustFact(drain, "drain-iff-graceful", Truth(ParamV("graceful"), true))
		c.MustFact(cls, "close-iff-not-graceful", Truth(ParamV("graceful"), false))
		// order: quit first; listeners closed before serveWG.Wait; transports handled after
		fire := one(c, "quit.Fire", instrsWhere(f, func(in ssa.Instruction) bool {
			call, ok := in.(*ssa.Call)
			return ok && Callee("internal/grpcsync", "Event.Fire")(&call.Call) && FieldLoad(sv("quit"))(call.Call.Args[0])
		}))
		for _, b := range f.Blocks {
			for _, in := range b.Instrs {
				if ci, ok := in.(*ssa.Call); ok && in != fire {
					if _, isB := ci.Call.Value.(*ssa.Builtin); !isB {
						c.Expect(instrDominates(fire, in), in, f, "stop-signal-first", "something happens in stop before the stop signal is raised")
					}
				}
			}
		}
		cll := one(c, "closeListenersLocked", callsIn(f, Callee("grpc", "Server.closeListenersLocked")))
		sw := one(c, "serveWG.Wait", instrsWhere(f, wgWait(sv("serveWG"))))
		c.Dominates(cll, sw, "listeners-closed-before-waiting-for-serve-loops")
		c.Dominates(sw, drain, "serve-loops-done-before-draining")
		c.Dominates(sw, cls, "serve-loops-done-before-closing")
	})
	c.Ob("no-accept-after-stop", "R2", "a raw connection arriving after the stop signal is closed without being served; a transport is not registered once the connection table was dropped", 3, func() {
		f := c.fn("grpc", "Server.handleRawConn")
		fired := Truth(CallWith(Callee("internal/grpcsync", "Event.HasFired"), 0, FieldLoad(sv("quit"))), true)
		nt := one(c, "newHTTP2Transport call", callsIn(f, Callee("grpc", "Server.newHTTP2Transport")))
		c.Unreachable(nt, "stopped-server-serves-nothing", fired)
		foundClose := false
		for _, b := range blocksWhere(f, fired) {
			for _, in := range b.Instrs {
				if isCallTo(CalleeX("net", "Conn.Close"))(in) {
					foundClose = true
				}
			}
		}
		c.Expect(foundClose, nil, f, "late-connection-closed", "a connection arriving after stop is not closed")
		a := c.fn("grpc", "Server.addConn")
		for _, in := range instrsWhere(a, func(in ssa.Instruction) bool { _, ok := in.(*ssa.MapUpdate); return ok }) {
			c.MustFact(in, "registered-only-while-table-exists", NotNil(FieldLoad(sv("conns"))))
		}
		for _, b := range blocksWhere(a, IsNil(FieldLoad(sv("conns")))) {
			for _, in := range b.Instrs {
				if r, ok := in.(*ssa.Return); ok {
					c.ValueIs(r, strip(r.Results[0]), "refused-after-stop", ConstBool(false))
				}
			}
		}
		sf := c.fn("grpc", "Server.serveStreams")
		_ = sf
		go1 := instrsWhere(f, func(in ssa.Instruction) bool { _, ok := in.(*ssa.Go); return ok })
		if c.Expect(len(go1) == 1, nil, f, "serve-goroutine", "expected one serving goroutine per connection") {
			c.MustFact(go1[0], "served-only-if-registered", Truth(CallRes(Callee("grpc", "Server.addConn"), 0), true))
		}
	})
	c.Ob("no-stream-after-drain", "R2", "server transport: a new stream is registered and handed to the server only while the transport is reachable — not while it drains (after the final GOAWAY of a graceful stop) and not while it closes", 2, func() {
		oh := c.fn(tr, "http2Server.operateHeaders")
		fState := c.field(tr, "http2Server", "state")
		reachable := Cmp(FieldLoad(fState), token.EQL, ConstOfObj(c.konst(tr, "reachable")))
		handle := one(c, "hand-off to the application", callsIn(oh, ValueCall(ParamV("handle"))))
		c.MustFact(handle, "handled-only-while-reachable", reachable)
		n := 0
		for _, in := range instrsWhere(oh, func(in ssa.Instruction) bool {
			mu, ok := in.(*ssa.MapUpdate)
			return ok && FieldLoad(c.field(tr, "http2Server", "activeStreams"))(mu.Map)
		}) {
			n++
			c.MustFact(in, "registered-only-while-reachable", reachable)
		}
		c.Expect(n == 1, nil, oh, "stream-registration", "expected one registration of an accepted stream")
	})
	c.Ob("handler-accounting", "R12", "per accepted stream: handlersWG.Add(1) and quota acquire precede scheduling; the scheduled function defers quota release and handlersWG.Done around the dispatcher; it is either handed to a worker or started as a goroutine on every path", 6, func() {
		f := c.fn("grpc", "Server.serveStreams")
		cbs := closuresPassedTo(f, Callee(tr, "ServerTransport.HandleStreams"), 1)
		cb := one(c, "stream callback of serveStreams", cbs)
		add := one(c, "handlersWG.Add(1)", instrsWhere(cb, func(in ssa.Instruction) bool {
			call, ok := in.(*ssa.Call)
			return ok && CalleeX("sync", "WaitGroup.Add")(&call.Call) && FieldAddrOf(sv("handlersWG"))(call.Call.Args[0]) && ConstInt(1)(call.Call.Args[1])
		}))
		acq := one(c, "quota acquire", callsIn(cb, Callee("grpc", "atomicSemaphore.acquire")))
		var fcl *ssa.Function
		for _, a := range cb.AnonFuncs {
			if len(callsIn(a, Callee("grpc", "Server.handleStream"))) == 1 {
				fcl = a
			}
		}
		if fcl == nil {
			panic(missingStep{"no handler closure calling handleStream"})
		}
		var sched []ssa.Instruction
		for _, b := range cb.Blocks {
			for _, in := range b.Instrs {
				switch x := in.(type) {
				case *ssa.Go:
					sched = append(sched, in)
				case *ssa.Select:
					for _, s := range x.States {
						if s.Dir == types.SendOnly {
							sched = append(sched, in)
						}
					}
				}
			}
		}
		c.Expect(len(sched) == 2, nil, cb, "two-scheduling-sites", "expected worker hand-off and goroutine start")
		for _, s := range sched {
			c.Dominates(add, s, "counted-before-scheduled")
			c.Dominates(acq, s, "quota-before-scheduled")
		}
		// every path schedules: from acquire to return passes a go, or the select's send arm taken
		q := pathQuery{Fn: cb, Starts: []ssa.Instruction{acq}, Barrier: func(in ssa.Instruction) bool { _, ok := in.(*ssa.Go); return ok }, Target: isReturn,
			EdgeBlock: func(from, to *ssa.BasicBlock) bool {
				for _, fc := range edgeFacts(from, to) {
					if fc.Kind == "cmp" && fc.Op == token.EQL && ExtractOf(func(v ssa.Value) bool { _, ok := v.(*ssa.Select); return ok }, 0)(fc.X) && ConstInt(0)(fc.Y) {
						return true // handed to a worker
					}
				}
				return false
			}}
		c.MustPass("every-accepted-stream-is-scheduled", q, acq)
		// the closure defers release and Done
		dRel, dDone := false, false
		var firstDefer ssa.Instruction
		for _, in := range instrsWhere(fcl, func(in ssa.Instruction) bool { _, ok := in.(*ssa.Defer); return ok }) {
			d := in.(*ssa.Defer)
			if firstDefer == nil {
				firstDefer = in
			}
			if Callee("grpc", "atomicSemaphore.release")(&d.Call) {
				dRel = true
			}
			if CalleeX("sync", "WaitGroup.Done")(&d.Call) && FieldAddrOf(sv("handlersWG"))(d.Call.Args[0]) {
				dDone = true
			}
		}
		c.Expect(dRel && dDone, nil, fcl, "release-and-done-deferred", "the handler function does not defer both the quota release and handlersWG.Done")
		hs := callsIn(fcl, Callee("grpc", "Server.handleStream"))[0]
		for _, in := range instrsWhere(fcl, func(in ssa.Instruction) bool { _, ok := in.(*ssa.Defer); return ok }) {
			c.Dominates(in, hs, "defers-before-dispatch")
		}
		nq := one(c, "newHandlerQuota call", callsIn(f, Callee("grpc", "newHandlerQuota")))
		c.ArgIs(nq, 0, "quota-is-MaxConcurrentStreams", FieldLoad(c.field("grpc", "serverOptions", "maxConcurrentStreams")))
	})
	c.Ob("semaphore-shape", "R2", "handler quota: acquire blocks iff Add(-1) < 0; release signals iff Add(1) <= 0; the channel has capacity 1; the initial count is the given limit", 4, func() {
		addK := func(k int64) VM {
			return func(v ssa.Value) bool {
				call, ok := strip(v).(*ssa.Call)
				return ok && CalleeX("sync/atomic", "Int64.Add")(&call.Call) && ConstInt(k)(call.Call.Args[1])
			}
		}
		a := c.fn("grpc", "atomicSemaphore.acquire")
		rc := one(c, "receive in acquire", instrsWhere(a, func(in ssa.Instruction) bool { u, ok := in.(*ssa.UnOp); return ok && u.Op == token.ARROW }))
		c.MustFact(rc, "blocks-iff-negative", CmpInt(addK(-1), token.LSS, 0))
		r := c.fn("grpc", "atomicSemaphore.release")
		sd := one(c, "send in release", instrsWhere(r, func(in ssa.Instruction) bool { _, ok := in.(*ssa.Send); return ok }))
		c.MustFact(sd, "signals-iff-waiter", CmpInt(addK(1), token.LEQ, 0))
		n := c.fn("grpc", "newHandlerQuota")
		mk := one(c, "make(chan) in newHandlerQuota", instrsWhere(n, func(in ssa.Instruction) bool { _, ok := in.(*ssa.MakeChan); return ok }))
		c.ValueIs(mk, mk.(*ssa.MakeChan).Size, "capacity-1", ConstInt(1))
		stc := one(c, "n.Store in newHandlerQuota", callsIn(n, CalleeX("sync/atomic", "Int64.Store")))
		c.ArgIs(stc, 1, "initial-count-is-limit", func(v ssa.Value) bool { return ParamV("n")(stripConv(v)) })
	})
	c.Ob("stop-cancels", "R3", "closing a server transport is idempotent and cancels every stream that was still active", 2, func() {
		f := c.fn(tr, "http2Server.Close")
		cn := callsIn(f, FieldCall(c.field(tr, "ServerStream", "cancel")))
		c.Expect(len(cn) == 1, nil, f, "streams-cancelled", "http2Server.Close does not cancel the remaining streams")
		st := one(c, "state=closing", storesToField(f, c.field(tr, "http2Server", "state")))
		c.MustFact(st, "close-idempotent", Cmp(FieldLoad(c.field(tr, "http2Server", "state")), token.NEQ, ConstOfObj(c.konst(tr, "closing"))))
	})
}
