package main

import (
	"go/token"
	"go/types"
	"strings"

	"golang.org/x/tools/go/ssa"
)

const odp = "internal/xds/balancer/outlierdetection"

func init() {
	register(&PropDef{
		ID:    "C40",
		Pkgs:  []string{odp},
		Claim: "Decides the structural part: the count of ejected endpoints changes only by +1 where an endpoint is ejected (its ejection timestamp is set), by -1 where it is un-ejected (timestamp cleared), and by -1 where an endpoint that is currently ejected (timestamp non-zero) is removed from the endpoint table, which is the only other place an endpoint leaves the table; both detection algorithms consider only endpoints with at least the configured request volume, return early below the minimum host count, and eject only on the arm where the ejected share is below max_ejection_percent and the enforcement draw is below the enforcement percentage; the un-ejection time is timestamp + min(base x multiplier, max(base, max_ejection_time)); a no-op config un-ejects every ejected endpoint and zeroes every multiplier; an ejected subchannel reports TRANSIENT_FAILURE to its health listener, suppresses health updates while ejected and replays the latest health state on un-ejection. The ejection state (endpoint and address maps, ejected count, interval timer; cfg with a single writer) is accessed only under the balancer mutex, which is balanced; the interval and no-op passes visit every endpoint; an ejection always reaches a registered health listener.",
		NotDecided:  []string{"the success-rate / failure-percentage arithmetic (floating point)", "complete ejection histories against a reference model over all call-result sequences"},
		Assumptions: []string{"all counter updates happen under the balancer mutex (helpers documented 'caller must hold b.mu')"},
		Technique:   "static analysis: who-may-write with stored-value shapes and dominating guards on go/ssa branch facts (including range-over-func bodies), refusing-arm unreachability, value-origin of builtin min/max structure",
		Run:         c40,
	})
}

func c40(c *Ctx) {
	ob := "outlierDetectionBalancer"
	fNum := c.field(odp, ob, "numEndpointsEjected")
	fTS := c.field(odp, "endpointInfo", "latestEjectionTimestamp")
	fMult := c.field(odp, "endpointInfo", "ejectionTimeMultiplier")
	ejectedNow := func(pol bool) FM {
		return Truth(func(v ssa.Value) bool {
			call, ok := strip(v).(*ssa.Call)
			if !ok || !CalleeX("time", "Time.IsZero")(&call.Call) {
				return false
			}
			return FieldLoad(fTS)(call.Call.Args[0])
		}, !pol)
	}
	c.Ob("ejected-count", "R12", "numEndpointsEjected: +1 only in ejectEndpoint (which sets the timestamp), -1 only in unejectEndpoint (which clears it) and, for a removed endpoint, only when its timestamp is non-zero; endpoints leave the table only there", 8, func() {
		nInc, nDec := 0, 0
		for _, f := range c.scope(odp) {
			top := shortName(topFunc(f))
			for _, st := range storesToField(f, fNum) {
				c.inst("counter update <- " + c.siteStr(st))
				switch {
				case BinOpV(token.ADD, FieldLoad(fNum), ConstInt(1))(st.Val):
					nInc++
					c.Expect(top == odp+"."+ob+".ejectEndpoint", st, f, "increment-only-on-ejection", "the ejected count is incremented outside ejectEndpoint")
				case BinOpV(token.SUB, FieldLoad(fNum), ConstInt(1))(st.Val):
					nDec++
					switch top {
					case odp + "." + ob + ".unejectEndpoint":
					case odp + "." + ob + ".UpdateClientConnState":
						c.MustFact(st, "removed-endpoint-counted-only-if-currently-ejected", ejectedNow(true))
					default:
						c.Expect(false, st, f, "decrement-site", "the ejected count is decremented at an unreviewed site")
					}
				default:
					c.Expect(false, st, f, "counter-update-shape", "the ejected count is changed by something other than +1 / -1")
				}
			}
		}
		c.Expect(nInc == 1 && nDec == 2, nil, nil, "update-sites", "expected one increment (eject) and two decrements (uneject, removal of an ejected endpoint)")
		ej := c.fn(odp, ob+".ejectEndpoint")
		un := c.fn(odp, ob+".unejectEndpoint")
		c.Expect(len(storesToField(ej, fTS)) == 1, nil, ej, "eject-sets-timestamp", "ejectEndpoint does not set the ejection timestamp")
		for _, st := range storesToField(ej, fTS) {
			c.ValueIs(st, st.Val, "timestamp-is-interval-start", FieldLoad(c.field(odp, ob, "timerStartTime")))
		}
		uts := storesToField(un, fTS)
		c.Expect(len(uts) == 1, nil, un, "uneject-clears-timestamp", "unejectEndpoint does not clear the ejection timestamp")
		c.WhoMayMutate("latestEjectionTimestamp", fTS, c.scope(odp), odp+"."+ob+".ejectEndpoint", odp+"."+ob+".unejectEndpoint")
		// removal from the table
		nDel := 0
		for _, f := range c.scope(odp) {
			for _, d := range callsIn(f, Callee("resolver", "EndpointMap.Delete")) {
				if !FieldLoad(c.field(odp, ob, "endpoints"))(d.Common().Args[0]) {
					continue
				}
				nDel++
				c.Expect(shortName(topFunc(f)) == odp+"."+ob+".UpdateClientConnState", d, f, "endpoints-removed-only-on-resolver-update", "endpoints are removed from the table at an unreviewed site")
				// the ejected test precedes the removal
				found := false
				for _, iz := range callsIn(f, CalleeX("time", "Time.IsZero")) {
					if FieldLoad(fTS)(iz.Common().Args[0]) && instrDominates(iz, d) {
						found = true
					}
				}
				c.Expect(found, d, f, "removal-checks-ejection", "an endpoint is removed without testing whether it is currently ejected")
			}
		}
		c.Expect(nDel == 1, nil, nil, "one-removal-site", "expected exactly one endpoint removal site")
		// ejection multiplier grows on ejection
		for _, st := range storesToField(ej, fMult) {
			c.ValueIs(st, st.Val, "multiplier-grows-on-ejection", BinOpV(token.ADD, FieldLoad(fMult), ConstInt(1)))
		}
	})
	c.Ob("max-ejection", "R2", "sibling x2 (success-rate, failure-percentage): ejectEndpoint is unreachable when ejected/len*100 >= MaxEjectionPercent and is reached only when the enforcement draw is below EnforcementPercentage; candidates have at least RequestVolume requests and the algorithm returns below MinimumHosts", 10, func() {
		fMaxP := c.field(odp, "LBConfig", "MaxEjectionPercent")
		over := func(fc Fact) bool {
			if fc.Kind != "cmp" || fc.Op != token.GEQ {
				return false
			}
			return DataDep(FieldLoad(fNum))(fc.X) && DataDep(FieldLoad(fMaxP))(fc.Y) && DataDep(CallRes(Callee("resolver", "EndpointMap.Len"), 0))(fc.X)
		}
		for _, pr := range []struct{ fn, cfgT string }{{"successRateAlgorithm", "SuccessRateEjection"}, {"failurePercentageAlgorithm", "FailurePercentageEjection"}} {
			f := c.fn(odp, ob+"."+pr.fn)
			ej := one(c, "ejectEndpoint in "+pr.fn, callsInTree(f, Callee(odp, ob+".ejectEndpoint")))
			c.Unreachable(ej, pr.fn+":max-ejection-percent-respected", over)
			fEnf := c.field(odp, pr.cfgT, "EnforcementPercentage")
			c.MustFact(ej, pr.fn+":enforcement-draw-below-percentage", Cmp(func(v ssa.Value) bool { return CallRes(CalleeX("math/rand/v2", "Int32N"), 0)(stripConv(v)) }, token.LSS, FieldLoad(fEnf)))
			for _, d := range callsInTree(f, CalleeX("math/rand/v2", "Int32N")) {
				c.ArgIs(d, 0, pr.fn+":draw-out-of-100", ConstInt(100))
			}
			ev := one(c, "candidate selection in "+pr.fn, callsIn(f, Callee(odp, ob+".endpointsWithAtLeastRequestVolume")))
			c.ArgIs(ev, 1, pr.fn+":request-volume-from-config", FieldLoad(c.field(odp, pr.cfgT, "RequestVolume")))
			fMinH := c.field(odp, pr.cfgT, "MinimumHosts")
			c.Unreachable(ej, pr.fn+":minimum-hosts", Cmp(LenOf(CallRes(Callee(odp, ob+".endpointsWithAtLeastRequestVolume"), 0)), token.LSS, func(v ssa.Value) bool { return FieldLoad(fMinH)(stripConv(v)) }))
			// the endpoints iterated are the candidates
			_ = ev
		}
		ev := c.fn(odp, ob+".endpointsWithAtLeastRequestVolume")
		n := 0
		for _, in := range instrsWhere2(ev, func(in ssa.Instruction) bool {
			call, ok := in.(*ssa.Call)
			return ok && BuiltinCall("append")(&call.Call)
		}) {
			n++
			c.MustFact(in, "candidate-has-request-volume", Cmp(BinOpV(token.ADD, AnyV, AnyV), token.GEQ, func(v ssa.Value) bool { return strings.Contains(valStr(v), "requestVolume") }))
		}
		c.Expect(n == 1, nil, ev, "one-candidate-append", "expected one candidate collection site")
	})
	c.Ob("detection-criteria", "R7", "both algorithms run when configured; success-rate ejects on rate < mean - stdev*factor/1000, failure-percentage on pct > threshold, and an endpoint meeting the criterion reaches the max-ejection test; candidates are exactly those with at least the request volume; eject/uneject act on every subchannel of the endpoint; an un-ejected subchannel forwards health updates to its listener", 12, func() {
		it := c.fn(odp, ob+".intervalTimerAlgorithm")
		for _, a := range []struct{ fn, cfgF string }{{"successRateAlgorithm", "SuccessRateEjection"}, {"failurePercentageAlgorithm", "FailurePercentageEjection"}} {
			call := one(c, a.fn+" call", callsIn(it, Callee(odp, ob+"."+a.fn)))
			fCfg := c.field(odp, "LBConfig", a.cfgF)
			c.MustFact(call, a.fn+":only-when-configured", NotNil(FieldLoad(fCfg)))
			c.MustPass(a.fn+":always-when-configured", pathQuery{Fn: it, AtEntry: true, Barrier: func(in ssa.Instruction) bool { return in == ssa.Instruction(call) }, Target: isReturn,
				EdgeBlock: func(from, to *ssa.BasicBlock) bool {
					_, ok := hasFact(edgeFacts(from, to), IsNil(FieldLoad(fCfg)))
					return ok
				}}, nil)
		}
		c.Expect(len(callsInTree(it, Callee(odp, ob+".unejectEndpoint"))) == 1, nil, it, "interval-pass-unejects", "the interval pass never un-ejects")
		fS := c.field(odp, "bucket", "numSuccesses")
		fF := c.field(odp, "bucket", "numFailures")
		// criteria
		type crit struct {
			fn    string
			holds FM // criterion met
			not   FM // criterion not met
		}
		isFloat := func(v ssa.Value) bool {
			b, ok := v.Type().Underlying().(*types.Basic)
			return ok && b.Info()&types.IsFloat != 0
		}
		rate := func(v ssa.Value) bool { return isFloat(v) && DataDep(FieldLoad(fS))(v) && !DataDep(CallRes(Callee(odp, ob+".meanAndStdDev"), -1))(v) }
		req := func(v ssa.Value) bool {
			b, ok := v.(*ssa.BinOp)
			return ok && b.Op == token.SUB && DataDep(FieldLoad(c.field(odp, "SuccessRateEjection", "StdevFactor")))(b.Y) && isFloat(v)
		}
		pct := func(v ssa.Value) bool {
			b, ok := v.(*ssa.BinOp)
			return ok && b.Op == token.MUL && ConstNum(100)(b.Y) && DataDep(FieldLoad(fF))(b.X)
		}
		thr := func(v ssa.Value) bool {
			cv, ok := v.(*ssa.Convert)
			return ok && FieldLoad(c.field(odp, "FailurePercentageEjection", "Threshold"))(cv.X)
		}
		for _, k := range []crit{
			{"successRateAlgorithm", Cmp(rate, token.LSS, req), Cmp(rate, token.GEQ, req)},
			{"failurePercentageAlgorithm", Cmp(pct, token.GTR, thr), Cmp(pct, token.LEQ, thr)},
		} {
			f := c.fn(odp, ob+"."+k.fn)
			ej := one(c, "ejectEndpoint in "+k.fn, callsInTree(f, Callee(odp, ob+".ejectEndpoint")))
			c.MustFact(ej, k.fn+":ejects-only-on-its-criterion", k.holds)
			// an endpoint meeting the criterion reaches the max-ejection test: it may be skipped only where the criterion is known not to hold
			var test, adv ssa.Instruction
			for _, b := range f.Blocks {
				for _, in := range b.Instrs {
					if bo, ok := in.(*ssa.BinOp); ok {
						if bo.Op == token.GEQ && DataDep(FieldLoad(fNum))(bo.X) {
							test = in
						}
						if isRangeIndex(bo) {
							if _, isIA := firstIndexUse(bo); isIA {
								adv = in
							}
						}
					}
				}
			}
			if c.Expect(test != nil && adv != nil, ej, f, k.fn+":loop-shape", "candidate loop / max-ejection test not found") {
				var start ssa.Instruction
				for _, b := range f.Blocks {
					for _, in := range b.Instrs {
						if ia, ok := in.(*ssa.IndexAddr); ok && ia.Index == adv.(ssa.Value) {
							start = in
						}
					}
				}
				if c.Expect(start != nil, ej, f, k.fn+":candidate-visit", "candidate visit not found") {
					c.MustPass(k.fn+":criterion-met-reaches-ejection-test", pathQuery{Fn: f, Starts: []ssa.Instruction{start}, Barrier: func(in ssa.Instruction) bool { return in == test }, Target: func(in ssa.Instruction) bool { return in == adv || isReturn(in) },
						EdgeBlock: func(from, to *ssa.BasicBlock) bool {
							_, ok := hasFact(edgeFacts(from, to), k.not)
							return ok
						}}, start)
				}
			}
		}
		// candidates: skipped only below the request volume
		ev := c.fn(odp, ob+".endpointsWithAtLeastRequestVolume")
		for _, g := range ev.AnonFuncs {
			var app ssa.Instruction
			for _, in := range instrsWhere(g, func(in ssa.Instruction) bool {
				call, ok := in.(*ssa.Call)
				return ok && BuiltinCall("append")(&call.Call)
			}) {
				app = in
			}
			if app == nil {
				continue
			}
			vol := BinOpV(token.ADD, FieldLoad(fS), FieldLoad(fF))
			c.MustPass("every-endpoint-with-the-request-volume-is-a-candidate", pathQuery{Fn: g, AtEntry: true, Barrier: func(in ssa.Instruction) bool { return in == app }, Target: func(in ssa.Instruction) bool {
				r, ok := in.(*ssa.Return)
				return ok && ConstBool(true)(r.Results[0])
			}, EdgeBlock: func(from, to *ssa.BasicBlock) bool {
				_, ok := hasFact(edgeFacts(from, to), Cmp(vol, token.LSS, AnyV))
				return ok
			}}, nil)
		}
		// eject / uneject act on every subchannel wrapper of the endpoint
		for _, pr := range []struct{ fn, m string }{{"ejectEndpoint", "eject"}, {"unejectEndpoint", "uneject"}} {
			f := c.fn(odp, ob+"."+pr.fn)
			call := one(c, pr.m+" call in "+pr.fn, callsInTree(f, Callee(odp, "subConnWrapper."+pr.m)))
			c.ArgIs(call, 0, pr.fn+":every-subchannel-of-the-endpoint", RangeValueOf(FieldLoad(c.field(odp, "endpointInfo", "sws"))))
		}
		uh := c.fn(odp, "subConnWrapper.updateSubConnHealthState")
		fHL := c.field(odp, "subConnWrapper", "healthListener")
		fEj := c.field(odp, "subConnWrapper", "ejected")
		hl := one(c, "health listener call", callsIn(uh, FieldCall(fHL)))
		c.ArgIs(hl, 0, "forwards-the-reported-health-state", ParamV("scs"))
		c.MustPass("health-forwarded-unless-ejected-or-no-listener", pathQuery{Fn: uh, AtEntry: true, Barrier: func(in ssa.Instruction) bool { return in == ssa.Instruction(hl) }, Target: isReturn,
			EdgeBlock: func(from, to *ssa.BasicBlock) bool {
				fs := edgeFacts(from, to)
				_, a := hasFact(fs, Truth(FieldLoad(fEj), true))
				_, b := hasFact(fs, IsNil(FieldLoad(fHL)))
				return a || b
			}}, nil)
	})
	c.Ob("state-lock", "R4", "the ejection state (endpoint map, address map, config, ejected count, interval timer) is accessed only under the balancer mutex; the helpers documented 'caller must hold b.mu' are checked at their call sites; the mutex is released on every exit; the interval pass and the no-op pass visit every endpoint (their range-over-func loops are never left early)", 10, func() {
		fld := func(n string) *types.Var { return c.field(odp, ob, n) }
		locked := map[string]bool{}
		for _, n := range []string{"noopConfig", "onIntervalConfig", "onNoopConfig", "removeSubConnFromEndpointMapEntry", "endpointsWithAtLeastRequestVolume", "meanAndStdDev", "successRateAlgorithm", "failurePercentageAlgorithm", "ejectEndpoint", "unejectEndpoint"} {
			locked[odp+"."+ob+"."+n] = true
		}
		c.GuardedBy(GuardSpec{Label: "outlierDetectionBalancer", Mu: fld("mu"),
			Fields: []*types.Var{fld("endpoints"), fld("addrs"), fld("numEndpointsEjected"), fld("intervalTimer"), fld("timerStartTime")},
			Scope:  c.scope(odp), Locked: locked,
			Exempt: map[string]string{odp + ".bb.Build": "construction: the balancer is not yet shared"}})
		// cfg is written only by UpdateClientConnState (serialised by the balancer API), which may therefore read it unlocked; every write holds the mutex
		c.GuardedBy(GuardSpec{Label: "outlierDetectionBalancer.cfg", Mu: fld("mu"), Fields: []*types.Var{fld("cfg")}, Scope: c.scope(odp), Locked: locked, WriteOnly: true,
			Exempt: map[string]string{odp + ".bb.Build": "construction: the balancer is not yet shared"}})
		c.GuardedBy(GuardSpec{Label: "outlierDetectionBalancer.cfg-readers", Mu: fld("mu"), Fields: []*types.Var{fld("cfg")}, Scope: c.scope(odp), Locked: locked,
			Exempt: map[string]string{odp + ".bb.Build": "construction: the balancer is not yet shared", odp + "." + ob + ".UpdateClientConnState": "the only writer; its own reads cannot race with its write (writes are checked separately)"}})
		c.WhoMayMutate("cfg-single-writer", fld("cfg"), c.scope(odp), odp+"."+ob+".UpdateClientConnState")
		n := 0
		for _, fn := range []string{"intervalTimerAlgorithm", "onNoopConfig", "onIntervalConfig"} {
			n += c.RangeFuncNoBreak(c.fn(odp, ob+"."+fn), fn+":every-endpoint-visited")
		}
		c.Expect(n >= 4, nil, nil, "endpoint-walks", "fewer walks over the endpoints than on the reviewed tree")
	})
	c.Ob("uneject-time", "R5", "interval pass: an ejected endpoint is un-ejected when now is after timestamp + min(base x multiplier, max(base, max_ejection_time)); a not-ejected endpoint's multiplier decays by one", 4, func() {
		f := c.fn(odp, ob+".intervalTimerAlgorithm")
		fBase := c.field(odp, "LBConfig", "BaseEjectionTime")
		fMaxE := c.field(odp, "LBConfig", "MaxEjectionTime")
		base := func(v ssa.Value) bool { return FieldLoad(fBase)(stripConv(v)) }
		found := false
		for _, a := range callsInTree(f, CalleeX("time", "Time.Add")) {
			if !FieldLoad(fTS)(a.Common().Args[0]) {
				continue
			}
			found = true
			m := builtinCall(stripConv(a.Common().Args[1]), "min")
			if !c.Expect(m != nil && len(m.Call.Args) == 2, a, a.Parent(), "min-of-two", "the un-ejection delay is not a min of two durations") {
				continue
			}
			var et, met ssa.Value
			for _, x := range m.Call.Args {
				if builtinCall(stripConv(x), "max") != nil {
					met = x
				} else {
					et = x
				}
			}
			if c.Expect(et != nil && met != nil, a, a.Parent(), "min(et,max(...))", "the un-ejection delay is not min(base x multiplier, max(base, max))") {
				c.Expect(BinOpV(token.MUL, base, func(v ssa.Value) bool { return FieldLoad(fMult)(stripConv(v)) })(stripConv(et)), a, a.Parent(), "et=base*multiplier", "the ejection time is not base x multiplier")
				mx := builtinCall(stripConv(met), "max")
				okM := base(mx.Call.Args[0]) && FieldLoad(fMaxE)(stripConv(mx.Call.Args[1])) || base(mx.Call.Args[1]) && FieldLoad(fMaxE)(stripConv(mx.Call.Args[0]))
				c.Expect(okM, a, a.Parent(), "cap=max(base,max_ejection_time)", "the cap is not max(base, max_ejection_time)")
			}
		}
		c.Expect(found, nil, f, "uneject-deadline", "no un-ejection deadline computed from the ejection timestamp")
		for _, un := range callsInTree(f, Callee(odp, ob+".unejectEndpoint")) {
			c.MustFact(un, "uneject-only-ejected", ejectedNow(true))
			c.MustFact(un, "uneject-only-after-deadline", Truth(CallRes(CalleeX("time", "Time.After"), 0), true))
		}
		for _, g := range append([]*ssa.Function{f}, f.AnonFuncs...) {
			for _, st := range storesToField(g, fMult) {
				c.ValueIs(st, st.Val, "multiplier-decays-by-one", BinOpV(token.SUB, FieldLoad(fMult), ConstInt(1)))
				c.MustFact(st, "decay-only-when-not-ejected", ejectedNow(false))
				c.MustFact(st, "decay-only-when-positive", CmpInt(FieldLoad(fMult), token.GTR, 0))
			}
		}
	})
	c.Ob("noop-and-tf", "R3", "no-op config: every endpoint with a non-zero timestamp is un-ejected and every multiplier zeroed; subchannel wrapper: ejection reports TRANSIENT_FAILURE to the health listener, health updates are suppressed while ejected, un-ejection replays the latest health state", 7, func() {
		f := c.fn(odp, ob+".onNoopConfig")
		uns := callsInTree(f, Callee(odp, ob+".unejectEndpoint"))
		if c.Expect(len(uns) == 1, nil, f, "noop-unejects", "a no-op config does not un-eject endpoints") {
			c.MustFact(uns[0], "noop-unejects-only-ejected", ejectedNow(true))
		}
		nz := 0
		for _, g := range append([]*ssa.Function{f}, f.AnonFuncs...) {
			for _, st := range storesToField(g, fMult) {
				nz++
				c.ValueIs(st, st.Val, "multiplier-zeroed", ConstInt(0))
				// unconditional within the iteration
				c.Expect(!c.HasFact(st, ejectedNow(true)) && !c.HasFact(st, ejectedNow(false)), st, g, "zeroed-for-every-endpoint", "the multiplier is zeroed only on one arm of the ejected test")
			}
		}
		c.Expect(nz == 1, nil, f, "one-zeroing-site", "expected one multiplier reset in onNoopConfig")
		scw := "subConnWrapper"
		fEj := c.field(odp, scw, "ejected")
		fHL := c.field(odp, scw, "healthListener")
		he := c.fn(odp, scw+".handleEjection")
		fCS := c.field("balancer", "SubConnState", "ConnectivityState")
		okTF := false
		for _, st := range storesToField(he, fCS) {
			if ConstOfObj(c.konst("connectivity", "TransientFailure"))(st.Val) {
				okTF = true
			}
		}
		c.Expect(okTF, nil, he, "ejection-reports-TF", "ejection does not report TRANSIENT_FAILURE")
		for _, st := range storesToField(he, fEj) {
			c.ValueIs(st, st.Val, "ejection-sets-flag", ConstBool(true))
		}
		c.Expect(len(callsIn(he, FieldCall(fHL))) == 1, nil, he, "ejection-notifies-health-listener", "ejection does not notify the health listener")
		for _, ci := range callsIn(he, FieldCall(fHL)) {
			c.MustFact(ci, "listener-called-when-set", NotNil(FieldLoad(fHL)))
			// skipped only when there is no listener
			c.MustPass("ejection-always-reaches-a-registered-listener", pathQuery{Fn: he, AtEntry: true, Barrier: func(in ssa.Instruction) bool { return in == ci.(ssa.Instruction) }, Target: isReturn,
				EdgeBlock: func(from, to *ssa.BasicBlock) bool {
					_, ok := hasFact(edgeFacts(from, to), IsNil(FieldLoad(fHL)))
					return ok
				}}, ci)
		}
		uh := c.fn(odp, scw+".updateSubConnHealthState")
		for _, ci := range callsIn(uh, FieldCall(fHL)) {
			c.MustFact(ci, "health-suppressed-while-ejected", Truth(FieldLoad(fEj), false))
		}
		lat := c.field(odp, scw, "latestHealthState")
		c.Expect(len(storesToField(uh, lat)) == 1, nil, uh, "latest-health-remembered", "the latest health state is not remembered while ejected")
		hu := c.fn(odp, scw+".handleUnejection")
		rp := callsIn(hu, Callee(odp, scw+".updateSubConnHealthState"))
		if c.Expect(len(rp) == 1, nil, hu, "unejection-replays", "un-ejection does not replay the health state") {
			c.ArgIs(rp[0], 1, "replays-latest-health-state", FieldLoad(lat))
			for _, st := range storesToField(hu, fEj) {
				c.ValueIs(st, st.Val, "unejection-clears-flag", ConstBool(false))
				c.Dominates(st, rp[0], "flag-cleared-before-replay")
			}
		}
	})
}

// instrsWhere2: like instrsWhere but including nested closures (range-over-func bodies).
func instrsWhere2(fn *ssa.Function, pred func(ssa.Instruction) bool) []ssa.Instruction {
	out := instrsWhere(fn, pred)
	for _, a := range fn.AnonFuncs {
		out = append(out, instrsWhere2(a, pred)...)
	}
	return out
}

// firstIndexUse: the IndexAddr that uses v as its index, if any.
func firstIndexUse(v ssa.Value) (*ssa.IndexAddr, bool) {
	if v.Referrers() == nil {
		return nil, false
	}
	for _, r := range *v.Referrers() {
		if ia, ok := r.(*ssa.IndexAddr); ok && ia.Index == v {
			return ia, true
		}
	}
	return nil, false
}
