package main

import (
	"go/constant"
	"go/token"
	"go/types"
	"sort"

	"golang.org/x/tools/go/ssa"
)

func init() {
	register(&PropDef{
		ID:    "C11",
		Pkgs:  []string{tr},
		Claim: "Decides the structural part: a client stream is ended once (status store, done-channel close and quota give-back sit behind the first swap of the state to done; every close of the header channel behind a winning compare-and-swap); the reader loop returns only on a preface or transport read error, ignores unknown frame types, and its frame handlers contain no explicit panic, unchecked type assertion or unguarded integer division; the HTTP/2 error-code table covers every defined code and an unmapped RST_STREAM code always becomes UNKNOWN (the looked-up value is used only when the lookup succeeded), never OK; GOAWAY with an even non-zero id or an id above the previous one is a connection error; Close waits for the reader (and the keepalive goroutine) before finishing the remaining streams. Frame decoders are bounds-safe; looked-up streams are dereferenced only where the lookup succeeded; RST_STREAM codes map to their statuses on the stated arms.",
		NotDecided:  []string{"termination no later than the deadline for every frame sequence (liveness/timing)", "goroutine and buffer leak freedom", "panics inside golang.org/x/net/http2 or hpack"},
		Assumptions: []string{"golang.org/x/net/http2 framer returns well-formed frame structs"},
		Technique:   "static analysis: once-only guards on go/ssa branch facts, panic-source enumeration (explicit panic / unchecked assertion / division), exhaustive table check against the constants of the imported package, phi-leaf value analysis, refusing-arm unreachability",
		Run:         c11,
	})
}

// explicitPanicSources: explicit panics, unchecked type assertions and integer divisions by non-constants.
func (c *Ctx) noExplicitPanics(fns []*ssa.Function) {
	for _, f := range fns {
		all := []*ssa.Function{f}
		all = append(all, f.AnonFuncs...)
		for _, g := range all {
			for _, b := range g.Blocks {
				for _, in := range b.Instrs {
					switch x := in.(type) {
					case *ssa.Panic:
						c.inst("panic <- " + c.siteStr(in))
						c.violate(in, g, "explicit-panic", "explicit panic in a frame handler", nil)
					case *ssa.TypeAssert:
						c.inst("type assertion <- " + c.siteStr(in))
						if !x.CommaOk {
							c.violate(in, g, "unchecked-assertion", "unchecked type assertion in a frame handler (panics on an unexpected dynamic type)", nil)
						}
					case *ssa.BinOp:
						if (x.Op == token.QUO || x.Op == token.REM) && isIntegral(x.X.Type()) {
							c.inst("integer division <- " + c.siteStr(in))
							k := constOf(x.Y)
							if (k == nil || k.Value == nil || constant.Sign(k.Value) == 0) && !nonZeroByFact(x.Y, in) {
								c.violate(in, g, "unguarded-division", "integer division by a value not known to be non-zero in a frame handler", nil)
							}
						}
					}
				}
			}
		}
	}
}

func c11(c *Ctx) {
	done := ConstOfObj(c.konst(tr, "streamDone"))
	firstClose := Cmp(CallRes(Callee(tr, "Stream.swapState"), 0), token.NEQ, done)
	c.Ob("close-once", "R11", "closeStream and the stream-creation cleanup run their effects only after the first swap to done; each close of the header channel follows a winning CAS on its flag", 8, func() {
		cs := c.fn(tr, "http2Client.closeStream")
		fStatus := c.field(tr, "ClientStream", "status")
		fDone := c.field(tr, "ClientStream", "done")
		for _, st := range storesToField(cs, fStatus) {
			c.MustFact(st, "status-set-once", firstClose)
			c.ValueIs(st, st.Val, "status-is-callers", ParamV("st"))
		}
		c.WhoMayMutate("ClientStream.status", fStatus, c.scope(tr), "internal/transport.http2Client.closeStream")
		ncl := 0
		for _, f := range c.scope(tr) {
			for _, m := range mutationsOf(f, fDone) {
				if m.Kind == "close" {
					ncl++
					c.MustFact(m.Instr, "done-closed-once", firstClose)
				}
			}
		}
		c.Expect(ncl == 2, nil, cs, "two-done-closers", "expected the done channel to be closed in closeStream and in the stream-creation cleanup only")
		for _, ex := range callsIn(cs, Callee(tr, "controlBuffer.executeAndPut")) {
			c.MustFact(ex, "cleanup-enqueued-once", firstClose)
		}
		fHC := c.field(tr, "ClientStream", "headerChan")
		fFlag := c.field(tr, "ClientStream", "headerChanClosed")
		cas := func(v ssa.Value) bool {
			call, ok := strip(v).(*ssa.Call)
			return ok && CalleeX("sync/atomic", "CompareAndSwapUint32")(&call.Call) && FieldAddrOf(fFlag)(call.Call.Args[0]) && ConstInt(0)(call.Call.Args[1]) && ConstInt(1)(call.Call.Args[2])
		}
		nh := 0
		for _, f := range c.scope(tr) {
			for _, m := range mutationsOf(f, fHC) {
				if m.Kind == "close" {
					nh++
					c.MustFact(m.Instr, "header-channel-closed-once", Truth(cas, true))
				}
			}
		}
		c.Expect(nh == 3, nil, nil, "three-header-closers", "expected three guarded closes of the header channel")
		// the stream-initialisation hook run by the writer fails a stream (cleanup + error) exactly when the transport is closing
		ns := c.fn(tr, "http2Client.NewStream")
		var initFn *ssa.Function
		for _, a := range ns.AnonFuncs {
			if len(a.Params) == 1 && len(callsIn(a, CalleeX("sync", "Cond.Signal"))) == 1 {
				initFn = a
			}
		}
		if c.Expect(initFn != nil, nil, ns, "init-hook", "the stream-initialisation hook was not found") {
			closing := Cmp(FieldLoad(c.field(tr, "http2Client", "state")), token.EQL, ConstOfObj(c.konst(tr, "closing")))
			nFail := 0
			for _, r := range returnsOf(initFn) {
				if r.Block() == initFn.Recover {
					continue
				}
				if ConstNil(r.Results[0]) {
					c.Unreachable(r, "init:closing-transport-never-accepts-the-stream", closing)
				} else {
					nFail++
					c.MustFact(r, "init:stream-failed-only-when-closing", closing)
				}
			}
			c.Expect(nFail == 1, nil, initFn, "init:closing-arm", "the stream-initialisation hook has no refusing arm for a closing transport")
			for _, b := range initFn.Blocks {
				for _, in := range b.Instrs {
					if call, ok := in.(*ssa.Call); ok && !call.Call.IsInvoke() && call.Call.StaticCallee() == nil {
						if _, isB := call.Call.Value.(*ssa.Builtin); !isB {
							if sig, ok := call.Call.Value.Type().Underlying().(*types.Signature); ok && sig.Params().Len() == 1 && isErrorType(sig.Params().At(0).Type()) {
								c.MustFact(in, "init:cleanup-only-when-closing", closing)
							}
						}
					}
				}
			}
		}
		// a second closeStream waits for the first to finish instead of returning early with half-set state
		for _, b := range blocksWhere(cs, Cmp(CallRes(Callee(tr, "Stream.swapState"), 0), token.EQL, done)) {
			for _, in := range b.Instrs {
				if _, ok := in.(*ssa.Return); ok {
					found := false
					for _, in2 := range instrsWhere(cs, func(in2 ssa.Instruction) bool {
						u, ok := in2.(*ssa.UnOp)
						return ok && u.Op == token.ARROW && FieldLoad(fDone)(u.X)
					}) {
						if instrDominates(in2, in) {
							found = true
						}
					}
					c.Expect(found, in, cs, "loser-waits-for-done", "a concurrent second close returns before the first finished")
				}
			}
		}
	})
	c.Ob("reader-loop", "R6", "the reader returns only after a failed preface read or a (non-stream) read error; unknown frame types are ignored; its handlers contain no explicit panic, unchecked type assertion or unguarded division", 10, func() {
		rd := c.fn(tr, "http2Client.reader")
		pre := NotNil(CallRes(Callee(tr, "http2Client.readServerPreface"), 0))
		rerr := NotNil(CallRes(Callee(tr, "framer.readFrame"), 1))
		for _, r := range returnsOf(rd) {
			if r.Block() == rd.Recover {
				continue
			}
			c.MustFactAny(r, "returns-only-on-read-errors", pre, rerr)
		}
		thr := one(c, "throttle call in the reader", callsIn(rd, Callee(tr, "controlBuffer.throttle")))
		rf := one(c, "readFrame call", callsIn(rd, Callee(tr, "framer.readFrame")))
		c.Dominates(thr, rf, "throttle-before-every-read")
		var hs []*ssa.Function
		for _, n := range []string{"operateHeaders", "handleData", "handleRSTStream", "handleSettings", "handlePing", "handleGoAway", "handleWindowUpdate", "reader", "closeStream"} {
			hs = append(hs, c.fn(tr, "http2Client."+n))
		}
		hs = append(hs, c.fn(tr, "ClientStream.handleNonGRPCData"))
		c.noExplicitPanics(hs)
		// a frame for a stream the client does not know (already closed, never opened) is dropped: the looked-up stream is
		// dereferenced only where the lookup is known to have found one
		nUse := 0
		for _, h := range hs {
			nUse += c.NilCheckedUse(h, Callee(tr, "http2Client.getStream"), shortName(h)[len("internal/transport."):]+":unknown-stream-not-dereferenced")
		}
		c.Expect(nUse >= 6, nil, nil, "stream-lookup-uses", "fewer dereferencing uses of looked-up streams than on the reviewed tree")
		// bytes chosen by the server reach these decoders on the reader goroutine (an unrecovered panic there kills the process):
		// their index and slice expressions are in bounds (compiler prove pass or a dominating guard)
		c.BoundsSafe(tr, c.fn(tr, "decodeGrpcMessage"), c.fn(tr, "decodeGrpcMessageUnchecked"), c.fn(tr, "decodeMetadataHeader"), c.fn(tr, "decodeBinHeader"), c.fn(tr, "isReservedHeader"), c.fn(tr, "isWhitelistedHeader"))
	})
	c.Ob("rst-code-mapping", "R6", "the HTTP/2 error-code table has an entry for every ErrCode constant of golang.org/x/net/http2; for RST_STREAM the looked-up status code is used only when the lookup succeeded and every other path yields UNKNOWN (or DEADLINE_EXCEEDED for an expired deadline) - never the zero value OK", 16, func() {
		// table keys from the package initialiser
		tab := c.konst(tr, "http2ErrConvTab")
		keys := map[string]bool{}
		initf := c.P.SSAPkgs[full(tr)].Func("init")
		for _, b := range initf.Blocks {
			for _, in := range b.Instrs {
				mu, ok := in.(*ssa.MapUpdate)
				if !ok {
					continue
				}
				mm, ok := mu.Map.(*ssa.MakeMap)
				if !ok {
					continue
				}
				isTab := false
				for _, r := range *mm.Referrers() {
					if st, ok := r.(*ssa.Store); ok {
						if g, ok := st.Addr.(*ssa.Global); ok && g.Object() == tab {
							isTab = true
						}
					}
				}
				if isTab {
					if k := constOf(mu.Key); k != nil {
						keys[k.Value.ExactString()] = true
					}
				}
			}
		}
		h2pkg := c.P.typesPkg(h2)
		ect := h2pkg.Scope().Lookup("ErrCode").Type()
		var names []string
		for _, n := range h2pkg.Scope().Names() {
			if k, ok := h2pkg.Scope().Lookup(n).(*types.Const); ok && types.Identical(k.Type(), ect) {
				names = append(names, n)
				c.inst("http2." + n + " mapped")
				if !keys[k.Val().ExactString()] {
					c.violateAt("internal/transport/http_util.go", tr+".http2ErrConvTab", n, "HTTP/2 error code "+n+" has no entry in the conversion table (the unguarded lookup in the reader would yield codes.OK)")
				}
			}
		}
		sort.Strings(names)
		c.Expect(len(names) >= 14, nil, nil, "error-code-constants-found", "fewer http2.ErrCode constants found than exist")
		f := c.fn(tr, "http2Client.handleRSTStream")
		nf := one(c, "status.Newf in handleRSTStream", callsIn(f, Callee("status", "Newf")))
		okv := CommaOkOf(GlobalLoad(tab))
		unknown := ConstOfObj(c.konst("codes", "Unknown"))
		dl := ConstOfObj(c.konst("codes", "DeadlineExceeded"))
		for _, lf := range phiLeaves(nf.Common().Args[0]) {
			switch {
			case unknown(lf.Val):
				_, miss := hasFact(lf.Facts, Truth(okv, false))
				c.Expect(miss, nf, f, "unknown-only-for-an-unmapped-code", "UNKNOWN replaces a code that the table maps")
			case dl(lf.Val):
				// CANCELLED becomes DEADLINE_EXCEEDED only when the mapped code is CANCELLED and the RPC's own deadline has passed
				_, a := hasFact(lf.Facts, Cmp(AnyV, token.EQL, ConstOfObj(c.konst("codes", "Canceled"))))
				_, b := hasFact(lf.Facts, Truth(CallRes(CalleeX("time", "Time.After"), 0), false))
				_, d := hasFact(lf.Facts, Truth(ExtractOf(CallRes(CalleeX("context", "Context.Deadline"), -1), 1), true))
				c.Expect(a && b && d, nf, f, "deadline-exceeded-only-for-cancel-after-own-deadline", "DEADLINE_EXCEEDED is reported for an RST_STREAM although the code is not CANCEL or the RPC's own deadline has not passed")
			case LookupOf(GlobalLoad(tab), AnyV)(lf.Val):
				_, has := hasFact(lf.Facts, Truth(okv, true))
				if !has {
					_, has = hasFact(FactsAt(nf), Truth(okv, true))
				}
				c.Expect(has, nf, f, "looked-up-code-only-if-found", "the status code of an RST_STREAM whose error code is not in the table can be the zero value (OK)")
			default:
				c.Expect(false, nf, f, "known-code-source", "unexpected source of the RST_STREAM status code: "+valStr(lf.Val))
			}
		}
		c.nontrivial("rst-phi-leaves")
		// REFUSED_STREAM marks the stream unprocessed
		fUn := c.field(tr, "ClientStream", "unprocessed")
		for _, ci := range callsIn(f, CalleeX("sync/atomic", "Bool.Store")) {
			if FieldAddrOf(fUn)(ci.Common().Args[0]) {
				c.MustFact(ci, "unprocessed-only-for-REFUSED_STREAM", Cmp(AnyV, token.EQL, ConstOfObj(c.konst(h2, "ErrCodeRefusedStream"))))
			}
		}
	})
	c.Ob("goaway-validation", "R2", "GOAWAY: an even non-zero last-stream-id, or an id above the previous GOAWAY's, makes the handler return a connection error", 2, func() {
		f := c.fn(tr, "http2Client.handleGoAway")
		fLast := c.field(h2, "GoAwayFrame", "LastStreamID")
		fPrev := c.field(tr, "http2Client", "prevGoAwayID")
		id := FieldLoad(fLast)
		for _, r := range successReturns(f, 0) {
			if r.Block() == f.Recover {
				continue
			}
			c.Unreachable(r, "even-id-is-connection-error", CmpInt(id, token.GTR, 0), CmpInt(BinOpV(token.REM, id, ConstInt(2)), token.EQL, 0))
			c.Unreachable(r, "increasing-id-is-connection-error", Cmp(id, token.GTR, FieldLoad(fPrev)))
		}
	})
	c.Ob("close-joins", "R3", "Close is idempotent, and after shutting the connection it waits for the reader goroutine (which closes readerDone by defer) and, if enabled, the keepalive goroutine, before it finishes the remaining streams", 4, func() {
		f := c.fn(tr, "http2Client.Close")
		fRD := c.field(tr, "http2Client", "readerDone")
		fKD := c.field(tr, "http2Client", "keepaliveDone")
		recv := func(fv *types.Var) func(ssa.Instruction) bool {
			return func(in ssa.Instruction) bool {
				u, ok := in.(*ssa.UnOp)
				return ok && u.Op == token.ARROW && FieldLoad(fv)(u.X)
			}
		}
		rr := one(c, "receive from readerDone", instrsWhere(f, recv(fRD)))
		for _, cs := range callsIn(f, Callee(tr, "http2Client.closeStream")) {
			c.Dominates(rr, cs, "reader-joined-before-finishing-streams")
		}
		cc := one(c, "conn.Close in Close", callsIn(f, CalleeX("net", "Conn.Close")))
		c.Dominates(cc, rr, "connection-closed-before-joining-reader")
		kr := one(c, "receive from keepaliveDone", instrsWhere(f, recv(fKD)))
		c.MustFact(kr, "keepalive-joined-if-enabled", Truth(FieldLoad(c.field(tr, "http2Client", "keepaliveEnabled")), true))
		st := one(c, "state=closing", storesToField(f, c.field(tr, "http2Client", "state")))
		c.MustFact(st, "close-idempotent", Cmp(FieldLoad(c.field(tr, "http2Client", "state")), token.NEQ, ConstOfObj(c.konst(tr, "closing"))))
		rd := c.fn(tr, "http2Client.reader")
		found := false
		for _, in := range instrsWhere(rd, func(in ssa.Instruction) bool { _, ok := in.(*ssa.Defer); return ok }) {
			if cl := in.(*ssa.Defer).Call.StaticCallee(); cl != nil {
				for _, m := range mutationsOf(cl, fRD) {
					if m.Kind == "close" {
						found = true
					}
				}
			}
		}
		c.Expect(found, nil, rd, "reader-closes-readerDone-by-defer", "the reader does not close readerDone in a deferred function")
	})
}
