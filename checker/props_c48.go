package main

import (
	"go/token"
	"go/types"
	"sort"
	"strings"

	"golang.org/x/tools/go/ssa"
)

const authzp = "authz"
const rbacpb = "github.com/envoyproxy/go-control-plane/envoy/config/rbac/v3"

func init() {
	register(&PropDef{
		ID:    "C48",
		Pkgs:  []string{xrbac, authzp},
		Claim: "Decides the structural part: ChainEngine.IsAuthorized returns PermissionDenied exactly on the arms (ALLOW engine, no policy matched) and (DENY engine, some policy matched) of the engine being visited, nil only after all engines passed, and Internal when the request data cannot be built; findMatchingPolicy reports a match exactly when some policy matcher matched; a policy matches when permissions AND principals match, both wrapped in OR; or/and/not/always/never combinators have their truth tables (first hit / first miss short-circuit, fall-through value); the permission and principal translators fail closed on an unknown oneof arm and build the combinator named by each arm (and/or/not/any, NOT requiring exactly one operand; metadata maps to always/never by invert); engines reject actions other than ALLOW/DENY; the authenticated matcher requires TLS, then consults URI SANs, only without URI SANs the DNS SANs, and only without both the subject; the authz translator rejects a rule name that is already present before inserting it, disallows unknown JSON fields, requires a name and allow rules, and orders the DENY RBAC before the ALLOW RBAC.",
		NotDecided:  []string{"value-level semantics of header/path/CIDR/port leaf matchers over all requests (C47 covers header/string matchers)", "equivalence of the translated RBAC with the SDK policy over all requests"},
		Assumptions: []string{"generated protobuf oneof wrappers are the only implementers of the oneof interfaces"},
		Technique:   "static analysis: decision-list extraction from dominating guards on go/ssa, fail-closed check of type switches (default arm unreachable to success), truth-table shape of combinators via must-pass-through, check-then-insert dominance for map updates, ordering by data flow through append",
		Run:         c48,
	})
}

// typeSwitchArms lists the comma-ok type assertions of a type switch in fn.
func typeSwitchArms(fn *ssa.Function) []*ssa.TypeAssert {
	var out []*ssa.TypeAssert
	for _, b := range fn.Blocks {
		for _, in := range b.Instrs {
			if ta, ok := in.(*ssa.TypeAssert); ok && ta.CommaOk {
				out = append(out, ta)
			}
		}
	}
	return out
}

func typeName(t types.Type) string {
	if p, ok := t.(*types.Pointer); ok {
		t = p.Elem()
	}
	if n, ok := t.(*types.Named); ok {
		return n.Obj().Name()
	}
	return t.String()
}

func c48(c *Ctx) {
	c.Ob("decision", "R7", "IsAuthorized: PermissionDenied iff (ALLOW and no match) or (DENY and match) for the visited engine; nil only after the loop; Internal on missing request data; findMatchingPolicy = exists policy that matches; only ALLOW/DENY engines are built", 9, func() {
		// every configured engine is in the chain (an ALLOW engine without policies denies everything; dropping it would allow everything):
		// each policy of the input either fails construction or has its engine appended, and the walk is never left early
		nce := c.fn(xrbac, "NewChainEngine")
		var capp *ssa.Call
		for _, in := range instrsWhere(nce, func(in ssa.Instruction) bool {
			call, ok := in.(*ssa.Call)
			return ok && BuiltinCall("append")(&call.Call)
		}) {
			capp = in.(*ssa.Call)
		}
		neCall := one(c, "newEngine call in NewChainEngine", callsIn(nce, Callee(xrbac, "newEngine")))
		if c.Expect(capp != nil, neCall, nce, "chain:engine-appended", "built engines are not collected") {
			el := appendedElems(capp)
			c.Expect(len(el) == 1 && ExtractOf(func(v ssa.Value) bool { return v == neCall.Value() }, 0)(el[0]), capp, nce, "chain:appends-the-built-engine", "the collected engine is not the one just built")
			c.MustPass("chain:every-built-engine-is-kept", pathQuery{Fn: nce, Starts: []ssa.Instruction{neCall}, Barrier: func(in ssa.Instruction) bool { return in == ssa.Instruction(capp) },
				Target: func(in ssa.Instruction) bool { return in == neCall.(ssa.Instruction) || isReturn(in) },
				EdgeBlock: func(from, to *ssa.BasicBlock) bool {
					_, ok := hasFact(edgeFacts(from, to), NotNil(ExtractOf(func(v ssa.Value) bool { return v == neCall.Value() }, 1)))
					return ok
				}}, neCall)
			c.Expect(c.NoEarlyExit(nce, ParamV("policies"), "chain:every-policy-visited") == 1, neCall, nce, "chain:policy-walk", "no walk over the configured policies")
			for _, r := range returnsOf(nce) {
				if r.Block() != nce.Recover && ConstNil(r.Results[1]) {
					c.Expect(DataDep(func(v ssa.Value) bool { return v == ssa.Value(capp) })(r.Results[0]) || DataDep(func(v ssa.Value) bool { p, ok := v.(*ssa.Phi); return ok && DataDep(func(w ssa.Value) bool { return w == ssa.Value(capp) })(p) })(r.Results[0]), r, nce, "chain:returns-the-collected-engines", "the chain returned is not built from the collected engines")
				}
			}
		}
		f := c.fn(xrbac, "ChainEngine.IsAuthorized")
		fAct := c.field(xrbac, "engine", "action")
		allow, deny := ConstOfObj(c.konst(rbacpb, "RBAC_ALLOW")), ConstOfObj(c.konst(rbacpb, "RBAC_DENY"))
		fm := one(c, "findMatchingPolicy call", callsIn(f, Callee(xrbac, "engine.findMatchingPolicy")))
		c.ArgIs(fm, 0, "policy-lookup-on-the-visited-engine", RangeValueOf(FieldLoad(c.field(xrbac, "ChainEngine", "chainedEngines"))))
		okv := ExtractOf(func(v ssa.Value) bool { return v == fm.Value() }, 1)
		act := func(v ssa.Value) bool {
			return FieldLoad(fAct)(v) && sameValue(fieldBase(v), fm.Common().Args[0])
		}
		nDenied, nNil, nInt := 0, 0, 0
		for _, r := range returnsOf(f) {
			v := r.Results[0]
			if ConstNil(v) {
				nNil++
				c.Unreachable(r, "allow-engine-without-match-rejects", Cmp(act, token.EQL, allow), Truth(okv, false))
				c.Unreachable(r, "deny-engine-with-match-rejects", Cmp(act, token.EQL, deny), Truth(okv, true))
				c.MustFact(r, "authorized-only-with-request-data", IsNil(CallRes(Callee(xrbac, "newRPCData"), 1)))
				continue
			}
			call, ok := v.(*ssa.Call)
			if !c.Expect(ok && isStatusCtor(&call.Call), r, f, "error-is-a-status", "IsAuthorized returns a non-status error") {
				continue
			}
			switch {
			case ConstOfObj(c.konst("codes", "PermissionDenied"))(call.Call.Args[0]):
				nDenied++
				fs := FactsAt(r)
				_, a1 := hasFact(fs, Cmp(act, token.EQL, allow))
				_, a2 := hasFact(fs, Truth(okv, false))
				_, d1 := hasFact(fs, Cmp(act, token.EQL, deny))
				_, d2 := hasFact(fs, Truth(okv, true))
				c.Expect(a1 && a2 || d1 && d2, r, f, "denied-only-on-a-documented-arm", "PermissionDenied on an arm that is neither (ALLOW, no match) nor (DENY, match)")
			case ConstOfObj(c.konst("codes", "Internal"))(call.Call.Args[0]):
				nInt++
				c.MustFact(r, "internal-only-without-request-data", NotNil(CallRes(Callee(xrbac, "newRPCData"), 1)))
			default:
				c.Expect(false, r, f, "status-code", "unexpected status code returned by IsAuthorized")
			}
		}
		c.Expect(nDenied == 2 && nNil == 1 && nInt == 1, nil, f, "four-returns", "expected two PermissionDenied returns, one Internal and one nil")
		fp := c.fn(xrbac, "engine.findMatchingPolicy")
		hit := Truth(CallRes(Callee(xrbac, "policyMatcher.match"), 0), true)
		nt, nf := 0, 0
		for _, r := range returnsOf(fp) {
			if ConstBool(true)(r.Results[1]) {
				nt++
				c.MustFact(r, "match-reported-only-on-a-hit", hit)
			} else if c.Expect(ConstBool(false)(r.Results[1]), r, fp, "match-flag-constant", "non-constant match flag") {
				nf++
			}
		}
		c.Expect(nt == 1 && nf == 1, nil, fp, "two-returns", "expected one hit return and one miss return")
		st := edgeTargetsWhere(fp, hit)
		if c.Expect(len(st) == 1, nil, fp, "hit-arm", "hit arm not found") {
			c.MustPass("a-hit-is-reported", pathQuery{Fn: fp, StartBlocks: st, Barrier: func(in ssa.Instruction) bool {
				r, ok := in.(*ssa.Return)
				return ok && ConstBool(true)(r.Results[1])
			}, Target: func(in ssa.Instruction) bool {
				r, ok := in.(*ssa.Return)
				return ok && !ConstBool(true)(r.Results[1]) || isCallTo(Callee(xrbac, "policyMatcher.match"))(in)
			}}, nil)
		}
		ne := c.fn(xrbac, "newEngine")
		for _, r := range successReturns(ne, 1) {
			c.MustFactAny(r, "engine-only-for-ALLOW-or-DENY", Cmp(AnyV, token.EQL, allow), Cmp(AnyV, token.EQL, deny), InSet(AnyV, allow, deny))
		}
		for _, s := range storesToField(ne, fAct) {
			c.ValueIs(s, s.Val, "engine-action-from-config", CallRes(Callee(rbacpb, "RBAC.GetAction"), 0))
		}
	})
	c.Ob("oneof-fail-closed", "R6", "matchersFromPermissions / matchersFromPrincipals: the arm where no known oneof type matched cannot reach a success return or an append; each arm builds the combinator it names", 24, func() {
		type want struct{ and, or, any, not, meta string }
		for _, tr := range []struct {
			fn   string
			w    want
			ifc  string
			getM string
		}{
			{"matchersFromPermissions", want{"Permission_AndRules", "Permission_OrRules", "Permission_Any", "Permission_NotRule", "Permission_Metadata"}, "isPermission_Rule", "Permission.GetMetadata"},
			{"matchersFromPrincipals", want{"Principal_AndIds", "Principal_OrIds", "Principal_Any", "Principal_NotId", "Principal_Metadata"}, "isPrincipal_Identifier", "Principal.GetMetadata"},
		} {
			f := c.fn(xrbac, tr.fn)
			arms := typeSwitchArms(f)
			var none []FM
			handled := map[string]bool{}
			for _, ta := range arms {
				ta := ta
				handled[typeName(ta.AssertedType)] = true
				none = append(none, Truth(func(v ssa.Value) bool {
					e, ok := v.(*ssa.Extract)
					return ok && e.Index == 1 && e.Tuple == ssa.Value(ta)
				}, false))
			}
			c.Expect(len(arms) >= 10, nil, f, tr.fn+":arms-found", "fewer oneof arms than confirmed by reading")
			for _, r := range successReturns(f, 1) {
				c.Unreachable(r, tr.fn+":unknown-oneof-arm-fails", none...)
				// one matcher per listed rule: the list is returned only after every element was translated
				exhausted := func(fc Fact) bool {
					return fc.Kind == "cmp" && fc.Op == token.GEQ && isRangeIndex(fc.X) && LenOf(AnyV)(fc.Y)
				}
				c.MustFact(r, tr.fn+":list-returned-only-after-all-rules-translated", exhausted)
				ph, isPhi := r.Results[0].(*ssa.Phi)
				okAcc := isPhi
				if isPhi {
					for _, e := range ph.Edges {
						if ConstNil(e) || e == ssa.Value(ph) || builtinCall(e, "append") != nil {
							continue
						}
						if q, ok := e.(*ssa.Phi); ok {
							for _, qe := range q.Edges {
								if !(qe == ssa.Value(ph) || builtinCall(qe, "append") != nil) {
									okAcc = false
								}
							}
							continue
						}
						okAcc = false
					}
				}
				c.Expect(okAcc, r, f, tr.fn+":returns-the-accumulated-list", "the translator returns something other than the list accumulated over all rules")
			}
			// implementers of the oneof interface not handled (evidence only: they fail closed)
			var unh []string
			sc := c.P.typesPkg(rbacpb).Scope()
			if io, ok := sc.Lookup(tr.ifc).(*types.TypeName); ok {
				it := io.Type().Underlying().(*types.Interface)
				for _, n := range sc.Names() {
					if tn, ok := sc.Lookup(n).(*types.TypeName); ok {
						if _, isS := tn.Type().Underlying().(*types.Struct); isS && types.Implements(types.NewPointer(tn.Type()), it) && !handled[n] {
							unh = append(unh, n)
						}
					}
				}
			}
			sort.Strings(unh)
			c.inst(tr.fn + ": oneof implementers that take the failing default arm: [" + strings.Join(unh, ",") + "]")
			// appends per arm
			for _, in := range instrsWhere(f, func(in ssa.Instruction) bool {
				call, ok := in.(*ssa.Call)
				return ok && BuiltinCall("append")(&call.Call)
			}) {
				call := in.(*ssa.Call)
				c.Unreachable(in, tr.fn+":nothing-appended-for-unknown-arm", none...)
				el := appendedElems(call)
				if len(el) != 1 {
					continue
				}
				mi, ok := el[0].(*ssa.MakeInterface)
				if !ok {
					continue
				}
				built := typeName(mi.X.Type())
				var arm string
				for _, fc := range FactsAt(in) {
					if fc.Kind == "truth" && fc.Pol {
						if e, ok := fc.X.(*ssa.Extract); ok {
							if ta, ok := e.Tuple.(*ssa.TypeAssert); ok {
								arm = typeName(ta.AssertedType)
							}
						}
					}
				}
				c.inst(tr.fn + ": arm " + arm + " builds " + built)
				switch arm {
				case tr.w.and:
					c.Expect(built == "andMatcher", in, f, arm+"->andMatcher", "the AND arm does not build an andMatcher")
				case tr.w.or:
					c.Expect(built == "orMatcher", in, f, arm+"->orMatcher", "the OR arm does not build an orMatcher")
				case tr.w.any:
					c.Expect(built == "alwaysMatcher", in, f, arm+"->alwaysMatcher", "the ANY arm does not build an alwaysMatcher")
				case tr.w.not:
					if c.Expect(built == "notMatcher", in, f, arm+"->notMatcher", "the NOT arm does not build a notMatcher") {
						c.MustFact(in, arm+":exactly-one-operand", CmpInt(LenOf(AnyV), token.EQL, 1))
					}
				case tr.w.meta:
					inv := Truth(CallRes(Callee("github.com/envoyproxy/go-control-plane/envoy/type/matcher/v3", "MetadataMatcher.GetInvert"), 0), true)
					if built == "alwaysMatcher" {
						c.MustFact(in, arm+":always-only-when-inverted", inv)
					} else if c.Expect(built == "neverMatcher", in, f, arm+"->always/never", "the metadata arm builds something else than always/never") {
						c.Unreachable(in, arm+":never-only-when-not-inverted", inv)
					}
				default:
					c.Expect(built != "andMatcher" && built != "orMatcher" && built != "notMatcher" && built != "alwaysMatcher" && built != "neverMatcher", in, f, arm+":leaf-arm-builds-a-leaf", "a leaf arm builds a combinator")
				}
			}
		}
	})
	c.Ob("error-discipline", "R2", "no error of a translation/construction helper that is tested against nil can lead to an accepted policy, engine or matcher", 8, func() {
		n := 0
		for _, fn := range []struct{ pkg, name string }{{authzp, "translatePolicy"}, {authzp, "parseRules"}, {authzp, "parseRequest"}, {authzp, "parseHeaders"}, {xrbac, "newPolicyMatcher"}, {xrbac, "newEngine"}, {xrbac, "NewChainEngine"}, {xrbac, "matchersFromPermissions"}, {xrbac, "matchersFromPrincipals"}, {xrbac, "newHeaderMatcher"}, {xrbac, "newAuthenticatedMatcher"}} {
			if f := c.P.LookupFunc(fn.pkg, fn.name); f != nil && f.Blocks != nil {
				n += c.ErrorsPropagate(f, fn.name, nil)
			}
		}
		c.Expect(n >= 8, nil, nil, "error-sites", "fewer tested helper errors than on the reviewed tree")
	})
	c.Ob("combinators", "R7", "or: true at first hit else false; and: false at first miss else true; not: negation; always/never constants; policy = permissions AND principals, each an OR over the translated list", 10, func() {
		mcall := Callee(xrbac, "matcher.match")
		for _, k := range []struct {
			typ        string
			short, fin bool
		}{{"orMatcher", true, false}, {"andMatcher", false, true}} {
			f := c.fn(xrbac, k.typ+".match")
			inner := one(c, "operand match in "+k.typ, callsIn(f, mcall))
			c.Expect(RangeValueOf(FieldLoad(c.field(xrbac, k.typ, "matchers")))(inner.Common().Value), inner, f, k.typ+":walks-its-operands", "the combinator does not walk its operand list")
			trig := Truth(func(v ssa.Value) bool { return v == inner.Value() }, k.short)
			st := edgeTargetsWhere(f, trig)
			isShort := func(in ssa.Instruction) bool {
				r, ok := in.(*ssa.Return)
				return ok && ConstBool(k.short)(r.Results[0])
			}
			if c.Expect(len(st) == 1, nil, f, k.typ+":short-circuit-arm", "short-circuit arm not found") {
				c.MustPass(k.typ+":short-circuits", pathQuery{Fn: f, StartBlocks: st, Barrier: isShort, Target: func(in ssa.Instruction) bool {
					return isReturn(in) && !isShort(in) || in == ssa.Instruction(inner)
				}}, nil)
			}
			n1, n2 := 0, 0
			for _, r := range returnsOf(f) {
				if ConstBool(k.short)(r.Results[0]) {
					n1++
					c.MustFact(r, k.typ+":short-value-only-on-trigger", trig)
				} else if c.Expect(ConstBool(k.fin)(r.Results[0]), r, f, k.typ+":constant-results", "non-constant result") {
					n2++
				}
			}
			c.Expect(n1 == 1 && n2 == 1, nil, f, k.typ+":two-returns", "expected one short-circuit and one fall-through return")
		}
		nm := c.fn(xrbac, "notMatcher.match")
		for _, r := range returnsOf(nm) {
			u, ok := r.Results[0].(*ssa.UnOp)
			c.Expect(ok && u.Op == token.NOT && CallRes(mcall, 0)(u.X), r, nm, "not:negates-its-operand", "notMatcher does not negate its operand")
		}
		for _, k := range []struct {
			t string
			v bool
		}{{"alwaysMatcher", true}, {"neverMatcher", false}} {
			for _, r := range returnsOf(c.fn(xrbac, k.t+".match")) {
				c.ValueIs(r, r.Results[0], k.t+":constant", ConstBool(k.v))
			}
		}
		pm := c.fn(xrbac, "policyMatcher.match")
		perm := callArgs(Callee(xrbac, "orMatcher.match"), FieldLoad(c.field(xrbac, "policyMatcher", "permissions")))
		prin := callArgs(Callee(xrbac, "orMatcher.match"), FieldLoad(c.field(xrbac, "policyMatcher", "principals")))
		for _, r := range returnsOf(pm) {
			ph, ok := r.Results[0].(*ssa.Phi)
			okv := false
			if ok && len(ph.Edges) == 2 {
				var sawF, sawO bool
				for i, e := range ph.Edges {
					p := ph.Block().Preds[i]
					fs := append(append([]Fact(nil), FactsAtBlock(p)...), edgeOnlyFacts(p, ph.Block())...)
					if ConstBool(false)(e) {
						_, a := hasFact(fs, Truth(perm, false))
						_, b := hasFact(fs, Truth(prin, false))
						sawF = a || b
					} else if perm(e) || prin(e) {
						_, a := hasFact(fs, Truth(perm, true))
						_, b := hasFact(fs, Truth(prin, true))
						sawO = (a || b) && !(perm(e) && a) && !(prin(e) && b)
					}
				}
				okv = sawF && sawO
			}
			c.Expect(okv, r, pm, "policy=permissions-AND-principals", "a policy does not require both a permission and a principal to match")
		}
		np := c.fn(xrbac, "newPolicyMatcher")
		for _, pr := range []struct{ fld, src string }{{"permissions", "matchersFromPermissions"}, {"principals", "matchersFromPrincipals"}} {
			st := one(c, "store policyMatcher."+pr.fld, storesToField(np, c.field(xrbac, "policyMatcher", pr.fld)))
			al, ok := st.Val.(*ssa.Alloc)
			okv := false
			if ok && typeName(al.Type()) == "orMatcher" {
				for _, s := range partStoresTo(al) {
					if CallRes(Callee(xrbac, pr.src), 0)(s.Val) {
						okv = true
					}
				}
			}
			c.Expect(okv, st, np, pr.fld+":OR-over-translated-list", "policy "+pr.fld+" are not an OR over "+pr.src)
		}
	})
	c.Ob("authenticated-order", "R8", "authenticatedMatcher.match: false unless TLS; URI SANs first, DNS SANs only without URI SANs, subject only without both; with SANs present the result is 'some SAN matched'", 6, func() {
		f := c.fn(xrbac, "authenticatedMatcher.match")
		x509 := "std:crypto/x509"
		fU, fD, fS := c.field(x509, "Certificate", "URIs"), c.field(x509, "Certificate", "DNSNames"), c.field(x509, "Certificate", "Subject")
		hasU, noU := CmpInt(LenOf(FieldLoad(fU)), token.GTR, 0), CmpInt(LenOf(FieldLoad(fU)), token.LEQ, 0)
		hasD, noD := CmpInt(LenOf(FieldLoad(fD)), token.GTR, 0), CmpInt(LenOf(FieldLoad(fD)), token.LEQ, 0)
		tls := Cmp(FieldLoad(c.field(xrbac, "rpcData", "authType")), token.EQL, ConstStr("tls"))
		seen := map[string]int{}
		for _, ci := range callsIn(f, Callee(xmatch, "StringMatcher.Match")) {
			a := ci.Common().Args[1]
			c.MustFact(ci, "identity-checked-only-over-TLS", tls)
			switch {
			case ConstStr("")(a):
				seen["none"]++
				c.MustFact(ci, "empty-identity-only-without-certs", CmpInt(LenOf(FieldLoad(c.field(xrbac, "rpcData", "certs"))), token.EQL, 0))
			case DataDep(FieldLoad(fU))(a):
				seen["uri"]++
				c.MustFact(ci, "uri-sans-first", hasU)
			case DataDep(FieldLoad(fD))(a):
				seen["dns"]++
				c.MustFact(ci, "dns-sans-only-without-uri-sans", noU)
				c.MustFact(ci, "dns-sans-when-present", hasD)
			case DataDep(FieldLoad(fS))(a):
				seen["subject"]++
				c.MustFact(ci, "subject-only-without-uri-sans", noU)
				c.MustFact(ci, "subject-only-without-dns-sans", noD)
			default:
				c.Expect(false, ci, f, "identity-source", "the principal matcher is applied to an unreviewed identity source")
			}
		}
		c.Expect(seen["none"] == 1 && seen["uri"] == 1 && seen["dns"] == 1 && seen["subject"] == 1, nil, f, "four-identity-sources", "expected the four identity sources (none, URI SANs, DNS SANs, subject)")
		for _, r := range returnsOf(f) {
			if ConstBool(true)(r.Results[0]) && c.HasFact(r, NotNil(FieldLoad(c.field(xrbac, "authenticatedMatcher", "stringMatcher")))) {
				c.MustFact(r, "true-only-after-a-matching-identity", Truth(CallRes(Callee(xmatch, "StringMatcher.Match"), 0), true))
			}
			if ConstBool(true)(r.Results[0]) {
				c.MustFact(r, "any-identity-needs-TLS", tls)
			}
		}
	})
	c.Ob("translator", "R2", "authz.parseRules: a policy name is inserted only after a lookup of the same key missed (duplicate rule names rejected); translatePolicy: unknown fields disallowed, name and allow rules required, DENY RBAC (from deny rules) precedes ALLOW RBAC (from allow rules)", 9, func() {
		f := c.fn(authzp, "parseRules")
		var upd *ssa.MapUpdate
		for _, b := range f.Blocks {
			for _, in := range b.Instrs {
				if mu, ok := in.(*ssa.MapUpdate); ok {
					upd = mu
				}
			}
		}
		if c.Expect(upd != nil, nil, f, "policy-insert", "no policy insertion found") {
			look := func(v ssa.Value) bool {
				e, ok := v.(*ssa.Extract)
				if !ok || e.Index != 1 {
					return false
				}
				l, ok := e.Tuple.(*ssa.Lookup)
				return ok && l.CommaOk && sameValue(l.X, upd.Map) && sameValue(l.Index, upd.Key)
			}
			c.Unreachable(upd, "duplicate-rule-name-rejected", Truth(look, true))
			c.MustFact(upd, "rule-has-a-name", Cmp(AnyV, token.NEQ, ConstStr("")))
		}
		for _, r := range successReturns(f, 1) {
			c.ValueIs(r, r.Results[0], "returns-the-built-map", func(v ssa.Value) bool { return upd != nil && sameValue(v, upd.Map) })
		}
		tp := c.fn(authzp, "translatePolicy")
		dec := one(c, "Decode", callsIn(tp, CalleeX("encoding/json", "Decoder.Decode")))
		duf := one(c, "DisallowUnknownFields", callsIn(tp, CalleeX("encoding/json", "Decoder.DisallowUnknownFields")))
		c.Dominates(duf, dec, "unknown-fields-disallowed-before-decoding")
		c.Expect(sameValue(duf.Common().Args[0], dec.Common().Args[0]), duf, tp, "same-decoder", "DisallowUnknownFields is set on a different decoder")
		fAction := c.field(rbacpb, "RBAC", "Action")
		fPol := c.field(rbacpb, "RBAC", "Policies")
		allow, deny := ConstOfObj(c.konst(rbacpb, "RBAC_ALLOW")), ConstOfObj(c.konst(rbacpb, "RBAC_DENY"))
		ap := c.field(authzp, "authorizationPolicy", "AllowRules")
		dp := c.field(authzp, "authorizationPolicy", "DenyRules")
		var allowAl, denyAl *ssa.Alloc
		for _, st := range storesToField(tp, fAction) {
			al := allocRoot(st.Addr)
			if allow(st.Val) {
				allowAl = al
			} else if deny(st.Val) {
				denyAl = al
				c.MustFact(st, "deny-engine-only-with-deny-rules", CmpInt(LenOf(FieldLoad(dp)), token.GTR, 0))
			}
		}
		if !c.Expect(allowAl != nil && denyAl != nil, nil, tp, "two-engines", "expected one ALLOW and one DENY RBAC literal") {
			return
		}
		for _, pr := range []struct {
			al  *ssa.Alloc
			src *types.Var
			l   string
		}{{allowAl, ap, "allow"}, {denyAl, dp, "deny"}} {
			okp := false
			for _, st := range partStoresTo(pr.al) {
				if fa, ok := st.Addr.(*ssa.FieldAddr); ok && sameField(fieldOfAddr(fa), fPol) {
					if ex, ok := st.Val.(*ssa.Extract); ok {
						if call, ok := ex.Tuple.(*ssa.Call); ok && Callee(authzp, "parseRules")(&call.Call) && FieldLoad(pr.src)(call.Call.Args[0]) {
							okp = true
						}
					}
				}
			}
			c.Expect(okp, nil, tp, pr.l+"-engine-from-"+pr.l+"-rules", "the "+pr.l+" RBAC is not built from the "+pr.l+" rules")
		}
		for _, r := range successReturns(tp, 2) {
			call := builtinCall(r.Results[0], "append")
			if !c.Expect(call != nil, r, tp, "result-is-append", "the result is not rbacs followed by the ALLOW RBAC") {
				continue
			}
			el := appendedElems(call)
			c.Expect(len(el) == 1 && el[0] == ssa.Value(allowAl), r, tp, "allow-engine-last", "the last engine is not the ALLOW RBAC")
			// the prefix may contain only the DENY engine
			okPrefix := true
			for _, l := range phiLeaves(call.Call.Args[0]) {
				if ap2 := builtinCall(l.Val, "append"); ap2 != nil {
					e2 := appendedElems(ap2)
					if len(e2) != 1 || e2[0] != ssa.Value(denyAl) {
						okPrefix = false
					}
				} else if _, isMk := l.Val.(*ssa.MakeSlice); !isMk {
					// make([]T, 0, const) is lowered to new [const]T sliced [:0]
					sl, isSl := l.Val.(*ssa.Slice)
					if _, fresh := func() (*ssa.Alloc, bool) {
						if !isSl {
							return nil, false
						}
						a, ok := sl.X.(*ssa.Alloc)
						return a, ok
					}(); !fresh || sl.High == nil || !ConstInt(0)(sl.High) {
						okPrefix = false
					}
				}
			}
			c.Expect(okPrefix, r, tp, "deny-engine-first", "something other than the DENY RBAC precedes the ALLOW RBAC")
			c.MustFact(r, "allow-rules-required", CmpInt(LenOf(FieldLoad(ap)), token.NEQ, 0))
			c.MustFact(r, "name-required", Cmp(FieldLoad(c.field(authzp, "authorizationPolicy", "Name")), token.NEQ, ConstStr("")))
		}
	})
}
