#!/bin/bash
# Equivalent-rewrite selftest. In a scratch worktree, rewrite the whole module with checker/cmd/renameparams
# (type-resolved, go/packages) and run all 58 quick checks against the result; every verdict must be the same as
# on the unchanged tree (exit 0). Variants (the first three also rename every parameter and receiver to <name>_r):
#   locals   also every local variable and named result
#   swapif   every `if c {A} else {B}` becomes `if !(c) {B} else {A}`
#   swapcmp  every comparison with side-effect-free operands is mirrored (`a < b` -> `b > a`, `err != nil` -> `nil != err`)
# Not registered in MANIFEST (dev aid; needs a scratch worktree).
#   logs     a guarded debug statement in front of every statement of every function (adds zz_verifdbg.go files: run `git clean -fdq` in the worktree afterwards)
#   defers   `defer func() {}()` at the top of every declared function (expected: C30 only-schedules reports, see DESIGN 12.6)
#   reorder  the function declarations of every file in reverse order
# usage: selftest/rename_test.sh <scratch-worktree> [locals|swapif|swapcmp|logs|defers|reorder]
set -u
WT=${1:?scratch worktree}; MODE=${2:-locals}
export PATH=/opt/veriftools/go1.26.8/bin:$PATH GOTOOLCHAIN=local GOPROXY=off GOSUMDB=off GOWORK=off
(cd /verif/checker && GOFLAGS=-mod=vendor go build -o /tmp/renameparams ./cmd/renameparams) || exit 2
git -C "$WT" checkout -q -- . && git -C "$WT" clean -fdq || exit 2
case $MODE in locals) export LOCALS=1;; swapif) export SWAPIF=1;; swapcmp) export SWAPCMP=1;; logs) export LOGS=1;; defers) export DEFERS=1;; reorder) export REORDER=1;; esac
(cd "$WT" && GOFLAGS=-mod=mod /tmp/renameparams "$WT" ./... && GOFLAGS=-mod=mod go build ./...) || exit 2
bad=0
for i in $(seq -w 1 58); do
  r=$(VERIF_REPO="$WT" VERIF_EVIDENCE=/tmp/ev_rename /verif/run.sh C$i quick 2>&1); e=$?
  [ $e != 0 ] && { bad=1; echo "C$i exit=$e"; echo "$r" | grep -v '^KNOWN' | sed -n 1,4p | cut -c1-300; }
done
git -C "$WT" checkout -q -- .; git -C "$WT" clean -fdq
[ $bad = 0 ] && echo "rewrite test ($MODE): all 58 checks silent"
exit $bad
