package main

import (
	"go/token"
	"go/types"

	"golang.org/x/tools/go/ssa"
)

const altsc = "credentials/alts/internal/conn"

func init() {
	register(&PropDef{
		ID:    "C52",
		Pkgs:  []string{altsc},
		Claim: "Decides the structural part (sibling check over every ALTSRecordCrypto implementation): each Seal takes its nonce from the outgoing counter's Value(), is unreachable when Value() failed, and is followed by exactly the outgoing counter's Inc() on every path to a return; each Open takes its nonce from the incoming counter, a failed Open returns an error without advancing the counter and a successful one advances it before returning; Counter.Inc marks the counter invalid exactly when the carry runs through all overflowLen bytes, does nothing once invalid, and Value() fails when invalid (so no nonce repeats); the payload of each written frame is min(remaining, payloadLengthLimit) with payloadLengthLimit = max(4 KiB, negotiated) - overhead; both frame parsers are called with the 1 MiB record limit and reject longer frames before slicing; decryption is reached only after the minimum-length and message-type checks. The counter carry stops only at a byte that did not wrap; a frame is returned only with a complete length header; whenever a receive buffer takes over the length of another buffer its bytes were copied first; Decrypt is reached only with a complete frame.",
		NotDecided:  []string{"byte-exact reassembly under arbitrary TCP segmentation and read-buffer sizes", "cryptographic strength of AES-GCM (tamper detection is the AEAD's contract)"},
		Assumptions: []string{"crypto/cipher AEAD contract: Open fails on any modified ciphertext/nonce"},
		Technique:   "static analysis: sibling cross-check of all implementations of one interface over go/ssa (value origin of nonce arguments, refusing-arm unreachability, must-pass-through to the counter increment), dominating guards, expression-shape checks of length limits",
		Run:         c52,
	})
}

func c52(c *Ctx) {
	iface := c.P.LookupObj(altsc, "ALTSRecordCrypto").Type().Underlying().(*types.Interface)
	var impls []*types.Named
	sc := c.P.typesPkg(altsc).Scope()
	for _, n := range sc.Names() {
		if tn, ok := sc.Lookup(n).(*types.TypeName); ok {
			if nt, ok := tn.Type().(*types.Named); ok {
				if _, isS := nt.Underlying().(*types.Struct); isS && types.Implements(types.NewPointer(nt), iface) {
					impls = append(impls, nt)
				}
			}
		}
	}
	isSeal := func(cc *ssa.CallCommon) bool {
		f := calleeFunc(cc)
		return f != nil && f.Name() == "Seal" && len(cc.Args) >= 3
	}
	isOpen := func(cc *ssa.CallCommon) bool {
		f := calleeFunc(cc)
		return f != nil && f.Name() == "Open" && len(cc.Args) >= 3
	}
	c.Ob("nonce-discipline", "R8", "every record crypto: Seal nonce = outCounter.Value() (error arm returns), outCounter.Inc() follows on every path; Open nonce = inCounter.Value(), Inc only after a successful Open, failure returns an error", 12, func() {
		c.Expect(len(impls) >= 2, nil, nil, "implementations-found", "fewer ALTSRecordCrypto implementations than the 2 confirmed by reading")
		for _, nt := range impls {
			name := nt.Obj().Name()
			st := nt.Underlying().(*types.Struct)
			var fIn, fOut *types.Var
			for i := 0; i < st.NumFields(); i++ {
				switch st.Field(i).Name() {
				case "inCounter":
					fIn = st.Field(i)
				case "outCounter":
					fOut = st.Field(i)
				}
			}
			if !c.Expect(fIn != nil && fOut != nil, nil, nil, name+":has-two-counters", "the record crypto has no separate in/out counters") {
				continue
			}
			for _, dir := range []struct {
				meth string
				op   func(*ssa.CallCommon) bool
				cnt  *types.Var
				l    string
			}{{"Encrypt", isSeal, fOut, "seal"}, {"Decrypt", isOpen, fIn, "open"}} {
				f := c.fn(altsc, name+"."+dir.meth)
				ops := callsIn(f, dir.op)
				vals := callsIn(f, Callee(altsc, "Counter.Value"))
				incs := callsIn(f, Callee(altsc, "Counter.Inc"))
				if !c.Expect(len(ops) == 1 && len(vals) == 1 && len(incs) == 1, nil, f, name+":"+dir.l+":one-value-one-op-one-inc", "expected exactly one counter read, one AEAD operation and one increment") {
					continue
				}
				op, val, inc := ops[0], vals[0], incs[0]
				onCounter := func(ci ssa.CallInstruction) bool {
					fa, ok := ci.Common().Args[0].(*ssa.FieldAddr)
					return ok && sameField(fieldOfAddr(fa), dir.cnt)
				}
				c.Expect(onCounter(val) && onCounter(inc), val, f, name+":"+dir.l+":uses-its-own-direction's-counter", "the nonce or the increment uses the other direction's counter")
				nonceIdx := 1
				if op.Common().IsInvoke() {
					nonceIdx = 1
				} else {
					nonceIdx = 2
				}
				c.ArgIs(op, nonceIdx, name+":"+dir.l+":nonce-is-the-counter-value", ExtractOf(func(v ssa.Value) bool { return v == val.Value() }, 0))
				verr := ExtractOf(func(v ssa.Value) bool { return v == val.Value() }, 1)
				c.Unreachable(op, name+":"+dir.l+":exhausted-counter-stops", NotNil(verr))
				if dir.l == "seal" {
					c.MustPass(name+":seal:counter-advanced-after-every-seal", pathQuery{Fn: f, Starts: []ssa.Instruction{op}, Barrier: func(in ssa.Instruction) bool { return in == ssa.Instruction(inc) }, Target: isReturn}, op)
					c.Dominates(op, inc, name+":seal:increment-after-seal")
				} else {
					oerr := ExtractOf(func(v ssa.Value) bool { return v == op.Value() }, 1)
					c.MustFact(inc, name+":open:advance-only-after-successful-open", IsNil(oerr))
					for _, r := range returnsOf(f) {
						if ConstNil(r.Results[1]) {
							c.Unreachable(r, name+":open:failed-open-is-an-error", NotNil(oerr))
							c.Expect(instrDominates(inc, r), r, f, name+":open:advanced-before-success", "a successful Open returns without advancing the counter")
						}
					}
				}
			}
		}
	})
	c.Ob("counter-overflow", "R2", "Counter.Inc: no-op when invalid; byte i incremented, stops at the first non-zero; invalid = true exactly when i reached overflowLen; Value: error iff invalid", 6, func() {
		fInv := c.field(altsc, "Counter", "invalid")
		fOv := c.field(altsc, "Counter", "overflowLen")
		inc := c.fn(altsc, "Counter.Inc")
		st := one(c, "invalid = true", storesToField(inc, fInv))
		c.ValueIs(st, st.Val, "marks-invalid", ConstBool(true))
		c.MustFact(st, "invalid-only-when-carry-ran-through", Cmp(AnyV, token.EQL, FieldLoad(fOv)))
		// the compared value is the loop index
		for _, fc := range FactsAt(st) {
			if fc.Kind == "cmp" && fc.Op == token.EQL && FieldLoad(fOv)(fc.Y) {
				ph, ok := fc.X.(*ssa.Phi)
				c.Expect(ok && len(loopInit(ph)) >= 1, st, inc, "carry-index-is-the-loop-index", "the overflow test is not on the byte index of the carry loop")
			}
		}
		// conversely: running through all bytes must mark invalid
		starts := edgeTargetsWhere(inc, Cmp(AnyV, token.EQL, FieldLoad(fOv)))
		if c.Expect(len(starts) == 1, st, inc, "overflow-arm", "overflow arm not found") {
			c.MustPass("overflow-always-invalidates", pathQuery{Fn: inc, StartBlocks: starts, Barrier: func(in ssa.Instruction) bool { return in == ssa.Instruction(st) }, Target: isReturn}, nil)
		}
		nb := 0
		for _, b := range inc.Blocks {
			for _, in := range b.Instrs {
				s, ok := in.(*ssa.Store)
				if !ok {
					continue
				}
				if ia, ok := s.Addr.(*ssa.IndexAddr); ok {
					nb++
					c.MustFact(s, "no-increment-once-invalid", Truth(FieldLoad(fInv), false))
					c.MustFact(s, "carry-stays-within-overflow-bytes", Cmp(func(v ssa.Value) bool { return v == ia.Index }, token.LSS, FieldLoad(fOv)))
					c.ValueIs(s, s.Val, "byte-incremented", BinOpV(token.ADD, AnyV, ConstInt(1)))
				}
			}
		}
		c.Expect(nb == 1, nil, inc, "one-byte-increment", "expected one byte increment site")
		// the carry stops exactly at the first byte that did not wrap to zero
		nbr := 0
		for _, b := range inc.Blocks {
			i, ok := b.Instrs[len(b.Instrs)-1].(*ssa.If)
			if !ok || !isLoopHeader(b) {
				continue
			}
			if _, _, _, ok := cmpOriented(i.Cond, FieldLoad(fOv)); !ok {
				continue
			}
			nbr += len(breakArms(b))
			for _, p := range breakPreds(b) {
				c.EnteredOnlyWhenFrom(b.Succs[1], "carry-stops-only-at-a-byte-that-did-not-wrap", p, CmpInt(func(v ssa.Value) bool {
					u, ok := v.(*ssa.UnOp)
					if !ok {
						return false
					}
					_, isIdx := u.X.(*ssa.IndexAddr)
					return isIdx
				}, token.NEQ, 0))
			}
		}
		c.Expect(nbr == 1, nil, inc, "one-carry-stop", "expected exactly one early exit from the carry loop")
		val := c.fn(altsc, "Counter.Value")
		for _, r := range returnsOf(val) {
			if ConstNil(r.Results[1]) {
				c.MustFact(r, "value-only-when-valid", Truth(FieldLoad(fInv), false))
			} else {
				c.MustFact(r, "error-when-invalid", Truth(FieldLoad(fInv), true))
				c.Expect(ConstNil(r.Results[0]), r, val, "no-nonce-with-error", "a nonce is returned together with the error")
			}
		}
		c.WhoMayMutate("Counter.invalid", fInv, c.scope(altsc), altsc+".Counter.Inc")
	})
	c.Ob("frame-limit", "R5", "Write: payload per frame = min(len(remaining), payloadLengthLimit), that slice is what is encrypted; payloadLengthLimit = max(4096, negotiated) - (4+4+crypto overhead); parsers called with the 1 MiB limit and reject longer frames", 8, func() {
		w := c.fn(altsc, "conn.Write")
		fLim := c.field(altsc, "conn", "payloadLengthLimit")
		enc := one(c, "Encrypt in Write", callsIn(w, Callee(altsc, "ALTSRecordCrypto.Encrypt")))
		sl, ok := enc.Common().Args[1].(*ssa.Slice)
		okP := false
		if ok && sl.Low == nil && sl.High != nil {
			if mn := builtinCall(sl.High, "min"); mn != nil && len(mn.Call.Args) == 2 {
				a, b := mn.Call.Args[0], mn.Call.Args[1]
				lenRest := func(v ssa.Value) bool { l := builtinCall(v, "len"); return l != nil && l.Call.Args[0] == sl.X }
				okP = lenRest(a) && FieldLoad(fLim)(b) || lenRest(b) && FieldLoad(fLim)(a)
			}
		}
		c.Expect(okP, enc, w, "frame-payload-bounded-by-limit", "the encrypted payload is not remaining[:min(len(remaining), payloadLengthLimit)]")
		nc := c.fn(altsc, "NewConnWithMaxFrameSize")
		st := one(c, "payloadLengthLimit store", storesToField(nc, fLim))
		ovh := func(v ssa.Value) bool {
			b, ok := v.(*ssa.BinOp)
			return ok && b.Op == token.ADD && (ConstInt(8)(b.X) && CallRes(Callee(altsc, "ALTSRecordCrypto.EncryptionOverhead"), 0)(b.Y) || ConstInt(8)(b.Y) && CallRes(Callee(altsc, "ALTSRecordCrypto.EncryptionOverhead"), 0)(b.X))
		}
		maxRec := func(v ssa.Value) bool {
			m := builtinCall(v, "max")
			if m == nil || len(m.Call.Args) != 2 {
				return false
			}
			a, b := m.Call.Args[0], m.Call.Args[1]
			return ConstInt(4096)(a) && ParamV("negotiatedMaxFrameSize")(b) || ConstInt(4096)(b) && ParamV("negotiatedMaxFrameSize")(a)
		}
		c.ValueIs(st, st.Val, "limit=max(4KiB,negotiated)-overhead", BinOpV(token.SUB, maxRec, ovh))
		for _, s2 := range storesToField(nc, c.field(altsc, "conn", "overhead")) {
			c.ValueIs(s2, s2.Val, "overhead=8+crypto-overhead", ovh)
		}
		c.WhoMayMutate("payloadLengthLimit", fLim, c.scope(altsc), altsc+".NewConnWithMaxFrameSize")
		n := 0
		for _, g := range c.scope(altsc) {
			for _, ci := range callsIn(g, Callee(altsc, "ParseFramedMsg")) {
				n++
				c.ArgIs(ci, 1, "parser-called-with-1MiB-limit", ConstInt(1024*1024))
			}
		}
		c.Expect(n == 2, nil, nil, "two-parser-sites", "expected two ParseFramedMsg call sites")
		pf := c.fn(altsc, "ParseFramedMsg")
		length := ExtractOf(CallRes(Callee(altsc, "parseMessageLength"), -1), 0)
		_ = length
		ln := func(v ssa.Value) bool {
			e, ok := v.(*ssa.Extract)
			if !ok || e.Index != 0 {
				return false
			}
			call, ok := e.Tuple.(*ssa.Call)
			return ok && Callee(altsc, "parseMessageLength")(&call.Call)
		}
		for _, r := range returnsOf(pf) {
			if _, isSl := r.Results[0].(*ssa.Slice); isSl {
				c.Unreachable(r, "over-limit-frame-rejected", Cmp(ln, token.GTR, ParamV("maxLen")))
				c.MustFact(r, "frame-complete", Cmp(LenOf(ParamV("b")), token.GEQ, AnyV))
				c.MustFact(r, "frame-only-with-a-complete-length-header", Truth(ExtractOf(CallRes(Callee(altsc, "parseMessageLength"), -1), 1), true))
			}
		}
	})
	c.Ob("reassembly-moves-the-bytes", "R6", "NewConnWithMaxFrameSize / ReadOnReady: whenever a receive buffer is given the length of another buffer (x = x[:len(src)] — carrying an incomplete frame to the front, growing the buffer, taking over the handshaker's leftover bytes) the bytes of that other buffer were copied into it first in the same step", 3, func() {
		n := 0
		for _, fn := range []string{"NewConnWithMaxFrameSize", "conn.ReadOnReady"} {
			f := c.fn(altsc, fn)
			for _, b := range f.Blocks {
				for _, in := range b.Instrs {
					sl, ok := in.(*ssa.Slice)
					if !ok || sl.Low != nil || sl.High == nil {
						continue
					}
					lc := builtinCall(sl.High, "len")
					if lc == nil {
						continue
					}
					src := lc.Call.Args[0]
					same := func(a, b ssa.Value) bool { return a == b || sameFieldOfSameBase(a, b) }
					if same(src, sl.X) {
						continue
					}
					n++
					c.inst("relocation <- " + c.siteStr(in))
					okCopy := false
					for _, cp := range callsIn(f, BuiltinCall("copy")) {
						call, ok := cp.(*ssa.Call)
						if ok && thenAlways(call, in) && same(call.Call.Args[0], sl.X) && same(call.Call.Args[1], src) {
							okCopy = true
						}
					}
					c.Expect(okCopy, in, f, fn+":bytes-copied-before-the-length-is-taken-over", "a buffer takes over the length of another buffer without its bytes having been copied (received ciphertext is lost or replaced by stale bytes)")
				}
			}
		}
		c.Expect(n >= 3, nil, nil, "relocation-sites", "fewer buffer relocation sites than the 3 confirmed by reading")
		// growing the receive buffer: the new buffer must hold the 4-byte length header plus the announced frame length
		ro := c.fn(altsc, "conn.ReadOnReady")
		nG := 0
		for _, g := range callsIn(ro, Callee("internal/mem", "SimpleBufferPool.Get")) {
			if !c.HasFact(g, Truth(ExtractOf(CallRes(Callee(altsc, "parseMessageLength"), -1), 1), true)) {
				continue
			}
			nG++
			frameLen := func(v ssa.Value) bool {
				return ExtractOf(CallRes(Callee(altsc, "parseMessageLength"), -1), 0)(stripConv(v))
			}
			c.ArgIs(g, 1, "grown-buffer-holds-header-plus-frame", func(v ssa.Value) bool {
				return BinOpV(token.ADD, frameLen, ConstInt(4))(v) || BinOpV(token.ADD, ConstInt(4), frameLen)(v)
			})
		}
		c.Expect(nG == 1, nil, ro, "growth-site", "expected one growth of the receive buffer to the announced frame size")
	})
	c.Ob("error-discipline", "R2", "Write, ReadOnReady and the connection constructor never continue past a failing helper (encryption, decryption, frame parsing, network read/write) to a success return", 8, func() {
		n := 0
		for _, fn := range []string{"conn.Write", "conn.ReadOnReady", "NewConnWithMaxFrameSize", "aes128gcm.Encrypt", "aes128gcm.Decrypt", "aes128gcmRekey.Encrypt", "aes128gcmRekey.Decrypt", "rekeyAEAD.Open", "NewAES128GCM", "NewAES128GCMRekey"} {
			if f := c.P.LookupFunc(altsc, fn); f != nil && f.Blocks != nil {
				n += c.ErrorsPropagate(f, fn, nil)
			}
		}
		c.Expect(n >= 8, nil, nil, "error-sites", "fewer tested helper errors than on the reviewed tree")
	})
	c.Ob("type-check", "R2", "ReadOnReady: Decrypt only after the frame has at least the message-type field and the low byte of the type is the ALTS record type", 2, func() {
		f := c.fn(altsc, "conn.ReadOnReady")
		ds := callsIn(f, Callee(altsc, "ALTSRecordCrypto.Decrypt"))
		c.Expect(len(ds) == 2, nil, f, "two-decrypt-sites", "expected two Decrypt sites (caller buffer large enough / not)")
		for _, d := range ds {
			c.Unreachable(d, "short-frame-rejected", CmpInt(LenOf(func(v ssa.Value) bool {
				sl, ok := v.(*ssa.Slice) // msg = framedMsg[MsgLenFieldSize:]
				return ok && sl.Low != nil && ConstInt(4)(sl.Low) && sl.High == nil
			}), token.LSS, 4))
			c.MustFact(d, "decrypt-only-a-complete-frame", CmpInt(LenOf(func(v ssa.Value) bool {
				_, isPhi := v.(*ssa.Phi)
				return isPhi && DataDep(ExtractOf(CallRes(Callee(altsc, "ParseFramedMsg"), -1), 0))(v)
			}), token.NEQ, 0))
			c.MustFact(d, "message-type-checked", Cmp(BinOpV(token.AND, CallRes(CalleeX("encoding/binary", "littleEndian.Uint32"), 0), ConstInt(255)), token.EQL, ConstInt(6)))
			// decrypting straight into the caller's buffer needs room for the whole record:
			// the destination is (*buf)[:0] of a buffer of bufSize bytes
			if dst, isSl := d.Common().Args[0].(*ssa.Slice); isSl && dst.High != nil && ConstInt(0)(dst.High) && !sameValue(dst.X, d.Common().Args[1]) {
				if u, isU := dst.X.(*ssa.UnOp); isU && CallRes(Callee("mem", "BufferPool.Get"), 0)(u.X) {
					ct := d.Common().Args[1]
					lenCT := func(v ssa.Value) bool {
						l := builtinCall(v, "len")
						return l != nil && (l.Call.Args[0] == ct || sameValue(l.Call.Args[0], ct))
					}
					c.MustFactAny(d, "direct-decrypt-only-if-buffer-holds-the-record",
						Cmp(ParamV("bufSize"), token.GEQ, lenCT),
						Cmp(ParamV("bufSize"), token.GEQ, BinOpV(token.SUB, lenCT, CallRes(Callee(altsc, "ALTSRecordCrypto.EncryptionOverhead"), 0))))
				}
			}
			// ciphertext = msg[4:]
			sl, ok := d.Common().Args[1].(*ssa.Slice)
			c.Expect(ok && sl.Low != nil && ConstInt(4)(sl.Low), d, f, "ciphertext-follows-the-type-field", "the ciphertext does not start after the 4-byte message type")
		}
	})
}
