#!/bin/bash
# dev aid: apply every kept seeded change to the scratch worktree /tmp/mut and check that the property's quick check reports it (exit 1).
cd /verif
for d in seeded/C*/; do
  id=$(basename $d); p=${id%%-*}
  out=$(seeded/try.sh /verif/$d/patch.diff $p 2>&1 | grep -o 'exit=[0-9]*\|patch does not apply' | tail -1)
  echo "$id $out"
done
