package main

import (
	"encoding/json"
	"flag"
	"fmt"
	"os"
	"sort"
	"strconv"
	"strings"
	"time"

	"golang.org/x/tools/go/ssa"
)

// PropDef describes how one property is decided.
type PropDef struct {
	ID          string
	Title       string
	Pkgs        []string // module-relative packages loaded in the quick tier
	Claim       string   // what structural part is decided
	NotDecided  []string
	Assumptions []string
	Technique   string
	Run         func(c *Ctx)
}

var props = map[string]*PropDef{}

func register(p *PropDef) { props[p.ID] = p }

func main() {
	repo := flag.String("repo", "/repo", "repository root")
	out := flag.String("out", "/verif/evidence", "evidence directory")
	known := flag.String("known", "/verif/known-findings.txt", "known findings file")
	flag.Parse()
	args := flag.Args()
	if len(args) == 0 {
		fmt.Fprintln(os.Stderr, "usage: vchk [flags] <Cnn> <quick|thorough> | list | dump <pkg> <func>")
		os.Exit(2)
	}
	switch args[0] {
	case "list":
		var ids []string
		for id := range props {
			ids = append(ids, id)
		}
		sort.Strings(ids)
		var outl []map[string]any
		for _, id := range ids {
			p := props[id]
			outl = append(outl, map[string]any{"id": id, "claim": p.Claim, "not_decided": p.NotDecided, "assumptions": p.Assumptions, "technique": p.Technique, "pkgs": p.Pkgs})
		}
		json.NewEncoder(os.Stdout).Encode(outl)
		return
	case "dump":
		dump(*repo, args[1], args[2])
		return
	case "paramtable":
		seen := map[string]bool{}
		var pkgs []string
		for _, p := range props {
			for _, k := range p.Pkgs {
				if !seen[k] {
					seen[k] = true
					pkgs = append(pkgs, k)
				}
			}
		}
		sort.Strings(pkgs)
		prog, err := Load(*repo, pkgs, false)
		if err != nil {
			fmt.Fprintln(os.Stderr, err)
			os.Exit(2)
		}
		dumpParamTable(prog)
		return
	}
	id := args[0]
	tier := "quick"
	if len(args) > 1 {
		tier = args[1]
	}
	if t := os.Getenv("VERIF_TIER"); t != "" && len(args) < 2 {
		tier = t
	}
	seed, _ := strconv.Atoi(os.Getenv("VERIF_SEED"))
	def := props[id]
	if def == nil {
		fmt.Printf("BROKEN property=%s no such property in this checker\n", id)
		os.Exit(2)
	}
	start := time.Now()
	whole := tier == "thorough"
	prog, err := Load(*repo, def.Pkgs, whole)
	if err != nil {
		fmt.Printf("BROKEN property=%s cannot load %s: %v\n", id, *repo, err)
		os.Exit(2)
	}
	c := &Ctx{P: prog, Prop: id, Tier: tier}
	func() {
		defer func() {
			if r := recover(); r != nil {
				c.Obs = append(c.Obs, &Ob{Key: id + "/driver", Broken: []string{fmt.Sprintf("driver panic: %v", r)}})
			}
		}()
		def.Run(c)
	}()
	nfun := 0
	var pk []string
	for _, p := range prog.Pkgs {
		pk = append(pk, strings.TrimPrefix(p.PkgPath, modPath+"/"))
	}
	sort.Strings(pk)
	nfun = len(prog.AllFuncs())
	if len(prog.Pkgs) == 0 || nfun == 0 {
		fmt.Printf("BROKEN property=%s loaded %d packages / %d functions\n", id, len(prog.Pkgs), nfun)
		os.Exit(2)
	}
	ign := prog.Ignored
	for i := range ign {
		ign[i] = strings.TrimPrefix(ign[i], *repo+"/")
	}
	sort.Strings(ign)
	if len(pk) > 40 {
		pk = append(pk[:40], fmt.Sprintf("… (%d packages in total)", len(prog.Pkgs)))
	}
	if len(ign) > 40 {
		ign = append(ign[:40], "…")
	}
	li := map[string]any{
		"packages_loaded":    len(prog.Pkgs),
		"packages":           pk,
		"functions_analysed": nfun,
		"source_files":       prog.NFiles,
		"ignored_files":      ign,
		"build":              "GOOS=linux GOARCH=amd64 default tags, Tests=false, whole_module=" + fmt.Sprint(whole),
	}
	os.Exit(c.finish(def, *out, *known, seed, start, li))
}

func dump(repo, pkg, name string) {
	prog, err := Load(repo, []string{pkg}, false)
	if err != nil {
		fmt.Println(err)
		os.Exit(2)
	}
	var fns []*ssa.Function
	if f := prog.LookupFunc(pkg, name); f != nil {
		fns = append(fns, f)
		var add func(f *ssa.Function)
		add = func(f *ssa.Function) {
			for _, a := range f.AnonFuncs {
				fns = append(fns, a)
				add(a)
			}
		}
		add(f)
	}
	if len(fns) == 0 {
		fmt.Println("not found")
		os.Exit(2)
	}
	for _, f := range fns {
		fmt.Printf("=== %s (%s)\n", shortName(f), prog.Pos(f.Pos()))
		fi := info(f)
		fi.computeFacts()
		for _, b := range f.Blocks {
			fmt.Printf("  block %d (%s) preds=%v succs=%v\n", b.Index, b.Comment, idxs(b.Preds), idxs(b.Succs))
			fmt.Printf("    facts: %s\n", factsStr(fi.facts[b.Index]))
			for _, in := range b.Instrs {
				fmt.Printf("      %-60s  @%s\n", instrStr(in), prog.Pos(in.Pos()))
			}
		}
	}
}

func idxs(bs []*ssa.BasicBlock) []int {
	var o []int
	for _, b := range bs {
		o = append(o, b.Index)
	}
	return o
}
