#!/usr/bin/env python3
"""Re-run the survivors of mutate.py against *every* check whose anchors cover the
mutated line (a mutant is only a gap if no property's check reports it).
usage: recheck.py <fnlog> <worktree> <out.json> <in.json>... (env PART=i/n to split work)"""
import json,os,subprocess,sys,hashlib
fnlog,wt,out=sys.argv[1:4]; ins=sys.argv[4:]
part=os.environ.get('PART','0/1'); pi,pn=map(int,part.split('/'))
ENV=dict(os.environ,PATH='/opt/veriftools/go1.26.8/bin:'+os.environ['PATH'],GOTOOLCHAIN='local',GOFLAGS='-mod=mod',GOPROXY='off',GOSUMDB='off'); ENV.pop('GOWORK',None)
cover={}
for l in sorted(set(open(fnlog))):
    p,f,a,b=l.split(); rel=os.path.relpath(f,'/repo')
    cover.setdefault(rel,[]).append((int(a),int(b),p))
muts={}
for f in ins:
    for p,rec in json.load(open(f)).items():
        for m in rec:
            if m['status']!='survived': continue
            k=(m['file'],m['line'],m['new'])
            muts.setdefault(k,dict(m,props=set()))['props'].add(p)
keys=sorted(muts)
res=json.load(open(out)) if os.path.exists(out) else {}
for idx,k in enumerate(keys):
    if idx%pn!=pi: continue
    ks='|'.join(map(str,k))
    if ks in res: continue
    m=muts[k]; rel,line=m['file'],m['line']
    props=sorted({p for a,b,p in cover.get(rel,[]) if a<=line<=b}|m['props'])
    path=os.path.join(wt,rel); src=open(path).read().split('\n')
    # find the line by content (line numbers may have shifted with fix commits)
    cand=[i for i,l in enumerate(src) if l.strip()==m['old'] or l.strip().startswith(m['old'][:100])]
    i=min(cand,key=lambda x:abs(x-(line-1))) if cand else None
    status='stale'; killed_by=None
    if i is not None:
        indent=src[i][:len(src[i])-len(src[i].lstrip())]
        src[i]=indent+m['new'] if not m['new'].startswith(indent) else m['new']
        open(path,'w').write('\n'.join(src))
        try:
            b=subprocess.run(['go','build','./'+os.path.dirname(rel)],cwd=wt,env=ENV,capture_output=True,text=True)
            if b.returncode!=0: status='invalid'
            else:
                status='survived'
                for p in props:
                    r=subprocess.run(['/verif/run.sh',p,'quick'],env=dict(ENV,VERIF_REPO=wt),capture_output=True,text=True)
                    if r.returncode in (1,2):
                        status='killed'; killed_by=p; break
        finally:
            subprocess.run(['git','-C',wt,'checkout','-q','--',rel])
    res[ks]={'file':rel,'line':line,'kind':m['kind'],'old':m['old'],'new':m['new'],'status':status,'killed_by':killed_by,'checked':props}
    if idx%10==0: json.dump(res,open(out,'w'),indent=1)
json.dump(res,open(out,'w'),indent=1)
print('done',sum(1 for v in res.values() if v['status']=='survived'),'survive of',len(res))
