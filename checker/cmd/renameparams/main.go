// renameparams rewrites, in a scratch copy of grpc-go, every parameter,
// receiver and named result of every function of the given packages to
// <name>_r (type-resolved, all uses). It is a selftest aid: the checks must
// give the same verdicts on the renamed tree (see DESIGN §12.6).
// With LOCALS=1 every local variable and named result is renamed too.
// usage: renameparams <repo-dir> <pkg-pattern>...
package main

import (
	"fmt"
	"go/ast"
	"go/format"
	"go/types"
	"os"

	"golang.org/x/tools/go/packages"
)

func main() {
	dir := os.Args[1]
	cfg := &packages.Config{Mode: packages.NeedName | packages.NeedFiles | packages.NeedCompiledGoFiles | packages.NeedSyntax | packages.NeedTypes | packages.NeedTypesInfo | packages.NeedImports, Dir: dir,
		Env: append(os.Environ(), "GOWORK=off", "GOFLAGS=-mod=mod", "GOPROXY=off", "GOSUMDB=off", "GOTOOLCHAIN=local")}
	pkgs, err := packages.Load(cfg, os.Args[2:]...)
	if err != nil || packages.PrintErrors(pkgs) > 0 {
		fmt.Println("load failed", err)
		os.Exit(2)
	}
	n := 0
	for _, p := range pkgs {
		ren := map[types.Object]bool{}
		mark := func(fl *ast.FieldList) {
			if fl == nil {
				return
			}
			for _, f := range fl.List {
				for _, id := range f.Names {
					if id.Name == "_" {
						continue
					}
					if o := p.TypesInfo.Defs[id]; o != nil {
						ren[o] = true
					}
				}
			}
		}
		for _, f := range p.Syntax {
			ast.Inspect(f, func(nd ast.Node) bool {
				switch x := nd.(type) {
				case *ast.FuncDecl:
					mark(x.Recv)
					mark(x.Type.Params)
				case *ast.FuncLit:
					mark(x.Type.Params)
				}
				return true
			})
		}
		if os.Getenv("LOCALS") != "" {
			for id, o := range p.TypesInfo.Defs {
				v, ok := o.(*types.Var)
				if !ok || v.IsField() || id.Name == "_" || v.Parent() == nil || v.Parent() == p.Types.Scope() {
					continue
				}
				ren[o] = true
			}
		}
		for i, f := range p.Syntax {
			changed := false
			ast.Inspect(f, func(nd ast.Node) bool {
				id, ok := nd.(*ast.Ident)
				if !ok {
					return true
				}
				o := p.TypesInfo.Defs[id]
				if o == nil {
					o = p.TypesInfo.Uses[id]
				}
				if o != nil && ren[o] {
					id.Name += "_r"
					changed = true
					n++
				}
				return true
			})
			if changed {
				out, err := os.Create(p.CompiledGoFiles[i])
				if err != nil {
					panic(err)
				}
				if err := format.Node(out, p.Fset, f); err != nil {
					panic(err)
				}
				out.Close()
			}
		}
	}
	fmt.Println("renamed identifiers:", n)
}
