package main

import (
	"go/token"
	"go/types"

	"golang.org/x/tools/go/ssa"
)

const memp = "mem"
const imemp = "internal/mem"

func init() {
	register(&PropDef{
		ID:    "C53",
		Pkgs:  []string{memp, imemp},
		Claim: "Decides the structural part: buffer.Free returns the original slice to the pool only on the arm where the decremented reference count is exactly zero, the buffer is its own root and still has a pool, passes origData, and clears the pool field right after (so a second Put through this object is impossible); a negative count panics and a positive count has no effect; a derived buffer's last Free frees its root instead; the pool's Put is invoked nowhere else for buffer-owned memory; every buffer object taken from the object pool gets count 1, and whenever a buffer other than itself is installed as a new buffer's root (Slice, split) that root's count was incremented first on the same path; reads and Slice/split of a freed buffer panic; the Reader adjusts its remaining length and in-buffer index by the same amount and frees exactly the exhausted first buffer while dropping it from its list; pooled slices handed out again are cleared over their full capacity on the zeroing arm before being resliced, the public clean constructors select zeroing and the Dirty ones do not; Get returns a slice of exactly the requested length (fresh make or reslice [:size] of a pooled slice) and the sized pool keeps only slices with at least its capacity. Ref succeeds only above one, Slice returns the receiver only for the full range and with a new reference, read frees the buffer exactly when it was consumed completely, and the Reader's loop reads the first buffer only while data remains and room is left.",
		NotDecided:  []string{"exactly-once release over arbitrary sequences of Ref/Free/Slice/split by callers (needs ownership typing of all users)", "that user code does not read a buffer after freeing it"},
		Assumptions: []string{"sync.Pool and sync/atomic semantics"},
		Technique:   "static analysis: dominating guards and refusing-arm unreachability on go/ssa, who-may-call, pairing of root installation with reference increments (conservation), must-pass-through for zeroing, value-shape checks of returned slices",
		Run:         c53,
	})
}

func c53(c *Ctx) {
	fRefs := c.field(memp, "buffer", "refs")
	fRoot := c.field(memp, "buffer", "rootBuf")
	fPool := c.field(memp, "buffer", "pool")
	fOrig := c.field(memp, "buffer", "origData")
	fData := c.field(memp, "buffer", "data")
	addOn := func(recv VM, n int64) VM {
		return func(v ssa.Value) bool {
			call, ok := v.(*ssa.Call)
			if !ok || !CalleeX("sync/atomic", "Int32.Add")(&call.Call) || !ConstInt(n)(call.Call.Args[1]) {
				return false
			}
			fa, ok := call.Call.Args[0].(*ssa.FieldAddr)
			return ok && sameField(fieldOfAddr(fa), fRefs) && recv(fa.X)
		}
	}
	c.Ob("put-once", "R2", "buffer.Free: pool.Put(origData) only when the decremented count is 0, the buffer is its own root and pool != nil, then pool = nil; count < 0 panics; count > 0 changes nothing; non-root frees its root; BufferPool.Put has no other caller for buffer memory", 9, func() {
		f := c.fn(memp, "buffer.Free")
		dec := addOn(ParamV("b"), -1)
		put := one(c, "pool.Put in Free", callsIn(f, Callee(memp, "BufferPool.Put")))
		c.MustFact(put, "put-only-at-zero:not-positive", CmpInt(dec, token.LEQ, 0))
		c.MustFact(put, "put-only-at-zero:not-negative", CmpInt(dec, token.GEQ, 0))
		c.MustFact(put, "put-only-by-the-root", Cmp(FieldLoad(fRoot), token.EQL, ParamV("b")))
		c.MustFact(put, "put-only-with-a-pool", NotNil(FieldLoad(fPool)))
		c.ArgIs(put, 0, "puts-the-original-slice", FieldLoad(fOrig))
		c.Expect(FieldLoad(fPool)(put.Common().Value), put, f, "puts-into-the-buffer's-pool", "Put is invoked on something other than the buffer's pool")
		okClr := false
		for _, st := range storesToField(f, fPool) {
			if ConstNil(st.Val) && thenAlways(put, st) {
				okClr = true
			}
		}
		c.Expect(okClr, put, f, "pool-cleared-after-put", "the pool field is not cleared right after Put (a second Free could Put again)")
		c.Expect(len(instrsWhere(f, func(in ssa.Instruction) bool {
			call, ok := in.(*ssa.Call)
			return ok && addOn(AnyV, -1)(call)
		})) == 1, nil, f, "one-decrement", "Free does not decrement the count exactly once")
		np := 0
		for _, b := range f.Blocks {
			for _, in := range b.Instrs {
				switch x := in.(type) {
				case *ssa.Panic:
					np++
					c.MustFact(in, "negative-count-panics", CmpInt(dec, token.LSS, 0))
				case *ssa.Store:
					if _, ok := x.Addr.(*ssa.FieldAddr); ok {
						c.MustFact(in, "no-effect-while-referenced", CmpInt(dec, token.LEQ, 0))
						c.MustFact(in, "no-effect-after-double-free", CmpInt(dec, token.GEQ, 0))
					}
				}
			}
		}
		c.Expect(np == 1, nil, f, "double-free-panics", "expected one panic for a negative count")
		rf := one(c, "root Free", callsIn(f, Callee(memp, "buffer.Free")))
		c.MustFact(rf, "root-freed-only-by-non-root", Cmp(FieldLoad(fRoot), token.NEQ, ParamV("b")))
		c.MustFact(rf, "root-freed-only-at-zero", CmpInt(dec, token.LEQ, 0))
		c.ArgIs(rf, 0, "frees-its-root", FieldLoad(fRoot))
		// other Put callers: only ReadAll returning an unused read buffer it obtained itself
		for _, g := range c.scope(memp) {
			for _, ci := range callsIn(g, Callee(memp, "BufferPool.Put")) {
				if g == f {
					continue
				}
				c.inst("other BufferPool.Put <- " + c.siteStr(ci))
				if c.Expect(shortName(topFunc(g)) == memp+".ReadAll", ci, g, "other-put-site", "BufferPool.Put is called from an unreviewed site") {
					c.ArgIs(ci, 0, "ReadAll-returns-its-own-unused-buffer", AllOrigins(CallRes(Callee(memp, "BufferPool.Get"), 0)))
				}
			}
		}
	})
	c.Ob("derived-holds-root", "R12", "every buffer from the object pool gets count 1; installing another buffer as root (Slice, split) is preceded on the same path by an increment of that root's count; NewBuffer makes the buffer its own root", 8, func() {
		nNew := 0
		for _, g := range c.scope(memp) {
			for _, nb := range callsIn(g, Callee(memp, "newBuffer")) {
				nNew++
				c.inst("new buffer object <- " + c.siteStr(nb))
				okStore := false
				for _, ci := range callsIn(g, CalleeX("sync/atomic", "Int32.Store")) {
					if fa, ok := ci.Common().Args[0].(*ssa.FieldAddr); ok && sameField(fieldOfAddr(fa), fRefs) && fa.X == nb.Value() && ConstInt(1)(ci.Common().Args[1]) && instrDominates(nb, ci) {
						okStore = true
					}
				}
				c.Expect(okStore, nb, g, "new-buffer-count-1", "a buffer object is handed out without its count being set to 1")
			}
			for _, st := range storesToField(g, fRoot) {
				if ConstNil(st.Val) {
					continue
				}
				fa := st.Addr.(*ssa.FieldAddr)
				if st.Val == fa.X {
					continue // own root
				}
				c.inst("foreign root installed <- " + c.siteStr(st))
				ok := false
				for _, b := range g.Blocks {
					for _, in := range b.Instrs {
						call, isC := in.(*ssa.Call)
						if !isC || !instrDominates(in, st) {
							continue
						}
						if Callee(memp, "buffer.Ref")(&call.Call) && sameFieldOfSameBase(call.Call.Args[0], st.Val) {
							ok = true
						}
						if CalleeX("sync/atomic", "Int32.Add")(&call.Call) && ConstInt(1)(call.Call.Args[1]) {
							if ra, isF := call.Call.Args[0].(*ssa.FieldAddr); isF && sameField(fieldOfAddr(ra), fRefs) && sameFieldOfSameBase(ra.X, st.Val) {
								ok = true
							}
						}
					}
				}
				c.Expect(ok, st, g, "root-count-incremented-before-install", "a buffer is installed as the root of a new buffer without first taking a reference on it (the root could be released while the new buffer is live)")
				c.Expect(FieldLoad(fRoot)(st.Val), st, g, "root-is-the-parent's-root", "a derived buffer's root is not its parent's root")
			}
		}
		c.Expect(nNew >= 3, nil, nil, "new-buffer-sites", "fewer buffer creation sites than confirmed by reading")
		for _, fn := range []string{"buffer.ReadOnlyData", "buffer.Slice", "buffer.split", "buffer.read"} {
			f := c.fn(memp, fn)
			np := 0
			for _, b := range f.Blocks {
				for _, in := range b.Instrs {
					if _, ok := in.(*ssa.Panic); ok {
						np++
					}
				}
			}
			c.Expect(np >= 1, nil, f, fn+":freed-buffer-panics", "use of a freed buffer does not panic")
			for _, r := range returnsOf(f) {
				c.Unreachable(r, fn+":no-result-from-freed-buffer", IsNil(FieldLoad(fRoot)))
			}
		}
		rf := c.fn(memp, "buffer.Ref")
		for _, r := range returnsOf(rf) {
			c.Unreachable(r, "ref-of-freed-buffer-panics", CmpInt(addOn(ParamV("b"), 1), token.LEQ, 1))
		}
		for _, r := range returnsOf(rf) {
			if r.Block() != rf.Recover {
				c.EnteredOnlyWhen(r.Block(), "ref-succeeds-only-above-one", CmpInt(addOn(ParamV("b"), 1), token.GTR, 1))
			}
		}
		// Slice: the receiver itself is handed out only for the full range and only after taking a reference on it
		sf := c.fn(memp, "buffer.Slice")
		nSelf := 0
		for _, r := range returnsOf(sf) {
			mi, ok := r.Results[0].(*ssa.MakeInterface)
			if !ok || !ParamV("b")(mi.X) {
				continue
			}
			nSelf++
			c.MustFact(r, "slice:self-only-for-the-full-range", Cmp(LenOf(AnyV), token.EQL, LenOf(FieldLoad(fData))))
			okRef := false
			for _, ci := range callsIn(sf, Callee(memp, "buffer.Ref")) {
				if ParamV("b")(ci.Common().Args[0]) && instrDominates(ci, r) {
					okRef = true
				}
			}
			c.Expect(okRef, r, sf, "slice:self-returned-with-a-new-reference", "Slice returns the receiver without taking a reference (the caller's Free would release the original holder's reference)")
		}
		c.Expect(nSelf <= 1, nil, sf, "slice:one-self-arm", "more than one arm returns the receiver")
		// read: the buffer is released exactly when it was consumed completely, and only then is no remainder returned
		rd := c.fn(memp, "buffer.read")
		whole := Cmp(AnyV, token.EQL, LenOf(FieldLoad(fData)))
		nNil := 0
		for _, r := range returnsOf(rd) {
			if r.Block() == rd.Recover {
				continue
			}
			if ConstNil(r.Results[1]) {
				nNil++
				c.MustFact(r, "read:no-remainder-only-when-fully-consumed", whole)
				okFree := false
				for _, ci := range callsIn(rd, Callee(memp, "buffer.Free")) {
					if ParamV("b")(ci.Common().Args[0]) && instrDominates(ci, r) {
						okFree = true
					}
				}
				c.Expect(okFree, r, rd, "read:consumed-buffer-freed", "a fully consumed buffer is dropped without being freed (its memory never returns to the pool)")
			} else {
				c.Unreachable(r, "read:remainder-not-returned-after-free", whole)
			}
		}
		c.Expect(nNil == 1, nil, rd, "read:one-consumed-arm", "expected one fully-consumed arm in buffer.read")
		for _, ci := range callsIn(rd, Callee(memp, "buffer.Free")) {
			c.MustFact(ci, "read:freed-only-when-fully-consumed", whole)
		}
	})
	c.Ob("reader-accounting", "R12", "Reader.Read/Discard: remaining length and in-buffer index move by the same amount; the first buffer is freed exactly where it is dropped from the list and the index reset", 6, func() {
		fLen := c.field(memp, "Reader", "len")
		fIdx := c.field(memp, "Reader", "bufferIdx")
		fRD := c.field(memp, "Reader", "data")
		for _, fn := range []string{"Reader.Read", "Reader.Discard"} {
			f := c.fn(memp, fn)
			ls, is := storesToField(f, fLen), storesToField(f, fIdx)
			var adv *ssa.Store
			for _, s := range is {
				if !ConstInt(0)(s.Val) {
					adv = s
				}
			}
			if !c.Expect(len(ls) == 1 && adv != nil, nil, f, fn+":len-and-index-updated", "expected one remaining-length update and one index advance") {
				continue
			}
			lb, ok1 := ls[0].Val.(*ssa.BinOp)
			ib, ok2 := adv.Val.(*ssa.BinOp)
			c.Expect(ok1 && ok2 && lb.Op == token.SUB && ib.Op == token.ADD && FieldLoad(fLen)(lb.X) && FieldLoad(fIdx)(ib.X) && lb.Y == ib.Y && together(ls[0], adv), ls[0], f, fn+":same-amount", "remaining length and buffer index are not moved by the same amount")
		}
		for _, fn := range []string{"Reader.freeFirstBufferIfEmpty", "Reader.Discard"} {
			f := c.fn(memp, fn)
			fr := one(c, "Free in "+fn, callsIn(f, Callee(memp, "Buffer.Free")))
			u, ok := fr.Common().Value.(*ssa.UnOp)
			okFirst := false
			if ok {
				if ia, ok := u.X.(*ssa.IndexAddr); ok {
					okFirst = FieldLoad(fRD)(ia.X) && ConstInt(0)(ia.Index)
				}
			}
			c.Expect(okFirst, fr, f, fn+":frees-the-first-buffer", "the freed buffer is not the first of the list")
			okDrop, okReset := false, false
			for _, st := range storesToField(f, fRD) {
				if sl, ok := st.Val.(*ssa.Slice); ok && ConstInt(1)(sl.Low) && sl.High == nil && thenAlways(fr, st) {
					okDrop = true
				}
			}
			for _, st := range storesToField(f, fIdx) {
				if ConstInt(0)(st.Val) && together(st, fr) {
					okReset = true
				}
			}
			c.Expect(okDrop && okReset, fr, f, fn+":freed-buffer-dropped", "the freed buffer stays in the reader's list or the index is not reset")
			c.MustFactAny(fr, fn+":freed-only-when-exhausted", Cmp(FieldLoad(fIdx), token.EQL, AnyV), Cmp(FieldLoad(fIdx), token.GEQ, AnyV))
			if fn == "Reader.freeFirstBufferIfEmpty" {
				c.MustFact(fr, fn+":first-buffer-exists", CmpInt(LenOf(FieldLoad(fRD)), token.NEQ, 0))
			}
		}
		// Read: end of data is reported only when nothing remains; the first buffer is accessed only while data remains and room is left
		rr := c.fn(memp, "Reader.Read")
		for _, r := range returnsOf(rr) {
			if r.Block() != rr.Recover && !ConstNil(r.Results[1]) {
				c.MustFact(r, "Read:EOF-only-when-empty", CmpInt(FieldLoad(fLen), token.EQL, 0))
			}
		}
		for _, ci := range callsIn(rr, Callee(memp, "Buffer.ReadOnlyData")) {
			c.MustFact(ci, "Read:first-buffer-read-only-while-data-remains", CmpInt(FieldLoad(fLen), token.NEQ, 0))
			c.MustFact(ci, "Read:copies-only-while-room-is-left", CmpInt(LenOf(AnyV), token.NEQ, 0))
		}
	})
	c.Ob("zeroing", "R2", "pooled slices are cleared over their whole capacity before reuse on the shouldZero arm; clean constructors select zeroing, Dirty ones do not", 8, func() {
		for _, t := range []string{"sizedBufferPool", "SimpleBufferPool"} {
			f := c.fn(imemp, t+".Get")
			fZ := c.field(imemp, t, "shouldZero")
			var clr *ssa.Call
			for _, in := range instrsWhere(f, func(in ssa.Instruction) bool {
				call, ok := in.(*ssa.Call)
				return ok && BuiltinCall("clear")(&call.Call)
			}) {
				clr = in.(*ssa.Call)
			}
			if !c.Expect(clr != nil, nil, f, t+":clears", "pooled memory is never cleared") {
				continue
			}
			sl, ok := clr.Call.Args[0].(*ssa.Slice)
			okCap := false
			if ok && sl.Low == nil && sl.High != nil {
				if cc := builtinCall(sl.High, "cap"); cc != nil {
					okCap = sameValue(cc.Call.Args[0], sl.X) || cc.Call.Args[0] == sl.X || sameLoadNoStoreBetween(cc.Call.Args[0], sl.X)
				}
			}
			c.Expect(okCap, clr, f, t+":clears-whole-capacity", "the clear does not cover the slice's whole capacity (old data beyond len would leak on a later reslice)")
			pooled := Truth(TypeAssertOk(func(types.Type) bool { return true }), true)
			c.MustFact(clr, t+":clears-pooled-slices", pooled)
			st := edgeTargetsWhere(f, Truth(FieldLoad(fZ), true))
			if c.Expect(len(st) == 1, clr, f, t+":zeroing-arm", "zeroing arm not found") {
				c.MustPass(t+":cleared-before-handed-out", pathQuery{Fn: f, StartBlocks: st, Barrier: func(in ssa.Instruction) bool { return in == ssa.Instruction(clr) }, Target: isReturn}, nil)
			}
			// pooled memory reaches a return only through the shouldZero decision
			pst := edgeTargetsWhere(f, pooled)
			if c.Expect(len(pst) >= 1, clr, f, t+":pooled-arm", "pooled arm not found") {
				c.MustPass(t+":pooled-slice-passes-the-zero-decision", pathQuery{Fn: f, StartBlocks: pst, Barrier: func(in ssa.Instruction) bool {
					i, ok := in.(*ssa.If)
					return ok && FieldLoad(fZ)(i.Cond)
				}, Target: func(in ssa.Instruction) bool {
					r, ok := in.(*ssa.Return)
					return ok && !isFreshSlicePtr(r.Results[0])
				}}, nil)
			}
		}
		// constructors
		zarg := func(fn string, want bool) {
			f := c.fn(imemp, fn)
			n := 0
			for _, g := range append([]*ssa.Function{f}, f.AnonFuncs...) {
				for _, ci := range callsIn(g, Callee(imemp, "newSizedBufferPool")) {
					n++
					c.ArgIs(ci, 1, fn+":sized-pools-zeroing", ConstBool(want))
				}
				for _, st := range storesToField(g, c.field(imemp, "SimpleBufferPool", "shouldZero")) {
					n++
					c.ValueIs(st, st.Val, fn+":fallback-pool-zeroing", ConstBool(want))
				}
			}
			if want {
				c.Expect(n == 2, nil, f, fn+":both-pool-kinds-configured", "expected sized and fallback pools to be configured for zeroing")
			}
		}
		zarg("NewBinaryTieredBufferPool", true)
		zarg("NewTieredBufferPool", true)
		zarg("NewDirtyBinaryTieredBufferPool", false)
		for _, st := range storesToField(c.fn(imemp, "NewDirtySimplePool"), c.field(imemp, "SimpleBufferPool", "shouldZero")) {
			c.ValueIs(st, st.Val, "dirty-simple-pool", ConstBool(false))
		}
		for _, st := range storesToField(c.fn(imemp, "newSizedBufferPool"), c.field(imemp, "sizedBufferPool", "shouldZero")) {
			c.ValueIs(st, st.Val, "sized-pool-takes-the-flag", ParamV("zero"))
		}
	})
	c.Ob("get-len", "R5", "Get(size): fresh make([]byte, size, ...) or pooled slice resliced [:size]; sized pool keeps only slices with cap >= its size; simple pool reuses only when cap >= size", 8, func() {
		for _, t := range []string{"sizedBufferPool", "SimpleBufferPool", "NopBufferPool"} {
			f := c.fn(imemp, t+".Get")
			pn := "size"
			if t == "NopBufferPool" {
				pn = "length"
			}
			n := 0
			for _, b := range f.Blocks {
				for _, in := range b.Instrs {
					switch x := in.(type) {
					case *ssa.MakeSlice:
						n++
						c.Expect(ParamV(pn)(x.Len), in, f, t+":fresh-slice-has-requested-length", "a fresh slice is made with a length other than the requested one")
					case *ssa.Store:
						if sl, ok := x.Val.(*ssa.Slice); ok && !isVarargs(sl) {
							n++
							c.Expect(sl.Low == nil && sl.High != nil && ParamV(pn)(sl.High), in, f, t+":pooled-slice-resliced-to-requested-length", "a pooled slice is not resliced to [:size]")
							if t == "SimpleBufferPool" {
								c.MustFact(in, t+":reused-only-if-large-enough", Cmp(AnyV, token.GEQ, ParamV(pn)))
							}
						}
					}
				}
			}
			c.Expect(n >= 1, nil, f, t+":get-shapes", "no slice construction found")
		}
		sp := c.fn(imemp, "sizedBufferPool.Put")
		pp := one(c, "sync.Pool.Put in sizedBufferPool.Put", callsIn(sp, CalleeX("sync", "Pool.Put")))
		c.Unreachable(pp, "undersized-slices-dropped", Cmp(AnyV, token.LSS, FieldLoad(c.field(imemp, "sizedBufferPool", "defaultSize"))))
		sg := c.fn(imemp, "sizedBufferPool.Get")
		for _, b := range sg.Blocks {
			for _, in := range b.Instrs {
				if mk, ok := in.(*ssa.MakeSlice); ok {
					c.Expect(FieldLoad(c.field(imemp, "sizedBufferPool", "defaultSize"))(mk.Cap), in, sg, "sized:fresh-capacity-is-tier-size", "fresh slices of a sized pool do not have the tier capacity")
				}
			}
		}
	})
	_ = fData
}

func isFreshSlicePtr(v ssa.Value) bool {
	al, ok := v.(*ssa.Alloc)
	if !ok {
		return false
	}
	for _, st := range storesTo(al) {
		if _, ok := st.Val.(*ssa.MakeSlice); ok {
			return true
		}
	}
	return false
}

func isVarargs(sl *ssa.Slice) bool {
	al, ok := sl.X.(*ssa.Alloc)
	return ok && al.Comment == "varargs"
}

// sameLoadNoStoreBetween: two loads of the same address in one block with no store to it in between.
func sameLoadNoStoreBetween(a, b ssa.Value) bool {
	ua, ok1 := a.(*ssa.UnOp)
	ub, ok2 := b.(*ssa.UnOp)
	if !ok1 || !ok2 || ua.X != ub.X || ua.Block() != ub.Block() {
		return false
	}
	lo, hi := instrIndex(ua), instrIndex(ub)
	if lo > hi {
		lo, hi = hi, lo
	}
	for _, in := range ua.Block().Instrs[lo:hi] {
		if st, ok := in.(*ssa.Store); ok && st.Addr == ua.X {
			return false
		}
		if _, ok := in.(*ssa.Call); ok {
			// a call could write through the pointer; builtins cannot
			if c := in.(*ssa.Call); c.Call.IsInvoke() || c.Call.StaticCallee() != nil {
				return false
			}
		}
	}
	return true
}
