package main

import (
	"go/token"
	"go/types"

	"golang.org/x/tools/go/ssa"
)

func init() {
	register(&PropDef{
		ID:    "C57",
		Pkgs:  []string{"internal/cache", "internal/grpcsync"},
		Claim: "Decides the structural part: the expiry closure of the timeout cache invokes the entry's callback only when the entry was not marked deleted (flag read under the cache mutex), after removing it from the map, and outside the lock; removal marks the entry deleted on every path where the timer could not be stopped; the callback is invoked nowhere else except Clear(runCallback=true) on entries it removed itself; the one-shot event closes its channel and reports true only on the winning compare-and-swap; a reference is added only by a successful CAS from a positive count and the zero callback runs exactly on the decrement that reaches zero.",
		NotDecided:  []string{"exactly-once over all interleavings of timer expiry, Remove and Clear (schedule property; only the single-taker shape is decided)"},
		Assumptions: []string{"time.Timer.Stop reports false iff the function has started or already been stopped", "sync/atomic CAS semantics"},
		Technique:   "static analysis: dominating guards on go/ssa branch facts, must-lockset, must-pass-through path search, who-may-call on func-typed fields",
		Run:         c57,
	})
}

func c57(c *Ctx) {
	const cp = "internal/cache"
	fCb := c.field(cp, "cacheEntry", "callback")
	fDel := c.field(cp, "cacheEntry", "deleted")
	fCache := c.field(cp, "TimeoutCache", "cache")
	mu := c.field(cp, "TimeoutCache", "mu")
	c.Ob("cache-callback", "R2", "expiry closure: callback only if !deleted (read under mu), after delete from the map, outside mu; callback invoked only there and in Clear", 8, func() {
		add := c.fn(cp, "TimeoutCache.Add")
		cls := closuresPassedTo(add, CalleeX("time", "AfterFunc"), 1)
		exp := one(c, "closure passed to time.AfterFunc in Add", cls)
		cb := one(c, "callback invocation in the expiry closure", callsIn(exp, FieldCall(fCb)))
		c.MustFact(cb, "entry-not-deleted", Truth(FieldLoad(fDel), false))
		ls := locksets(exp, lockOpts{})
		c.Expect(!ls[cb][mu], cb, exp, "callback-outside-lock", "the callback runs with the cache mutex held")
		for _, rd := range readsOf(exp, fDel) {
			c.Expect(ls[rd][mu], rd, exp, "deleted-read-under-mu", "the deleted flag is read without the cache mutex")
		}
		var dels []ssa.Instruction
		for _, m := range mutationsOf(exp, fCache) {
			if m.Kind == "delete" {
				dels = append(dels, m.Instr)
			}
		}
		del := one(c, "delete(c.cache, key) in the expiry closure", dels)
		c.Expect(ls[del][mu], del, exp, "delete-under-mu", "the map entry is deleted without the cache mutex")
		c.Dominates(del, cb, "removed-from-map-before-callback")
		c.WhoMayCall("cacheEntry.callback", FieldCall(fCb), c.scope(cp), "internal/cache.TimeoutCache.Add", "internal/cache.TimeoutCache.Clear")
		// insertion only when the key is absent
		var ins []ssa.Instruction
		for _, m := range mutationsOf(add, fCache) {
			if m.Kind == "mapupdate" {
				ins = append(ins, m.Instr)
			}
		}
		in := one(c, "insertion into the cache map", ins)
		c.MustFact(in, "no-existing-entry", Truth(CommaOkOf(FieldLoad(fCache)), false))
		// the timer of the inserted entry is the one created with the expiry closure
		c.Expect(len(callsIn(add, CalleeX("time", "AfterFunc"))) == 1, nil, add, "one-timer", "expected exactly one timer per added entry")
	})
	c.Ob("remove-marks-deleted", "R3", "removal: on every path where timer.Stop() reported false the entry is marked deleted before returning; removal deletes the map entry; removal helpers run under mu", 4, func() {
		ri := c.fn(cp, "TimeoutCache.removeInternal")
		stop := one(c, "timer.Stop call", callsIn(ri, CalleeX("time", "Timer.Stop")))
		stopped := CallRes(CalleeX("time", "Timer.Stop"), 0)
		mark := func(in ssa.Instruction) bool {
			st, ok := in.(*ssa.Store)
			return ok && FieldAddrOf(fDel)(st.Addr) && ConstBool(true)(st.Val)
		}
		q := pathQuery{Fn: ri, Starts: []ssa.Instruction{stop}, Barrier: mark, Target: isReturn,
			EdgeBlock: func(from, to *ssa.BasicBlock) bool {
				_, ok := hasFact(edgeFacts(from, to), Truth(stopped, true))
				return ok
			}}
		c.MustPass("unstoppable-timer-marks-deleted", q, stop)
		var dels []ssa.Instruction
		for _, m := range mutationsOf(ri, fCache) {
			if m.Kind == "delete" {
				dels = append(dels, m.Instr)
			}
		}
		del := one(c, "delete in removeInternal", dels)
		c.MustFact(del, "entry-present", Truth(CommaOkOf(FieldLoad(fCache)), true))
		c.GuardedBy(GuardSpec{Label: "cache-map", Mu: mu, Fields: []*types.Var{fCache}, Scope: c.scope(cp),
			Locked: map[string]bool{"internal/cache.TimeoutCache.removeInternal": true}})
		c.WhoMayMutate("cacheEntry.deleted", fDel, c.scope(cp), "internal/cache.TimeoutCache.removeInternal")
		// entries leave the map, and timers are stopped, only through the paths that honour the deleted flag
		c.WhoMayMutate("TimeoutCache.cache", fCache, c.scope(cp), "internal/cache.NewTimeoutCache", "internal/cache.TimeoutCache.Add", "internal/cache.TimeoutCache.removeInternal")
		c.WhoMayCall("Timer.Stop", CalleeX("time", "Timer.Stop"), c.scope(cp), "internal/cache.TimeoutCache.removeInternal")
		// Clear: callbacks only when requested, only for entries it removed itself
		cl := c.fn(cp, "TimeoutCache.Clear")
		for _, cb := range callsIn(cl, FieldCall(fCb)) {
			c.MustFact(cb, "only-if-runCallback", Truth(ParamV("runCallback"), true))
			lsc := locksets(cl, lockOpts{})
			c.Expect(!lsc[cb][mu], cb, cl, "clear-callback-outside-lock", "Clear runs callbacks with the mutex held")
		}
		for _, in := range instrsWhere(cl, func(in ssa.Instruction) bool {
			call, ok := in.(*ssa.Call)
			return ok && BuiltinCall("append")(&call.Call)
		}) {
			c.MustFact(in, "collected-only-if-removed-by-clear", Truth(CallRes(Callee(cp, "TimeoutCache.removeInternal"), 1), true))
		}
	})
	c.Ob("event", "R11", "one-shot event: the channel close and the 'true' result are on the successful CompareAndSwap(false,true) arm; nothing else closes the channel", 3, func() {
		f := c.fn("internal/grpcsync", "Event.Fire")
		fC := c.field("internal/grpcsync", "Event", "c")
		casOK := func(v ssa.Value) bool {
			call, ok := strip(v).(*ssa.Call)
			if !ok || !CalleeX("sync/atomic", "Bool.CompareAndSwap")(&call.Call) {
				return false
			}
			return ConstBool(false)(call.Call.Args[1]) && ConstBool(true)(call.Call.Args[2])
		}
		cl := one(c, "close(e.c) in Fire", callsIn(f, BuiltinCall("close")))
		c.MustFact(cl, "won-the-cas", Truth(casOK, true))
		c.ArgIs(cl, 0, "closes-the-event-channel", FieldLoad(fC))
		for _, r := range returnsOf(f) {
			if ConstBool(true)(r.Results[0]) {
				c.MustFact(r, "true-only-for-winner", Truth(casOK, true))
			} else {
				c.MustFact(r, "false-only-for-loser", Truth(casOK, false))
			}
		}
		for _, fn := range c.scope("internal/grpcsync") {
			for _, m := range mutationsOf(fn, fC) {
				if m.Kind == "close" {
					c.Expect(fn == f, m.Instr, fn, "only-Fire-closes", "the event channel is closed outside Fire")
				}
			}
		}
	})
	c.Ob("refcount", "R11", "TryIncrement succeeds only through CompareAndSwap(count, count+1) with count > 0 and never adds unconditionally; Decrement runs the zero callback exactly when Add(-1) returned 0; the zero callback is invoked nowhere else", 5, func() {
		const gp = "internal/grpcsync"
		f := c.fn(gp, "RefCounted.TryIncrement")
		load := CallRes(CalleeX("sync/atomic", "Int32.Load"), 0)
		casOK := func(v ssa.Value) bool {
			call, ok := strip(v).(*ssa.Call)
			if !ok || !CalleeX("sync/atomic", "Int32.CompareAndSwap")(&call.Call) {
				return false
			}
			return load(call.Call.Args[1]) && BinOpV(token.ADD, load, ConstInt(1))(call.Call.Args[2])
		}
		n := 0
		for _, r := range returnsOf(f) {
			if ConstBool(true)(r.Results[0]) {
				n++
				c.MustFact(r, "true-only-after-cas", Truth(casOK, true))
				c.MustFact(r, "only-from-positive-count", CmpInt(load, token.GTR, 0))
			}
		}
		c.Expect(n == 1, nil, f, "one-success-return", "expected one 'true' return in TryIncrement")
		c.Expect(len(callsIn(f, CalleeX("sync/atomic", "Int32.Add"))) == 0, nil, f, "no-unconditional-add", "TryIncrement adds to the counter unconditionally")
		for _, b := range blocksWhere(f, CmpInt(load, token.LEQ, 0)) {
			for _, in := range b.Instrs {
				if r, ok := in.(*ssa.Return); ok {
					c.Expect(ConstBool(false)(r.Results[0]), r, f, "dead-count-refused", "a non-positive count is not refused")
				}
			}
		}
		d := c.fn(gp, "RefCounted.Decrement")
		fZero := c.field(gp, "RefCounted", "onZero")
		dec := func(v ssa.Value) bool {
			call, ok := strip(v).(*ssa.Call)
			return ok && CalleeX("sync/atomic", "Int32.Add")(&call.Call) && ConstInt(-1)(call.Call.Args[1])
		}
		oz := one(c, "onZero invocation in Decrement", callsIn(d, FieldCall(fZero)))
		c.MustFact(oz, "exactly-at-zero", CmpInt(dec, token.EQL, 0))
		c.WhoMayCall("onZero", FieldCall(fZero), c.scope(gp), "internal/grpcsync.RefCounted.Decrement")
		// when the decrement reaches zero the callback is not skipped
		var decI ssa.Instruction
		for _, in := range instrsWhere(d, func(in ssa.Instruction) bool { v, ok := in.(ssa.Value); return ok && dec(v) }) {
			decI = in
		}
		if decI == nil {
			panic(missingStep{"no Add(-1) in Decrement"})
		}
		q := pathQuery{Fn: d, Starts: []ssa.Instruction{decI}, Barrier: isCallTo(FieldCall(fZero)), Target: isReturn,
			EdgeBlock: func(from, to *ssa.BasicBlock) bool {
				fs := edgeFacts(from, to)
				if _, ok := hasFact(fs, CmpInt(dec, token.NEQ, 0)); ok {
					return true
				}
				_, ok := hasFact(fs, CmpInt(dec, token.LSS, 0))
				return ok
			}}
		c.MustPass("zero-always-runs-callback", q, decI)
	})
}
