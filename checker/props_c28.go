package main

import (
	"go/token"
	"go/types"

	"golang.org/x/tools/go/ssa"
)

const mdp = "metadata"

func init() {
	register(&PropDef{
		ID:    "C28",
		Pkgs:  []string{mdp},
		Claim: "Decides the structural part: every key used by Get/Set/Append/Delete/New/Pairs/AppendToOutgoingContext and the context readers to index, insert into or delete from a metadata map is the strings.ToLower of the caller's key (or compared with EqualFold); every []string handed out by the context readers and Copy (returned directly or stored in the returned map) is freshly allocated (copyOf, make, or append onto a fresh slice) and never a slice taken from the metadata stored in the context; an insertion under a lower-cased key of a foreign map accumulates or happens only when the key is not present yet (no pair is lost when two keys differ only in case); the readers copy base values before appended pairs and Join appends in argument order; Pairs and AppendToOutgoingContext reject an odd number of arguments.",
		NotDecided:  []string{"agreement of the fast ValueFrom… lookups with the full lookups for all inputs (value equality)", "relative order of values merged from keys that differ only in case (map iteration order)"},
		Assumptions: []string{"strings.ToLower/EqualFold semantics"},
		Technique:   "static analysis: sanitiser-before-sink on map keys, value-origin (fresh-slice) analysis through phis and append chains over go/ssa, check-then-insert guards",
		Run:         c28,
	})
}

// freshSlice: the slice value is nil, freshly allocated, or built by append on a fresh base.
// localMaps are maps allocated in the same function (their elements were stored by this function and are checked separately).
func freshSlice(v ssa.Value, seen map[ssa.Value]bool) bool {
	v = stripFloatConv(v)
	if seen[v] {
		return true
	}
	seen[v] = true
	switch x := v.(type) {
	case *ssa.Const:
		return x.Value == nil
	case *ssa.MakeSlice:
		return true
	case *ssa.Slice:
		// slicing a fresh array/slice
		if _, ok := x.X.(*ssa.Alloc); ok {
			return true
		}
		return freshSlice(x.X, seen)
	case *ssa.Call:
		if b, ok := x.Call.Value.(*ssa.Builtin); ok && b.Name() == "append" {
			return freshSlice(x.Call.Args[0], seen)
		}
		return calleeName(&x.Call) == "metadata.copyOf"
	case *ssa.Phi:
		for _, e := range x.Edges {
			if !freshSlice(e, seen) {
				return false
			}
		}
		return true
	case *ssa.Lookup:
		_, ok := x.X.(*ssa.MakeMap)
		return ok
	case *ssa.Extract:
		if l, ok := x.Tuple.(*ssa.Lookup); ok && x.Index == 0 {
			_, ok := l.X.(*ssa.MakeMap)
			return ok
		}
	case *ssa.UnOp:
		if x.Op == token.MUL {
			if a, ok := x.X.(*ssa.Alloc); ok {
				for _, st := range storesTo(a) {
					if !freshSlice(st.Val, seen) {
						return false
					}
				}
				return len(storesTo(a)) > 0
			}
		}
	}
	return false
}

func c28(c *Ctx) {
	lower := CallRes(CalleeX("strings", "ToLower"), 0)
	c.Ob("lowercase-keys", "R9", "MD methods and constructors: the key of every map index / insertion / deletion is strings.ToLower(input key); AppendToOutgoingContext lower-cases the keys it stores", 9, func() {
		for _, name := range []string{"MD.Get", "MD.Set", "MD.Append", "MD.Delete", "New", "Pairs"} {
			f := c.fn(mdp, name)
			n := 0
			for _, b := range f.Blocks {
				for _, in := range b.Instrs {
					switch x := in.(type) {
					case *ssa.Lookup:
						if _, isMap := x.X.Type().Underlying().(*types.Map); isMap {
							n++
							c.ValueIs(in, x.Index, name+"-lookup-key-lowercased", lower)
						}
					case *ssa.MapUpdate:
						n++
						c.ValueIs(in, x.Key, name+"-insert-key-lowercased", lower)
					case *ssa.Call:
						if BuiltinCall("delete")(&x.Call) {
							n++
							c.ValueIs(in, x.Call.Args[1], name+"-delete-key-lowercased", lower)
						}
					}
				}
			}
			c.Expect(n >= 1, nil, f, name+"-touches-map", name+" has no map access")
		}
		ap := c.fn(mdp, "AppendToOutgoingContext")
		apc := 0
		for _, ci := range callsIn(ap, CalleeX("strings", "ToLower")) {
			apc++
			_ = ci
		}
		c.Expect(apc == 1, nil, ap, "appended-keys-lowercased", "AppendToOutgoingContext does not lower-case the keys it stores")
		vo := c.fn(mdp, "ValueFromOutgoingContext")
		for _, in := range instrsWhere(vo, func(in ssa.Instruction) bool { l, ok := in.(*ssa.Lookup); return ok && func() bool { _, m := l.X.Type().Underlying().(*types.Map); return m }() }) {
			c.ValueIs(in, in.(*ssa.Lookup).Index, "fast-lookup-key-lowercased", lower)
		}
		for _, name := range []string{"ValueFromOutgoingContext", "ValueFromIncomingContext"} {
			f := c.fn(mdp, name)
			c.Expect(len(callsIn(f, CalleeX("strings", "EqualFold"))) >= 1, nil, f, "case-insensitive-fallback", name+" has no case-insensitive comparison for maps not built with the helpers")
		}
	})
	c.Ob("value-lookup-complete", "R3", "ValueFromOutgoingContext / ValueFromIncomingContext: when the exact (lower-cased) lookup in the base metadata misses, the case-insensitive scan of the base metadata is made on every path before the function returns — also when appended pairs already matched — so the single-key readers see the same base values as the full readers", 2, func() {
		for _, name := range []string{"ValueFromOutgoingContext", "ValueFromIncomingContext"} {
			f := c.fn(mdp, name)
			var exact *ssa.Lookup
			for _, in := range instrsWhere(f, func(in ssa.Instruction) bool {
				l, ok := in.(*ssa.Lookup)
				if !ok || !l.CommaOk {
					return false
				}
				_, m := l.X.Type().Underlying().(*types.Map)
				return m
			}) {
				exact = in.(*ssa.Lookup)
			}
			var scan ssa.Instruction
			for _, in := range instrsWhere(f, func(in ssa.Instruction) bool {
				r, ok := in.(*ssa.Range)
				if !ok {
					return false
				}
				_, m := r.X.Type().Underlying().(*types.Map)
				return m
			}) {
				scan = in
			}
			if !c.Expect(exact != nil && scan != nil, nil, f, name+":lookup-then-scan", "expected an exact lookup and a case-insensitive scan of the base metadata") {
				continue
			}
			hit := Truth(ExtractOf(func(v ssa.Value) bool { return v == ssa.Value(exact) }, 1), true)
			c.MustPass(name+":miss-always-scans-the-base-metadata", pathQuery{Fn: f, Starts: []ssa.Instruction{exact}, Barrier: func(in ssa.Instruction) bool { return in == scan }, Target: isReturn,
				EdgeBlock: func(from, to *ssa.BasicBlock) bool {
					_, ok := hasFact(edgeFacts(from, to), hit)
					return ok
				}}, scan)
		}
	})
	c.Ob("copy-out", "R8", "context readers and Copy: every slice returned, and every slice stored into the returned map, is freshly allocated; AppendToOutgoingContext stores copies of the pairs and of the list of earlier appends", 8, func() {
		for _, name := range []string{"FromIncomingContext", "FromOutgoingContext", "MD.Copy", "Join", "ValueFromIncomingContext", "ValueFromOutgoingContext"} {
			f := c.fn(mdp, name)
			n := 0
			for _, b := range f.Blocks {
				for _, in := range b.Instrs {
					switch x := in.(type) {
					case *ssa.MapUpdate:
						if _, ok := x.Map.(*ssa.MakeMap); ok {
							n++
							c.inst("stored slice <- " + c.siteStr(in))
							c.nontrivial(name + c.P.Pos(in.Pos()))
							if !freshSlice(x.Value, map[ssa.Value]bool{}) {
								c.violate(in, f, "stored-slice-aliases-context", "a slice stored in the returned metadata is not a fresh copy (it aliases metadata kept in the context or passed by the caller)", nil)
							}
						}
					case *ssa.Return:
						if len(x.Results) > 0 {
							if _, isSlice := x.Results[0].Type().Underlying().(*types.Slice); isSlice {
								n++
								c.inst("returned slice <- " + c.siteStr(in))
								c.nontrivial(name + "ret" + c.P.Pos(in.Pos()))
								if !freshSlice(x.Results[0], map[ssa.Value]bool{}) {
									c.violate(in, f, "returned-slice-aliases-context", "the returned slice can alias (share the backing array of) the metadata stored in the context", nil)
								}
							}
						}
					}
				}
			}
			c.Expect(n >= 1, nil, f, name+"-has-output", name+": no output site found")
		}
		ap := c.fn(mdp, "AppendToOutgoingContext")
		c.Expect(len(instrsWhere(ap, func(in ssa.Instruction) bool { _, ok := in.(*ssa.MakeSlice); return ok })) >= 2, nil, ap, "append-copies-pairs-and-history", "AppendToOutgoingContext does not allocate fresh slices for the pairs and the history of appends")
		c.Expect(len(callsIn(ap, BuiltinCall("copy"))) == 1, nil, ap, "history-copied", "the list of earlier appends is not copied")
	})
	c.Ob("lossy-key-accumulate", "R12", "sibling rule: an insertion under a lower-cased key into the result map accumulates (append onto the current value) or is made only when the key is absent, so two source keys that differ only in case never overwrite each other", 6, func() {
		for _, name := range []string{"New", "Pairs", "Join", "FromIncomingContext", "FromOutgoingContext"} {
			f := c.fn(mdp, name)
			for _, in := range instrsWhere(f, func(in ssa.Instruction) bool { mu, ok := in.(*ssa.MapUpdate); return ok && func() bool { _, m := mu.Map.(*ssa.MakeMap); return m }() }) {
				mu := in.(*ssa.MapUpdate)
				c.inst("insertion <- " + c.siteStr(in))
				acc := false
				if call, ok := mu.Value.(*ssa.Call); ok && BuiltinCall("append")(&call.Call) {
					base := call.Call.Args[0]
					if l, ok := stripFloatConv(base).(*ssa.Lookup); ok && l.X == mu.Map && sameValue(l.Index, mu.Key) {
						acc = true
					}
					if e, ok := base.(*ssa.Extract); ok {
						if l, ok := e.Tuple.(*ssa.Lookup); ok && l.X == mu.Map && sameValue(l.Index, mu.Key) {
							acc = true
						}
					}
				}
				if acc {
					continue
				}
				absent := func(fc Fact) bool {
					if fc.Kind != "truth" || fc.Pol {
						return false
					}
					e, ok := fc.X.(*ssa.Extract)
					if !ok || e.Index != 1 {
						return false
					}
					l, ok := e.Tuple.(*ssa.Lookup)
					return ok && l.X == mu.Map && sameValue(l.Index, mu.Key)
				}
				c.nontrivial(name + c.P.Pos(in.Pos()))
				if _, ok := hasFact(FactsAt(in), absent); !ok {
					c.violate(in, f, "overwrites-under-lossy-key", "a value is stored under a lower-cased key without accumulating and without checking that the key is absent: pairs whose keys differ only in case overwrite each other", nil)
				}
			}
		}
	})
	c.Ob("order-and-arity", "R2", "FromOutgoingContext copies the base metadata before it appends the appended pairs (in slice order); Join iterates its arguments in order; Pairs and AppendToOutgoingContext panic exactly on an odd argument count", 4, func() {
		fo := c.fn(mdp, "FromOutgoingContext")
		fMd := c.field(mdp, "rawMD", "md")
		fAdded := c.field(mdp, "rawMD", "added")
		var baseR, addR ssa.Instruction
		for _, in := range instrsWhere(fo, func(in ssa.Instruction) bool { _, ok := in.(*ssa.Range); return ok }) {
			if DataDep(FieldLoad(fMd))(in.(*ssa.Range).X) || FieldLoad(fMd)(in.(*ssa.Range).X) {
				baseR = in
			}
		}
		for _, in := range instrsWhere(fo, func(in ssa.Instruction) bool {
			u, ok := in.(*ssa.UnOp)
			return ok && u.Op == token.MUL && FieldLoad(fAdded)(u)
		}) {
			addR = in
		}
		var addIns ssa.Instruction
		for _, in := range instrsWhere(fo, func(in ssa.Instruction) bool {
			mu, ok := in.(*ssa.MapUpdate)
			return ok && func() bool { call, ok := mu.Value.(*ssa.Call); return ok && BuiltinCall("append")(&call.Call) && len(call.Call.Args) > 1 }()
		}) {
			mu := in.(*ssa.MapUpdate)
			if call := mu.Value.(*ssa.Call); !DataDep(func(v ssa.Value) bool { _, ok := v.(*ssa.Next); return ok })(call.Call.Args[1]) {
				addIns = in
			}
		}
		if c.Expect(baseR != nil && addIns != nil, nil, fo, "base-and-appended-loops", "FromOutgoingContext: cannot find the base copy loop and the appended-pairs insertion") {
			c.Expect(instrDominates(baseR, addIns), addIns, fo, "base-before-appended", "appended pairs can be inserted before the base values were copied")
		}
		_ = addR
		for _, name := range []string{"Pairs", "AppendToOutgoingContext"} {
			f := c.fn(mdp, name)
			pn := instrsWhere(f, func(in ssa.Instruction) bool { _, ok := in.(*ssa.Panic); return ok })
			if c.Expect(len(pn) == 1, nil, f, name+"-one-panic", name+" should panic in exactly one place") {
				c.MustFact(pn[0], name+"-panic-only-on-odd", CmpInt(BinOpV(token.REM, LenOf(AnyV), ConstInt(2)), token.EQL, 1))
			}
		}
	})
}
