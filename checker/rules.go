package main

// Rule library (DESIGN §4): thin, typed wrappers that apply one rule kind to
// one site and record instance / violation in the current obligation.

import (
	"os"
	"fmt"
	"go/constant"
	"go/token"
	"go/types"
	"sort"
	"strings"

	"golang.org/x/tools/go/ssa"
)

type tokenPos = token.Pos

func factsStr(fs []Fact) string {
	var ss []string
	for _, f := range fs {
		if f.Kind == "truth" {
			// skip truths that also appear as cmp
			if b, ok := f.X.(*ssa.BinOp); ok && isCmp(b.Op) {
				continue
			}
			if u, ok := f.X.(*ssa.UnOp); ok && u.Op == token.NOT {
				continue
			}
		}
		ss = append(ss, f.String())
	}
	if len(ss) > 14 {
		ss = append(ss[:14], "…")
	}
	return "{" + strings.Join(ss, "; ") + "}"
}

func (c *Ctx) siteStr(in ssa.Instruction) string {
	return fmt.Sprintf("%s %s @%s", shortName(in.Parent()), instrStr(in), c.P.Pos(posOf(in)))
}

// MustFact (R2): the fact fm holds on every path reaching site.
func (c *Ctx) MustFact(site ssa.Instruction, label string, fm FM) bool {
	c.inst(label + " <- " + c.siteStr(site))
	c.nontrivial(label + fmt.Sprint(site.Pos()) + shortName(site.Parent()))
	fs := FactsAt(site)
	if _, ok := hasFact(fs, fm); ok {
		return true
	}
	c.violate(site, nil, label, fmt.Sprintf("guard %q does not dominate %s; facts holding here: %s", label, instrStr(site), factsStr(fs)), nil)
	return false
}

// MustFactAny: at least one of the facts holds (disjunctive guard).
func (c *Ctx) MustFactAny(site ssa.Instruction, label string, fms ...FM) bool {
	c.inst(label + " <- " + c.siteStr(site))
	c.nontrivial(label + fmt.Sprint(site.Pos()) + shortName(site.Parent()))
	fs := FactsAt(site)
	for _, fm := range fms {
		if _, ok := hasFact(fs, fm); ok {
			return true
		}
	}
	c.violate(site, nil, label, fmt.Sprintf("guard %q does not dominate %s; facts holding here: %s", label, instrStr(site), factsStr(fs)), nil)
	return false
}

// NoFact: the fact must NOT be implied at the site (used for "exactly on").
func (c *Ctx) HasFact(site ssa.Instruction, fm FM) bool {
	_, ok := hasFact(FactsAt(site), fm)
	return ok
}

// GatedBy (R2, dependence form): some conditional branch whose condition is in
// the dependence closure of src decides whether site executes (one of its
// arms cannot reach site).
func (c *Ctx) GatedBy(site ssa.Instruction, label string, src VM) bool {
	c.inst(label + " <- " + c.siteStr(site))
	c.nontrivial(label + fmt.Sprint(site.Pos()) + shortName(site.Parent()))
	if gatedBy(site, src) {
		return true
	}
	c.violate(site, nil, label, fmt.Sprintf("no branch depending on %q decides whether %s executes", label, instrStr(site)), nil)
	return false
}

func gatedBy(site ssa.Instruction, src VM) bool {
	fn := site.Parent()
	sb := site.Block()
	dep := Dep(src)
	for _, b := range fn.Blocks {
		cond := blockCond(b)
		if cond == nil || len(b.Succs) != 2 {
			continue
		}
		// b must be able to reach the site and one arm must not
		r0 := reachableBlocks(b.Succs[0])[sb]
		r1 := reachableBlocks(b.Succs[1])[sb]
		if r0 == r1 {
			continue
		}
		// the site must come after the branch: if site is in b itself it is not gated
		if b == sb {
			continue
		}
		if dep(cond) {
			return true
		}
	}
	return false
}

// MustPass (R3): no path matching the query reaches a target without
// crossing a barrier. Returns true when the obligation holds.
func (c *Ctx) MustPass(label string, q pathQuery, anchor ssa.Instruction) bool {
	c.inst(label + " in " + shortName(q.Fn))
	c.nontrivial(label + shortName(q.Fn) + fmt.Sprint(anchorPos(anchor)))
	w := q.search()
	if w == nil {
		return true
	}
	last := w[len(w)-1]
	c.violate(last, q.Fn, label, fmt.Sprintf("%s: a path reaches %s without passing through the required step", label, instrStr(last)), w)
	return false
}

func anchorPos(in ssa.Instruction) token.Pos {
	if in == nil {
		return 0
	}
	return in.Pos()
}

// Dominates (R3, order form): every execution of b is preceded by a.
func (c *Ctx) Dominates(a, b ssa.Instruction, label string) bool {
	c.inst(label + ": " + c.siteStr(a) + " before " + c.siteStr(b))
	c.nontrivial(label + fmt.Sprint(a.Pos(), b.Pos()))
	if instrDominates(a, b) {
		return true
	}
	c.violate(b, nil, label, fmt.Sprintf("%s: %s is not preceded on every path by %s", label, instrStr(b), instrStr(a)), nil)
	return false
}

// isCallTo returns a predicate on instructions for pathQuery barriers/targets.
func isCallTo(cm CM) func(ssa.Instruction) bool {
	return func(in ssa.Instruction) bool {
		ci, ok := in.(ssa.CallInstruction)
		return ok && cm(ci.Common())
	}
}

// isPlainCallTo excludes `go` statements (a spawned call has not run yet) but
// accepts defers when the target is a function exit.
func isCallOrDeferTo(cm CM) func(ssa.Instruction) bool {
	return func(in ssa.Instruction) bool {
		switch x := in.(type) {
		case *ssa.Call:
			return cm(&x.Call)
		case *ssa.Defer:
			return cm(&x.Call)
		}
		return false
	}
}

func isReturn(in ssa.Instruction) bool {
	_, ok := in.(*ssa.Return)
	return ok
}

func orInstr(ps ...func(ssa.Instruction) bool) func(ssa.Instruction) bool {
	return func(in ssa.Instruction) bool {
		for _, p := range ps {
			if p(in) {
				return true
			}
		}
		return false
	}
}

// provablyNonNil: the (error/pointer) value is non-nil at the instruction.
func provablyNonNil(v ssa.Value, at ssa.Instruction, depth int) bool {
	if depth > 5 {
		return false
	}
	switch x := v.(type) {
	case *ssa.MakeInterface:
		return true
	case *ssa.Alloc, *ssa.MakeClosure, *ssa.MakeMap, *ssa.MakeChan, *ssa.MakeSlice, *ssa.Function:
		return true
	case *ssa.Const:
		return x.Value != nil
	case *ssa.Call:
		n := calleeName(&x.Call)
		switch n {
		case "fmt.Errorf", "errors.New", "status.Errorf", "status.Error", "internal/status.Err", "internal/status.Errorf",
			"internal/transport.connectionErrorf", "internal/transport.ContextErr", "grpc.toRPCErr", "errors.Join":
			return true
		}
		// a call of a local closure (or a static function of the analysed program) all of whose returns are provably non-nil
		var callee *ssa.Function
		if mc, ok := x.Call.Value.(*ssa.MakeClosure); ok {
			callee, _ = mc.Fn.(*ssa.Function)
		} else if sc := x.Call.StaticCallee(); sc != nil && sc.Parent() != nil {
			callee = sc
		}
		if callee != nil && callee.Blocks != nil && callee.Signature.Results().Len() == 1 {
			all := true
			for _, r := range returnsOf(callee) {
				if callee.Recover != nil && r.Block() == callee.Recover {
					continue
				}
				if !provablyNonNil(r.Results[0], r, depth+1) {
					all = false
				}
			}
			if all {
				return true
			}
		}
	case *ssa.UnOp:
		if x.Op == token.MUL {
			if g, ok := x.X.(*ssa.Global); ok {
				if strings.HasPrefix(strings.ToLower(g.Name()), "err") {
					return true
				}
			}
			if a, ok := x.X.(*ssa.Alloc); ok {
				// flow-sensitive within the block: the latest store before the load
				// (the defer-spilled `*result = v; rundefers; load; return` shape)
				if lv := lastStoreBefore(x, a); lv != nil {
					return provablyNonNil(lv.Val, lv, depth+1)
				}
				sts := storesTo(a)
				if len(sts) == 0 {
					return false
				}
				for _, st := range sts {
					if !provablyNonNil(st.Val, st, depth+1) {
						// a store of nil (zero init) may still be dominated away by a fact below
						goto facts
					}
				}
				return true
			}
		}
	case *ssa.Phi:
		all := true
		for i, e := range x.Edges {
			pred := x.Block().Preds[i]
			if !provablyNonNil(e, pred.Instrs[len(pred.Instrs)-1], depth+1) {
				all = false
				break
			}
		}
		if all {
			return true
		}
	}
facts:
	if at != nil {
		for _, f := range FactsAt(at) {
			if f.Kind == "cmp" && f.Op == token.NEQ {
				if f.X == v && ConstNil(f.Y) || f.Y == v && ConstNil(f.X) {
					return true
				}
				// a fact about another load of the same local cell
				if sameCellLoad(f.X, v) && ConstNil(f.Y) || sameCellLoad(f.Y, v) && ConstNil(f.X) {
					return true
				}
			}
		}
	}
	return false
}

func sameCellLoad(a, b ssa.Value) bool {
	ua, ok1 := a.(*ssa.UnOp)
	ub, ok2 := b.(*ssa.UnOp)
	if !ok1 || !ok2 || ua.Op != token.MUL || ub.Op != token.MUL {
		return false
	}
	_, isAlloc := ua.X.(*ssa.Alloc)
	return isAlloc && ua.X == ub.X
}

// successReturns: returns whose result #idx (an error) is not provably non-nil.
func successReturns(fn *ssa.Function, idx int) []*ssa.Return {
	var out []*ssa.Return
	for _, r := range returnsOf(fn) {
		if idx < len(r.Results) && !provablyNonNil(r.Results[idx], r, 0) {
			out = append(out, r)
		}
	}
	return out
}

// WhoMayCall (R1): every call matching cm inside scope is located in a
// function whose top-level name (or exact closure name) is in allowed.
// Returns the sites.
func (c *Ctx) WhoMayCall(label string, cm CM, scope []*ssa.Function, allowed ...string) []ssa.CallInstruction {
	ok := map[string]bool{}
	for _, a := range allowed {
		ok[a] = true
	}
	var sites []ssa.CallInstruction
	for _, f := range scope {
		for _, ci := range callsIn(f, cm) {
			sites = append(sites, ci)
			c.inst(label + " <- " + c.siteStr(ci))
			if ok[shortName(f)] || ok[shortName(topFunc(f))] {
				continue
			}
			c.violate(ci, f, label, fmt.Sprintf("%s: call from %s, allowed only from %v", label, shortName(f), allowed), nil)
		}
	}
	return sites
}

// WhoMayMutate (R1): every mutation of field f inside scope lies in an allowed
// function. allowed maps function short name -> "" (any kind).
func (c *Ctx) WhoMayMutate(label string, f *types.Var, scope []*ssa.Function, allowed ...string) []Mutation {
	ok := map[string]bool{}
	for _, a := range allowed {
		ok[a] = true
	}
	var all []Mutation
	for _, fn := range scope {
		for _, m := range mutationsOf(fn, f) {
			all = append(all, m)
			c.inst(label + " " + m.Kind + " <- " + c.siteStr(m.Instr))
			if ok[shortName(fn)] || ok[shortName(topFunc(fn))] {
				continue
			}
			c.violate(m.Instr, fn, label, fmt.Sprintf("%s: %s of field %s in %s, allowed only in %v", label, m.Kind, f.Name(), shortName(fn), allowed), nil)
		}
	}
	return all
}

// ArgIs (R7/R8): argument idx of the call satisfies vm.
func (c *Ctx) ArgIs(site ssa.CallInstruction, idx int, label string, vm VM) bool {
	c.inst(label + " <- " + c.siteStr(site))
	args := site.Common().Args
	if site.Common().IsInvoke() {
		// invoke-mode args exclude the receiver
	}
	if idx >= len(args) {
		c.violate(site, nil, label, fmt.Sprintf("%s: call has no argument %d", label, idx), nil)
		return false
	}
	if vm(args[idx]) {
		return true
	}
	c.violate(site, nil, label, fmt.Sprintf("%s: argument %d of %s is %s, which does not have the required origin/value", label, idx, instrStr(site), valStr(args[idx])), nil)
	return false
}

// ValueIs: a value at a site satisfies vm.
func (c *Ctx) ValueIs(at ssa.Instruction, v ssa.Value, label string, vm VM) bool {
	c.inst(label + " <- " + c.siteStr(at))
	if vm(v) {
		return true
	}
	c.violate(at, nil, label, fmt.Sprintf("%s: value %s does not have the required origin/value", label, valStr(v)), nil)
	return false
}

// Expect: generic structural expectation.
func (c *Ctx) Expect(cond bool, at ssa.Instruction, fn *ssa.Function, label, why string) bool {
	where := shortName(fn)
	if at != nil {
		where = c.siteStr(at)
	}
	c.inst(label + " <- " + where)
	if !cond {
		c.violate(at, fn, label, label+": "+why, nil)
	}
	return cond
}

// scopeFuncs: all functions (with closures) of the listed packages that are
// loaded; in thorough tier "*" means the whole module.
func (c *Ctx) scope(pkgs ...string) []*ssa.Function {
	var out []*ssa.Function
	for _, p := range pkgs {
		if p == "*" {
			return c.P.AllFuncs()
		}
		fs := c.P.FuncsIn(p)
		if fs == nil {
			panic(anchorErr{"package " + p + " is not loaded"})
		}
		out = append(out, fs...)
	}
	return out
}

// closuresPassedTo returns closures (or named functions) passed as argument
// idx to calls matching cm within fn's tree.
func closuresPassedTo(fn *ssa.Function, cm CM, idx int) []*ssa.Function {
	var out []*ssa.Function
	for _, ci := range callsInTree(fn, cm) {
		args := ci.Common().Args
		if idx < len(args) {
			if f := funcOfValue(args[idx]); f != nil {
				out = append(out, f)
			}
		}
	}
	return out
}

func funcOfValue(v ssa.Value) *ssa.Function {
	v = strip(v)
	switch x := v.(type) {
	case *ssa.MakeClosure:
		return x.Fn.(*ssa.Function)
	case *ssa.Function:
		return x
	}
	return nil
}

// storedConstants lists constant values stored to the field in scope.
func sortedKeys[M ~map[string]V, V any](m M) []string {
	ks := make([]string, 0, len(m))
	for k := range m {
		ks = append(ks, k)
	}
	sort.Strings(ks)
	return ks
}

// statusCodeArg: the codes.Code constant passed as first arg to a status
// constructor call (status.New/Newf/Error/Errorf or internal/status.Err).
func isStatusCtor(c *ssa.CallCommon) bool {
	switch calleeName(c) {
	case "status.New", "status.Newf", "status.Error", "status.Errorf", "internal/status.Err", "internal/status.New", "internal/status.Newf":
		return true
	}
	return false
}

func (c *Ctx) field(pkg, typ, field string) *types.Var {
	v := c.P.LookupField(pkg, typ, field)
	if v == nil {
		panic(anchorErr{fmt.Sprintf("field %s.%s.%s not found", pkg, typ, field)})
	}
	return v
}

func (c *Ctx) konst(pkg, name string) types.Object {
	o := c.P.LookupObj(pkg, name)
	if o == nil {
		panic(anchorErr{fmt.Sprintf("object %s.%s not found", pkg, name)})
	}
	return o
}

// one returns the single site of a required construct inside an already
// resolved function. Absence (or duplication) of a required step is a
// violation of the obligation, not a moved anchor: the function was found, the
// step the property relies on was not.
type missingStep struct{ msg string }

func one[T any](c *Ctx, what string, xs []T) T {
	if len(xs) != 1 {
		panic(missingStep{fmt.Sprintf("expected exactly one %s, found %d", what, len(xs))})
	}
	return xs[0]
}

// Unreachable (R2, refusing-arm form): from every block in which the fact
// `when` is known to hold, the site cannot be reached. At least one such block
// must exist (otherwise the refusing condition is not tested at all).
func (c *Ctx) Unreachable(site ssa.Instruction, label string, when ...FM) bool {
	c.inst(label + " <- " + c.siteStr(site))
	c.nontrivial(label + fmt.Sprint(site.Pos()) + shortName(site.Parent()))
	fn := site.Parent()
	arms := blocksWhere(fn, when...)
	if len(arms) == 0 {
		c.violate(site, nil, label, fmt.Sprintf("%s: the refusing condition is not tested anywhere in %s", label, shortName(fn)), nil)
		return false
	}
	sb := site.Block()
	if os.Getenv("VCHK_DEBUG") != "" {
		fmt.Fprintf(os.Stderr, "Unreachable %s site=%s block=%d arms=", label, instrStr(site), sb.Index)
		for _, a := range arms {
			fmt.Fprintf(os.Stderr, "%d ", a.Index)
		}
		fmt.Fprintln(os.Stderr)
	}
	for _, a := range arms {
		// Loops: a path from the refusing arm that re-enters the header of a loop enclosing the arm
		// starts a new iteration. It is discounted when the test that established the refusing
		// condition dominates the site (then the new iteration re-evaluates it before reaching the
		// site); otherwise (site after the loop, reachable without the test) it counts.
		blocked := map[*ssa.BasicBlock]bool{}
		isHeader := false
		fromArm := reachableBlocks(a)
		for _, h := range fn.Blocks {
			if !(h.Dominates(a) && fromArm[h]) || !isLoopHeader(h) {
				continue // not the header of a loop enclosing the arm
			}
			// same-iteration region: a successor of the header that stays in the loop and dominates the site
			// (for the arm that is the header itself: the region of the site)
			sameIter := false
			for _, e := range h.Succs {
				if !reachableBlocks(e)[h] {
					continue
				}
				if (e == sb || e.Dominates(sb)) && (a == h || e == a || e.Dominates(a)) {
					sameIter = true
				}
			}
			if !sameIter {
				continue
			}
			if h == a {
				isHeader = true
			}
			blocked[h] = true
		}
		if os.Getenv("VCHK_DEBUG") != "" {
			fmt.Fprintf(os.Stderr, "  arm %d isHeader=%v blocked=", a.Index, isHeader)
			for b := range blocked {
				fmt.Fprintf(os.Stderr, "%d ", b.Index)
			}
			fmt.Fprintln(os.Stderr)
		}
		if isHeader {
			continue // the refusing edge leads straight to the next iteration
		}
		seen := map[*ssa.BasicBlock]bool{}
		var reach func(x *ssa.BasicBlock) bool
		reach = func(x *ssa.BasicBlock) bool {
			if x == sb {
				return true
			}
			if seen[x] || blocked[x] || blockNoReturn(x) {
				return false
			}
			seen[x] = true
			for _, s := range x.Succs {
				if reach(s) {
					return true
				}
			}
			return false
		}
		if reach(a) {
			c.violate(site, nil, label, fmt.Sprintf("%s: %s is reachable from the arm where the refusing condition holds (block at %s)", label, instrStr(site), c.P.Pos(posOf(a.Instrs[0]))), nil)
			return false
		}
	}
	return true
}

// blocksWhere lists blocks whose entry facts include fm.
func blocksWhere(fn *ssa.Function, fms ...FM) []*ssa.BasicBlock {
	var out, viaEdge []*ssa.BasicBlock
	for _, b := range fn.Blocks {
		if hasAllFacts(FactsAtBlock(b), fms) {
			out = append(out, b)
			continue
		}
		// reached through an edge on which the facts hold (the `a || b` refusing
		// arm is entered by two edges with different facts)
		for _, p := range b.Preds {
			if hasAllFacts(edgeFacts(p, b), fms) {
				out = append(out, b)
				if !b.Dominates(p) { // not the back edge of a `continue`
					viaEdge = append(viaEdge, b)
				}
				break
			}
		}
	}
	// everything dominated by such an arm is under the condition as well (a block entered by two
	// edges with different facts has neither fact itself, nor have the blocks behind it)
	in := map[*ssa.BasicBlock]bool{}
	for _, b := range out {
		in[b] = true
	}
	for _, b := range fn.Blocks {
		if in[b] {
			continue
		}
		for _, a := range viaEdge {
			if a.Dominates(b) {
				in[b] = true
				out = append(out, b)
				break
			}
		}
	}
	return out
}

func hasAllFacts(fs []Fact, fms []FM) bool {
	for _, fm := range fms {
		if _, ok := hasFact(fs, fm); !ok {
			return false
		}
	}
	return true
}

// instrsWhere lists instructions of fn satisfying pred.
func instrsWhere(fn *ssa.Function, pred func(ssa.Instruction) bool) []ssa.Instruction {
	var out []ssa.Instruction
	for _, b := range fn.Blocks {
		for _, in := range b.Instrs {
			if pred(in) {
				out = append(out, in)
			}
		}
	}
	return out
}

// storesToField lists Store instructions whose address is &x.f.
func storesToField(fn *ssa.Function, f *types.Var) []*ssa.Store {
	var out []*ssa.Store
	isAddr := FieldAddrOf(f)
	for _, b := range fn.Blocks {
		for _, in := range b.Instrs {
			if st, ok := in.(*ssa.Store); ok && isAddr(st.Addr) {
				out = append(out, st)
			}
		}
	}
	return out
}

// statusCodeOfCalls: for every status-constructor call in the given blocks,
// check that its code argument is the named codes constant.
func (c *Ctx) statusCodeIn(blocks []*ssa.BasicBlock, fn *ssa.Function, label string, code string) {
	want := ConstOfObj(c.konst("codes", code))
	n := 0
	for _, b := range blocks {
		for _, in := range b.Instrs {
			if ci, ok := in.(*ssa.Call); ok && isStatusCtor(&ci.Call) {
				n++
				c.ArgIs(ci, 0, label, want)
			}
		}
	}
	c.Expect(n > 0, nil, fn, label, "no status constructor found on the refusing arm (expected codes."+code+")")
}


type namedFM struct {
	Label string
	FM    FM
}

// lastStoreBefore finds the latest store to cell a that precedes the load in
// the load's own block (nil if none).
func lastStoreBefore(load *ssa.UnOp, a *ssa.Alloc) *ssa.Store {
	b := load.Block()
	idx := instrIndex(load)
	for i := idx - 1; i >= 0; i-- {
		if st, ok := b.Instrs[i].(*ssa.Store); ok && st.Addr == a {
			return st
		}
	}
	return nil
}

func constantInt(n int64) constant.Value { return constant.MakeInt64(n) }

// OnlyFacts: every branch fact that holds at site is one of the allowed ones
// (or plain loop control). It catches a guard that was *narrowed* by an extra
// conjunct — "re-activated when waiting and the window grew" must not become
// "... and some cached counter says so".
func (c *Ctx) OnlyFacts(site ssa.Instruction, label string, allowed ...FM) bool {
	c.inst(label + " @ " + c.siteStr(site))
	c.nontrivial(label + c.siteStr(site))
	ok := true
	for _, fc := range FactsAt(site) {
		if isLoopControlFact(fc) {
			continue
		}
		hit := false
		for _, a := range allowed {
			if a(fc) {
				hit = true
				break
			}
		}
		if !hit {
			// a truth fact whose comparison form is allowed is fine too
			if fc.Kind == "truth" {
				if b, isB := fc.X.(*ssa.BinOp); isB && isCmp(b.Op) {
					continue // its "cmp" twin is judged instead
				}
				if u, isU := fc.X.(*ssa.UnOp); isU && u.Op == token.NOT {
					continue
				}
			}
			c.violate(site, site.Parent(), label, label+": reached only under an additional condition that the property does not allow: "+fc.String(), nil)
			ok = false
		}
	}
	return ok
}

// isLoopControlFact: `range` continuation tests (next#0 is true, rangeindex < len).
func isLoopControlFact(fc Fact) bool {
	switch fc.Kind {
	case "truth":
		if e, ok := fc.X.(*ssa.Extract); ok && e.Index == 0 {
			if _, isNext := e.Tuple.(*ssa.Next); isNext {
				return true
			}
		}
		if b, ok := fc.X.(*ssa.BinOp); ok && b.Op == token.LSS && isRangeIndex(b.X) {
			return true
		}
	case "cmp":
		if isRangeIndex(fc.X) || isRangeIndex(fc.Y) {
			return true
		}
	}
	return false
}

// NoEarlyExit: every `for … range <x matching over>` loop in fn (map ranges
// and slice ranges) is left only through its header, i.e. the body contains no
// `break` (returns are fine): every element is visited.
func (c *Ctx) NoEarlyExit(fn *ssa.Function, over VM, label string) int {
	return c.NoEarlyExitExcept(fn, over, label, nil)
}

// NoEarlyExitExcept is NoEarlyExit with the early exits for which allowed
// returns true (judged on the block that leaves the loop) left out.
func (c *Ctx) NoEarlyExitExcept(fn *ssa.Function, over VM, label string, allowed func(*ssa.BasicBlock) bool) int {
	n := 0
	for _, b := range fn.Blocks {
		var header *ssa.BasicBlock
		for _, in := range b.Instrs {
			switch x := in.(type) {
			case *ssa.Next:
				if rg, ok := x.Iter.(*ssa.Range); ok && over(rg.X) {
					header = b
				}
			case *ssa.BinOp:
				// slice range: rangeindex+1 < len(x)
				if x.Op == token.LSS && isRangeIndex(x.X) {
					if l := builtinCall(x.Y, "len"); l != nil && over(l.Call.Args[0]) {
						header = b
					}
				}
			}
		}
		if header == nil || len(header.Succs) != 2 {
			continue
		}
		n++
		done := header.Succs[1]
		c.inst(label + ": loop at " + c.siteStr(header.Instrs[0]))
		c.nontrivial(label + c.siteStr(header.Instrs[0]))
		body := header.Succs[0]
		for _, p := range done.Preds {
			if p != header && (p == body || body.Dominates(p)) {
				if allowed != nil && allowed(p) {
					continue
				}
				c.violate(p.Instrs[len(p.Instrs)-1], fn, label, label+": the loop is left early (break) before every element was visited", nil)
			}
		}
	}
	return n
}

// ErrorsPropagate: for every error value that fn obtains from a call and tests
// against nil, no success return of fn (error result nil) is reachable from the
// arm on which that error is non-nil: a failure of a callee is never turned
// into an accepted result. Returns the number of (error value) instances.
func (c *Ctx) ErrorsPropagate(fn *ssa.Function, label string, skip func(*ssa.Call) bool) int {
	res := fn.Signature.Results()
	if res.Len() == 0 || !isErrorType(res.At(res.Len()-1).Type()) {
		return 0
	}
	errIdx := res.Len() - 1
	succ := successReturns(fn, errIdx)
	tested := map[ssa.Value]bool{}
	for _, b := range fn.Blocks {
		i, ok := b.Instrs[len(b.Instrs)-1].(*ssa.If)
		if !ok {
			continue
		}
		bo, ok := i.Cond.(*ssa.BinOp)
		if !ok || (bo.Op != token.NEQ && bo.Op != token.EQL) {
			continue
		}
		var v ssa.Value
		switch {
		case ConstNil(bo.Y) && isErrorType(bo.X.Type()):
			v = bo.X
		case ConstNil(bo.X) && isErrorType(bo.Y.Type()):
			v = bo.Y
		}
		if v == nil {
			continue
		}
		// only errors produced by calls
		var call *ssa.Call
		switch x := strip(v).(type) { // strip: a load of a local cell (named result) resolves to the value last stored
		case *ssa.Call:
			call = x
		case *ssa.Extract:
			call, _ = x.Tuple.(*ssa.Call)
		}
		if call == nil || (skip != nil && skip(call)) {
			continue
		}
		tested[v] = true
	}
	n := 0
	for v := range tested {
		n++
		v := v
		for _, r := range succ {
			c.Unreachable(r, label+":error-of-"+valStr(v)+"-not-swallowed", NotNil(func(x ssa.Value) bool { return x == v }))
		}
	}
	return n
}

func isErrorType(t types.Type) bool {
	n, ok := t.(*types.Named)
	return ok && n.Obj().Pkg() == nil && n.Obj().Name() == "error"
}

// isLoopHeader: h is the target of a back edge (some predecessor is dominated by h).
func isLoopHeader(h *ssa.BasicBlock) bool {
	for _, p := range h.Preds {
		if p == h || h.Dominates(p) {
			return true
		}
	}
	return false
}

// EnteredOnlyWhen: control enters blk only along edges on which at least one
// of the facts `when` must hold (facts of the predecessor plus the edge's own
// fact, looking through an empty `a || b` trampoline). With implication-aware
// matchers this is the complement-arm rule: "the skipping/negative arm is
// taken only if ¬X", so a weakened or shifted boundary test that still implies
// the positive-arm fact is reported on the negative arm.
func (c *Ctx) EnteredOnlyWhen(blk *ssa.BasicBlock, label string, when ...FM) bool {
	return c.EnteredOnlyWhenExcept(blk, label, nil, when...)
}

// EnteredOnlyWhenExcept is EnteredOnlyWhen with the predecessors for which
// skip returns true left out (edges that belong to the positive arm).
func (c *Ctx) EnteredOnlyWhenExcept(blk *ssa.BasicBlock, label string, skip func(*ssa.BasicBlock) bool, when ...FM) bool {
	return c.enteredOnly(blk, label, nil, skip, when...)
}

// EnteredOnlyWhenFrom: the rule for the single edge from -> blk (the other
// ways into blk are not constrained).
func (c *Ctx) EnteredOnlyWhenFrom(blk *ssa.BasicBlock, label string, from *ssa.BasicBlock, when ...FM) bool {
	return c.enteredOnly(blk, label, from, nil, when...)
}

func (c *Ctx) enteredOnly(blk *ssa.BasicBlock, label string, from *ssa.BasicBlock, skip func(*ssa.BasicBlock) bool, when ...FM) bool {
	fn := blk.Parent()
	c.inst(label + " <- " + c.siteStr(blk.Instrs[0]))
	c.nontrivial(label + c.siteStr(blk.Instrs[0]))
	edgeOK := func(fs []Fact) bool {
		for _, fm := range when {
			if _, h := hasFact(fs, fm); h {
				return true
			}
		}
		return false
	}
	ok := true
	for _, p := range blk.Preds {
		if skip != nil && skip(p) || from != nil && p != from {
			continue
		}
		for _, fs := range incomingFacts(p, blk) {
			if edgeOK(fs) {
				continue
			}
			// The edge itself does not carry a required fact. Facts are about SSA values and stay
			// true along a path, so the arm is still entered only under the stated conditions if
			// every path into the predecessor passed an edge that carries one (or an excepted
			// block): joins in front of the arm (an unrelated `if` before it) are looked through.
			if c.enteredOnlyVia(p, map[*ssa.BasicBlock]bool{blk: true}, skip, edgeOK, 0) {
				continue
			}
			ok = false
			c.violate(p.Instrs[len(p.Instrs)-1], fn, label, label+": this arm is entered on an edge where none of the required conditions is known to hold; facts on the edge: "+factsStr(fs), nil)
		}
	}
	return ok
}

// enteredOnlyVia: every path that enters block b came over an edge on which
// edgeOK holds, or through a block skip accepts. Back edges and the function
// entry end the search negatively.
func (c *Ctx) enteredOnlyVia(b *ssa.BasicBlock, seen map[*ssa.BasicBlock]bool, skip func(*ssa.BasicBlock) bool, edgeOK func([]Fact) bool, depth int) bool {
	if seen[b] || depth > 12 || len(b.Preds) == 0 {
		return false
	}
	seen[b] = true
	defer delete(seen, b)
	for _, p := range b.Preds {
		if skip != nil && skip(p) {
			continue
		}
		fs := append(append([]Fact(nil), FactsAtBlock(p)...), edgeOnlyFacts(p, b)...)
		if edgeOK(fs) {
			continue
		}
		if !c.enteredOnlyVia(p, seen, skip, edgeOK, depth+1) {
			return false
		}
	}
	return true
}

// breakPreds: the predecessors through which the loop with header h (two
// successors: body, done) is left other than by the header's own test.
func breakPreds(h *ssa.BasicBlock) []*ssa.BasicBlock {
	var out []*ssa.BasicBlock
	if len(h.Succs) != 2 {
		return nil
	}
	body, done := h.Succs[0], h.Succs[1]
	for _, p := range done.Preds {
		if p != h && (p == body || body.Dominates(p)) {
			out = append(out, p)
		}
	}
	return out
}

func returnsWhere(fn *ssa.Function, pred func(*ssa.Return) bool) []*ssa.Return {
	var out []*ssa.Return
	for _, r := range returnsOf(fn) {
		if r.Block() != fn.Recover && pred(r) {
			out = append(out, r)
		}
	}
	return out
}

func storesToFieldInBlock(b *ssa.BasicBlock, f *types.Var) []*ssa.Store {
	var out []*ssa.Store
	for _, st := range storesToField(b.Parent(), f) {
		if st.Block() == b {
			out = append(out, st)
		}
	}
	return out
}

// RangeFuncNoBreak: every range-over-func loop body inside fn (a synthetic
// closure returning "continue?") returns true on all paths: the loop is never
// left early, so every element the iterator yields is visited. Returns the
// number of loop bodies.
func (c *Ctx) RangeFuncNoBreak(fn *ssa.Function, label string) int {
	n := 0
	var walk func(f *ssa.Function)
	walk = func(f *ssa.Function) {
		for _, a := range f.AnonFuncs {
			if isRangeFuncBody(a) {
				n++
				c.inst(label + ": range-over-func body " + shortName(a))
				c.nontrivial(label + shortName(a))
				for _, r := range returnsOf(a) {
					if a.Recover != nil && r.Block() == a.Recover {
						continue
					}
					if len(r.Results) != 1 || !ConstBool(true)(r.Results[0]) {
						c.violate(r, a, label, label+": the loop is left early (break/return) before every element was visited", nil)
					}
				}
			}
			walk(a)
		}
	}
	walk(fn)
	return n
}

// Rejects: fn tests the condition `when` and, from every arm on which it
// holds, no success return of fn (last result, an error, nil) is reachable:
// an input with that defect is never accepted.
func (c *Ctx) Rejects(fn *ssa.Function, label string, when ...FM) bool {
	res := fn.Signature.Results()
	if res.Len() == 0 || !isErrorType(res.At(res.Len()-1).Type()) {
		panic(anchorErr{"Rejects on a function without an error result: " + shortName(fn)})
	}
	ok := true
	succ := successReturns(fn, res.Len()-1)
	if len(succ) == 0 {
		c.violate(fn.Blocks[0].Instrs[0], fn, label, label+": no success return in "+shortName(fn), nil)
		return false
	}
	for _, r := range succ {
		if !c.Unreachable(r, label, when...) {
			ok = false
		}
	}
	return ok
}

// EnteredOnlyWhenAll: like EnteredOnlyWhenExcept, but on every counted edge
// ALL of the listed facts must hold (the arm is taken only under the full
// conjunction).
func (c *Ctx) EnteredOnlyWhenAll(blk *ssa.BasicBlock, label string, skip func(*ssa.BasicBlock) bool, all ...FM) bool {
	fn := blk.Parent()
	c.inst(label + " <- " + c.siteStr(blk.Instrs[0]))
	c.nontrivial(label + c.siteStr(blk.Instrs[0]))
	ok := true
	for _, p := range blk.Preds {
		if skip != nil && skip(p) {
			continue
		}
		for _, fs := range incomingFacts(p, blk) {
			for _, fm := range all {
				if _, h := hasFact(fs, fm); !h {
					ok = false
					c.violate(p.Instrs[len(p.Instrs)-1], fn, label, label+": this arm is entered on an edge where one of the required conditions is not known to hold; facts on the edge: "+factsStr(fs), nil)
					break
				}
			}
		}
	}
	return ok
}

// UnderArm: site lies inside an arm that is entered only under one of the
// facts `when`: some block dominating the site (or its own block) is entered
// only along edges on which one of them holds. Unlike MustFact this also
// recognises the then-arm of `a || b`, whose two entry edges carry different
// facts.
func (c *Ctx) UnderArm(site ssa.Instruction, label string, when ...FM) bool {
	c.inst(label + " <- " + c.siteStr(site))
	c.nontrivial(label + c.siteStr(site))
	if underArm(site.Block(), when...) {
		return true
	}
	c.violate(site, site.Parent(), label, "guard \""+label+"\" does not hold on every way into an arm enclosing "+instrStr(site), nil)
	return false
}

// underArm: blk or one of its dominators is entered only along edges on which
// one of the facts holds.
func underArm(blk *ssa.BasicBlock, when ...FM) bool {
	for d := blk; d != nil; d = d.Idom() {
		if len(d.Preds) == 0 {
			break
		}
		all := true
		for _, p := range d.Preds {
			for _, fs := range incomingFacts(p, d) {
				hit := false
				for _, fm := range when {
					if _, h := hasFact(fs, fm); h {
						hit = true
					}
				}
				if !hit {
					all = false
				}
			}
		}
		if all {
			return true
		}
	}
	return false
}

// NilCheckedUse: every dereferencing use (field access, method call receiver,
// load) of the result of a call matching cm inside fn happens where that
// result is known to be non-nil. Returns the number of uses checked.
func (c *Ctx) NilCheckedUse(fn *ssa.Function, cm CM, label string) int {
	n := 0
	for _, ci := range callsIn(fn, cm) {
		v := ci.Value()
		if v == nil || v.Referrers() == nil {
			continue
		}
		is := func(x ssa.Value) bool { return x == ssa.Value(v) }
		for _, ref := range *v.Referrers() {
			deref := false
			switch x := ref.(type) {
			case *ssa.FieldAddr:
				deref = x.X == ssa.Value(v)
			case *ssa.UnOp:
				deref = x.Op == token.MUL && x.X == ssa.Value(v)
			case *ssa.Call:
				if !x.Call.IsInvoke() && len(x.Call.Args) > 0 && x.Call.Args[0] == ssa.Value(v) {
					if cal := x.Call.StaticCallee(); cal != nil && cal.Signature.Recv() != nil {
						// a method with pointer receiver may tolerate nil; only methods that touch a field directly are derefs.
						// Conservative: treat as a use that needs the check when the callee dereferences its receiver in its entry block.
						deref = derefsReceiverAtEntry(cal)
					}
				}
			}
			if !deref {
				continue
			}
			n++
			c.MustFact(ref, label, NotNil(is))
		}
	}
	return n
}

func derefsReceiverAtEntry(f *ssa.Function) bool {
	if len(f.Blocks) == 0 || len(f.Params) == 0 {
		return false
	}
	for _, in := range f.Blocks[0].Instrs {
		if fa, ok := in.(*ssa.FieldAddr); ok && fa.X == ssa.Value(f.Params[0]) {
			return true
		}
	}
	return false
}

// OkCheckedUse: for calls matching cm that return (value, ok), every
// dereferencing use of the value inside fn happens where ok is known true.
func (c *Ctx) OkCheckedUse(fn *ssa.Function, cm CM, label string) int {
	n := 0
	for _, ci := range callsIn(fn, cm) {
		tup := ci.Value()
		if tup == nil || tup.Referrers() == nil {
			continue
		}
		okv := ExtractOf(func(x ssa.Value) bool { return x == ssa.Value(tup) }, 1)
		for _, r := range *tup.Referrers() {
			e, isE := r.(*ssa.Extract)
			if !isE || e.Index != 0 || e.Referrers() == nil {
				continue
			}
			for _, ref := range *e.Referrers() {
				deref := false
				switch x := ref.(type) {
				case *ssa.FieldAddr:
					deref = x.X == ssa.Value(e)
				case *ssa.UnOp:
					deref = x.Op == token.MUL && x.X == ssa.Value(e)
				case *ssa.Call:
					if !x.Call.IsInvoke() && len(x.Call.Args) > 0 && x.Call.Args[0] == ssa.Value(e) {
						if cal := x.Call.StaticCallee(); cal != nil && cal.Signature.Recv() != nil {
							deref = derefsReceiverAtEntry(cal)
						}
					}
				}
				if !deref {
					continue
				}
				n++
				c.MustFact(ref, label, Truth(okv, true))
			}
		}
	}
	return n
}

// breakArms groups the early-exit predecessors of the loop with header h by
// the arm they belong to: the topmost block of the loop body that dominates
// the predecessor and from which the loop can no longer be continued. Two
// exit edges that come from one `break` statement (because an unrelated `if`
// in front of it split the arm) are one arm.
func breakArms(h *ssa.BasicBlock) map[*ssa.BasicBlock][]*ssa.BasicBlock {
	out := map[*ssa.BasicBlock][]*ssa.BasicBlock{}
	if len(h.Succs) != 2 {
		return out
	}
	body, done := h.Succs[0], h.Succs[1]
	canLoop := func(x *ssa.BasicBlock) bool {
		seen := map[*ssa.BasicBlock]bool{done: true}
		var walk func(b *ssa.BasicBlock) bool
		walk = func(b *ssa.BasicBlock) bool {
			if b == h {
				return true
			}
			if seen[b] {
				return false
			}
			seen[b] = true
			for _, s := range b.Succs {
				if walk(s) {
					return true
				}
			}
			return false
		}
		return walk(x)
	}
	for _, p := range breakPreds(h) {
		a := p
		for {
			d := a.Idom()
			if d == nil || d == h || !(d == body || body.Dominates(d)) || canLoop(d) {
				break
			}
			a = d
		}
		out[a] = append(out[a], p)
	}
	return out
}
