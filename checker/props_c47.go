package main

import (
	"go/token"
	"go/types"
	"sort"

	"golang.org/x/tools/go/ssa"
)

const xmatch = "internal/xds/matcher"
const xrbac = "internal/xds/rbac"
const xdsrsrc = "internal/xds/xdsclient/xdsresource"

func init() {
	register(&PropDef{
		ID:    "C47",
		Pkgs:  []string{xmatch, xdsrsrc, xrbac},
		Claim: "Decides the structural part (sibling cross-check over every type implementing matcher.HeaderMatcher): the header value is obtained once through valueFromMD (comma-join of md[key]) with the matcher's own key; an absent header returns constant false before invert is consulted; the result is predicate != invert with the type's predicate (==, HasPrefix, HasSuffix, Contains, Regexp.MatchString, StringMatcher.Match), the range matcher parses base 10 and returns !invert exactly on err==nil && start <= i && i < end; the presence matcher compares presence and folds invert at construction; every regexp stored in a header/string matcher originates from CompileSafeRegex (anchored ^(?:...)$); no function of the matcher package or of the xDS path matchers calls a Unicode case mapping (strings.ToLower/ToUpper/EqualFold/Title, unicode.*): case-insensitive arms fold both pattern and input through the package's ASCII-only fold, whose only byte writes are on 'A'..'Z' (resp. 'a'..'z') by +/-32; empty prefix/suffix/contains patterns and unknown pattern kinds are rejected. The range matcher reports no match only when the value is unparsable or outside [start,end), and the ASCII fold helpers skip a byte only outside the letter range and are bounds-safe.",
		NotDecided:  []string{"regexp engine semantics", "that strconv.ParseInt accepts exactly base-10 integers (library contract)", "value-level equality of matcher results over all header maps"},
		Assumptions: []string{"strings.HasPrefix/HasSuffix/Contains/Join and regexp contracts"},
		Technique:   "static analysis: sibling cross-check of all implementations of one interface over go/ssa (return-value shapes, dominating guards), value-origin of stored regexps across constructor call sites, who-may-call with expected count zero plus positive control, byte-write guard check of the ASCII fold",
		Run:         c47,
	})
}

func c47(c *Ctx) {
	hmIface := c.P.LookupObj(xmatch, "HeaderMatcher").Type().Underlying().(*types.Interface)
	vfm := Callee(xmatch, "valueFromMD")
	type hm struct {
		name string
		typ  *types.Named
	}
	var hms []hm
	sc := c.P.typesPkg(xmatch).Scope()
	for _, n := range sc.Names() {
		tn, ok := sc.Lookup(n).(*types.TypeName)
		if !ok {
			continue
		}
		nt, ok := tn.Type().(*types.Named)
		if !ok {
			continue
		}
		if _, isS := nt.Underlying().(*types.Struct); !isS {
			continue
		}
		if types.Implements(types.NewPointer(nt), hmIface) {
			hms = append(hms, hm{n, nt})
		}
	}
	sort.Slice(hms, func(i, j int) bool { return hms[i].name < hms[j].name })
	fieldOf := func(nt *types.Named, n string) *types.Var {
		st := nt.Underlying().(*types.Struct)
		for i := 0; i < st.NumFields(); i++ {
			if st.Field(i).Name() == n {
				return st.Field(i)
			}
		}
		return nil
	}
	c.Ob("header-matcher-siblings", "R6", "every HeaderMatcher implementation: value via valueFromMD(md, own key); absent header -> false; result = predicate(value) != invert with the type's own predicate; presence matcher compares presence", 8, func() {
		c.Expect(len(hms) >= 8, nil, nil, "implementations-found", "fewer HeaderMatcher implementations than the 8 confirmed by reading")
		for _, h := range hms {
			f := c.fn(xmatch, h.name+".Match")
			c.inst("HeaderMatcher implementation " + h.name)
			fKey := fieldOf(h.typ, "key")
			fInv := fieldOf(h.typ, "invert")
			calls := callsIn(f, vfm)
			if !c.Expect(len(calls) == 1 && fKey != nil, nil, f, h.name+":one-valueFromMD", "the matcher does not read the header exactly once through valueFromMD") {
				continue
			}
			call := calls[0]
			c.ArgIs(call, 0, h.name+":reads-the-request-metadata", ParamV("md"))
			c.ArgIs(call, 1, h.name+":reads-its-own-key", FieldLoad(fKey))
			val := ExtractOf(func(v ssa.Value) bool { return v == call.Value() }, 0)
			okv := ExtractOf(func(v ssa.Value) bool { return v == call.Value() }, 1)
			absent := Truth(okv, false)
			if fInv == nil {
				// presence matcher
				fP := fieldOf(h.typ, "present")
				if !c.Expect(h.name == "HeaderPresentMatcher" && fP != nil, nil, f, h.name+":has-invert", "a value matcher without an invert field") {
					continue
				}
				for _, r := range returnsOf(f) {
					b, ok := r.Results[0].(*ssa.BinOp)
					c.Expect(ok && b.Op == token.EQL && (FieldLoad(fP)(b.Y) && Dep(okv)(b.X) || FieldLoad(fP)(b.X) && Dep(okv)(b.Y)), r, f, h.name+":compares-presence", "the presence matcher does not compare presence with the configured presence")
				}
				ctor := c.fn(xmatch, "NewHeaderPresentMatcher")
				for _, st := range storesToField(ctor, fP) {
					ph, ok := st.Val.(*ssa.Phi)
					okc := false
					if ok && len(ph.Edges) == 2 {
						for i, e := range ph.Edges {
							p := ph.Block().Preds[i]
							fs := append(append([]Fact(nil), FactsAtBlock(p)...), edgeOnlyFacts(p, ph.Block())...)
							if u, isNot := e.(*ssa.UnOp); isNot && u.Op == token.NOT && ParamV("present")(u.X) {
								_, okc = hasFact(fs, Truth(ParamV("invert"), true))
							}
						}
					}
					c.Expect(okc, st, ctor, h.name+":invert-folded-at-construction", "invert is not folded into the configured presence")
				}
				continue
			}
			inv := FieldLoad(fInv)
			var pred VM
			switch h.name {
			case "HeaderExactMatcher":
				pred = BinOpV(token.EQL, val, FieldLoad(fieldOf(h.typ, "exact")))
			case "HeaderPrefixMatcher":
				pred = callArgs(CalleeX("strings", "HasPrefix"), val, FieldLoad(fieldOf(h.typ, "prefix")))
			case "HeaderSuffixMatcher":
				pred = callArgs(CalleeX("strings", "HasSuffix"), val, FieldLoad(fieldOf(h.typ, "suffix")))
			case "HeaderContainsMatcher":
				pred = callArgs(CalleeX("strings", "Contains"), val, FieldLoad(fieldOf(h.typ, "contains")))
			case "HeaderRegexMatcher":
				pred = callArgs(CalleeX("regexp", "Regexp.MatchString"), FieldLoad(fieldOf(h.typ, "re")), val)
			case "HeaderStringMatcher":
				pred = callArgs(Callee(xmatch, "StringMatcher.Match"), FieldLoad(fieldOf(h.typ, "stringMatcher")), val)
			case "HeaderRangeMatcher":
			default:
				pred = DataDep(val) // unreviewed implementer: generic shape only
			}
			nRes := 0
			for _, r := range returnsOf(f) {
				v := r.Results[0]
				if ConstBool(false)(v) {
					c.MustFact(r, h.name+":false-only-when-absent", absent)
					continue
				}
				nRes++
				c.Unreachable(r, h.name+":absent-header-never-matches", absent)
				if h.name == "HeaderRangeMatcher" {
					pi := callsIn(f, CalleeX("strconv", "ParseInt"))
					if !c.Expect(len(pi) == 1, r, f, "range:one-ParseInt", "the range matcher does not parse the value once") {
						continue
					}
					c.ArgIs(pi[0], 0, "range:parses-the-value", val)
					c.ArgIs(pi[0], 1, "range:base-10", ConstInt(10))
					num := ExtractOf(func(x ssa.Value) bool { return x == pi[0].Value() }, 0)
					perr := ExtractOf(func(x ssa.Value) bool { return x == pi[0].Value() }, 1)
					in := []FM{IsNil(perr), Cmp(num, token.GEQ, FieldLoad(fieldOf(h.typ, "start"))), Cmp(num, token.LSS, FieldLoad(fieldOf(h.typ, "end")))}
					if u, ok := v.(*ssa.UnOp); ok && u.Op == token.NOT && inv(u.X) {
						for i, fm := range in {
							c.MustFact(r, []string{"range:in-range-needs-parse-ok", "range:in-range-needs-i>=start", "range:in-range-needs-i<end"}[i], fm)
						}
					} else if c.Expect(inv(v), r, f, "range:result-is-invert-or-not-invert", "unexpected result shape in the range matcher") {
						c.Unreachable(r, "range:out-of-range-arm-excludes-in-range", in...)
						c.EnteredOnlyWhen(r.Block(), "range:no-match-only-when-unparsable-or-outside-[start,end)", NotNil(perr), Cmp(num, token.LSS, FieldLoad(fieldOf(h.typ, "start"))), Cmp(num, token.GEQ, FieldLoad(fieldOf(h.typ, "end"))))
					}
					continue
				}
				b, ok := v.(*ssa.BinOp)
				if !c.Expect(ok && b.Op == token.NEQ, r, f, h.name+":result-is-pred!=invert", "the result is not predicate != invert") {
					continue
				}
				p, i := b.X, b.Y
				if !inv(i) {
					p, i = b.Y, b.X
				}
				c.Expect(inv(i), r, f, h.name+":invert-applied", "invert is not applied to the predicate")
				c.Expect(pred(p), r, f, h.name+":own-predicate-on-the-joined-value", "the predicate is not the type's own predicate applied to the comma-joined header value")
			}
			c.Expect(nRes >= 1, nil, f, h.name+":has-result", "no result return")
		}
		// valueFromMD
		vf := c.fn(xmatch, "valueFromMD")
		for _, r := range returnsOf(vf) {
			if ConstBool(true)(r.Results[1]) {
				call, ok := r.Results[0].(*ssa.Call)
				c.Expect(ok && CalleeX("strings", "Join")(&call.Call) && ConstStr(",")(call.Call.Args[1]) && LookupOf(ParamV("md"), ParamV("key"))(call.Call.Args[0]), r, vf, "value-is-comma-join-of-md[key]", "valueFromMD does not return strings.Join(md[key], \",\")")
				c.MustFact(r, "present-only-if-key-present", Truth(CommaOkOf(ParamV("md")), true))
			} else {
				c.MustFact(r, "absent-only-if-key-absent", Truth(CommaOkOf(ParamV("md")), false))
			}
		}
	})
	c.Ob("regex-anchored", "R8", "every *regexp.Regexp reaching a HeaderRegexMatcher or StringMatcher comes from CompileSafeRegex, which compiles ^(?:pattern)$", 5, func() {
		safe := CallRes(Callee(xmatch, "CompileSafeRegex"), 0)
		scope := c.scope(xmatch, xdsrsrc, xrbac)
		if c.thorough() {
			scope = c.P.AllFuncs()
		}
		var fromSafe func(v ssa.Value, depth int) bool
		fromSafe = func(v ssa.Value, depth int) bool {
			for _, o := range Origins(v) {
				if safe(o) {
					continue
				}
				ok := false
				if u, isLoad := o.(*ssa.UnOp); isLoad && depth < 3 {
					if fa, isF := u.X.(*ssa.FieldAddr); isF {
						fv := fieldOfAddr(fa)
						n := 0
						ok = true
						for _, g := range scope {
							for _, st := range storesToField(g, fv) {
								n++
								if !fromSafe(st.Val, depth+1) {
									ok = false
								}
							}
						}
						ok = ok && n > 0
					}
				}
				if !ok {
					return false
				}
			}
			return true
		}
		n := 0
		for _, ctor := range []string{"NewHeaderRegexMatcher", "NewRegexStringMatcher"} {
			idx := 1
			if ctor == "NewRegexStringMatcher" {
				idx = 0
			}
			for _, g := range scope {
				for _, ci := range callsIn(g, Callee(xmatch, ctor)) {
					n++
					c.inst(ctor + " <- " + c.siteStr(ci))
					c.Expect(fromSafe(ci.Common().Args[idx], 0), ci, g, ctor+":regex-from-CompileSafeRegex", "a regexp that is not known to be anchored reaches a full-string matcher")
				}
			}
		}
		c.Expect(n >= 3, nil, nil, "constructor-sites", "fewer regex-matcher construction sites than confirmed by reading")
		c.WhoMayMutate("HeaderRegexMatcher.re", c.field(xmatch, "HeaderRegexMatcher", "re"), c.scope(xmatch), xmatch+".NewHeaderRegexMatcher")
		c.WhoMayMutate("StringMatcher.regexMatch", c.field(xmatch, "StringMatcher", "regexMatch"), c.scope(xmatch), xmatch+".NewRegexStringMatcher")
		cs := c.fn(xmatch, "CompileSafeRegex")
		okA := false
		for _, r := range returnsOf(cs) {
			if call, ok := r.Results[0].(*ssa.Extract); ok {
				if cc, ok := call.Tuple.(*ssa.Call); ok && CalleeX("regexp", "Compile")(&cc.Call) {
					if sp, ok := cc.Call.Args[0].(*ssa.Call); ok && CalleeX("fmt", "Sprintf")(&sp.Call) && ConstStr("^(?:%s)$")(sp.Call.Args[0]) {
						okA = true
					}
				}
			}
		}
		c.Expect(okA, nil, cs, "anchored-pattern", "CompileSafeRegex does not compile the anchored form ^(?:pattern)$")
	})
	c.Ob("ascii-fold", "R9", "no Unicode case mapping in the matcher package or the xDS path matchers; case-insensitive arms fold input and pattern with the ASCII-only helper; the helper writes only bytes in the ASCII letter range, shifted by 32", 12, func() {
		unicodeFold := func(cc *ssa.CallCommon) bool {
			f := calleeFunc(cc)
			if f == nil || f.Pkg() == nil {
				return false
			}
			switch f.Pkg().Path() {
			case "unicode":
				return true
			case "strings", "bytes":
				switch f.Name() {
				case "ToLower", "ToUpper", "EqualFold", "Title", "ToTitle", "ToLowerSpecial", "ToUpperSpecial":
					return true
				}
			case "golang.org/x/text/cases":
				return true
			}
			return false
		}
		var scope []*ssa.Function
		scope = append(scope, c.scope(xmatch)...)
		for _, f := range c.scope(xdsrsrc) {
			n := shortName(topFunc(f))
			for _, t := range []string{"pathExactMatcher", "pathPrefixMatcher", "newPathExactMatcher", "newPathPrefixMatcher", "asciiToUpper"} {
				if n == xdsrsrc+"."+t || len(n) > len(xdsrsrc)+1+len(t) && n[:len(xdsrsrc)+2+len(t)] == xdsrsrc+"."+t+"." {
					scope = append(scope, f)
				}
			}
		}
		for _, f := range scope {
			for _, ci := range callsIn(f, unicodeFold) {
				c.Expect(false, ci, f, "no-unicode-case-mapping", "a Unicode case mapping ("+calleeName(ci.Common())+") is applied to matcher input: non-ASCII characters whose mapping is an ASCII letter (U+212A, U+017F) would match")
			}
		}
		// positive control + fold on both sides
		lower := Callee(xmatch, "asciiToLower")
		upper := Callee(xdsrsrc, "asciiToUpper")
		sm := c.fn(xmatch, "StringMatcher.Match")
		nl := 0
		for _, ci := range callsIn(sm, lower) {
			nl++
			c.MustFact(ci, "input-folded-only-when-ignore-case", Truth(FieldLoad(c.field(xmatch, "StringMatcher", "ignoreCase")), true))
			c.ArgIs(ci, 0, "folds-the-input", AllOrigins(ParamV("input")))
		}
		c.Expect(nl == 4, nil, sm, "four-folding-arms", "expected the input to be folded on the exact/prefix/suffix/contains arms")
		for _, n := range []string{"exactMatch", "prefixMatch", "suffixMatch", "containsMatch"} {
			fv := c.field(xmatch, "StringMatcher", n)
			for _, g := range c.scope(xmatch) {
				for _, st := range storesToField(g, fv) {
					c.ValueIs(st, st.Val, n+":pattern-built-by-newStrPtr", CallRes(Callee(xmatch, "newStrPtr"), 0))
				}
			}
		}
		np := c.fn(xmatch, "newStrPtr")
		nlp := 0
		for _, ci := range callsIn(np, lower) {
			nlp++
			c.MustFact(ci, "pattern-folded-when-ignore-case", Truth(ParamV("ignoreCase"), true))
		}
		c.Expect(nlp == 1, nil, np, "pattern-folded", "the pattern is not folded with the ASCII fold")
		for _, ci := range callsIn(c.fn(xmatch, "StringMatcherFromProto"), Callee(xmatch, "newStrPtr")) {
			c.ArgIs(ci, 1, "pattern-fold-follows-ignore_case", FieldLoad(c.field(xmatch, "StringMatcher", "ignoreCase")))
		}
		for _, t := range []string{"pathExactMatcher", "pathPrefixMatcher"} {
			mf := c.fn(xdsrsrc, t+".match")
			fCI := c.field(xdsrsrc, t, "caseInsensitive")
			nu := 0
			for _, ci := range callsIn(mf, upper) {
				nu++
				c.MustFact(ci, t+":input-folded-when-case-insensitive", Truth(FieldLoad(fCI), true))
				c.ArgIs(ci, 0, t+":folds-the-path", ParamV("path"))
			}
			c.Expect(nu == 1, nil, mf, t+":input-folded", "the path is not folded with the ASCII fold on the case-insensitive arm")
			for _, r := range returnsOf(mf) {
				if c.HasFact(r, Truth(FieldLoad(fCI), true)) {
					c.Expect(DataDep(CallRes(upper, 0))(r.Results[0]), r, mf, t+":case-insensitive-result-uses-folded-path", "the case-insensitive arm compares the unfolded path")
				}
			}
			ctor := c.fn(xdsrsrc, "newP"+t[1:])
			nc := 0
			for _, ci := range callsIn(ctor, upper) {
				nc++
				c.MustFact(ci, t+":pattern-folded-when-case-insensitive", Truth(ParamV("caseInsensitive"), true))
			}
			c.Expect(nc == 1, nil, ctor, t+":pattern-folded", "the path pattern is not folded with the ASCII fold")
		}
		// the fold helpers
		for _, h := range []struct {
			pkg, fn  string
			lo, hi   int64
			op       token.Token
		}{{xmatch, "asciiToLower", 'A', 'Z', token.ADD}, {xdsrsrc, "asciiToUpper", 'a', 'z', token.SUB}} {
			f := c.fn(h.pkg, h.fn)
			nst := 0
			for _, b := range f.Blocks {
				for _, in := range b.Instrs {
					st, ok := in.(*ssa.Store)
					if !ok {
						continue
					}
					if _, isIdx := st.Addr.(*ssa.IndexAddr); !isIdx {
						continue
					}
					nst++
					bo, ok := st.Val.(*ssa.BinOp)
					if !c.Expect(ok && bo.Op == h.op && ConstInt(32)(bo.Y), st, f, h.fn+":shift-by-32", "the fold writes something other than the byte +/- 32") {
						continue
					}
					c.MustFact(st, h.fn+":only-letters-low", Cmp(func(v ssa.Value) bool { return v == bo.X }, token.GEQ, ConstInt(h.lo)))
					c.MustFact(st, h.fn+":only-letters-high", Cmp(func(v ssa.Value) bool { return v == bo.X }, token.LEQ, ConstInt(h.hi)))
				}
			}
			c.Expect(nst == 1, nil, f, h.fn+":one-byte-write", "expected exactly one byte write in the ASCII fold")
			// complement: a byte is skipped (the scan moves on without the write / without starting the copy) only outside [lo,hi]
			nSkip := 0
			for _, b := range f.Blocks {
				i, ok := b.Instrs[len(b.Instrs)-1].(*ssa.If)
				if !ok {
					continue
				}
				bo, ok := i.Cond.(*ssa.BinOp)
				if !ok {
					continue
				}
				isByte := func(v ssa.Value) bool {
					t, ok := v.Type().Underlying().(*types.Basic)
					return ok && t.Kind() == types.Uint8
				}
				if !(isByte(bo.X) && isByte(bo.Y)) {
					continue
				}
				// the byte under test
				var ch ssa.Value = bo.X
				if constOf(bo.X) != nil {
					ch = bo.Y
				}
				isCh := func(v ssa.Value) bool { return v == ch }
				for _, s := range b.Succs {
					// the skip arm: a successor that is the loop's post/increment block (does not dominate the write or the copy)
					if len(s.Preds) < 2 {
						continue
					}
					nSkip++
					c.EnteredOnlyWhenExcept(s, h.fn+":byte-skipped-only-outside-the-letter-range", blockHasIndexStore, CmpInt(isCh, token.LSS, h.lo), CmpInt(isCh, token.GTR, h.hi))
				}
			}
			c.Expect(nSkip >= 2, nil, f, h.fn+":skip-arms-found", "the scan's skip arms were not recognised")
			c.BoundsSafe(h.pkg, f)
			for _, r := range returnsOf(f) {
				v := r.Results[0]
				c.Expect(ParamV("s")(v) || DataDep(ParamV("s"))(v), r, f, h.fn+":returns-input-or-copy", "unexpected return")
			}
		}
	})
	c.Ob("empty-patterns", "R2", "StringMatcherFromProto rejects empty prefix/suffix/contains and unknown pattern kinds", 4, func() {
		f := c.fn(xmatch, "StringMatcherFromProto")
		pb := "github.com/envoyproxy/go-control-plane/envoy/type/matcher/v3"
		for _, n := range []string{"Prefix", "Suffix", "Contains"} {
			get := CallRes(Callee(pb, "StringMatcher.Get"+n), 0)
			var fv *types.Var
			switch n {
			case "Prefix":
				fv = c.field(xmatch, "StringMatcher", "prefixMatch")
			case "Suffix":
				fv = c.field(xmatch, "StringMatcher", "suffixMatch")
			default:
				fv = c.field(xmatch, "StringMatcher", "containsMatch")
			}
			sts := storesToField(f, fv)
			if c.Expect(len(sts) == 1, nil, f, n+":pattern-stored", "pattern store not found") {
				c.Unreachable(sts[0], n+":empty-pattern-rejected", Cmp(get, token.EQL, ConstStr("")))
			}
		}
		// unknown kind -> error
		n := 0
		var unknown []FM
		for _, k := range []string{"StringMatcher_Exact", "StringMatcher_Prefix", "StringMatcher_Suffix", "StringMatcher_SafeRegex", "StringMatcher_Contains"} {
			k := k
			unknown = append(unknown, Truth(TypeAssertOk(func(t types.Type) bool {
				pt, ok := t.(*types.Pointer)
				if !ok {
					return false
				}
				nt, ok := pt.Elem().(*types.Named)
				return ok && nt.Obj().Name() == k
			}), false))
		}
		for _, r := range returnsOf(f) {
			if !provablyNonNil(r.Results[1], r, 0) {
				n++
				c.Unreachable(r, "unknown-pattern-kind-rejected", unknown...)
			}
		}
		c.Expect(n == 1, nil, f, "one-success-return", "expected one success return")
	})
}

// callArgs matches a call to cm whose first arguments match the given VMs in order.
func callArgs(cm CM, args ...VM) VM {
	return func(v ssa.Value) bool {
		call, ok := v.(*ssa.Call)
		if !ok || !cm(&call.Call) {
			return false
		}
		as := call.Call.Args
		if call.Call.IsInvoke() {
			as = append([]ssa.Value{call.Call.Value}, as...)
		}
		if len(as) < len(args) {
			return false
		}
		for i, a := range args {
			if !a(as[i]) {
				return false
			}
		}
		return true
	}
}

// blockHasIndexStore: b stores into an element of a slice/array.
func blockHasIndexStore(b *ssa.BasicBlock) bool {
	for _, in := range b.Instrs {
		if st, ok := in.(*ssa.Store); ok {
			if _, isIdx := st.Addr.(*ssa.IndexAddr); isIdx {
				return true
			}
		}
	}
	return false
}
