#!/bin/bash
# Equivalent-rewrite selftest: rename every parameter, receiver, named result and local variable of the
# whole module (type-resolved, `checker/cmd/renameparams`) in a scratch worktree and run all 58 quick checks
# against it; every verdict must be the same as on the unchanged tree (exit 0). Not registered in MANIFEST.
# usage: selftest/rename_test.sh <scratch-worktree>
set -u
WT=${1:?scratch worktree}
export PATH=/opt/veriftools/go1.26.8/bin:$PATH GOTOOLCHAIN=local GOPROXY=off GOSUMDB=off GOWORK=off
(cd /verif/checker && GOFLAGS=-mod=vendor go build -o /tmp/renameparams ./cmd/renameparams) || exit 2
git -C "$WT" checkout -q -- . || exit 2
(cd "$WT" && LOCALS=1 GOFLAGS=-mod=mod /tmp/renameparams "$WT" ./... && GOFLAGS=-mod=mod go build ./...) || exit 2
bad=0
for i in $(seq -w 1 58); do
  r=$(VERIF_REPO="$WT" VERIF_EVIDENCE=/tmp/ev_rename /verif/run.sh C$i quick 2>&1); e=$?
  [ $e != 0 ] && { bad=1; echo "C$i exit=$e"; echo "$r" | grep -v '^KNOWN' | sed -n 1,4p | cut -c1-300; }
done
git -C "$WT" checkout -q -- .
[ $bad = 0 ] && echo "rename test: all 58 checks silent"
exit $bad
