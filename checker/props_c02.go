package main

import (
	"go/token"
	"go/types"

	"golang.org/x/tools/go/ssa"
)

func init() {
	register(&PropDef{
		ID:    "C02",
		Pkgs:  []string{tr},
		Claim: "Decides the structural part: a stream's pending-item queue is appended only by the data pre-processing step and the trailer handler, consumed only from the head by the data step, and drained only by stream cleanup; END_STREAM is set on a DATA frame only when the item asks for it and no bytes of it remain; an item is dequeued only when fully written and its written prefix is trimmed after every write; the client enqueues a last message only after winning the active->write-done state transition (and any message only while active); trailers are written directly only when the stream's queue is empty and otherwise queued behind the data; a successful trailer write is always followed by stream cleanup, which removes the stream from the writer's table before any RST_STREAM; a server stream is finished once. The data step's frame assembly is decided too: 'nothing left of this item' is len(h)==0 && reader.Remaining()==0, the header and data pieces are skipped only when empty, the written header prefix is the one dropped, a reader failure is never swallowed; the per-stream item list reports 'nothing' only when empty and clears its tail exactly when it became empty.",
		NotDecided:  []string{"equality of the concatenated payload with the bytes the application wrote (value property)", "interleavings with transport shutdown"},
		Assumptions: []string{"the writer loop is the only goroutine touching outStream state (single consumer of the control buffer)"},
		Technique:   "static analysis: who-may-call per receiver field, dominating guards and flag-set conditions on go/ssa branch facts, must-pass-through path search, once-only swap guard",
		Run:         c02,
	})
	register(&PropDef{
		ID:    "C03",
		Pkgs:  []string{tr},
		Claim: "Decides the structural part: whenever a stream is marked active it is also appended to the active list on every path, and a stream is appended without being marked only when it was just taken off the list in the active state; parked states (waiting for stream quota, empty) are assigned only to a stream just dequeued or just created; both re-activation sources exist and are guarded correctly (window update with positive stream quota, initial-window increase); the active list is FIFO (append before the tail sentinel, take after the head sentinel); after every handled control item the writer loop runs the data step before it blocks again. Eventual progress itself is not decided. The writer loop ends only with a non-nil error, and it flushes and blocks for the next control item only when there was no pending item and the data step reported nothing to do.",
		NotDecided:  []string{"'eventually' (fair scheduling, absence of lost wake-ups across goroutines)", "starvation freedom under adversarial window updates"},
		Assumptions: []string{"single writer goroutine"},
		Technique:   "static analysis: must-pass-through pairing of state store and list insertion, who-may-write with constant classification, dominating guards, path search through the writer loop",
		Run:         c03,
	})
	register(&PropDef{
		ID:    "C17",
		Pkgs:  []string{tr},
		Claim: "Decides the structural part: write quota is replenished with exactly the size written on every path that writes DATA; the replenisher signals the (one-slot) wake-up channel without blocking exactly when the quota crosses from non-positive to positive; a blocked writer waits on that channel and on the stream's done channel, which is the stream's done/context channel handed over at stream creation and closed when the stream ends; the stream-quota wait of stream creation selects on the quota channel, the RPC context, GOAWAY and transport shutdown.",
		NotDecided:  []string{"sufficiency of a one-slot channel under all interleavings (lost wake-up freedom)", "eventual wake-up timing"},
		Assumptions: []string{"atomic.AddInt32 returns the new value"},
		Technique:   "static analysis: dominating guards on go/ssa branch facts, value-origin, select-arm inspection, must-pass-through",
		Run:         c17,
	})
}

func c02(c *Ctx) {
	fItl := c.field(tr, "outStream", "itl")
	onItl := func(name string) CM {
		cm := Callee(tr, "itemList."+name)
		return func(cc *ssa.CallCommon) bool { return cm(cc) && len(cc.Args) > 0 && FieldLoad(fItl)(cc.Args[0]) }
	}
	c.Ob("itl-writers", "R1", "per-stream queue: enqueue only in data pre-processing and the trailer handler; dequeue only in the data step; drain only in stream cleanup; the list itself appends at the tail and removes at the head", 6, func() {
		c.WhoMayCall("itl.enqueue", onItl("enqueue"), c.scope(tr), "internal/transport.loopyWriter.preprocessData", "internal/transport.loopyWriter.serverHeaderHandler")
		c.WhoMayCall("itl.dequeue", onItl("dequeue"), c.scope(tr), "internal/transport.loopyWriter.processData")
		c.WhoMayCall("itl.dequeueAll", onItl("dequeueAll"), c.scope(tr), "internal/transport.loopyWriter.cleanupStreamHandler")
		fHead := c.field(tr, "itemList", "head")
		fTail := c.field(tr, "itemList", "tail")
		fNext := c.field(tr, "itemNode", "next")
		enq := c.fn(tr, "itemList.enqueue")
		for _, st := range storesToField(enq, fHead) {
			c.MustFact(st, "head-set-only-when-list-empty", IsNil(FieldLoad(fTail)))
		}
		n := 0
		for _, st := range storesToField(enq, fNext) {
			if ConstNil(st.Val) {
				continue
			}
			n++
			fa := st.Addr.(*ssa.FieldAddr)
			c.Expect(FieldLoad(fTail)(fa.X), st, enq, "links-after-tail", "enqueue links the new node somewhere else than after the tail")
		}
		c.Expect(n == 1, nil, enq, "one-link", "expected one link store in enqueue")
		deq := c.fn(tr, "itemList.dequeue")
		for _, st := range storesToField(deq, fHead) {
			c.ValueIs(st, st.Val, "head-advances-to-next", FieldLoadOn(fNext, FieldLoad(fHead)))
		}
		fIt := c.field(tr, "itemNode", "it")
		for _, r := range returnsOf(deq) {
			if !ConstNil(r.Results[0]) {
				c.ValueIs(r, r.Results[0], "returns-head-item", FieldLoadOn(fIt, FieldLoad(fHead)))
			} else if r.Block() != deq.Recover {
				c.MustFact(r, "nothing-only-from-an-empty-list", IsNil(FieldLoad(fHead)))
			}
		}
		// the tail is cleared exactly when the list became empty (a stale tail would make the next enqueue link behind a removed node and lose the item)
		nT := 0
		for _, st := range storesToField(deq, fTail) {
			nT++
			c.ValueIs(st, st.Val, "tail-cleared", ConstNil)
			c.MustFact(st, "tail-cleared-only-when-list-became-empty", IsNil(FieldLoad(fHead)))
			if len(st.Block().Succs) == 1 {
				c.EnteredOnlyWhenExcept(st.Block().Succs[0], "tail-kept-only-while-nodes-remain", func(p *ssa.BasicBlock) bool { return p == st.Block() }, NotNil(FieldLoad(fHead)))
			}
		}
		c.Expect(nT == 1, nil, deq, "tail-maintained", "dequeue does not clear the tail when the list becomes empty")
		for _, st := range storesToField(enq, fTail) {
			c.ValueIs(st, st.Val, "tail-becomes-the-new-node", func(v ssa.Value) bool { _, ok := v.(*ssa.Alloc); return ok || DataDep(CallRes(CalleeX("sync", "Pool.Get"), 0))(v) })
		}
	})
	c.Ob("frame-assembly", "R3", "processData: 'nothing left of this item' means header bytes == 0 and reader bytes == 0; the header piece h[:hSize] is put into the write buffer unless hSize <= 0 and the data piece is peeked from the reader unless dSize <= 0, with the sizes that are then charged and dropped; a reader failure never ends in a success return", 5, func() {
		pd := c.fn(tr, "loopyWriter.processData")
		fH := c.field(tr, "dataFrame", "h")
		fWB := c.field(tr, "loopyWriter", "writeBuf")
		rem := CallRes(Callee("mem", "Reader.Remaining"), 0)
		// the is-empty flag
		nE := 0
		for _, b := range pd.Blocks {
			for _, in := range b.Instrs {
				ph, ok := in.(*ssa.Phi)
				if !ok || len(ph.Edges) != 2 {
					continue
				}
				if bt, isB := ph.Type().Underlying().(*types.Basic); !isB || bt.Kind() != types.Bool {
					continue
				}
				var cst, cmp ssa.Value
				var cstPred *ssa.BasicBlock
				for i, e := range ph.Edges {
					if _, isC := e.(*ssa.Const); isC {
						cst, cstPred = e, b.Preds[i]
					} else {
						cmp = e
					}
				}
				bo, isCmp := cmp.(*ssa.BinOp)
				if cst == nil || !isCmp || !(rem(bo.X) || LenOf(FieldLoad(fH))(bo.X)) {
					continue
				}
				nE++
				c.inst("is-empty flag <- " + c.siteStr(ph))
				fs := append(append([]Fact(nil), FactsAtBlock(cstPred)...), edgeOnlyFacts(cstPred, b)...)
				other := CmpInt(LenOf(FieldLoad(fH)), token.NEQ, 0)
				if LenOf(FieldLoad(fH))(bo.X) {
					other = CmpInt(rem, token.NEQ, 0)
				}
				_, okF := hasFact(fs, other)
				c.Expect(ConstBool(false)(cst) && okF && bo.Op == token.EQL && ConstInt(0)(bo.Y), ph, pd, "empty-means-no-header-bytes-and-no-reader-bytes", "the 'nothing left to send' flag is not (len(h) == 0 && reader.Remaining() == 0)")
			}
		}
		c.Expect(nE == 1, nil, pd, "is-empty-flag", "the 'nothing left to send' flag was not found")
		// pieces
		nP := 0
		for _, in := range instrsWhere(pd, func(in ssa.Instruction) bool {
			call, ok := in.(*ssa.Call)
			return ok && BuiltinCall("append")(&call.Call)
		}) {
			app := in.(*ssa.Call)
			for _, el := range appendedElems(app) {
				sl, ok := el.(*ssa.Slice)
				if !ok || !FieldLoad(fH)(sl.X) || sl.Low != nil || sl.High == nil {
					continue
				}
				nP++
				hs := sl.High
				c.Expect(FieldLoad(fWB)(app.Call.Args[0]), app, pd, "header-piece-goes-into-the-write-buffer", "the header piece is appended to something other than the write buffer")
				if len(app.Block().Succs) == 1 {
					c.EnteredOnlyWhenExcept(app.Block().Succs[0], "header-piece-skipped-only-when-empty", func(p *ssa.BasicBlock) bool { return p == app.Block() }, CmpInt(func(v ssa.Value) bool { return v == hs }, token.LEQ, 0))
				}
				// the same size is what is dropped from h after the write
				okDrop := false
				for _, st := range storesToField(pd, fH) {
					if s2, ok := st.Val.(*ssa.Slice); ok && s2.Low == hs && s2.High == nil {
						okDrop = true
					}
				}
				c.Expect(okDrop, app, pd, "written-header-prefix-is-what-is-dropped", "the header bytes dropped after the write are not the header bytes written")
			}
		}
		c.Expect(nP == 1, nil, pd, "header-piece", "the header piece h[:hSize] is not put into the write buffer")
		pk := one(c, "reader.Peek", callsIn(pd, Callee("mem", "Reader.Peek")))
		ds := pk.Common().Args[1]
		c.ArgIs(pk, 2, "data-piece-goes-into-the-write-buffer", FieldLoad(fWB))
		okSt := false
		for _, st := range storesToField(pd, fWB) {
			if e, ok := st.Val.(*ssa.Extract); ok && e.Tuple == pk.Value() && e.Index == 0 {
				okSt = true
			}
		}
		c.Expect(okSt, pk, pd, "peeked-bytes-kept", "the bytes peeked from the reader are not kept in the write buffer")
		// skipped only when dSize <= 0: the block after the `if dSize > 0` is entered from outside the peek arm only so
		if pb := pk.Block(); len(pb.Preds) == 1 {
			test := pb.Preds[0]
			for _, su := range test.Succs {
				if su != pb {
					c.EnteredOnlyWhenFrom(su, "data-piece-skipped-only-when-empty", test, CmpInt(func(v ssa.Value) bool { return v == ds }, token.LEQ, 0))
				}
			}
		}
		for _, dc := range callsIn(pd, Callee("mem", "Reader.Discard")) {
			c.ArgIs(dc, 1, "discards-what-was-peeked", func(v ssa.Value) bool { return v == ds })
		}
		c.Expect(len(callsIn(pd, Callee("mem", "Reader.Discard"))) == 1, nil, pd, "written-data-discarded", "the written data bytes are not dropped from the reader")
		c.ErrorsPropagate(pd, "processData", nil)
		// trailers: only for a stream the writer knows
		sh := c.fn(tr, "loopyWriter.serverHeaderHandler")
		for _, ci := range append(callsIn(sh, Callee(tr, "loopyWriter.writeHeader")), callsIn(sh, onItl("enqueue"))...) {
			c.MustFact(ci, "headers-only-for-a-known-stream", Truth(CommaOkOf(FieldLoad(c.field(tr, "loopyWriter", "estdStreams"))), true))
		}
	})
	c.Ob("end-stream-flag", "R2", "END_STREAM accompanies a DATA frame only if the item requests it and zero bytes of the item remain after this write; an item leaves the queue only when zero bytes remain; the written prefix is dropped after each write", 5, func() {
		pd := c.fn(tr, "loopyWriter.processData")
		wd := one(c, "writeData call", callsIn(pd, Callee(tr, "framer.writeData")))
		fEnd := c.field(tr, "dataFrame", "endStream")
		// bytes of the item still unsent after this write = len(prefix) + payload remaining - prefix part written - payload part written
		fH := c.field(tr, "dataFrame", "h")
		var hSize, dSize ssa.Value
		for _, in := range instrsWhere(pd, func(in ssa.Instruction) bool { s, ok := in.(*ssa.Slice); return ok && FieldLoad(fH)(s.X) && s.Low == nil && s.High != nil }) {
			hSize = in.(*ssa.Slice).High
		}
		pk := one(c, "Reader.Peek call", callsIn(pd, Callee("mem", "Reader.Peek")))
		dSize = pk.Common().Args[1]
		if hSize == nil {
			panic(missingStep{"no dataItem.h[:hSize] slice in the data step"})
		}
		is := func(x ssa.Value) VM { return func(v ssa.Value) bool { return stripConv(v) == stripConv(x) } }
		remaining := func(v ssa.Value) bool {
			return isLinear(v, []VM{LenOf(FieldLoad(fH)), CallRes(Callee("mem", "Reader.Remaining"), 0)}, []VM{is(hSize), is(dSize)})
		}
		c.ArgIs(wd, 2, "end-stream-only-when-requested-and-complete", SetWhen(Truth(FieldLoad(fEnd), true), CmpInt(remaining, token.EQL, 0)))
		dq := one(c, "itl.dequeue in the data step", callsIn(pd, onItl("dequeue")))
		c.MustFact(dq, "dequeue-only-when-complete", CmpInt(remaining, token.EQL, 0))
		c.MustFact(dq, "dequeue-only-after-successful-write", IsNil(CallRes(Callee(tr, "framer.writeData"), 0)))
		// and a complete item always leaves the queue
		q := pathQuery{Fn: pd, Starts: []ssa.Instruction{wd}, Barrier: func(in ssa.Instruction) bool { return in == ssa.Instruction(dq) }, Target: isCallTo(Callee(tr, "loopyWriter.updateStreamAfterWrite")),
			EdgeBlock: func(from, to *ssa.BasicBlock) bool {
				_, ok := hasFact(edgeFacts(from, to), CmpInt(remaining, token.NEQ, 0))
				return ok
			}}
		c.MustPass("complete-item-is-dequeued", q, dq)
		c.Expect(len(callsIn(pd, Callee("mem", "Reader.Discard"))) == 1, nil, pd, "written-data-discarded", "the data step does not discard the bytes it wrote")
		// the item written is the head of the stream's queue
		pk2 := one(c, "itl.peek in the data step", callsIn(pd, onItl("peek")))
		c.Dominates(pk2, wd, "writes-the-head-item")
	})
	c.Ob("client-last", "R11", "client write: a last message is enqueued only after winning CAS(active -> write-done); a non-last message only while the stream is active; the frame's endStream is the caller's Last flag", 4, func() {
		f := c.fn(tr, "http2Client.write")
		fLast := c.field(tr, "WriteOptions", "Last")
		put := one(c, "controlBuf.put in client write", callsIn(f, Callee(tr, "controlBuffer.put")))
		active := ConstOfObj(c.konst(tr, "streamActive"))
		wdone := ConstOfObj(c.konst(tr, "streamWriteDone"))
		casOK := func(v ssa.Value) bool {
			call, ok := strip(v).(*ssa.Call)
			return ok && Callee(tr, "Stream.compareAndSwapState")(&call.Call) && active(call.Call.Args[1]) && wdone(call.Call.Args[2])
		}
		c.Unreachable(put, "last-without-winning-cas", Truth(FieldLoad(fLast), true), Truth(casOK, false))
		c.Unreachable(put, "non-last-on-inactive-stream", Truth(FieldLoad(fLast), false), Cmp(CallRes(Callee(tr, "Stream.getState"), 0), token.NEQ, active))
		fEnd := c.field(tr, "dataFrame", "endStream")
		for _, st := range storesToField(f, fEnd) {
			c.ValueIs(st, st.Val, "endStream-is-Last", FieldLoad(fLast))
		}
		c.Expect(len(storesToField(f, fEnd)) == 1, nil, f, "endStream-set", "the client's data frame does not carry the Last flag")
		// the server never sets endStream on data frames (it ends streams with trailers)
		sw := c.fn(tr, "http2Server.write")
		c.Expect(len(storesToField(sw, fEnd)) == 0, nil, sw, "server-data-never-ends-stream", "server data frames set endStream")
	})
	c.Ob("trailers-behind-data", "R2", "server HEADERS items: non-final headers are written at once; final headers (trailers) are written directly only when the stream's queue is empty, otherwise appended to the queue; after DATA, trailers are written only when they are the next queued item", 5, func() {
		f := c.fn(tr, "loopyWriter.serverHeaderHandler")
		fEnd := c.field(tr, "serverHeaders", "endStream")
		fState := c.field(tr, "outStream", "state")
		empty := ConstOfObj(c.konst(tr, "empty"))
		whs := callsIn(f, Callee(tr, "loopyWriter.writeHeader"))
		c.Expect(len(whs) == 2, nil, f, "two-header-writes", "expected a non-final and a final header write")
		nFinal := 0
		for _, wh := range whs {
			if c.HasFact(wh, Truth(FieldLoad(fEnd), false)) {
				continue
			}
			nFinal++
			c.MustFact(wh, "trailers-directly-only-if-queue-empty", Cmp(FieldLoad(fState), token.EQL, empty))
			q := pathQuery{Fn: f, Starts: []ssa.Instruction{wh}, Barrier: isCallTo(Callee(tr, "loopyWriter.cleanupStreamHandler")), Target: isReturn,
				EdgeBlock: func(from, to *ssa.BasicBlock) bool {
					_, ok := hasFact(edgeFacts(from, to), NotNil(CallRes(Callee(tr, "loopyWriter.writeHeader"), 0)))
					return ok
				}}
			c.MustPass("trailers-then-cleanup", q, wh)
		}
		c.Expect(nFinal == 1, nil, f, "one-final-write", "expected exactly one direct trailer write")
		enq := one(c, "itl.enqueue in the trailer handler", callsIn(f, onItl("enqueue")))
		c.MustFact(enq, "queued-only-if-final", Truth(FieldLoad(fEnd), true))
		c.MustFact(enq, "queued-only-if-data-pending", Cmp(FieldLoad(fState), token.NEQ, empty))
		u := c.fn(tr, "loopyWriter.updateStreamAfterWrite")
		wh := one(c, "writeHeader after data", callsIn(u, Callee(tr, "loopyWriter.writeHeader")))
		sh := c.P.LookupType(tr, "serverHeaders")
		c.MustFact(wh, "next-item-is-trailers", Truth(TypeAssertOk(func(t types.Type) bool { return types.Identical(t, types.NewPointer(sh)) }), true))
		q := pathQuery{Fn: u, Starts: []ssa.Instruction{wh}, Barrier: isCallTo(Callee(tr, "loopyWriter.cleanupStreamHandler")), Target: isReturn,
			EdgeBlock: func(from, to *ssa.BasicBlock) bool {
				_, ok := hasFact(edgeFacts(from, to), NotNil(CallRes(Callee(tr, "loopyWriter.writeHeader"), 0)))
				return ok
			}}
		c.MustPass("queued-trailers-then-cleanup", q, wh)
	})
	c.Ob("payload-handling", "R12", "sender (client and server write): the frame item carries the caller's header and data, a reference on the data is taken before the item is queued and dropped again only when queueing failed, quota for len(hdr)+len(data) is obtained first; writer: the item's data is loaded into the reader once (first time the item is processed) and released, the bytes peeked for a frame are exactly the bytes discarded after it", 10, func() {
		fData := c.field(tr, "dataFrame", "data")
		fH := c.field(tr, "dataFrame", "h")
		fProc := c.field(tr, "dataFrame", "processing")
		for _, fn := range []string{"http2Client.write", "http2Server.write"} {
			f := c.fn(tr, fn)
			put := one(c, "controlBuf.put in "+fn, callsIn(f, Callee(tr, "controlBuffer.put")))
			ref := one(c, "data.Ref in "+fn, callsIn(f, Callee("mem", "BufferSlice.Ref")))
			c.ArgIs(ref, 0, fn+":refs-the-callers-data", ParamV("data"))
			c.Dominates(ref, put, fn+":ref-before-queueing")
			perr := func(v ssa.Value) bool { return v == put.Value() }
			frees := callsIn(f, Callee("mem", "BufferSlice.Free"))
			if c.Expect(len(frees) == 1, nil, f, fn+":one-free", "expected exactly one release of the data in the write path (queueing failed)") {
				c.MustFact(frees[0], fn+":released-only-if-queueing-failed", NotNil(perr))
				c.ArgIs(frees[0], 0, fn+":releases-the-callers-data", ParamV("data"))
			}
			for _, r := range successReturns(f, 0) {
				c.Unreachable(r, fn+":queueing-failure-is-reported", NotNil(perr))
			}
			// the queued item is built from the caller's buffers
			al, ok := put.Common().Args[1].(*ssa.MakeInterface)
			okItem := false
			if ok {
				if a, isA := al.X.(*ssa.Alloc); isA {
					okD, okH := false, false
					for _, st := range partStoresTo(a) {
						fa, isF := st.Addr.(*ssa.FieldAddr)
						if !isF {
							continue
						}
						if sameField(fieldOfAddr(fa), fData) && ParamV("data")(st.Val) {
							okD = true
						}
						if sameField(fieldOfAddr(fa), fH) && ParamV("hdr")(st.Val) {
							okH = true
						}
					}
					okItem = okD && okH
				}
			}
			c.Expect(okItem, put, f, fn+":item-carries-callers-header-and-data", "the queued data item is not built from the caller's header and data")
			get := one(c, "wq.get in "+fn, callsIn(f, Callee(tr, "writeQuota.get")))
			if fn == "http2Server.write" {
				c.Dominates(get, put, fn+":quota-before-queueing")
			} else {
				// the client skips the quota for an entirely empty frame
				c.MustPass(fn+":quota-before-queueing", pathQuery{Fn: f, AtEntry: true, Barrier: func(in ssa.Instruction) bool { return in == ssa.Instruction(get) }, Target: func(in ssa.Instruction) bool { return in == ssa.Instruction(put) },
					EdgeBlock: func(from, to *ssa.BasicBlock) bool {
						_, ok := hasFact(edgeFacts(from, to), CmpInt(CallRes(Callee("mem", "BufferSlice.Len"), 0), token.EQL, 0))
						return ok
					}}, nil)
			}
			c.Unreachable(put, fn+":no-queueing-without-quota", NotNil(func(v ssa.Value) bool { return v == get.Value() }))
			c.ArgIs(get, 1, fn+":quota-for-header-plus-data", func(v ssa.Value) bool {
				b, ok := stripConv(v).(*ssa.BinOp)
				return ok && b.Op == token.ADD && (LenOf(ParamV("hdr"))(b.X) && CallRes(Callee("mem", "BufferSlice.Len"), 0)(b.Y) || LenOf(ParamV("hdr"))(b.Y) && CallRes(Callee("mem", "BufferSlice.Len"), 0)(b.X))
			})
		}
		pd := c.fn(tr, "loopyWriter.processData")
		rs := one(c, "reader.Reset", callsIn(pd, Callee("mem", "Reader.Reset")))
		c.ArgIs(rs, 1, "reader-loaded-from-the-item's-data", FieldLoad(fData))
		c.MustFact(rs, "loaded-only-the-first-time", Truth(FieldLoad(fProc), false))
		okFlag := false
		for _, st := range storesToField(pd, fProc) {
			if ConstBool(true)(st.Val) && together(st, rs) {
				okFlag = true
			}
		}
		c.Expect(okFlag, rs, pd, "first-time-flag-set-with-the-load", "the item is not marked as being processed where its data is loaded (it would be loaded again, duplicating bytes)")
		// every path to the write passes the first-time test
		wd := one(c, "writeData", callsIn(pd, Callee(tr, "framer.writeData")))
		c.MustPass("data-loaded-before-first-write", pathQuery{Fn: pd, AtEntry: true, Barrier: func(in ssa.Instruction) bool { return in == ssa.Instruction(rs) }, Target: func(in ssa.Instruction) bool { return in == ssa.Instruction(wd) },
			EdgeBlock: func(from, to *ssa.BasicBlock) bool {
				_, ok := hasFact(edgeFacts(from, to), Truth(FieldLoad(fProc), true))
				return ok
			}}, nil)
		fr := callsIn(pd, Callee("mem", "BufferSlice.Free"))
		if c.Expect(len(fr) == 1, nil, pd, "item-data-released-once", "expected one release of the item's data in the data step") {
			c.Expect(thenAlways(rs, fr[0]), fr[0], pd, "released-after-loading", "the item's data is released before / apart from being loaded into the reader")
		}
		pk := one(c, "reader.Peek", callsIn(pd, Callee("mem", "Reader.Peek")))
		dc := one(c, "reader.Discard", callsIn(pd, Callee("mem", "Reader.Discard")))
		c.Expect(pk.Common().Args[1] == dc.Common().Args[1], dc, pd, "discards-what-was-peeked", "the number of bytes discarded after a frame differs from the number peeked into it")
		c.Dominates(wd, dc, "discard-after-write")
		c.Expect(instrDominates(dc, one(c, "bytesOutStanding update", storesToField(pd, c.field(tr, "outStream", "bytesOutStanding")))), dc, pd, "discard-on-every-write-path", "the written bytes are not discarded on every path after the write")
		// the frame payload is header prefix then peeked data
		c.ArgIs(wd, 3, "payload-is-the-write-buffer", FieldLoad(c.field(tr, "loopyWriter", "writeBuf")))
	})
	c.Ob("cleanup", "R3", "stream cleanup removes the stream from the writer's table (and from the active list, and drains its queue) before any RST_STREAM is written; finishing a server stream enqueues its trailers only on the first transition to done", 5, func() {
		f := c.fn(tr, "loopyWriter.cleanupStreamHandler")
		fEstd := c.field(tr, "loopyWriter", "estdStreams")
		var dels []ssa.Instruction
		for _, m := range mutationsOf(f, fEstd) {
			if m.Kind == "delete" {
				dels = append(dels, m.Instr)
			}
		}
		del := one(c, "delete from estdStreams", dels)
		rst := one(c, "WriteRSTStream in cleanup", callsIn(f, CalleeX(h2, "Framer.WriteRSTStream")))
		c.Expect(!reachableBlocks(rst.Block())[del.Block()], del, f, "removed-before-reset", "the stream can be removed from the table after RST_STREAM was written")
		c.MustFact(rst, "reset-only-if-requested", Truth(FieldLoad(c.field(tr, "cleanupStream", "rst")), true))
		for _, name := range []string{"outStream.deleteSelf"} {
			call := one(c, name+" in cleanup", callsIn(f, Callee(tr, name)))
			c.MustFact(call, "only-for-known-stream", Truth(CommaOkOf(FieldLoad(fEstd)), true))
		}
		one(c, "itl.dequeueAll in cleanup", callsIn(f, onItl("dequeueAll")))
		fs := c.fn(tr, "http2Server.finishStream")
		put := one(c, "controlBuf.put in finishStream", callsIn(fs, Callee(tr, "controlBuffer.put")))
		c.MustFact(put, "first-transition-to-done", Cmp(CallRes(Callee(tr, "Stream.swapState"), 0), token.NEQ, ConstOfObj(c.konst(tr, "streamDone"))))
		sw := one(c, "swapState in finishStream", callsIn(fs, Callee(tr, "Stream.swapState")))
		c.ArgIs(sw, 1, "swaps-to-done", ConstOfObj(c.konst(tr, "streamDone")))
	})
}

func c03(c *Ctx) {
	fState := c.field(tr, "outStream", "state")
	fAct := c.field(tr, "loopyWriter", "activeStreams")
	active := ConstOfObj(c.konst(tr, "active"))
	waiting := ConstOfObj(c.konst(tr, "waitingOnStreamQuota"))
	empty := ConstOfObj(c.konst(tr, "empty"))
	listEnq := func(cc *ssa.CallCommon) bool {
		return Callee(tr, "outStreamList.enqueue")(cc) && FieldLoad(fAct)(cc.Args[0])
	}
	c.Ob("active-iff-listed", "R12", "every store state=active is followed on all paths by activeStreams.enqueue of that stream; every enqueue is preceded by such a store, except the re-append after a write (the stream was dequeued while active); waiting/empty are stored only in the data step, after-write update, or on freshly created streams", 10, func() {
		nAct, nEnq := 0, 0
		for _, f := range c.scope(tr) {
			for _, st := range storesToField(f, fState) {
				switch {
				case active(st.Val):
					nAct++
					q := pathQuery{Fn: f, Starts: []ssa.Instruction{st}, Barrier: isCallTo(listEnq), Target: isReturn}
					c.MustPass("activate-then-enqueue", q, st)
					// same stream
					for _, e := range callsIn(f, listEnq) {
						if instrDominates(st, e) {
							c.Expect(sameValue(e.Common().Args[1], st.Addr.(*ssa.FieldAddr).X), e, f, "enqueues-the-activated-stream", "the stream appended to the active list is not the one marked active")
						}
					}
				case waiting(st.Val) || empty(st.Val):
					top := shortName(topFunc(f))
					ok := top == "internal/transport.loopyWriter.processData" || top == "internal/transport.loopyWriter.updateStreamAfterWrite" || freshReceiver(st.Addr.(*ssa.FieldAddr).X)
					c.Expect(ok, st, f, "parked-only-when-off-list", "a stream is parked (waiting/empty) in a function where it may still be on the active list")
				default:
					c.Expect(false, st, f, "known-state-constant", "outStream.state is assigned a non-constant or unknown value")
				}
			}
			for _, e := range callsIn(f, listEnq) {
				nEnq++
				if shortName(f) == "internal/transport.loopyWriter.updateStreamAfterWrite" {
					continue
				}
				found := false
				for _, st := range storesToField(f, fState) {
					if active(st.Val) && instrDominates(st, e) {
						found = true
					}
				}
				c.Expect(found, e, f, "enqueue-only-when-marked-active", "a stream is appended to the active list without being marked active")
			}
		}
		c.Expect(nAct == 3 && nEnq == 4, nil, nil, "site-counts", "expected 3 activation sites and 4 list insertions")
		// data step: the stream processed is the one dequeued, and it is parked only with no stream quota and a non-empty frame
		pd := c.fn(tr, "loopyWriter.processData")
		one(c, "activeStreams.dequeue in the data step", callsIn(pd, func(cc *ssa.CallCommon) bool {
			return Callee(tr, "outStreamList.dequeue")(cc) && FieldLoad(fAct)(cc.Args[0])
		}))
	})
	c.Ob("data-step", "R3", "processData: nothing is written without connection quota; a dequeued stream is either parked (only with no stream quota and a non-empty frame, and under no further condition) or written; after a successful write the stream's next state is decided; updateStreamAfterWrite re-lists the stream unless its queue is empty, trailers follow, or its stream quota is exhausted", 8, func() {
		pd := c.fn(tr, "loopyWriter.processData")
		fSQ := c.field(tr, "loopyWriter", "sendQuota")
		fOiws := c.field(tr, "loopyWriter", "oiws")
		fBOS := c.field(tr, "outStream", "bytesOutStanding")
		strQuota := BinOpV(token.SUB, func(v ssa.Value) bool { return FieldLoad(fOiws)(stripConv(v)) }, FieldLoad(fBOS))
		noQuota := CmpInt(strQuota, token.LEQ, 0)
		deq := one(c, "activeStreams.dequeue", callsIn(pd, func(cc *ssa.CallCommon) bool {
			return Callee(tr, "outStreamList.dequeue")(cc) && FieldLoad(fAct)(cc.Args[0])
		}))
		wd := one(c, "writeData", callsIn(pd, Callee(tr, "framer.writeData")))
		var park *ssa.Store
		for _, st := range storesToField(pd, fState) {
			if waiting(st.Val) {
				park = st
			}
		}
		if !c.Expect(park != nil, nil, pd, "park-site", "the data step never parks a stream that is out of stream quota") {
			return
		}
		c.MustFact(park, "parked-only-without-stream-quota", noQuota)
		isEmptyFlag := func(v ssa.Value) bool {
			p, ok := v.(*ssa.Phi)
			if !ok {
				return false
			}
			b, isB := p.Type().Underlying().(*types.Basic)
			return isB && b.Kind() == types.Bool
		}
		c.MustFact(park, "parked-only-with-something-to-send", Truth(isEmptyFlag, false))
		c.OnlyFacts(park, "parking-has-no-further-precondition", noQuota, Truth(isEmptyFlag, false),
			CmpInt(FieldLoad(fSQ), token.NEQ, 0), NotNil(func(v ssa.Value) bool { return v == deq.Value() }))
		c.Unreachable(wd, "no-write-without-connection-quota", CmpInt(FieldLoad(fSQ), token.EQL, 0))
		c.Unreachable(wd, "no-write-without-stream-quota", noQuota, Truth(isEmptyFlag, false))
		isPark := func(in ssa.Instruction) bool { return in == ssa.Instruction(park) }
		isWD := func(in ssa.Instruction) bool { return in == ssa.Instruction(wd) }
		c.MustPass("dequeued-stream-is-parked-or-written", pathQuery{Fn: pd, Starts: []ssa.Instruction{deq}, Barrier: orInstr(isPark, isWD), Target: func(in ssa.Instruction) bool {
			r, ok := in.(*ssa.Return)
			return ok && ConstNil(r.Results[1]) // error returns (reader failure) aside
		}, EdgeBlock: func(from, to *ssa.BasicBlock) bool {
			_, ok := hasFact(edgeFacts(from, to), IsNil(func(v ssa.Value) bool { return v == deq.Value() }))
			return ok
		}}, deq)
		// 'nothing to do' (the writer may flush and block) is reported only without connection quota or with an empty active
		// list — never after a stream was merely parked: streams queued behind it may still be writable
		for _, r := range returnsOf(pd) {
			if r.Block() == pd.Recover || ConstBool(false)(r.Results[0]) {
				continue // a result that is not the constant false may be true
			}
			c.MustFactAny(r, "idle-reported-only-without-quota-or-without-active-streams", CmpInt(FieldLoad(fSQ), token.EQL, 0), IsNil(func(v ssa.Value) bool { return v == deq.Value() }))
		}
		upd := one(c, "updateStreamAfterWrite call", callsIn(pd, Callee(tr, "loopyWriter.updateStreamAfterWrite")))
		c.MustPass("written-stream-gets-its-next-state", pathQuery{Fn: pd, Starts: []ssa.Instruction{wd}, Barrier: func(in ssa.Instruction) bool { return in == ssa.Instruction(upd) }, Target: isReturn,
			EdgeBlock: func(from, to *ssa.BasicBlock) bool {
				_, ok := hasFact(edgeFacts(from, to), NotNil(func(v ssa.Value) bool { return v == wd.Value() }))
				return ok
			}}, wd)
		c.ArgIs(upd, 1, "next-state-of-the-written-stream", func(v ssa.Value) bool { return v == deq.Value() })
		ua := c.fn(tr, "loopyWriter.updateStreamAfterWrite")
		decided := func(in ssa.Instruction) bool {
			if st, ok := in.(*ssa.Store); ok && FieldAddrOf(fState)(st.Addr) {
				return true
			}
			return isCallTo(listEnq)(in) || isCallTo(Callee(tr, "loopyWriter.writeHeader"))(in)
		}
		c.MustPass("after-write:state-always-decided", pathQuery{Fn: ua, AtEntry: true, Barrier: decided, Target: isReturn}, nil)
		for _, st := range storesToField(ua, fState) {
			if waiting(st.Val) {
				c.MustFact(st, "after-write:parked-only-without-stream-quota", noQuota)
				c.OnlyFacts(st, "after-write:parking-has-no-further-precondition", noQuota,
					Truth(CallRes(Callee(tr, "itemList.isEmpty"), 0), false), Truth(TypeAssertOk(func(types.Type) bool { return true }), false))
			}
			if empty(st.Val) {
				c.MustFact(st, "after-write:empty-only-with-empty-queue", Truth(CallRes(Callee(tr, "itemList.isEmpty"), 0), true))
			}
		}
		for _, e := range callsIn(ua, listEnq) {
			c.Unreachable(e, "after-write:not-relisted-without-stream-quota", noQuota)
			c.Unreachable(e, "after-write:not-relisted-with-empty-queue", Truth(CallRes(Callee(tr, "itemList.isEmpty"), 0), true))
		}
	})
	c.Ob("wait-consumers", "R6", "a stream waiting for stream quota is re-activated by a stream WINDOW_UPDATE that leaves positive quota, and by a SETTINGS increase of the initial window (old < new)", 2, func() {
		wu := c.fn(tr, "loopyWriter.incomingWindowUpdateHandler")
		as := c.fn(tr, "loopyWriter.applySettings")
		fOiws := c.field(tr, "loopyWriter", "oiws")
		fBOS := c.field(tr, "outStream", "bytesOutStanding")
		for _, pr := range []struct {
			f    *ssa.Function
			more FM
			name string
		}{
			{wu, CmpInt(BinOpV(token.SUB, func(v ssa.Value) bool { return FieldLoad(fOiws)(stripConv(v)) }, FieldLoad(fBOS)), token.GTR, 0), "positive-stream-quota"},
			{as, Cmp(FieldLoad(fOiws), token.LSS, FieldLoad(fOiws)), "window-grew"},
		} {
			sts := []*ssa.Store{}
			for _, st := range storesToField(pr.f, fState) {
				if active(st.Val) {
					sts = append(sts, st)
				}
			}
			st := one(c, "re-activation in "+shortName(pr.f), sts)
			c.MustFact(st, "only-streams-waiting-for-quota", Cmp(FieldLoad(fState), token.EQL, waiting))
			c.MustFact(st, pr.name, pr.more)
			// and nothing else: every waiting stream is re-activated when credit arrives
			c.OnlyFacts(st, "re-activation-has-no-further-precondition:"+pr.name,
				Cmp(FieldLoad(fState), token.EQL, waiting), pr.more,
				Truth(CommaOkOf(FieldLoad(c.field(tr, "loopyWriter", "estdStreams"))), true),
				Cmp(FieldLoad(c.field(tr, "incomingWindowUpdate", "streamID")), token.NEQ, ConstInt(0)),
				Cmp(FieldLoad(c.field(h2, "Setting", "ID")), token.EQL, ConstOfObj(c.konst(h2, "SettingInitialWindowSize"))))
		}
		// the window-grew comparison compares the OLD window with the NEW one
		so := one(c, "oiws store", storesToField(as, fOiws))
		for _, in := range instrsWhere(as, func(in ssa.Instruction) bool {
			b, ok := in.(*ssa.BinOp)
			return ok && b.Op == token.LSS && FieldLoad(fOiws)(b.X) && FieldLoad(fOiws)(b.Y)
		}) {
			b := in.(*ssa.BinOp)
			c.Expect(instrDominates(b.X.(ssa.Instruction), so) && instrDominates(so, b.Y.(ssa.Instruction)), in, as, "old-less-than-new", "the comparison is not old window < new window")
		}
	})
	c.Ob("list-shape", "R1", "active list is FIFO: enqueue links the stream immediately before the tail sentinel, dequeue takes the element immediately after the head sentinel and returns nil only when that is the tail", 4, func() {
		fNext := c.field(tr, "outStream", "next")
		fPrev := c.field(tr, "outStream", "prev")
		fTail := c.field(tr, "outStreamList", "tail")
		fHead := c.field(tr, "outStreamList", "head")
		enq := c.fn(tr, "outStreamList.enqueue")
		ok1, ok2 := false, false
		for _, st := range storesToField(enq, fNext) {
			if ParamV("s")(st.Addr.(*ssa.FieldAddr).X) && FieldLoad(fTail)(st.Val) {
				ok1 = true // s.next = tail
			}
		}
		for _, st := range storesToField(enq, fPrev) {
			if FieldLoad(fTail)(st.Addr.(*ssa.FieldAddr).X) && ParamV("s")(st.Val) {
				ok2 = true // tail.prev = s
			}
		}
		c.Expect(ok1, nil, enq, "s.next=tail", "enqueue does not link the stream before the tail sentinel")
		c.Expect(ok2, nil, enq, "tail.prev=s", "enqueue does not make the stream the last element")
		deq := c.fn(tr, "outStreamList.dequeue")
		first := FieldLoadOn(fNext, FieldLoad(fHead))
		for _, r := range returnsOf(deq) {
			if ConstNil(r.Results[0]) {
				c.MustFact(r, "nil-only-when-empty", Cmp(first, token.EQL, FieldLoad(fTail)))
			} else {
				c.ValueIs(r, r.Results[0], "takes-first-element", first)
			}
		}
	})
	c.Ob("loop-reconsiders", "R3", "writer loop: after every successfully handled control item the data step runs before the loop fetches (or blocks for) the next item", 2, func() {
		run := c.fn(tr, "loopyWriter.run")
		hs := callsIn(run, Callee(tr, "loopyWriter.handle"))
		c.Expect(len(hs) == 2, nil, run, "two-handle-sites", "expected two handle sites in the writer loop")
		for _, h := range hs {
			q := pathQuery{Fn: run, Starts: []ssa.Instruction{h}, Barrier: isCallTo(Callee(tr, "loopyWriter.processData")),
				Target: isCallTo(Callee(tr, "controlBuffer.get")),
				EdgeBlock: func(from, to *ssa.BasicBlock) bool {
					_, ok := hasFact(edgeFacts(from, to), NotNil(CallRes(Callee(tr, "loopyWriter.handle"), 0)))
					return ok
				}}
			c.MustPass("handle-then-process-data", q, h)
		}
		// the writer loop ends only with an error (a successful step never terminates it)
		for _, r := range returnsOf(run) {
			if r.Block() == run.Recover || len(r.Results) == 0 {
				continue
			}
			val := strip(r.Results[0])
			c.MustFact(r, "writer-loop-ends-only-with-an-error", NotNil(func(v ssa.Value) bool { return v == val || strip(v) == val }))
		}
		// the inner loop is left (flush, then block for the next control item) only when there was no control item and the data step had nothing to do
		nFl := 0
		for _, fl := range callsIn(run, Callee(tr, "bufWriter.Flush")) {
			nFl++
			c.MustFact(fl, "blocks-only-without-pending-control-item", IsNil(CallRes(Callee(tr, "controlBuffer.get"), 0)))
			c.MustFact(fl, "blocks-only-when-the-data-step-had-nothing-to-do", Truth(CallRes(Callee(tr, "loopyWriter.processData"), 0), true))
		}
		c.Expect(nFl == 1, nil, run, "flush-before-blocking", "expected one flush before the loop blocks for the next item")
		for _, h := range hs {
			if it, ok := h.Common().Args[1].(*ssa.Extract); ok {
				if g, ok := it.Tuple.(*ssa.Call); ok && ConstBool(false)(g.Call.Args[1]) {
					c.MustFact(h, "handles-only-an-existing-item", NotNil(func(v ssa.Value) bool { return v == ssa.Value(it) }))
				}
			}
		}
		// the loop blocks only when the data step reported nothing to do
		for _, g := range callsIn(run, Callee(tr, "controlBuffer.get")) {
			if ConstBool(true)(g.Common().Args[1]) {
				c.inst("blocking get <- " + c.siteStr(g))
			}
		}
	})
}

func c17(c *Ctx) {
	fQ := c.field(tr, "writeQuota", "quota")
	fCh := c.field(tr, "writeQuota", "ch")
	fDone := c.field(tr, "writeQuota", "done")
	c.Ob("replenish-signal", "R2", "the replenisher signals the wake-up channel, without blocking, exactly when the quota crosses from <= 0 to > 0; a waiter loops on that channel and the done channel and takes quota only when it is positive", 6, func() {
		f := c.fn(tr, "writeQuota.realReplenish")
		add := func(v ssa.Value) bool {
			call, ok := strip(v).(*ssa.Call)
			return ok && CalleeX("sync/atomic", "AddInt32")(&call.Call) && FieldAddrOf(fQ)(call.Call.Args[0])
		}
		sel := one(c, "select in realReplenish", instrsWhere(f, func(in ssa.Instruction) bool { _, ok := in.(*ssa.Select); return ok })).(*ssa.Select)
		c.Expect(!sel.Blocking && len(sel.States) == 1 && sel.States[0].Dir == types.SendOnly && FieldLoad(fCh)(sel.States[0].Chan), sel, f, "non-blocking-send", "the wake-up is not a non-blocking send on the quota channel")
		c.MustFact(sel, "new-quota-positive", CmpInt(add, token.GTR, 0))
		c.MustFact(sel, "previous-quota-non-positive", CmpInt(BinOpV(token.SUB, add, AnyV), token.LEQ, 0))
		// never skipped when crossing
		var addI ssa.Instruction
		for _, in := range instrsWhere(f, func(in ssa.Instruction) bool { v, ok := in.(ssa.Value); return ok && add(v) }) {
			addI = in
		}
		q := pathQuery{Fn: f, Starts: []ssa.Instruction{addI}, Barrier: func(in ssa.Instruction) bool { return in == ssa.Instruction(sel) }, Target: isReturn,
			EdgeBlock: func(from, to *ssa.BasicBlock) bool {
				fs := edgeFacts(from, to)
				_, a := hasFact(fs, CmpInt(add, token.LEQ, 0))
				_, b := hasFact(fs, CmpInt(BinOpV(token.SUB, add, AnyV), token.GTR, 0))
				return a || b
			}}
		c.MustPass("crossing-always-signals", q, addI)
		// the amount added is the amount replenished
		c.Expect(func() bool { return DataDep(ParamV("n"))(addI.(*ssa.Call).Call.Args[1]) }(), addI, f, "adds-n", "the quota is not increased by the replenished amount")
		g := c.fn(tr, "writeQuota.get")
		gsel := one(c, "select in get", instrsWhere(g, func(in ssa.Instruction) bool { _, ok := in.(*ssa.Select); return ok })).(*ssa.Select)
		hasCh, hasDone := false, false
		for _, st := range gsel.States {
			if FieldLoad(fCh)(st.Chan) {
				hasCh = true
			}
			if FieldLoad(fDone)(st.Chan) {
				hasDone = true
			}
		}
		c.Expect(gsel.Blocking && hasCh && hasDone, gsel, g, "waits-on-quota-and-done", "get does not wait on both the quota channel and the done channel")
		for _, in := range instrsWhere(g, func(in ssa.Instruction) bool {
			call, ok := in.(*ssa.Call)
			return ok && CalleeX("sync/atomic", "AddInt32")(&call.Call) && FieldAddrOf(fQ)(call.Call.Args[0])
		}) {
			ld := CallWith(CalleeX("sync/atomic", "LoadInt32"), 0, FieldAddrOf(fQ))
			c.MustFact(in, "takes-quota-only-if-positive", CmpInt(ld, token.GTR, 0))
		}
		ini := c.fn(tr, "writeQuota.init")
		for _, st := range storesToField(ini, c.field(tr, "writeQuota", "replenish")) {
			c.Expect(DataDep(func(v ssa.Value) bool { fn, ok := v.(*ssa.Function); return ok && fn.Name() == "realReplenish$bound" || ok && fn.Object() != nil && fn.Object().Name() == "realReplenish" })(st.Val), st, ini, "production-replenisher", "the replenish hook is not initialised to realReplenish")
		}
		for _, st := range storesToField(ini, fDone) {
			c.ValueIs(st, st.Val, "done-from-caller", ParamV("done"))
		}
	})
	c.Ob("waiter-count", "R12", "client stream admission: the count of calls waiting for stream quota goes up only when a call finds no quota on its first try, and down only when a call that had been counted is admitted (quota positive); a woken caller that finds no quota again stays counted, so every wake-up site that tests 'waiters > 0' still sees it; the first-try marker is true when the call starts and false from the first unsuccessful attempt on", 2, func() {
		fSQ := c.field(tr, "http2Client", "streamQuota")
		fWS := c.field(tr, "http2Client", "waitingStreams")
		nsf := c.fn(tr, "http2Client.NewStream")
		var inc, dec *ssa.Store
		n := 0
		for _, f := range c.scope(tr) {
			if shortName(topFunc(f)) != "internal/transport.http2Client.NewStream" {
				continue
			}
			for _, st := range storesToField(f, fWS) {
				n++
				switch {
				case BinOpV(token.ADD, FieldLoad(fWS), ConstInt(1))(st.Val):
					inc = st
				case BinOpV(token.SUB, FieldLoad(fWS), ConstInt(1))(st.Val):
					dec = st
				default:
					c.Expect(false, st, f, "waiter-count-changes-by-one", "the waiter count is changed by something other than +1 / -1")
				}
			}
		}
		c.WhoMayMutate("waitingStreams", fWS, c.scope(tr), "internal/transport.http2Client.NewStream", "internal/transport.NewHTTP2Client")
		if !c.Expect(n == 2 && inc != nil && dec != nil, nil, nsf, "waiter-count-sites", "expected one increment and one decrement of the waiter count in stream admission") {
			return
		}
		// the first-try marker: the captured boolean that the increment is conditioned on
		var marker *ssa.FreeVar
		for _, fc := range FactsAt(inc) {
			if fc.Kind != "truth" || !fc.Pol {
				continue
			}
			if u, ok := fc.X.(*ssa.UnOp); ok {
				if fv, ok := u.X.(*ssa.FreeVar); ok {
					marker = fv
				}
			}
		}
		if !c.Expect(marker != nil, inc, inc.Parent(), "counted-only-on-the-first-try", "the waiter count is incremented without a first-try test (a waiting call would be counted once per wake-up)") {
			return
		}
		first := func(v ssa.Value) bool {
			u, ok := v.(*ssa.UnOp)
			if !ok {
				return false
			}
			fv, ok := u.X.(*ssa.FreeVar)
			return ok && fv.Name() == marker.Name() && fv.Parent() == v.(*ssa.UnOp).Parent()
		}
		c.MustFact(inc, "counted-only-when-there-is-no-quota", CmpInt(FieldLoad(fSQ), token.LEQ, 0))
		c.MustFact(dec, "uncounted-only-when-admitted", CmpInt(FieldLoad(fSQ), token.GTR, 0))
		c.MustFact(dec, "uncounted-only-if-it-had-been-counted", Truth(first, false))
		// lifecycle of the marker cell in NewStream
		var cell *ssa.Alloc
		for _, in := range instrsWhere(nsf, func(in ssa.Instruction) bool { mc, ok := in.(*ssa.MakeClosure); return ok && mc.Fn == ssa.Value(inc.Parent()) }) {
			mc := in.(*ssa.MakeClosure)
			for i, fv := range inc.Parent().FreeVars {
				if fv == marker {
					cell, _ = mc.Bindings[i].(*ssa.Alloc)
				}
			}
		}
		if !c.Expect(cell != nil, inc, nsf, "first-try-marker-cell", "the first-try marker is not a variable of NewStream") {
			return
		}
		nTrue, nFalse := 0, 0
		for _, st := range storesTo(cell) {
			if st.Parent() != nsf {
				c.Expect(false, st, st.Parent(), "first-try-marker-written-by-NewStream-only", "the first-try marker is written inside a closure")
				continue
			}
			switch {
			case ConstBool(true)(st.Val):
				nTrue++
				c.Expect(!inLoop(st), st, nsf, "first-try-marked-once", "the first-try marker is set to true again inside the admission loop (a waiting call would be counted once per wake-up)")
			case ConstBool(false)(st.Val):
				nFalse++
			default:
				c.Expect(false, st, nsf, "first-try-marker-is-constant", "the first-try marker is assigned a non-constant value")
			}
		}
		c.Expect(nTrue == 1 && nFalse >= 1, nil, nsf, "first-try-marker-lifecycle", "expected the first-try marker to be set true once before the admission loop and false after an unsuccessful attempt")
	})
	c.Ob("stream-quota-signal", "R12", "client: every change of the stream quota (taken by a new stream, returned by a closing stream, raised by SETTINGS) is followed, on every path on which quota is left positive and someone is waiting, by a wake-up on streamsQuotaAvailable (non-blocking token, or close-and-replace broadcast); a waiter registers itself before sleeping on that channel", 3, func() {
		fSQ := c.field(tr, "http2Client", "streamQuota")
		fWS := c.field(tr, "http2Client", "waitingStreams")
		fAv := c.field(tr, "http2Client", "streamsQuotaAvailable")
		ww := wakeWrappers(c, tr, fAv)
		isWake := func(in ssa.Instruction) bool {
			switch x := in.(type) {
			case *ssa.Select:
				for _, st := range x.States {
					if st.Dir == types.SendOnly && FieldLoad(fAv)(st.Chan) {
						return !x.Blocking
					}
				}
			case *ssa.Call:
				if isWakeCall(ww, in) {
					return true
				}
				return BuiltinCall("close")(&x.Call) && len(x.Call.Args) > 0 && FieldLoad(fAv)(x.Call.Args[0])
			}
			return false
		}
		n := 0
		for _, f := range c.scope(tr) {
			for _, st := range storesToField(f, fSQ) {
				if freshReceiver(st.Addr.(*ssa.FieldAddr).X) {
					continue
				}
				n++
				c.inst("stream quota changed <- " + c.siteStr(st))
				q := pathQuery{Fn: f, Starts: []ssa.Instruction{st}, Barrier: isWake, Target: isReturn,
					EdgeBlock: func(from, to *ssa.BasicBlock) bool {
						fs := edgeFacts(from, to)
						_, a := hasFact(fs, CmpInt(FieldLoad(fSQ), token.LEQ, 0))
						_, b := hasFact(fs, CmpInt(FieldLoad(fWS), token.LEQ, 0))
						_, d := hasFact(fs, CmpInt(AnyV, token.LEQ, 0)) // delta <= 0 in the SETTINGS handler
						if d {
							// only a test on the amount just added counts
							d = false
							for _, fc := range fs {
								if fc.Kind == "cmp" && !FieldLoad(fSQ)(fc.X) && !FieldLoad(fWS)(fc.X) {
									if b, ok := st.Val.(*ssa.BinOp); ok && (fc.X == b.Y || sameValue(fc.X, b.Y)) && CmpInt(AnyV, token.LEQ, 0)(fc) {
										d = true
									}
								}
							}
						}
						// a transport that no longer accepts streams (draining / closed) releases its waiters through goAway / ctx, not through quota
						_, e1 := hasFact(fs, Cmp(FieldLoad(c.field(tr, "http2Client", "state")), token.EQL, ConstOfObj(c.konst(tr, "draining"))))
						_, e2 := hasFact(fs, IsNil(FieldLoad(c.field(tr, "http2Client", "activeStreams"))))
						return a || b || d || e1 || e2
					}}
				c.MustPass("quota-change-wakes-waiters", q, st)
			}
		}
		c.Expect(n == 3, nil, nil, "three-quota-change-sites", "expected three stream-quota change sites (take, return, SETTINGS)")
		// waiter registration precedes the sleep
		ns := c.fn(tr, "http2Client.NewStream")
		okReg := false
		for _, g := range ns.AnonFuncs {
			for _, st := range storesToField(g, fWS) {
				if BinOpV(token.ADD, FieldLoad(fWS), ConstInt(1))(st.Val) {
					okReg = true
					c.MustFact(st, "registers-only-when-out-of-quota", CmpInt(FieldLoad(fSQ), token.LEQ, 0))
				}
			}
		}
		c.Expect(okReg, nil, ns, "waiter-registers", "a NewStream call that has to wait does not register itself as waiting")
	})
	c.Ob("replenish-on-write", "R3", "the data step replenishes the stream's write quota with the size it is about to write, before the write, on the path of every DATA write", 2, func() {
		pd := c.fn(tr, "loopyWriter.processData")
		wd := one(c, "writeData call", callsIn(pd, Callee(tr, "framer.writeData")))
		fRep := c.field(tr, "writeQuota", "replenish")
		rp := one(c, "wq.replenish call", callsIn(pd, FieldCall(fRep)))
		c.Dominates(rp, wd, "replenish-on-every-write-path")
		fBOS := c.field(tr, "outStream", "bytesOutStanding")
		var size ssa.Value
		for _, st := range storesToField(pd, fBOS) {
			if b, ok := st.Val.(*ssa.BinOp); ok && b.Op == token.ADD {
				size = b.Y
			}
		}
		c.Expect(size != nil && stripConv(rp.Common().Args[0]) == stripConv(size), rp, pd, "replenishes-the-size-written", "the replenished amount is not the size written")
	})
	c.Ob("done-channel", "R8", "the done channel given to the write quota is the stream's own done (client) / context-done (server) channel; the client closes it when the stream is closed", 3, func() {
		n := 0
		for _, f := range c.scope(tr) {
			for _, ci := range callsIn(f, Callee(tr, "writeQuota.init")) {
				n++
				name := shortName(topFunc(f))
				switch name {
				case "internal/transport.http2Client.newStream":
					c.ArgIs(ci, 2, "client-done-is-stream-done", FieldLoad(c.field(tr, "ClientStream", "done")))
				case "internal/transport.http2Server.operateHeaders":
					c.ArgIs(ci, 2, "server-done-is-context-done", FieldLoad(c.field(tr, "ServerStream", "ctxDone")))
				default:
					c.Expect(false, ci, f, "known-init-site", "write quota initialised at an unreviewed site")
				}
			}
		}
		c.Expect(n == 2, nil, nil, "two-init-sites", "expected the write quota to be initialised for client and server streams")
		cs := c.fn(tr, "http2Client.closeStream")
		fDoneS := c.field(tr, "ClientStream", "done")
		nc := 0
		for _, m := range mutationsOf(cs, fDoneS) {
			if m.Kind == "close" {
				nc++
				c.MustFact(m.Instr, "closed-once", Cmp(CallRes(Callee(tr, "Stream.swapState"), 0), token.NEQ, ConstOfObj(c.konst(tr, "streamDone"))))
			}
		}
		c.Expect(nc == 1, nil, cs, "close-done-in-closeStream", "closeStream does not close the stream's done channel")
	})
	c.Ob("stream-quota-wait", "R6", "stream creation's wait for stream quota selects on the quota-available channel, the RPC context, the GOAWAY channel and the transport context", 4, func() {
		f := c.fn(tr, "http2Client.NewStream")
		sel := one(c, "blocking select in NewStream", instrsWhere(f, func(in ssa.Instruction) bool { s, ok := in.(*ssa.Select); return ok && s.Blocking })).(*ssa.Select)
		fGoAway := c.field(tr, "http2Client", "goAway")
		want := map[string]VM{
			"rpc-context":       CallRes(CalleeX("context", "Context.Done"), 0),
			"goaway":            FieldLoad(fGoAway),
			"quota-available":   func(v ssa.Value) bool { _, ok := strip(v).(*ssa.UnOp); return ok },
		}
		for _, name := range sortedKeys(want) {
			found := false
			for _, st := range sel.States {
				if want[name](st.Chan) {
					found = true
				}
			}
			c.Expect(found, sel, f, "arm-"+name, "the stream-quota wait has no "+name+" arm")
		}
		c.Expect(len(sel.States) == 4, sel, f, "four-arms", "expected four arms in the stream-quota wait")
	})
}
