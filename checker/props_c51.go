package main

import (
	"go/token"

	"golang.org/x/tools/go/ssa"
)

const xres = "internal/xds/resolver"

func init() {
	register(&PropDef{
		ID:    "C51",
		Pkgs:  []string{xres, "grpc"},
		Claim: "Decides the structural part: every successful route selection passes through the reference increments (route cluster and cluster/plugin info) and installs an OnCommitted callback built with sync.OnceFunc whose body performs the matching decrements on all its paths; the stream invokes the commit callback only on the first commit and the same once-wrapped callback is registered for stream termination; entries leave the active cluster/plugin maps only in the prune function and only at reference count zero; stopping a selector releases each of its references once. Selector construction never continues past a failing interceptor, a partially built selector is stopped only when construction failed, and every routed cluster is recorded from the resolver's active-cluster table.",
		NotDecided:  []string{"that the count never reaches zero while an uncommitted RPC exists, over all interleavings of config updates and RPCs (history property; the pairing is decided, not the history)"},
		Assumptions: []string{"sync.OnceFunc runs its function at most once", "atomic.Int32 semantics"},
		Technique:   "static analysis: must-pass-through path search for the increments and the callback installation, value-origin (sync.OnceFunc), closure-body pairing, who-may-write with dominating zero-check",
		Run:         c51,
	})
}

func c51(c *Ctx) {
	addN := func(n int64) func(ssa.Instruction) bool {
		return func(in ssa.Instruction) bool {
			call, ok := in.(*ssa.Call)
			return ok && CalleeX("sync/atomic", "Int32.Add")(&call.Call) && ConstInt(n)(call.Call.Args[1])
		}
	}
	incRC := isCallTo(Callee("internal/grpcsync", "RefCounted.Increment"))
	decRC := isCallTo(Callee("internal/grpcsync", "RefCounted.Decrement"))
	fOnC := c.field("internal/resolver", "RPCConfig", "OnCommitted")
	c.Ob("ref-on-select", "R12", "route selection: every success return is preceded by the route-cluster increment, an info refCount.Add(1) and the installation of OnCommitted = sync.OnceFunc(closure); each such closure performs refCount.Add(-1) and the route-cluster decrement on all its paths", 8, func() {
		f := c.fn(xres, "configSelector.SelectConfig")
		isOnCStore := func(in ssa.Instruction) bool {
			st, ok := in.(*ssa.Store)
			return ok && FieldAddrOf(fOnC)(st.Addr)
		}
		succ := func(in ssa.Instruction) bool {
			r, ok := in.(*ssa.Return)
			return ok && r.Block() != f.Recover && !ConstNil(r.Results[0])
		}
		c.MustPass("success-passes-route-cluster-increment", pathQuery{Fn: f, AtEntry: true, Barrier: incRC, Target: succ}, nil)
		c.MustPass("success-passes-info-increment", pathQuery{Fn: f, AtEntry: true, Barrier: addN(1), Target: succ}, nil)
		c.MustPass("success-installs-OnCommitted", pathQuery{Fn: f, AtEntry: true, Barrier: isOnCStore, Target: succ}, nil)
		stores := storesToField(f, fOnC)
		c.Expect(len(stores) == 2, nil, f, "two-arms", "expected two OnCommitted installations (cluster arm, plugin arm)")
		for _, st := range stores {
			if !c.ValueIs(st, st.Val, "once-wrapped", CallRes(CalleeX("sync", "OnceFunc"), 0)) {
				continue
			}
			cl := funcOfValue(strip(st.Val).(*ssa.Call).Call.Args[0])
			if !c.Expect(cl != nil, st, f, "once-wraps-closure", "sync.OnceFunc is not given a closure literal") {
				continue
			}
			c.Expect(len(instrsWhere(cl, addN(-1))) == 1, st, cl, "one-info-decrement", "the commit closure does not decrement the info refcount exactly once")
			c.Expect(len(instrsWhere(cl, decRC)) == 1, st, cl, "one-route-cluster-decrement", "the commit closure does not decrement the route cluster exactly once")
			c.MustPass("commit-always-decrements-info", pathQuery{Fn: cl, AtEntry: true, Barrier: addN(-1), Target: isReturn}, st)
			c.MustPass("commit-always-decrements-route-cluster", pathQuery{Fn: cl, AtEntry: true, Barrier: decRC, Target: isReturn}, st)
			// the increment of this arm precedes the installation
			found := false
			for _, in := range instrsWhere(f, addN(1)) {
				if instrDominates(in, st) {
					found = true
				}
			}
			c.Expect(found, st, f, "increment-in-same-arm", "no refCount.Add(1) dominates this OnCommitted installation")
			// zero -> release action
			for _, in := range instrsWhere(cl, func(in ssa.Instruction) bool {
				return isCallTo(ValueCall(AnyV))(in) || isCallTo(Callee(xres, "configSelector.sendNewServiceConfig"))(in)
			}) {
				if decRC(in) || addN(-1)(in) {
					continue
				}
				c.MustFact(in, "release-only-at-zero", CmpInt(func(v ssa.Value) bool { i, ok := v.(ssa.Instruction); return ok && addN(-1)(i) }, token.EQL, 0))
			}
		}
		// exactly one route-cluster increment per selection, on the cluster that was picked
		incs := instrsWhere(f, incRC)
		if c.Expect(len(incs) == 1, nil, f, "one-route-cluster-increment", "expected exactly one route-cluster increment") {
			c.Expect(DataDep(CallRes(MethodNamed("Next", nil), 0))(incs[0].(*ssa.Call).Call.Args[0]), incs[0], f, "increments-the-picked-cluster", "the incremented route cluster is not the one returned by the weighted pick")
		}
	})
	c.Ob("commit-once", "R11", "the stream calls its commit callback only in the commit function, guarded by !committed, before setting committed; the callback given to the stream and the one registered for termination are the selector's once-wrapped OnCommitted", 5, func() {
		fOn := c.field("grpc", "clientStream", "onCommit")
		fCom := c.field("grpc", "clientStream", "committed")
		c.WhoMayCall("clientStream.onCommit", FieldCall(fOn), c.scope("grpc"), "grpc.clientStream.commitAttemptLocked")
		f := c.fn("grpc", "clientStream.commitAttemptLocked")
		call := one(c, "onCommit invocation", callsIn(f, FieldCall(fOn)))
		c.MustFact(call, "only-first-commit", Truth(FieldLoad(fCom), false))
		set := one(c, "committed=true", storesToField(f, fCom))
		c.ValueIs(set, set.Val, "sets-true", ConstBool(true))
		c.MustPass("commit-always-marks-committed", pathQuery{Fn: f, AtEntry: true, Barrier: func(in ssa.Instruction) bool { return in == ssa.Instruction(set) }, Target: isReturn}, set)
		c.WhoMayMutate("clientStream.committed", fCom, c.scope("grpc"), "grpc.clientStream.commitAttemptLocked", "grpc.newClientStreamWithParams")
		ns := c.fn("grpc", "newClientStream")
		// termination hook: a closure calling rpcConfig.OnCommitted is passed to OnFinish
		n := 0
		for _, of := range callsIn(ns, Callee("grpc", "OnFinish")) {
			if cl := funcOfValue(of.Common().Args[0]); cl != nil && len(callsIn(cl, FieldCall(fOnC))) == 1 {
				n++
				c.MustFact(of, "only-if-selector-gave-callback", NotNil(FieldLoad(fOnC)))
			}
		}
		c.Expect(n == 1, nil, ns, "termination-runs-OnCommitted", "no OnFinish option that runs the selector's OnCommitted")
		wp := c.fn("grpc", "newClientStreamWithParams")
		for _, st := range storesToField(wp, fOn) {
			c.ValueIs(st, st.Val, "stream-gets-selector-callback", ParamV("onCommit"))
		}
	})
	c.Ob("prune", "R1", "entries are deleted from the active cluster/plugin maps only in the prune function and only when their reference count loads as zero", 4, func() {
		for _, mname := range []string{"activeClusters", "activePlugins"} {
			fv := c.field(xres, "xdsResolver", mname)
			for _, fn := range c.scope(xres) {
				for _, m := range mutationsOf(fn, fv) {
					if m.Kind != "delete" && m.Kind != "clear" {
						continue
					}
					c.inst("delete from " + mname + " <- " + c.siteStr(m.Instr))
					if shortName(topFunc(fn)) != xres+".xdsResolver.pruneActiveClustersAndPlugins" {
						c.violate(m.Instr, fn, "delete-outside-prune", "an active "+mname+" entry is deleted outside the prune function", nil)
						continue
					}
					c.MustFact(m.Instr, mname+"-zero-refs", CmpInt(CallRes(CalleeX("sync/atomic", "Int32.Load"), 0), token.EQL, 0))
				}
			}
			// the map itself is replaced only at construction
			c.WhoMayMutate(mname, fv, c.scope(xres), xres+".xdsResolver.pruneActiveClustersAndPlugins", xres+".xdsResolver.addOrGetActiveClusterInfo", xres+".xdsResolverBuilder.Build")
		}
	})
	c.Ob("selector-stop", "R12", "stopping a selector decrements every route cluster and every cluster/plugin info once, and triggers unsubscribe / a new service config exactly when a count reaches zero", 4, func() {
		f := c.fn(xres, "configSelector.stop")
		c.Expect(len(instrsWhere(f, decRC)) == 1, nil, f, "route-clusters-released", "stop() does not release the route clusters")
		decs := instrsWhere(f, addN(-1))
		c.Expect(len(decs) == 2, nil, f, "infos-released", "stop() does not decrement cluster and plugin infos (expected two loops)")
		c.Expect(len(instrsWhere(f, addN(1))) == 0, nil, f, "no-increment-in-stop", "stop() increments a reference")
		// acquire/release symmetry: the selector took one reference per entry of its clusters map and one
		// per entry of its plugins map (when it was built); stop() must give back exactly those, i.e. the
		// decremented infos are the values of a range over the same two maps
		fCl := c.field(xres, "configSelector", "clusters")
		fPl := c.field(xres, "configSelector", "plugins")
		recvOf := func(in ssa.Instruction) ssa.Value {
			call := in.(*ssa.Call)
			if fa, ok := call.Call.Args[0].(*ssa.FieldAddr); ok {
				return fa.X
			}
			return call.Call.Args[0]
		}
		build := c.fn(xres, "xdsResolver.newConfigSelector")
		for _, side := range []struct {
			fn   *ssa.Function
			pred func(ssa.Instruction) bool
			what string
		}{{build, addN(1), "acquire"}, {f, addN(-1), "release"}} {
			nc, np := 0, 0
			for _, in := range instrsWhere(side.fn, side.pred) {
				r := recvOf(in)
				switch {
				case RangeValueOf(FieldLoad(fCl))(r):
					nc++
				case RangeValueOf(FieldLoad(fPl))(r):
					np++
				default:
					c.Expect(false, in, side.fn, side.what+"-per-map-entry", "a selector-level "+side.what+" of a cluster reference is not done once per entry of the selector's clusters/plugins map")
				}
			}
			c.Expect(nc == 1 && np == 1, nil, side.fn, side.what+"-both-maps", "expected one "+side.what+" loop over clusters and one over plugins")
		}
		// construction: a failing interceptor never yields a selector; every cluster the selector routes to is recorded in the
		// map its references are taken from (so that the acquire above covers it)
		c.Expect(c.ErrorsPropagate(build, "newConfigSelector", nil) >= 2, nil, build, "construction-error-sites", "fewer tested construction errors than on the reviewed tree")
		nStop := 0
		for _, a := range build.AnonFuncs {
			for _, sp := range callsIn(a, Callee(xres, "configSelector.stop")) {
				nStop++
				c.MustFact(sp, "new-selector-stopped-only-when-construction-failed", NotNil(func(v ssa.Value) bool { return isErrorType(v.Type()) }))
			}
		}
		c.Expect(nStop == 1, nil, build, "failed-construction-cleans-up", "expected the deferred clean-up of a partially built selector")
		nRec := 0
		for _, in := range instrsWhere(build, func(in ssa.Instruction) bool { _, ok := in.(*ssa.MapUpdate); return ok }) {
			mu := in.(*ssa.MapUpdate)
			if FieldLoad(fCl)(mu.Map) || FieldLoad(fPl)(mu.Map) {
				nRec++
				c.Expect(CallRes(Callee(xres, "xdsResolver.addOrGetActiveClusterInfo"), 0)(mu.Value), in, build, "recorded-info-is-the-active-entry", "the selector records something other than the resolver's active cluster entry")
			}
		}
		c.Expect(nRec == 2, nil, build, "routed-clusters-recorded", "expected the weighted clusters and the plugin cluster to be recorded in the selector")
		for _, in := range instrsWhere(f, func(in ssa.Instruction) bool {
			return isCallTo(Callee(xres, "configSelector.sendNewServiceConfig"))(in) || isCallTo(ValueCall(AnyV))(in)
		}) {
			c.MustFact(in, "release-only-at-zero", CmpInt(func(v ssa.Value) bool { i, ok := v.(ssa.Instruction); return ok && addN(-1)(i) }, token.EQL, 0))
		}
	})
}
