package main

import (
	"go/token"
	"go/types"

	"golang.org/x/tools/go/ssa"
)

func init() {
	register(&PropDef{
		ID:    "C54",
		Pkgs:  []string{"health"},
		Claim: "Decides the structural part: the health server's status map, watcher table and shutdown flag are accessed only under its mutex (the …Locked helper only from locked callers); a status change is pushed to each watcher's one-slot channel after draining the slot without blocking, so the push cannot block under the lock and only the newest value is kept; a watch stream sends a value only when it differs from the last value sent, remembering it before sending; the initial value (current status or SERVICE_UNKNOWN) is queued and the watcher registered within one critical section; once shut down, SetServingStatus changes nothing, while Shutdown/Resume set the flag and broadcast NOT_SERVING / SERVING for every known service. A Watch stream ends after a send only if that send failed.",
		NotDecided:  []string{"eventual convergence of every watcher to the latest status over all interleavings (liveness)"},
		Assumptions: []string{"a buffered channel of capacity 1 holds at most one pending value"},
		Technique:   "static analysis: must-lockset with call-site checking, ordering (dominance) of drain and send, dominating guards on go/ssa branch facts, constant-flow",
		Run:         c54,
	})
}

func c54(c *Ctx) {
	hs := func(f string) *types.Var { return c.field("health", "Server", f) }
	mu := hs("mu")
	c.Ob("lock", "R4", "statusMap, updates and shutdown only under s.mu; setServingStatusLocked only from callers holding it", 12, func() {
		c.GuardedBy(GuardSpec{Label: "health.Server", Mu: mu, Fields: []*types.Var{hs("statusMap"), hs("updates"), hs("shutdown")}, Scope: c.scope("health"),
			Locked: map[string]bool{"health.Server.setServingStatusLocked": true}})
	})
	c.Ob("latest-value-channel", "R3", "status push: non-blocking drain of the watcher's one-slot channel, then send, for every watcher of the service; the status map is updated first", 4, func() {
		f := c.fn("health", "Server.setServingStatusLocked")
		sel := one(c, "drain select", instrsWhere(f, func(in ssa.Instruction) bool { _, ok := in.(*ssa.Select); return ok })).(*ssa.Select)
		snd := one(c, "send to watcher", instrsWhere(f, func(in ssa.Instruction) bool { _, ok := in.(*ssa.Send); return ok })).(*ssa.Send)
		c.Expect(!sel.Blocking && len(sel.States) == 1 && sel.States[0].Dir == types.RecvOnly, sel, f, "drain-is-non-blocking-receive", "the drain is not a non-blocking receive")
		c.Expect(sel.States[0].Chan == snd.Chan, sel, f, "drain-and-send-same-channel", "the channel drained is not the channel sent to")
		c.Dominates(sel, snd, "drain-before-send")
		// whatever the drain removed, the new status is always queued afterwards: no path from the drain reaches the next
		// watcher or the return without the send (a drained value that is not replaced leaves the watcher without its latest status)
		c.MustPass("drain-always-followed-by-the-send", pathQuery{Fn: f, Starts: []ssa.Instruction{sel}, Barrier: func(in ssa.Instruction) bool { return in == ssa.Instruction(snd) },
			Target: func(in ssa.Instruction) bool {
				if isReturn(in) {
					return true
				}
				_, isNext := in.(*ssa.Next)
				return isNext
			}}, snd)
		c.ValueIs(snd, snd.X, "sends-the-new-status", ParamV("servingStatus"))
		c.Expect(RangeValueOf(LookupOf(FieldLoad(hs("updates")), ParamV("service")))(snd.Chan), snd, f, "every-watcher-of-the-service", "the push does not go to the watchers registered for this service")
		var ins ssa.Instruction
		for _, m := range mutationsOf(f, hs("statusMap")) {
			if m.Kind == "mapupdate" {
				ins = m.Instr
			}
		}
		if c.Expect(ins != nil, nil, f, "status-recorded", "the new status is not recorded in the status map") {
			mu := ins.(*ssa.MapUpdate)
			c.ValueIs(ins, mu.Key, "recorded-for-the-service", ParamV("service"))
			c.ValueIs(ins, mu.Value, "records-the-new-status", ParamV("servingStatus"))
		}
		// capacity 1
		w := c.fn("health", "Server.Watch")
		mk := one(c, "make(chan) in Watch", instrsWhere(w, func(in ssa.Instruction) bool { _, ok := in.(*ssa.MakeChan); return ok })).(*ssa.MakeChan)
		c.ValueIs(mk, mk.Size, "watcher-channel-capacity-1", ConstInt(1))
	})
	c.Ob("no-duplicates-and-initial", "R2", "Watch: a value is sent only if different from the last sent one, which is updated before sending; the initial value is the known status or SERVICE_UNKNOWN and is queued, and the channel registered, inside one critical section; the registration is removed when the stream ends", 7, func() {
		f := c.fn("health", "Server.Watch")
		send := one(c, "stream.Send", callsIn(f, MethodNamed("Send", nil)))
		recvd := func(v ssa.Value) bool {
			e, ok := v.(*ssa.Extract)
			if !ok {
				return false
			}
			_, isSel := e.Tuple.(*ssa.Select)
			return isSel && e.Index >= 2
		}
		c.MustFact(send, "only-if-changed", Cmp(func(v ssa.Value) bool { _, ok := v.(*ssa.Phi); return ok }, token.NEQ, recvd))
		fSt := c.field("health/grpc_health_v1", "HealthCheckResponse", "Status")
		for _, st := range storesToField(f, fSt) {
			c.ValueIs(st, st.Val, "sends-the-received-status", recvd)
		}
		// lastSentStatus becomes the received value on the send path: the phi's non-initial leaf is the received value
		okLast := false
		for _, in := range instrsWhere(f, func(in ssa.Instruction) bool { _, ok := in.(*ssa.Phi); return ok }) {
			for _, e := range in.(*ssa.Phi).Edges {
				if recvd(e) {
					okLast = true
				}
			}
		}
		c.Expect(okLast, nil, f, "last-sent-remembered", "the last sent status is not remembered")
		// the stream ends only when a send failed or the stream's context ended (it keeps following status changes otherwise)
		serr := func(v ssa.Value) bool { return v == send.Value() }
		for _, r := range returnsOf(f) {
			if r.Block() == f.Recover || !instrDominates(send, r) {
				continue
			}
			c.MustFact(r, "watch-ends-after-a-send-only-if-it-failed", NotNil(serr))
		}
		ls := locksets(f, lockOpts{})
		unknown := ConstOfObj(c.konst("health/grpc_health_v1", "HealthCheckResponse_SERVICE_UNKNOWN"))
		n := 0
		for _, in := range instrsWhere(f, func(in ssa.Instruction) bool { _, ok := in.(*ssa.Send); return ok }) {
			s := in.(*ssa.Send)
			n++
			c.Expect(ls[in][mu], in, f, "initial-queued-under-mu", "the initial status is queued without the mutex")
			if unknown(s.X) {
				c.MustFact(in, "unknown-only-if-not-registered", Truth(CommaOkOf(FieldLoad(hs("statusMap"))), false))
			} else {
				c.ValueIs(in, s.X, "initial-is-current-status", LookupOf(FieldLoad(hs("statusMap")), AnyV))
			}
		}
		c.Expect(n == 2, nil, f, "two-initial-arms", "expected the known-status and the SERVICE_UNKNOWN initial arm")
		var reg ssa.Instruction
		for _, in := range instrsWhere(f, func(in ssa.Instruction) bool { _, ok := in.(*ssa.MapUpdate); return ok }) {
			mu2 := in.(*ssa.MapUpdate)
			if _, isChan := mu2.Value.Type().Underlying().(*types.Chan); isChan {
				reg = in
			}
		}
		if c.Expect(reg != nil, nil, f, "watcher-registered", "the watcher channel is not registered") {
			c.Expect(ls[reg][mu], reg, f, "registered-under-mu", "the watcher is registered without the mutex")
			// same critical section: no unlock between queuing and registering
			unl := callsIn(f, CalleeX("sync", "RWMutex.Unlock"))
			for _, u := range unl {
				c.Expect(!instrDominates(u, reg), u, f, "one-critical-section", "the mutex is released between queuing the initial status and registering the watcher")
			}
		}
		nd := 0
		for _, a := range f.AnonFuncs {
			for _, m := range mutationsOf(a, hs("updates")) {
				_ = m
			}
			if len(callsIn(a, BuiltinCall("delete"))) == 1 {
				nd++
			}
		}
		c.Expect(nd == 1, nil, f, "unregistered-at-end", "the watcher registration is not removed by a deferred function")
	})
	c.Ob("shutdown-gate", "R2", "SetServingStatus is a no-op after Shutdown; Shutdown sets the flag and broadcasts NOT_SERVING, Resume clears it and broadcasts SERVING, for every service in the status map", 6, func() {
		f := c.fn("health", "Server.SetServingStatus")
		call := one(c, "setServingStatusLocked in SetServingStatus", callsIn(f, Callee("health", "Server.setServingStatusLocked")))
		c.MustFact(call, "ignored-after-shutdown", Truth(FieldLoad(hs("shutdown")), false))
		for _, pr := range []struct {
			fn, status string
			flag       bool
		}{{"Server.Shutdown", "HealthCheckResponse_NOT_SERVING", true}, {"Server.Resume", "HealthCheckResponse_SERVING", false}} {
			g := c.fn("health", pr.fn)
			st := one(c, "shutdown flag store in "+pr.fn, storesToField(g, hs("shutdown")))
			c.ValueIs(st, st.Val, pr.fn+"-sets-flag", ConstBool(pr.flag))
			bc := one(c, "broadcast in "+pr.fn, callsIn(g, Callee("health", "Server.setServingStatusLocked")))
			c.ArgIs(bc, 2, pr.fn+"-broadcast-status", ConstOfObj(c.konst("health/grpc_health_v1", pr.status)))
			c.Expect(func() bool {
				e, ok := strip(bc.Common().Args[1]).(*ssa.Extract)
				if !ok || e.Index != 1 {
					return false
				}
				nx, ok := e.Tuple.(*ssa.Next)
				if !ok {
					return false
				}
				r, ok := nx.Iter.(*ssa.Range)
				return ok && FieldLoad(hs("statusMap"))(r.X)
			}(), bc, g, pr.fn+"-for-every-service", "the broadcast does not cover every service of the status map")
		}
	})
}
