package main

// R5: symbolic upper bounds. upperBounds(v) is a set of SSA values u with
// v <= u on every execution, derived by a handful of sound rules (no solver):
//
//	min(a,b) <= a, b          max(a,b) <= u  if a <= u and b <= u
//	phi <= u                  if every incoming value (with the facts of its edge) <= u
//	x + y <= m                if y <= m - x
//	x - y <= u                if x <= u and y >= 0 (len, unsigned, max(.,0), constant >= 0)
//	conversions between integer types are treated as order preserving
//	(stated assumption: the values involved are window/frame sizes < 2^31).

import (
	"go/constant"
	"go/token"
	"go/types"

	"golang.org/x/tools/go/ssa"
)

type ubSet map[ssa.Value]bool

func stripConv(v ssa.Value) ssa.Value {
	for {
		switch x := v.(type) {
		case *ssa.ChangeType:
			v = x.X
		case *ssa.Convert:
			if isIntegral(x.X.Type()) && isIntegral(x.Type()) {
				v = x.X
				continue
			}
			return v
		default:
			return v
		}
	}
}

func isIntegral(t types.Type) bool {
	b, ok := t.Underlying().(*types.Basic)
	return ok && b.Info()&types.IsInteger != 0
}

func builtinCall(v ssa.Value, name string) *ssa.Call {
	c, ok := v.(*ssa.Call)
	if !ok {
		return nil
	}
	b, ok := c.Call.Value.(*ssa.Builtin)
	if !ok || b.Name() != name {
		return nil
	}
	return c
}

// canonLoad maps a load of base.f to the first load of the same base.f in the
// function when no instruction of the function stores to that field (then all
// such loads yield the same value), so that facts about one load bound another.
func canonLoad(v ssa.Value) ssa.Value {
	u, ok := v.(*ssa.UnOp)
	if !ok || u.Op != token.MUL {
		return v
	}
	fa, ok := u.X.(*ssa.FieldAddr)
	if !ok {
		return v
	}
	fn := u.Parent()
	if fn == nil {
		return v
	}
	var first ssa.Value
	for _, b := range fn.Blocks {
		for _, in := range b.Instrs {
			switch x := in.(type) {
			case *ssa.Store:
				if xa, ok := x.Addr.(*ssa.FieldAddr); ok && xa.Field == fa.Field && types.Identical(xa.X.Type(), fa.X.Type()) {
					return v // the field is written somewhere in this function
				}
			case *ssa.UnOp:
				if first == nil && x.Op == token.MUL {
					if xa, ok := x.X.(*ssa.FieldAddr); ok && xa.Field == fa.Field && xa.X == fa.X {
						first = x
					}
				}
			}
		}
	}
	if first != nil {
		return first
	}
	return v
}

func upperBounds(v ssa.Value) ubSet {
	memo := map[ssa.Value]ubSet{}
	inProg := map[ssa.Value]bool{}
	var ub func(v ssa.Value) ubSet
	ub = func(v ssa.Value) ubSet {
		if s, ok := memo[v]; ok {
			return s
		}
		if inProg[v] {
			return nil // cycle: TOP (neutral for intersection, contributes nothing to union)
		}
		inProg[v] = true
		defer delete(inProg, v)
		out := ubSet{v: true, canonLoad(stripConv(v)): true}
		add := func(s ubSet) {
			for k := range s {
				out[k] = true
			}
		}
		sv := stripConv(v)
		if sv != v {
			add(ub(sv))
		}
		switch x := sv.(type) {
		case *ssa.Call:
			if c := builtinCall(x, "min"); c != nil {
				for _, a := range c.Call.Args {
					add(ub(a))
				}
			} else if c := builtinCall(x, "max"); c != nil {
				var inter ubSet
				for i, a := range c.Call.Args {
					s := ub(a)
					if s == nil {
						continue
					}
					if i == 0 || inter == nil {
						inter = ubSet{}
						for k := range s {
							inter[k] = true
						}
					} else {
						for k := range inter {
							if !s[k] {
								delete(inter, k)
							}
						}
					}
				}
				add(inter)
			}
		case *ssa.Phi:
			var inter ubSet
			first := true
			for i, e := range x.Edges {
				s := ub(e)
				if s == nil {
					continue // cycle through this phi
				}
				es := ubSet{}
				for k := range s {
					es[k] = true
				}
				// bounds known from the facts on the incoming edge
				for _, f := range edgeFacts(x.Block().Preds[i], x.Block()) {
					if f.Kind != "cmp" {
						continue
					}
					ce := canonLoad(stripConv(e))
					if (f.Op == token.LEQ || f.Op == token.LSS) && canonLoad(stripConv(f.X)) == ce {
						es[f.Y] = true
						es[canonLoad(stripConv(f.Y))] = true
					}
					if (f.Op == token.GEQ || f.Op == token.GTR) && canonLoad(stripConv(f.Y)) == ce {
						es[f.X] = true
						es[canonLoad(stripConv(f.X))] = true
					}
				}
				if first {
					inter = es
					first = false
				} else {
					for k := range inter {
						if !es[k] && !constLeqIn(k, es) {
							delete(inter, k)
						}
					}
				}
			}
			add(inter)
		case *ssa.BinOp:
			switch x.Op {
			case token.ADD:
				for _, pair := range [][2]ssa.Value{{x.X, x.Y}, {x.Y, x.X}} {
					a, b := pair[0], pair[1]
					for u := range ub(b) {
						if s, ok := stripConv(u).(*ssa.BinOp); ok && s.Op == token.SUB && stripConv(s.Y) == stripConv(a) {
							add(ub(s.X))
						}
					}
				}
			case token.SUB:
				if nonNegative(x.Y) {
					add(ub(x.X))
				}
			}
		}
		memo[v] = out
		return out
	}
	return ub(v)
}

// constLeqIn: k is a constant and the set contains a constant <= k
// (then the value bounded by that smaller constant is also <= k).
func constLeqIn(k ssa.Value, s ubSet) bool {
	kc, ok := k.(*ssa.Const)
	if !ok || kc.Value == nil || kc.Value.Kind() != constant.Int {
		return false
	}
	for u := range s {
		if uc, ok := u.(*ssa.Const); ok && uc.Value != nil && uc.Value.Kind() == constant.Int {
			if constant.Compare(uc.Value, token.LEQ, kc.Value) {
				return true
			}
		}
	}
	return false
}

func nonNegative(v ssa.Value) bool {
	v = stripConv(v)
	if c, ok := v.(*ssa.Const); ok && c.Value != nil && c.Value.Kind() == constant.Int {
		return constant.Sign(c.Value) >= 0
	}
	if b, ok := v.Type().Underlying().(*types.Basic); ok && b.Info()&types.IsUnsigned != 0 {
		return true
	}
	if builtinCall(v, "len") != nil || builtinCall(v, "cap") != nil {
		return true
	}
	if c := builtinCall(v, "max"); c != nil {
		for _, a := range c.Call.Args {
			if nonNegative(a) {
				return true
			}
		}
	}
	if c := builtinCall(v, "min"); c != nil {
		for _, a := range c.Call.Args {
			if !nonNegative(a) {
				return false
			}
		}
		return true
	}
	if call, ok := v.(*ssa.Call); ok {
		switch calleeName(&call.Call) {
		case "mem.Reader.Remaining", "mem.BufferSlice.Len", "bytes.Buffer.Len":
			return true
		}
	}
	return false
}

// boundedBy: some upper bound of v satisfies vm.
func boundedBy(v ssa.Value, vm VM) bool {
	for u := range upperBounds(v) {
		if vm(u) || vm(stripConv(u)) {
			return true
		}
	}
	return false
}

// linearTerms flattens a tree of integer + and - into signed leaf terms.
func linearTerms(v ssa.Value) (pos, neg []ssa.Value) {
	var walk func(v ssa.Value, sign bool)
	walk = func(v ssa.Value, sign bool) {
		sv := stripConv(v)
		if b, ok := sv.(*ssa.BinOp); ok && (b.Op == token.ADD || b.Op == token.SUB) {
			walk(b.X, sign)
			if b.Op == token.ADD {
				walk(b.Y, sign)
			} else {
				walk(b.Y, !sign)
			}
			return
		}
		if sign {
			pos = append(pos, sv)
		} else {
			neg = append(neg, sv)
		}
	}
	walk(v, true)
	return
}

// isLinear: v is exactly the sum of terms matching posWant minus terms
// matching negWant (each matcher used once, order irrelevant).
func isLinear(v ssa.Value, posWant, negWant []VM) bool {
	pos, neg := linearTerms(v)
	match := func(vals []ssa.Value, want []VM) bool {
		if len(vals) != len(want) {
			return false
		}
		used := make([]bool, len(vals))
		for _, w := range want {
			found := false
			for i, x := range vals {
				if !used[i] && w(x) {
					used[i] = true
					found = true
					break
				}
			}
			if !found {
				return false
			}
		}
		return true
	}
	return match(pos, posWant) && match(neg, negWant)
}
