package main

import (
	"go/constant"
	"go/token"
	"go/types"
	"sort"
	"strings"

	"golang.org/x/tools/go/ssa"
)

func init() {
	register(&PropDef{
		ID:    "C09",
		Pkgs:  []string{tr, "grpc"},
		Claim: "Decides the structural part: every header field built from user/credential/transport metadata is appended only for keys that are not reserved, and its value is encodeMetadataHeader(k, v) of the field's own key; on receipt, metadata is stored only for non-reserved (or white-listed) names and only the result of decodeMetadataHeader, a decode error setting the flag that blocks delivery; the white-list is exactly {:authority, user-agent}; client metadata is validated before the RPC proceeds (failing with INTERNAL); server header setters forward only validated metadata; keys appended pair-wise are lower-cased.",
		NotDecided:  []string{"equality of the multimap end to end through hpack (value property)", "per-key value order through hpack"},
		Assumptions: []string{"golang.org/x/net/http2/hpack transports header fields unchanged"},
		Technique:   "static analysis: composite-literal pairing of name/value stores, dominating guards on go/ssa branch facts, value-origin, constant-set extraction from switch arms",
		Run:         c09,
	})
}

// hfLit is one hpack.HeaderField literal: the stores of Name and Value on the same base.
type hfLit struct {
	name, value *ssa.Store
}

func headerFieldLits(c *Ctx, f *ssa.Function) []hfLit {
	fN := c.field(h2+"/hpack", "HeaderField", "Name")
	fV := c.field(h2+"/hpack", "HeaderField", "Value")
	var out []hfLit
	for _, ns := range storesToField(f, fN) {
		base := ns.Addr.(*ssa.FieldAddr).X
		for _, vs := range storesToField(f, fV) {
			if vs.Addr.(*ssa.FieldAddr).X == base {
				out = append(out, hfLit{ns, vs})
			}
		}
	}
	return out
}

// constCases lists the string constants a function compares its parameter with and returns `ret` for.
func switchStringSet(f *ssa.Function, ret bool) []string {
	set := map[string]bool{}
	for _, r := range returnsOf(f) {
		if !ConstBool(ret)(r.Results[0]) {
			continue
		}
		for _, fct := range FactsAt(r) {
			switch fct.Kind {
			case "in":
				for _, k := range fct.Set {
					if k.Value != nil && k.Value.Kind() == constant.String {
						set[constant.StringVal(k.Value)] = true
					}
				}
			case "cmp":
				if fct.Op == token.EQL {
					if k := constOf(fct.Y); k != nil && k.Value != nil && k.Value.Kind() == constant.String {
						set[constant.StringVal(k.Value)] = true
					}
				}
			}
		}
	}
	var out []string
	for k := range set {
		out = append(out, k)
	}
	sort.Strings(out)
	return out
}

func c09(c *Ctx) {
	reserved := CallRes(Callee(tr, "isReservedHeader"), 0)
	enc := Callee(tr, "encodeMetadataHeader")
	c.Ob("reserved-out", "R2", "outbound: every header field whose name is a metadata key (user metadata, pair-wise appended metadata, transport metadata, trailers) is built only on the not-reserved arm, with value encodeMetadataHeader(sameKey, v); credential metadata likewise goes through encodeMetadataHeader", 6, func() {
		n := 0
		for _, name := range []string{"http2Client.createHeaderFields", "appendHeaderFieldsFromMD"} {
			f := c.fn(tr, name)
			for _, l := range headerFieldLits(c, f) {
				if constOf(l.name.Val) != nil {
					continue // fixed protocol headers
				}
				n++
				if !c.ValueIs(l.value, l.value.Val, "value-through-encodeMetadataHeader", CallRes(enc, 0)) {
					continue
				}
				call := strip(l.value.Val).(*ssa.Call)
				c.Expect(sameValue(call.Call.Args[0], l.name.Val), l.value, f, "encoded-with-own-key", "the value is encoded with a different key than the field's name")
				// credential metadata keys come from the credential maps (already validated+lower-cased, C58); everything else must not be reserved
				if DataDep(OrV(CallRes(Callee(tr, "http2Client.getTrAuthData"), 0), CallRes(Callee(tr, "http2Client.getCallAuthData"), 0)))(l.name.Val) {
					continue
				}
				c.MustFact(l.name, "not-reserved", Truth(reserved, false))
			}
		}
		c.Expect(n >= 6, nil, nil, "metadata-field-sites", "fewer metadata header-field construction sites than confirmed by hand")
		// pair-wise appended keys are lower-cased
		f := c.fn(tr, "http2Client.createHeaderFields")
		c.Expect(len(callsIn(f, CalleeX("strings", "ToLower"))) >= 1, nil, f, "appended-keys-lowercased", "keys of pair-wise appended metadata are not lower-cased")
	})
	c.Ob("reserved-in", "R2", "inbound (client and server): received header fields are stored as metadata only when not (reserved and not white-listed), only as the output of decodeMetadataHeader, and a decode error sets the error flag", 4, func() {
		wl := CallRes(Callee(tr, "isWhitelistedHeader"), 0)
		dec := Callee(tr, "decodeMetadataHeader")
		for _, name := range []string{"http2Client.operateHeaders", "http2Server.operateHeaders"} {
			f := c.fn(tr, name)
			n := 0
			for _, in := range instrsWhere(f, func(in ssa.Instruction) bool {
				mu, ok := in.(*ssa.MapUpdate)
				return ok && DataDep(CallRes(dec, 0))(mu.Value)
			}) {
				n++
				c.MustFact(in, "decode-ok", IsNil(CallRes(dec, 1)))
				c.Unreachable(in, "reserved-not-whitelisted-dropped", Truth(reserved, true), Truth(wl, false))
				mu := in.(*ssa.MapUpdate)
				d := one(c, "decodeMetadataHeader call in "+name, callsIn(f, dec))
				c.Expect(sameValue(d.Common().Args[0], mu.Key), in, f, "stored-under-own-name", "the decoded value is stored under a different key than the header's name")
			}
			c.Expect(n == 1, nil, f, "one-generic-metadata-store", "expected exactly one generic metadata store in "+name)
		}
		wf := c.fn(tr, "isWhitelistedHeader")
		got := switchStringSet(wf, true)
		c.Expect(strings.Join(got, ",") == ":authority,user-agent", nil, wf, "whitelist-is-authority+user-agent", "the white-list is "+strings.Join(got, ","))
		rf := c.fn(tr, "isReservedHeader")
		gotR := switchStringSet(rf, true)
		for _, must := range []string{"content-type", "grpc-encoding", "grpc-message", "grpc-message-type", "grpc-status", "grpc-timeout", "te", "user-agent"} {
			found := false
			for _, g := range gotR {
				if g == must {
					found = true
				}
			}
			c.Expect(found, nil, rf, "reserved-contains-"+must, must+" is not classified as reserved")
		}
		// pseudo-headers
		okColon := false
		for _, r := range returnsOf(rf) {
			if ConstBool(true)(r.Results[0]) {
				for _, fct := range FactsAt(r) {
					if fct.Kind == "cmp" && fct.Op == token.EQL && ConstInt(':')(fct.Y) {
						okColon = true
					}
				}
			}
		}
		c.Expect(okColon, nil, rf, "pseudo-headers-reserved", "names starting with ':' are not classified as reserved")
	})
	c.Ob("value-codec", "R9", "the header-value codec is the identity on non-binary keys and base64 on -bin keys, in both directions: encodeMetadataHeader/decodeMetadataHeader return their value argument itself unless the key has the -bin suffix, in which case they return the result of the binary-header encoder/decoder applied to it", 4, func() {
		for _, d := range []struct{ fn, bin string }{{"decodeMetadataHeader", "decodeBinHeader"}, {"encodeMetadataHeader", "encodeBinHeader"}} {
			f := c.fn(tr, d.fn)
			isBin := Truth(callArgs(CalleeX("strings", "HasSuffix"), ParamV("k"), AnyV), true)
			notBin := Truth(callArgs(CalleeX("strings", "HasSuffix"), ParamV("k"), AnyV), false)
			nPlain, nBin := 0, 0
			for _, r := range returnsOf(f) {
				if r.Block() == f.Recover {
					continue
				}
				v := r.Results[0]
				switch {
				case ParamV("v")(v):
					nPlain++
					c.MustFact(r, d.fn+":identity-only-for-non-binary-keys", notBin)
				case DataDep(CallRes(Callee(tr, d.bin), 0))(v):
					nBin++
					c.MustFact(r, d.fn+":base64-only-for-binary-keys", isBin)
					for _, ci := range callsIn(f, Callee(tr, d.bin)) {
						c.Expect(DataDep(ParamV("v"))(ci.Common().Args[0]), ci, f, d.fn+":codec-applied-to-the-value", "the binary codec is not applied to the header value")
					}
				default:
					c.Expect(false, r, f, d.fn+":value-unchanged", "a metadata value is altered on its way through the header codec (the result is neither the value itself nor its binary-header encoding)")
				}
			}
			c.Expect(nPlain == 1 && nBin == 1, nil, f, d.fn+":two-arms", "expected the identity arm and the -bin arm")
		}
	})
	c.Ob("validate-first", "R3", "client: outgoing metadata is validated before name resolution / stream creation and a failure returns INTERNAL; server: SetHeader/SendHeader forward to the transport only validated metadata", 6, func() {
		f := c.fn("grpc", "newClientStream")
		vMD := IsNil(CallRes(Callee("internal/metadata", "Validate"), 0))
		wait := one(c, "waitForResolvedAddrs call", callsIn(f, Callee("grpc", "ClientConn.waitForResolvedAddrs")))
		c.Unreachable(wait, "invalid-metadata-stops-rpc", NotNil(CallRes(Callee("internal/metadata", "Validate"), 0)))
		c.Unreachable(wait, "invalid-appended-pair-stops-rpc", NotNil(CallRes(Callee("internal/metadata", "ValidatePair"), 0)))
		c.statusCodeIn(blocksWhere(f, NotNil(CallRes(Callee("internal/metadata", "Validate"), 0))), f, "invalid-metadata->Internal", "Internal")
		c.statusCodeIn(blocksWhere(f, NotNil(CallRes(Callee("internal/metadata", "ValidatePair"), 0))), f, "invalid-pair->Internal", "Internal")
		for _, pr := range []struct{ fn, fwd string }{{"serverStream.SetHeader", "ServerStream.SetHeader"}, {"serverStream.SendHeader", "ServerStream.SendHeader"}} {
			sf := c.fn("grpc", pr.fn)
			fw := one(c, "transport "+pr.fwd, callsIn(sf, Callee(tr, pr.fwd)))
			c.MustFact(fw, "forward-only-validated", vMD)
		}
		// pick-result metadata is validated too
		ns := c.fn("grpc", "csAttempt.newStream")
		for _, j := range callsIn(ns, Callee("metadata", "Join")) {
			c.MustFact(j, "lb-metadata-validated", vMD)
		}
	})
	c.Ob("pending-metadata-not-aliased", "R8", "server: header/trailer metadata kept for a later flush is a copy (metadata.Join) of what the handler passed, never the handler's own map; the handler's map is used directly only when it is flushed within the same critical section", 3, func() {
		n := 0
		for _, fname := range []string{"header", "trailer"} {
			owner := "ServerStream"
			if fname == "trailer" {
				owner = "Stream"
			}
			fv := c.field(tr, owner, fname)
			for _, f := range c.scope(tr) {
				if top := shortName(topFunc(f)); strings.Contains(top, "http2Client") || strings.Contains(top, "ClientStream") {
					continue // the client stores metadata it parsed itself from the wire
				}
				for _, st := range storesToField(f, fv) {
					n++
					c.inst("pending " + fname + " store <- " + c.siteStr(st))
					if AllOrigins(CallRes(Callee("metadata", "Join"), 0))(st.Val) {
						continue
					}
					// direct use of the caller's map: must be flushed before the function returns
					if shortName(f) == tr+".http2Server.writeHeader" {
						q := pathQuery{Fn: f, Starts: []ssa.Instruction{st}, Barrier: isCallTo(Callee(tr, "http2Server.writeHeaderLocked")), Target: isReturn}
						c.MustPass("caller-map-flushed-at-once", q, st)
						continue
					}
					c.violate(st, f, "aliases-handler-metadata", "pending server "+fname+" metadata aliases a map owned by the caller (later mutations by the handler would change what is sent)", nil)
				}
			}
		}
		c.Expect(n >= 3, nil, nil, "pending-metadata-sites", "fewer pending-metadata stores than confirmed by hand")
	})
	_ = types.Typ
}
