#!/usr/bin/env python3
"""Regression for the mutation campaign: re-run the property's own quick check on every mutant that it
reported before (status 'killed' in the mutres files) and list the ones that are no longer reported.
usage: rekill.py <worktree> <out.json> <mutres.json>...   (env PART=i/n, PROPS=C02,C05,...)"""
import json,os,subprocess,sys
wt,out=sys.argv[1:3]; ins=sys.argv[3:]
pi,pn=map(int,os.environ.get('PART','0/1').split('/'))
only=set(filter(None,os.environ.get('PROPS','').split(',')))
ENV=dict(os.environ,PATH='/opt/veriftools/go1.26.8/bin:'+os.environ['PATH'],GOTOOLCHAIN='local',GOFLAGS='-mod=mod',GOPROXY='off',GOSUMDB='off'); ENV.pop('GOWORK',None)
muts=[]
for f in ins:
    for p,rec in json.load(open(f)).items():
        if only and p not in only: continue
        for m in rec:
            if m['status']=='killed': muts.append((p,m))
muts.sort(key=lambda x:(x[1]['file'],x[1]['line'],x[1]['new'],x[0]))
res={}
for idx,(p,m) in enumerate(muts):
    if idx%pn!=pi: continue
    rel,line=m['file'],m['line']
    path=os.path.join(wt,rel); src=open(path).read().split('\n')
    cand=[i for i,l in enumerate(src) if l.strip()==m['old'] or l.strip().startswith(m['old'][:100])]
    if not cand: continue
    i=min(cand,key=lambda x:abs(x-(line-1)))
    indent=src[i][:len(src[i])-len(src[i].lstrip())]
    src[i]=indent+m['new'] if not m['new'].startswith(indent) else m['new']
    open(path,'w').write('\n'.join(src))
    try:
        b=subprocess.run(['go','build','./'+os.path.dirname(rel)],cwd=wt,env=ENV,capture_output=True,text=True)
        if b.returncode!=0: continue
        r=subprocess.run(['/verif/bin/vchk','-repo',wt,'-out','/tmp/ev_rk%d'%pi,'-known','/verif/known-findings.txt',p,'quick'],env=dict(ENV,GOFLAGS='',GOWORK='off'),capture_output=True,text=True)
        res['%s|%s|%d|%s'%(p,rel,line,m['new'])]='killed' if r.returncode in (1,2) else 'SURVIVED'
    finally:
        subprocess.run(['git','-C',wt,'checkout','-q','--',rel])
    json.dump(res,open(out,'w'),indent=1)
print('done',sum(1 for v in res.values() if v=='SURVIVED'),'no longer reported of',len(res))
