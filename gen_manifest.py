#!/usr/bin/env python3
"""Regenerate /verif/MANIFEST.json from the checker's own property registry
(`vchk list`) and properties.jsonl. Properties with no registered check go to
not_applicable with the reason recorded in na_reasons.json (or a default)."""
import json, subprocess, os, sys

HERE = os.path.dirname(os.path.abspath(__file__))
props = [json.loads(l) for l in open(os.path.join(HERE, "properties.jsonl")) if l.strip()]
reg = json.loads(subprocess.check_output([os.path.join(HERE, "run.sh"), "list"]))
reg = {r["id"]: r for r in reg}
na_path = os.path.join(HERE, "na_reasons.json")
na_reasons = json.load(open(na_path)) if os.path.exists(na_path) else {}
baseline = json.load(open("/root/.vp/BASELINE.json"))

checks, na = [], []
for p in props:
    pid = p["id"]
    r = reg.get(pid)
    if r is None:
        na.append({"property_id": pid, "reason": na_reasons.get(pid, "no static check is registered for this property in this revision of /verif (see DESIGN.md section 8)")})
        continue
    nd = "; ".join(r["not_decided"]) if r["not_decided"] else "-"
    checks.append({
        "property_id": pid,
        "quick_cmd": f"./run.sh {pid} quick",
        "thorough_cmd": f"./run.sh {pid} thorough",
        "evidence_file": f"/verif/evidence/{pid}.json",
        "replay_cmd_template": f"./run.sh {pid} thorough  # violations are re-derived from source; {{path}} lists the failing obligations",
        "engine": "vchk",
        "level_claimed": {
            "category": "other",
            "text": r["claim"] + " NOT decided: " + nd + ". A green run means every listed structural obligation holds on every path/site of the current tree, not that the behavioural property is proved.",
            "design_ref": f"DESIGN.md section 7 ({pid})",
        },
        "level_note": "Trusted base: go/packages + go/types + go/ssa lowering (x/tools v0.50.0, vendored), this checker's rule library. Assumptions: " + ("; ".join(r["assumptions"]) if r["assumptions"] else "none beyond the trusted base") + ".",
        "technique": r["technique"],
    })

manifest = {
    "version": 1,
    "setup_cmd": "./run.sh --build",
    "hooks": {
        "guard": "verif",
        "enable": "none needed: the checks are static and read /repo's working tree; no hook commit exists",
        "baseline_off_cmd": baseline["cmd"],
        "source_commits": [],
        "add_only": True,
    },
    "engines": [{
        "name": "vchk",
        "path": "/verif/checker",
        "serves_properties": [c["property_id"] for c in checks],
        "kind_free_text": "repository-specific static analyser over go/types + go/ssa (x/tools v0.50.0): must-hold branch facts, refusing-arm unreachability, must-pass-through, who-may-call/write, must-lockset, value-origin, constant-flow, sibling cross-checks. No code of /repo is executed.",
    }],
    "checks": checks,
    "not_applicable": na,
    "notes": "Every check re-loads and re-type-checks /repo's current working tree on each run (no cache of analysis results). Exit 0 = all obligations held (KNOWN-FINDING lines for defects recorded in known-findings.txt), 1 = VIOLATION, 2 = checker broken (anchor moved, rule matched fewer instances than confirmed by hand, load failure). VERIF_SEED is accepted and recorded; nothing is random.",
}
json.dump(manifest, open(os.path.join(HERE, "MANIFEST.json"), "w"), indent=1)
print(f"claimed={len(checks)} not_applicable={len(na)}")
try:
    import jsonschema
    jsonschema.validate(manifest, json.load(open("/root/.vp/MANIFEST.schema.json")))
    print("manifest validates")
except ImportError:
    pass
