package main

import (
	"go/token"
	"go/types"

	"golang.org/x/tools/go/ssa"
)

const mdp = "metadata"

func init() {
	register(&PropDef{
		ID:    "C28",
		Pkgs:  []string{mdp},
		Claim: "Decides the structural part: every key used by Get/Set/Append/Delete/New/Pairs/AppendToOutgoingContext and the context readers to index, insert into or delete from a metadata map is the strings.ToLower of the caller's key (or compared with EqualFold); every []string handed out by the context readers and Copy (returned directly or stored in the returned map) is freshly allocated (copyOf, make, or append onto a fresh slice) and never a slice taken from the metadata stored in the context; an insertion under a lower-cased key of a foreign map accumulates or happens only when the key is not present yet (no pair is lost when two keys differ only in case); the readers copy base values before appended pairs and Join appends in argument order; Pairs and AppendToOutgoingContext reject an odd number of arguments. The single-key context readers fall back to the case-insensitive scan of the base metadata on every miss path; reader and mutator arms are taken only under their stated conditions and their walks are never left early.",
		NotDecided:  []string{"agreement of the fast ValueFrom… lookups with the full lookups for all inputs (value equality)", "relative order of values merged from keys that differ only in case (map iteration order)"},
		Assumptions: []string{"strings.ToLower/EqualFold semantics"},
		Technique:   "static analysis: sanitiser-before-sink on map keys, value-origin (fresh-slice) analysis through phis and append chains over go/ssa, check-then-insert guards",
		Run:         c28,
	})
}

// freshSlice: the slice value is nil, freshly allocated, or built by append on a fresh base.
// localMaps are maps allocated in the same function (their elements were stored by this function and are checked separately).
func freshSlice(v ssa.Value, seen map[ssa.Value]bool) bool {
	v = stripFloatConv(v)
	if seen[v] {
		return true
	}
	seen[v] = true
	switch x := v.(type) {
	case *ssa.Const:
		return x.Value == nil
	case *ssa.MakeSlice:
		return true
	case *ssa.Slice:
		// slicing a fresh array/slice
		if _, ok := x.X.(*ssa.Alloc); ok {
			return true
		}
		return freshSlice(x.X, seen)
	case *ssa.Call:
		if b, ok := x.Call.Value.(*ssa.Builtin); ok && b.Name() == "append" {
			return freshSlice(x.Call.Args[0], seen)
		}
		return calleeName(&x.Call) == "metadata.copyOf"
	case *ssa.Phi:
		for _, e := range x.Edges {
			if !freshSlice(e, seen) {
				return false
			}
		}
		return true
	case *ssa.Lookup:
		_, ok := x.X.(*ssa.MakeMap)
		return ok
	case *ssa.Extract:
		if l, ok := x.Tuple.(*ssa.Lookup); ok && x.Index == 0 {
			_, ok := l.X.(*ssa.MakeMap)
			return ok
		}
	case *ssa.UnOp:
		if x.Op == token.MUL {
			if a, ok := x.X.(*ssa.Alloc); ok {
				for _, st := range storesTo(a) {
					if !freshSlice(st.Val, seen) {
						return false
					}
				}
				return len(storesTo(a)) > 0
			}
		}
	}
	return false
}

func c28(c *Ctx) {
	lower := CallRes(CalleeX("strings", "ToLower"), 0)
	c.Ob("lowercase-keys", "R9", "MD methods and constructors: the key of every map index / insertion / deletion is strings.ToLower(input key); AppendToOutgoingContext lower-cases the keys it stores", 9, func() {
		for _, name := range []string{"MD.Get", "MD.Set", "MD.Append", "MD.Delete", "New", "Pairs"} {
			f := c.fn(mdp, name)
			n := 0
			for _, b := range f.Blocks {
				for _, in := range b.Instrs {
					switch x := in.(type) {
					case *ssa.Lookup:
						if _, isMap := x.X.Type().Underlying().(*types.Map); isMap {
							n++
							c.ValueIs(in, x.Index, name+"-lookup-key-lowercased", lower)
						}
					case *ssa.MapUpdate:
						n++
						c.ValueIs(in, x.Key, name+"-insert-key-lowercased", lower)
					case *ssa.Call:
						if BuiltinCall("delete")(&x.Call) {
							n++
							c.ValueIs(in, x.Call.Args[1], name+"-delete-key-lowercased", lower)
						}
					}
				}
			}
			c.Expect(n >= 1, nil, f, name+"-touches-map", name+" has no map access")
		}
		ap := c.fn(mdp, "AppendToOutgoingContext")
		apc := 0
		for _, ci := range callsIn(ap, CalleeX("strings", "ToLower")) {
			apc++
			_ = ci
		}
		c.Expect(apc == 1, nil, ap, "appended-keys-lowercased", "AppendToOutgoingContext does not lower-case the keys it stores")
		vo := c.fn(mdp, "ValueFromOutgoingContext")
		for _, in := range instrsWhere(vo, func(in ssa.Instruction) bool { l, ok := in.(*ssa.Lookup); return ok && func() bool { _, m := l.X.Type().Underlying().(*types.Map); return m }() }) {
			c.ValueIs(in, in.(*ssa.Lookup).Index, "fast-lookup-key-lowercased", lower)
		}
		for _, name := range []string{"ValueFromOutgoingContext", "ValueFromIncomingContext"} {
			f := c.fn(mdp, name)
			c.Expect(len(callsIn(f, CalleeX("strings", "EqualFold"))) >= 1, nil, f, "case-insensitive-fallback", name+" has no case-insensitive comparison for maps not built with the helpers")
		}
	})
	c.Ob("value-lookup-complete", "R3", "ValueFromOutgoingContext / ValueFromIncomingContext: when the exact (lower-cased) lookup in the base metadata misses, the case-insensitive scan of the base metadata is made on every path before the function returns — also when appended pairs already matched — so the single-key readers see the same base values as the full readers", 2, func() {
		for _, name := range []string{"ValueFromOutgoingContext", "ValueFromIncomingContext"} {
			f := c.fn(mdp, name)
			var exact *ssa.Lookup
			for _, in := range instrsWhere(f, func(in ssa.Instruction) bool {
				l, ok := in.(*ssa.Lookup)
				if !ok || !l.CommaOk {
					return false
				}
				_, m := l.X.Type().Underlying().(*types.Map)
				return m
			}) {
				exact = in.(*ssa.Lookup)
			}
			var scan ssa.Instruction
			for _, in := range instrsWhere(f, func(in ssa.Instruction) bool {
				r, ok := in.(*ssa.Range)
				if !ok {
					return false
				}
				_, m := r.X.Type().Underlying().(*types.Map)
				return m
			}) {
				scan = in
			}
			if !c.Expect(exact != nil && scan != nil, nil, f, name+":lookup-then-scan", "expected an exact lookup and a case-insensitive scan of the base metadata") {
				continue
			}
			hit := Truth(ExtractOf(func(v ssa.Value) bool { return v == ssa.Value(exact) }, 1), true)
			c.MustPass(name+":miss-always-scans-the-base-metadata", pathQuery{Fn: f, Starts: []ssa.Instruction{exact}, Barrier: func(in ssa.Instruction) bool { return in == scan }, Target: isReturn,
				EdgeBlock: func(from, to *ssa.BasicBlock) bool {
					_, ok := hasFact(edgeFacts(from, to), hit)
					return ok
				}}, scan)
		}
	})
	c.Ob("copy-out", "R8", "context readers and Copy: every slice returned, and every slice stored into the returned map, is freshly allocated; AppendToOutgoingContext stores copies of the pairs and of the list of earlier appends", 8, func() {
		for _, name := range []string{"FromIncomingContext", "FromOutgoingContext", "MD.Copy", "Join", "ValueFromIncomingContext", "ValueFromOutgoingContext"} {
			f := c.fn(mdp, name)
			n := 0
			for _, b := range f.Blocks {
				for _, in := range b.Instrs {
					switch x := in.(type) {
					case *ssa.MapUpdate:
						if _, ok := x.Map.(*ssa.MakeMap); ok {
							n++
							c.inst("stored slice <- " + c.siteStr(in))
							c.nontrivial(name + c.P.Pos(in.Pos()))
							if !freshSlice(x.Value, map[ssa.Value]bool{}) {
								c.violate(in, f, "stored-slice-aliases-context", "a slice stored in the returned metadata is not a fresh copy (it aliases metadata kept in the context or passed by the caller)", nil)
							}
						}
					case *ssa.Return:
						if len(x.Results) > 0 {
							if _, isSlice := x.Results[0].Type().Underlying().(*types.Slice); isSlice {
								n++
								c.inst("returned slice <- " + c.siteStr(in))
								c.nontrivial(name + "ret" + c.P.Pos(in.Pos()))
								if !freshSlice(x.Results[0], map[ssa.Value]bool{}) {
									c.violate(in, f, "returned-slice-aliases-context", "the returned slice can alias (share the backing array of) the metadata stored in the context", nil)
								}
							}
						}
					}
				}
			}
			c.Expect(n >= 1, nil, f, name+"-has-output", name+": no output site found")
		}
		ap := c.fn(mdp, "AppendToOutgoingContext")
		c.Expect(len(instrsWhere(ap, func(in ssa.Instruction) bool { _, ok := in.(*ssa.MakeSlice); return ok })) >= 2, nil, ap, "append-copies-pairs-and-history", "AppendToOutgoingContext does not allocate fresh slices for the pairs and the history of appends")
		c.Expect(len(callsIn(ap, BuiltinCall("copy"))) == 1, nil, ap, "history-copied", "the list of earlier appends is not copied")
	})
	c.Ob("lossy-key-accumulate", "R12", "sibling rule: an insertion under a lower-cased key into the result map accumulates (append onto the current value) or is made only when the key is absent, so two source keys that differ only in case never overwrite each other", 6, func() {
		for _, name := range []string{"New", "Pairs", "Join", "FromIncomingContext", "FromOutgoingContext"} {
			f := c.fn(mdp, name)
			for _, in := range instrsWhere(f, func(in ssa.Instruction) bool { mu, ok := in.(*ssa.MapUpdate); return ok && func() bool { _, m := mu.Map.(*ssa.MakeMap); return m }() }) {
				mu := in.(*ssa.MapUpdate)
				c.inst("insertion <- " + c.siteStr(in))
				acc := false
				if call, ok := mu.Value.(*ssa.Call); ok && BuiltinCall("append")(&call.Call) {
					base := call.Call.Args[0]
					if l, ok := stripFloatConv(base).(*ssa.Lookup); ok && l.X == mu.Map && sameValue(l.Index, mu.Key) {
						acc = true
					}
					if e, ok := base.(*ssa.Extract); ok {
						if l, ok := e.Tuple.(*ssa.Lookup); ok && l.X == mu.Map && sameValue(l.Index, mu.Key) {
							acc = true
						}
					}
				}
				if acc {
					continue
				}
				absent := func(fc Fact) bool {
					if fc.Kind != "truth" || fc.Pol {
						return false
					}
					e, ok := fc.X.(*ssa.Extract)
					if !ok || e.Index != 1 {
						return false
					}
					l, ok := e.Tuple.(*ssa.Lookup)
					return ok && l.X == mu.Map && sameValue(l.Index, mu.Key)
				}
				c.nontrivial(name + c.P.Pos(in.Pos()))
				if _, ok := hasFact(FactsAt(in), absent); !ok {
					c.violate(in, f, "overwrites-under-lossy-key", "a value is stored under a lower-cased key without accumulating and without checking that the key is absent: pairs whose keys differ only in case overwrite each other", nil)
				}
			}
		}
	})
	c.Ob("reader-arms", "R2", "the context readers and the MD mutators take each arm only under its stated condition: the attached metadata is consulted only when the context carries it; the walks over a metadata map or a pair list are never left early and their index loops are strictly bounded by the length; the no-op arm of Set/Append is taken only for an empty value list; a case-insensitive hit is taken only when EqualFold says so; ValueFromOutgoingContext appends a pair's value only when its key matches, seeds the result with the base values exactly when it is still empty, and returns the bare base values only when no pair matched; odd pair lists panic only when odd", 20, func() {
		readers := []string{"FromIncomingContext", "ValueFromIncomingContext", "FromOutgoingContext", "ValueFromOutgoingContext", "fromOutgoingContextRaw"}
		for _, name := range readers {
			f := c.fn(mdp, name)
			// (1) metadata used only when present
			var ta *ssa.TypeAssert
			for _, in := range instrsWhere(f, func(in ssa.Instruction) bool { t, ok := in.(*ssa.TypeAssert); return ok && t.CommaOk }) {
				ta = in.(*ssa.TypeAssert)
			}
			if !c.Expect(ta != nil, nil, f, name+":context-lookup", "no checked lookup of the metadata in the context") {
				continue
			}
			present := Truth(ExtractOf(func(v ssa.Value) bool { return v == ssa.Value(ta) }, 1), true)
			val := func(v ssa.Value) bool { return DataDep(ExtractOf(func(x ssa.Value) bool { return x == ssa.Value(ta) }, 0))(v) }
			for _, in := range instrsWhere(f, func(in ssa.Instruction) bool {
				switch x := in.(type) {
				case *ssa.Lookup:
					return val(x.X)
				case *ssa.Range:
					return val(x.X)
				}
				return false
			}) {
				c.MustFact(in, name+":metadata-consulted-only-when-attached", present)
			}
			for _, r := range returnsOf(f) {
				if r.Block() == f.Recover || len(r.Results) < 2 {
					continue
				}
				if ConstBool(false)(r.Results[len(r.Results)-1]) {
					c.MustFact(r, name+":absent-reported-only-when-absent", Truth(ExtractOf(func(v ssa.Value) bool { return v == ssa.Value(ta) }, 1), false))
				}
			}
			// (2) walks complete, index loops strict
			c.NoEarlyExitExcept(f, AnyV, name+":walk-not-left-early", func(p *ssa.BasicBlock) bool {
				// leaving the case-insensitive scan at the hit is the point of the scan
				_, ok := hasFact(FactsAtBlock(p), Truth(CallRes(CalleeX("strings", "EqualFold"), 0), true))
				return ok
			})
		}
		for _, name := range []string{"Pairs", "AppendToOutgoingContext", "FromOutgoingContext", "ValueFromOutgoingContext", "MD.Append", "MD.Set"} {
			f := c.fn(mdp, name)
			for _, b := range f.Blocks {
				i, ok := b.Instrs[len(b.Instrs)-1].(*ssa.If)
				if !ok || !isLoopHeader(b) {
					continue
				}
				bo, ok := i.Cond.(*ssa.BinOp)
				if !ok {
					continue
				}
				if _, isPhi := bo.X.(*ssa.Phi); isPhi && builtinCall(bo.Y, "len") != nil && !isRangeIndex(bo.X) {
					c.inst(name + ":index-loop " + c.siteStr(i))
					c.Expect(bo.Op == token.LSS, i, f, name+":index-loop-strictly-below-length", "an index loop over pairs runs up to and including the length (the pair at the end does not exist)")
				}
			}
		}
		for _, name := range []string{"MD.Set", "MD.Append"} {
			f := c.fn(mdp, name)
			for _, in := range instrsWhere(f, func(in ssa.Instruction) bool { _, ok := in.(*ssa.MapUpdate); return ok }) {
				c.MustFact(in, name+":stores-only-a-non-empty-value-list", CmpInt(LenOf(ParamV("vals")), token.NEQ, 0))
			}
			for _, r := range returnsOf(f) {
				if r.Block() == f.Recover {
					continue
				}
				if len(instrsWhereDominating(f, r)) == 0 {
					c.MustFact(r, name+":no-op-only-for-an-empty-value-list", CmpInt(LenOf(ParamV("vals")), token.EQL, 0))
				}
			}
		}
		// case-insensitive hit only when EqualFold says so
		fold := Truth(CallRes(CalleeX("strings", "EqualFold"), 0), true)
		vi := c.fn(mdp, "ValueFromIncomingContext")
		for _, r := range returnsOf(vi) {
			if r.Block() == vi.Recover || ConstNil(r.Results[0]) {
				continue
			}
			c.MustFactAny(r, "ValueFromIncomingContext:value-only-on-a-hit", fold, Truth(func(v ssa.Value) bool {
				e, ok := v.(*ssa.Extract)
				if !ok || e.Index != 1 {
					return false
				}
				_, isL := e.Tuple.(*ssa.Lookup)
				return isL
			}, true))
		}
		vo := c.fn(mdp, "ValueFromOutgoingContext")
		// the panic on an odd pair list
		for _, name := range []string{"FromOutgoingContext", "ValueFromOutgoingContext"} {
			f := c.fn(mdp, name)
			for _, in := range instrsWhere(f, func(in ssa.Instruction) bool { _, ok := in.(*ssa.Panic); return ok }) {
				c.MustFact(in, name+":panics-only-for-an-odd-pair-list", CmpInt(func(v ssa.Value) bool { b, ok := v.(*ssa.BinOp); return ok && b.Op == token.REM && ConstInt(2)(b.Y) }, token.EQL, 1))
			}
		}
		// accumulation in ValueFromOutgoingContext
		nApp := 0
		for _, in := range instrsWhere(vo, func(in ssa.Instruction) bool {
			call, ok := in.(*ssa.Call)
			return ok && BuiltinCall("append")(&call.Call)
		}) {
			app := in.(*ssa.Call)
			if isVariadicSpread(app) {
				// vals = append(vals, matchedMD...): the base values go first, exactly when the result is still empty
				nApp++
				c.MustFact(app, "ValueFromOutgoingContext:base-values-seeded-only-into-an-empty-result", IsNil(AnyV))
				continue
			}
			nApp++
			c.UnderArm(app, "ValueFromOutgoingContext:pair-value-appended-only-on-a-key-match", fold, Cmp(AnyV, token.EQL, ParamV("key")), Cmp(AnyV, token.EQL, CallRes(CalleeX("strings", "ToLower"), 0)))
		}
		c.Expect(nApp >= 2, nil, vo, "ValueFromOutgoingContext:accumulation-sites", "expected the base-value seeding and the pair-value append")
		for _, r := range returnsOf(vo) {
			if r.Block() == vo.Recover {
				continue
			}
			if CallRes(Callee(mdp, "copyOf"), 0)(r.Results[0]) {
				c.MustFact(r, "ValueFromOutgoingContext:bare-base-values-only-when-no-pair-matched", IsNil(func(v ssa.Value) bool { _, ok := v.(*ssa.Phi); return ok }))
			}
		}
	})
	c.Ob("order-and-arity", "R2", "FromOutgoingContext copies the base metadata before it appends the appended pairs (in slice order); Join iterates its arguments in order; Pairs and AppendToOutgoingContext panic exactly on an odd argument count", 4, func() {
		fo := c.fn(mdp, "FromOutgoingContext")
		fMd := c.field(mdp, "rawMD", "md")
		fAdded := c.field(mdp, "rawMD", "added")
		var baseR, addR ssa.Instruction
		for _, in := range instrsWhere(fo, func(in ssa.Instruction) bool { _, ok := in.(*ssa.Range); return ok }) {
			if DataDep(FieldLoad(fMd))(in.(*ssa.Range).X) || FieldLoad(fMd)(in.(*ssa.Range).X) {
				baseR = in
			}
		}
		for _, in := range instrsWhere(fo, func(in ssa.Instruction) bool {
			u, ok := in.(*ssa.UnOp)
			return ok && u.Op == token.MUL && FieldLoad(fAdded)(u)
		}) {
			addR = in
		}
		var addIns ssa.Instruction
		for _, in := range instrsWhere(fo, func(in ssa.Instruction) bool {
			mu, ok := in.(*ssa.MapUpdate)
			return ok && func() bool { call, ok := mu.Value.(*ssa.Call); return ok && BuiltinCall("append")(&call.Call) && len(call.Call.Args) > 1 }()
		}) {
			mu := in.(*ssa.MapUpdate)
			if call := mu.Value.(*ssa.Call); !DataDep(func(v ssa.Value) bool { _, ok := v.(*ssa.Next); return ok })(call.Call.Args[1]) {
				addIns = in
			}
		}
		if c.Expect(baseR != nil && addIns != nil, nil, fo, "base-and-appended-loops", "FromOutgoingContext: cannot find the base copy loop and the appended-pairs insertion") {
			c.Expect(instrDominates(baseR, addIns), addIns, fo, "base-before-appended", "appended pairs can be inserted before the base values were copied")
		}
		_ = addR
		for _, name := range []string{"Pairs", "AppendToOutgoingContext"} {
			f := c.fn(mdp, name)
			pn := instrsWhere(f, func(in ssa.Instruction) bool { _, ok := in.(*ssa.Panic); return ok })
			if c.Expect(len(pn) == 1, nil, f, name+"-one-panic", name+" should panic in exactly one place") {
				c.MustFact(pn[0], name+"-panic-only-on-odd", CmpInt(BinOpV(token.REM, LenOf(AnyV), ConstInt(2)), token.EQL, 1))
			}
		}
	})
}

// isVariadicSpread: append(x, y...) with y a slice value (not a fresh varargs array).
func isVariadicSpread(app *ssa.Call) bool {
	if len(app.Call.Args) != 2 {
		return false
	}
	if sl, ok := app.Call.Args[1].(*ssa.Slice); ok {
		if al, ok := sl.X.(*ssa.Alloc); ok && al.Comment == "varargs" {
			return false
		}
	}
	return true
}

// instrsWhereDominating: the map updates of fn that dominate r.
func instrsWhereDominating(fn *ssa.Function, r *ssa.Return) []ssa.Instruction {
	var out []ssa.Instruction
	for _, in := range instrsWhere(fn, func(in ssa.Instruction) bool { _, ok := in.(*ssa.MapUpdate); return ok }) {
		if instrDominates(in, r) {
			out = append(out, in)
		}
	}
	return out
}
