package main

// Loading of /repo's current working tree into go/types + go/ssa.
//
// Nothing here caches anything about /repo between runs: every invocation
// type-checks the working tree again (Go's own build cache only speeds up the
// export data of dependencies).

import (
	"fmt"
	"go/ast"
	"go/token"
	"go/types"
	"os"
	"sort"
	"strings"

	"golang.org/x/tools/go/packages"
	"golang.org/x/tools/go/ssa"
	"golang.org/x/tools/go/ssa/ssautil"
)

const modPath = "google.golang.org/grpc"

// Prog is the analysed program.
type Prog struct {
	Repo     string
	Fset     *token.FileSet
	Pkgs     []*packages.Package          // initial packages (source loaded)
	ByPath   map[string]*packages.Package // import path -> package (initial only)
	SSA      *ssa.Program
	SSAPkgs  map[string]*ssa.Package
	Whole    bool // whole module loaded (thorough)
	allFuncs []*ssa.Function
	funcsOf  map[string][]*ssa.Function // pkg path -> all functions incl. closures
	Ignored  []string                   // files ignored by build constraints in loaded packages
	NFiles   int
}

// full turns a package spec into an import path: "" / "grpc" = the root
// package; "std:sync" = standard library; a first path element containing a
// dot (golang.org/x/net/http2) is taken as is; anything else is relative to
// the module (internal/transport).
func full(p string) string {
	if p == "" || p == "." || p == "grpc" {
		return modPath
	}
	if strings.HasPrefix(p, "std:") {
		return strings.TrimPrefix(p, "std:")
	}
	first := p
	if i := strings.Index(p, "/"); i >= 0 {
		first = p[:i]
	}
	if strings.Contains(first, ".") {
		return p
	}
	return modPath + "/" + p
}

// Load loads the given module-relative package directories (or "./..." for the
// whole module).
func Load(repo string, pkgs []string, whole bool) (*Prog, error) {
	mode := packages.NeedName | packages.NeedFiles | packages.NeedCompiledGoFiles | packages.NeedImports |
		packages.NeedTypes | packages.NeedTypesSizes | packages.NeedSyntax | packages.NeedTypesInfo | packages.NeedModule
	var patterns []string
	if whole {
		mode |= packages.NeedDeps
		patterns = []string{"./..."}
	} else {
		seen := map[string]bool{}
		for _, p := range pkgs {
			fp := full(p)
			if !seen[fp] {
				seen[fp] = true
				patterns = append(patterns, fp)
			}
		}
	}
	env := os.Environ()
	env = append(env, "GOWORK=off", "GOFLAGS=-mod=mod", "GOPROXY=off", "GOSUMDB=off", "GOTOOLCHAIN=local", "GOOS=linux", "GOARCH=amd64", "CGO_ENABLED=0")
	cfg := &packages.Config{Mode: mode, Dir: repo, Env: env, Tests: false}
	initial, err := packages.Load(cfg, patterns...)
	if err != nil {
		return nil, fmt.Errorf("packages.Load: %w", err)
	}
	if len(initial) == 0 {
		return nil, fmt.Errorf("no packages loaded for %v", patterns)
	}
	var errs []string
	packages.Visit(initial, nil, func(p *packages.Package) {
		for _, e := range p.Errors {
			errs = append(errs, fmt.Sprintf("%s: %v", p.PkgPath, e))
		}
	})
	if len(errs) > 0 {
		sort.Strings(errs)
		if len(errs) > 10 {
			errs = errs[:10]
		}
		return nil, fmt.Errorf("load/type errors:\n  %s", strings.Join(errs, "\n  "))
	}
	pr := &Prog{Repo: repo, Whole: whole, ByPath: map[string]*packages.Package{}, SSAPkgs: map[string]*ssa.Package{}, funcsOf: map[string][]*ssa.Function{}}
	pr.Fset = initial[0].Fset
	bmode := ssa.InstantiateGenerics
	var sprog *ssa.Program
	var spkgs []*ssa.Package
	if whole {
		sprog, spkgs = ssautil.AllPackages(initial, bmode)
	} else {
		sprog, spkgs = ssautil.Packages(initial, bmode)
	}
	pr.SSA = sprog
	for i, p := range initial {
		if !strings.HasPrefix(p.PkgPath, modPath) {
			continue
		}
		pr.Pkgs = append(pr.Pkgs, p)
		pr.ByPath[p.PkgPath] = p
		if spkgs[i] == nil {
			return nil, fmt.Errorf("no SSA package for %s", p.PkgPath)
		}
		pr.SSAPkgs[p.PkgPath] = spkgs[i]
		pr.Ignored = append(pr.Ignored, p.IgnoredFiles...)
		pr.NFiles += len(p.CompiledGoFiles)
	}
	sprog.Build()
	for path, sp := range pr.SSAPkgs {
		fs := collectFuncs(sprog, sp)
		pr.funcsOf[path] = fs
		pr.allFuncs = append(pr.allFuncs, fs...)
	}
	sort.Slice(pr.allFuncs, func(i, j int) bool { return fnKey(pr.allFuncs[i]) < fnKey(pr.allFuncs[j]) })
	for _, f := range pr.allFuncs {
		normalizeReturns(f)
	}
	return pr, nil
}

func fnKey(f *ssa.Function) string {
	return f.String() + fmt.Sprint(f.Pos())
}

// collectFuncs returns all source functions of the package: package-level
// functions, methods of named types, and their anonymous functions, plus init.
func collectFuncs(prog *ssa.Program, sp *ssa.Package) []*ssa.Function {
	seen := map[*ssa.Function]bool{}
	var out []*ssa.Function
	var add func(f *ssa.Function)
	add = func(f *ssa.Function) {
		if f == nil || seen[f] {
			return
		}
		seen[f] = true
		if f.Blocks != nil {
			out = append(out, f)
		}
		for _, a := range f.AnonFuncs {
			add(a)
		}
	}
	names := make([]string, 0, len(sp.Members))
	for n := range sp.Members {
		names = append(names, n)
	}
	sort.Strings(names)
	for _, n := range names {
		switch m := sp.Members[n].(type) {
		case *ssa.Function:
			add(m)
		case *ssa.Type:
			nt, ok := m.Type().(*types.Named)
			if !ok {
				continue
			}
			for i := 0; i < nt.NumMethods(); i++ {
				add(prog.FuncValue(nt.Method(i)))
			}
		}
	}
	return out
}

// FuncsIn returns every function (incl. closures) of a loaded package.
func (p *Prog) FuncsIn(pkg string) []*ssa.Function { return p.funcsOf[full(pkg)] }

// AllFuncs returns every function of every loaded module package.
func (p *Prog) AllFuncs() []*ssa.Function { return p.allFuncs }

// LookupFunc resolves "Func" or "Type.Method" in a package.
func (p *Prog) LookupFunc(pkg, name string) *ssa.Function {
	sp := p.SSAPkgs[full(pkg)]
	if sp == nil {
		return nil
	}
	if i := strings.Index(name, "."); i >= 0 {
		tn, mn := name[:i], name[i+1:]
		obj := sp.Pkg.Scope().Lookup(tn)
		if obj == nil {
			return nil
		}
		nt, ok := obj.Type().(*types.Named)
		if !ok {
			return nil
		}
		for i := 0; i < nt.NumMethods(); i++ {
			if nt.Method(i).Name() == mn {
				return p.SSA.FuncValue(nt.Method(i))
			}
		}
		return nil
	}
	if f := sp.Func(name); f != nil {
		return f
	}
	return nil
}

// LookupType resolves a named type.
func (p *Prog) LookupType(pkg, name string) *types.Named {
	pp := p.typesPkg(pkg)
	if pp == nil {
		return nil
	}
	obj := pp.Scope().Lookup(name)
	if obj == nil {
		return nil
	}
	nt, _ := obj.Type().(*types.Named)
	return nt
}

func (p *Prog) typesPkg(pkg string) *types.Package {
	fp := full(pkg)
	if sp := p.SSAPkgs[fp]; sp != nil {
		return sp.Pkg
	}
	for _, ip := range p.Pkgs {
		if tp := findImport(ip.Types, fp, map[*types.Package]bool{}); tp != nil {
			return tp
		}
	}
	return nil
}

func findImport(tp *types.Package, path string, seen map[*types.Package]bool) *types.Package {
	if tp == nil || seen[tp] {
		return nil
	}
	seen[tp] = true
	if tp.Path() == path {
		return tp
	}
	for _, imp := range tp.Imports() {
		if r := findImport(imp, path, seen); r != nil {
			return r
		}
	}
	return nil
}

// LookupField resolves a struct field "Type.field" to its *types.Var.
func (p *Prog) LookupField(pkg, typ, field string) *types.Var {
	nt := p.LookupType(pkg, typ)
	if nt == nil {
		return nil
	}
	st, ok := nt.Underlying().(*types.Struct)
	if !ok {
		return nil
	}
	for i := 0; i < st.NumFields(); i++ {
		if st.Field(i).Name() == field {
			return st.Field(i)
		}
	}
	return nil
}

// LookupObj resolves a package-level object (var, const, func, type).
func (p *Prog) LookupObj(pkg, name string) types.Object {
	pp := p.typesPkg(pkg)
	if pp == nil {
		return nil
	}
	return pp.Scope().Lookup(name)
}

// Pos renders a position relative to the repo root.
func (p *Prog) Pos(pos token.Pos) string {
	if !pos.IsValid() {
		return "?"
	}
	ps := p.Fset.Position(pos)
	f := strings.TrimPrefix(ps.Filename, p.Repo+"/")
	return fmt.Sprintf("%s:%d", f, ps.Line)
}

// FileOf returns the *ast.File and package containing pos.
func (p *Prog) FileOf(pos token.Pos) (*ast.File, *packages.Package) {
	for _, pk := range p.Pkgs {
		for _, f := range pk.Syntax {
			if f.FileStart <= pos && pos <= f.FileEnd {
				return f, pk
			}
		}
	}
	return nil, nil
}

// topFunc returns the outermost enclosing declared function of f.
func topFunc(f *ssa.Function) *ssa.Function {
	for f.Parent() != nil {
		f = f.Parent()
	}
	return f
}

// shortName: "pkg/rel.Type.Method" or "pkg/rel.Func" (+"$n" for closures).
func shortName(f *ssa.Function) string {
	if f == nil {
		return "<nil>"
	}
	var suffix string
	g := f
	for g.Parent() != nil {
		// closure index within parent
		idx := -1
		for i, a := range g.Parent().AnonFuncs {
			if a == g {
				idx = i + 1
			}
		}
		suffix = fmt.Sprintf("$%d", idx) + suffix
		g = g.Parent()
	}
	pkg := ""
	if g.Pkg != nil {
		pkg = strings.TrimPrefix(strings.TrimPrefix(g.Pkg.Pkg.Path(), modPath), "/")
		if pkg == "" {
			pkg = "grpc"
		}
	} else if g.Object() != nil && g.Object().Pkg() != nil {
		pkg = g.Object().Pkg().Path()
	}
	name := g.Name()
	if recv := g.Signature.Recv(); recv != nil {
		t := recv.Type()
		if pt, ok := t.(*types.Pointer); ok {
			t = pt.Elem()
		}
		if nt, ok := t.(*types.Named); ok {
			name = nt.Obj().Name() + "." + name
		}
	}
	return pkg + "." + name + suffix
}


// normalizeReturns undoes go/ssa's result spilling in functions that have a
// defer: there `return v` is built as `*cell = v; rundefers; t = *cell; return
// t`. Where nothing but rundefers lies between the store and the load and no
// closure writes the cell (a deferred function that assigns a named result),
// the returned value is v, and the Return is made to say so. Rules then read
// the same return operands whether or not the function has a defer.
func normalizeReturns(fn *ssa.Function) {
	for _, b := range fn.Blocks {
		if b == fn.Recover || len(b.Instrs) == 0 {
			continue
		}
		r, ok := b.Instrs[len(b.Instrs)-1].(*ssa.Return)
		if !ok {
			continue
		}
		for i, res := range r.Results {
			ld, ok := res.(*ssa.UnOp)
			if !ok || ld.Op != token.MUL || ld.Block() != b {
				continue
			}
			a, ok := ld.X.(*ssa.Alloc)
			if !ok || a.Parent() != fn {
				continue
			}
			st := lastStoreBefore(ld, a)
			if st == nil {
				continue
			}
			clean := true
			for _, in := range b.Instrs[instrIndex(st)+1 : instrIndex(ld)] {
				switch in.(type) {
				case *ssa.Store, *ssa.UnOp, *ssa.RunDefers, *ssa.DebugRef:
				default:
					clean = false
				}
			}
			for _, s2 := range storesTo(a) {
				if s2.Parent() != fn {
					clean = false
				}
			}
			if !clean {
				continue
			}
			r.Results[i] = st.Val
			if refs := st.Val.Referrers(); refs != nil {
				*refs = append(*refs, r)
			}
			if refs := ld.Referrers(); refs != nil {
				for k, x := range *refs {
					if x == ssa.Instruction(r) {
						*refs = append((*refs)[:k], (*refs)[k+1:]...)
						break
					}
				}
			}
		}
	}
}
