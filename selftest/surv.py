import json,sys
d=json.load(open(sys.argv[1]))
pat=sys.argv[2]
for k,v in sorted(d.items(), key=lambda kv:(kv[1]['file'],kv[1]['line'])):
    if v['status']!='killed' and pat in v['file']:
        print(v['file'].split('/')[-1], v['line'], v['kind'], '|', v['old'].strip()[:70], '->', v['new'].strip()[:50], v.get('checked'))
